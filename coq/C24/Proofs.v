(* C24 -- proofs about the stream transport model *)
From Coq Require Import List ZArith Bool Arith Lia.
Import ListNotations.
Require Import V.C24.Model.

(* ---------------------------------------------------------------- small list facts *)
Lemma concat_snoc {A} (l : list (list A)) x : concat (l ++ [x]) = concat l ++ x.
Proof. rewrite concat_app. cbn. rewrite app_nil_r. reflexivity. Qed.

Lemma filter_snoc {A} (f : A -> bool) l x :
  filter f (l ++ [x]) = filter f l ++ (if f x then [x] else []).
Proof. rewrite filter_app. cbn. destruct (f x); reflexivity. Qed.

Lemma ltb_false_firstn {A} n (d : list A) : (n <? length d) = false -> firstn n d = d.
Proof. intro H. apply Nat.ltb_ge in H. apply firstn_all2. exact H. Qed.

(* ---------------------------------------------------------------- tx: exactly once, in order *)
(* what one service pass preserves, for the oracle alphabet of the property *)
Lemma tx_loop_conserves k w : forall q orc s s' ex,
  forallb (benign_s k) orc = true ->
  tx_loop k w q orc s = (s', ex) ->
  ex = false /\ accepted s' ++ concat (txes s') = accepted s ++ concat q /\ queued s' = queued s.
Proof.
  induction q as [|d q IH]; intros orc s s' ex Hb H.
  - cbn in H. inversion H; subst. cbn. auto.
  - cbn [tx_loop] in H. destruct (negb (guard k s)).
    + inversion H; subst. cbn. auto.
    + assert (Hb' : benign_s k (fst (next_s orc)) = true /\ forallb (benign_s k) (snd (next_s orc)) = true).
      { destruct orc as [|r o]; cbn in *; [auto|]. apply andb_true_iff in Hb. exact Hb. }
      destruct (next_s orc) as [r orc']. cbn [fst snd] in Hb'. destruct Hb' as [Hr Ho].
      destruct r as [n| | |]; cbn [send] in H.
      * destruct (n <? length d) eqn:Hn.
        -- inversion H; subst. cbn. split; [reflexivity|]. split; [|reflexivity].
           rewrite <- app_assoc. f_equal. rewrite app_assoc. rewrite firstn_skipn. reflexivity.
        -- destruct (IH _ _ _ _ Ho H) as [E [A Q]]. split; [exact E|]. split; [|exact Q].
           rewrite A. cbn. rewrite (ltb_false_firstn _ _ Hn). rewrite <- app_assoc. reflexivity.
      * destruct (0 <? length d) eqn:Hn.
        -- inversion H; subst. cbn. auto.
        -- destruct (IH _ _ _ _ Ho H) as [E [A Q]]. split; [exact E|]. split; [|exact Q].
           rewrite A. apply Nat.ltb_ge in Hn. destruct d; [reflexivity|cbn in Hn; lia].
      * cbn in Hr. destruct (is_driver k); [cbn in Hr; discriminate|].
        destruct (0 <? length d) eqn:Hn.
        -- inversion H; subst. cbn. auto.
        -- destruct (IH _ _ _ _ Ho H) as [E [A Q]]. split; [exact E|]. split; [|exact Q].
           rewrite A. apply Nat.ltb_ge in Hn. destruct d; [reflexivity|cbn in Hn; lia].
      * discriminate.
Qed.

Definition conserved (s : st) : Prop := accepted s ++ concat (txes s) = queued s.

Lemma step_conserves k w s o : benign_op k o = true -> conserved s -> conserved (step k w s o).
Proof.
  unfold conserved. intros Hb Hs. destruct o as [d|orc|r|orc|r|b|]; cbn [step].
  - change (accepted s ++ concat (txes s ++ [d]) = queued s ++ d). rewrite concat_snoc. rewrite app_assoc. rewrite Hs. reflexivity.
  - unfold service_txes. destruct (tx_loop k w (txes s) orc s) as [s' ex] eqn:E.
    destruct (tx_loop_conserves k w _ _ _ _ _ Hb E) as [Ex [A Q]]. subst ex.
    rewrite A, Q. exact Hs.
  - unfold service_tx_once. destruct (txes s) as [|d q'] eqn:Et; [rewrite Et; exact Hs|].
    destruct (negb (guard k s)); [rewrite Et; exact Hs|].
    cbn in Hb. destruct r as [n| | |]; cbn [send]; cbn in Hb.
    + destruct (n <? length d) eqn:Hn; cbn.
      * rewrite <- Hs. rewrite <- app_assoc. f_equal. cbn. rewrite app_assoc, firstn_skipn. reflexivity.
      * rewrite <- Hs. rewrite (ltb_false_firstn _ _ Hn). rewrite <- app_assoc. reflexivity.
    + destruct (0 <? length d) eqn:Hn; cbn; [exact Hs|].
      rewrite <- Hs. apply Nat.ltb_ge in Hn. destruct d; [reflexivity|cbn in Hn; lia].
    + destruct (is_driver k); [cbn in Hb; discriminate|].
      destruct (0 <? length d) eqn:Hn; cbn; [exact Hs|].
      rewrite <- Hs. apply Nat.ltb_ge in Hn. destruct d; [reflexivity|cbn in Hn; lia].
    + discriminate.
  - unfold service_receives.
    assert (G : forall orc s s' ex, rx_loop k w orc s = (s', ex) ->
                accepted s' = accepted s /\ txes s' = txes s /\ queued s' = queued s).
    { clear. induction orc as [|r orc IH]; intros s s' ex H; cbn [rx_loop] in H.
      - destruct (negb (guard k s)); inversion H; subst; auto.
      - destruct (negb (guard k s)); [inversion H; subst; auto|].
        destruct r as [[|b d]| | |]; cbn [receive] in H.
        + inversion H; subst. destruct (is_driver k); cbn; auto.
        + apply IH in H. cbn in H. exact H.
        + inversion H; subst; auto.
        + destruct (is_driver k); inversion H; subst; cbn; auto.
        + inversion H; subst; auto. }
    destruct (rx_loop k w orc s) as [s' ex] eqn:E. destruct (G _ _ _ _ E) as [A [T Q]].
    destruct ex; cbn; rewrite A, T, Q; exact Hs.
  - unfold service_receive_once. destruct (negb (guard k s)); [exact Hs|].
    destruct r as [[|b d]| | |]; cbn [receive]; try exact Hs.
    + destruct (is_driver k); cbn; exact Hs.
    + destruct (is_driver k); cbn; exact Hs.
  - cbn. exact Hs.
  - cbn. exact Hs.
Qed.

Lemma run_conserves k w conn ops :
  forallb (benign_op k) ops = true -> conserved (run k w conn ops).
Proof.
  unfold run. assert (G : forall ops s, forallb (benign_op k) ops = true -> conserved s ->
                                       conserved (fold_left (step k w) ops s)).
  { induction ops0 as [|o ops0 IH]; intros s Hb Hs; [exact Hs|].
    cbn in Hb. apply andb_true_iff in Hb. destruct Hb as [Ho Hb]. cbn [fold_left].
    apply IH; [exact Hb|]. apply step_conserves; assumption. }
  intro Hb. apply G; [exact Hb|]. reflexivity.
Qed.

Lemma run_accepted_prefix k w conn ops :
  forallb (benign_op k) ops = true ->
  exists rest, queued (run k w conn ops) = accepted (run k w conn ops) ++ rest.
Proof. intro Hb. eexists. symmetry. apply (run_conserves k w conn ops Hb). Qed.

(* ---------------------------------------------------------------- a partial send stops the pass *)
Lemma partial_stops k w d q n orc s :
  guard k s = true -> n < length d ->
  tx_loop k w (d :: q) (Sent n :: orc) s
  = (set_txes (took w (negb (is_driver k)) s n (firstn n d)) (skipn n d :: q), false).
Proof.
  intros G Hn. cbn [tx_loop next_s send]. rewrite G. cbn [negb].
  apply Nat.ltb_lt in Hn. rewrite Hn. reflexivity.
Qed.

(* would-block on a non-empty message: nothing changes and the pass stops *)
Lemma block_stops k w d q orc s :
  guard k s = true -> d <> [] ->
  tx_loop k w (d :: q) (SBlock :: orc) s = (set_txes s (d :: q), false).
Proof.
  intros G Hd. cbn [tx_loop next_s send]. rewrite G. cbn [negb].
  destruct d as [|b d]; [congruence|]. reflexivity.
Qed.

(* every message accepted in full: the whole deque goes out in one pass *)
Lemma full_sends_drain k w : forall q s,
  guard k s = true ->
  exists s', tx_loop k w q (map (fun d => Sent (length d)) q) s = (s', false) /\
             txes s' = [] /\ accepted s' = accepted s ++ concat q.
Proof.
  induction q as [|d q IH]; intros s G.
  - eexists. split; [reflexivity|]. cbn. rewrite app_nil_r. auto.
  - cbn [tx_loop map next_s send]. rewrite G. cbn [negb]. rewrite Nat.ltb_irrefl.
    destruct (IH (took w (negb (is_driver k)) s (length d) (firstn (length d) d))) as [s' [E [T A]]].
    { destruct k; cbn in *; exact G. }
    exists s'. split; [exact E|]. split; [exact T|]. rewrite A. cbn.
    rewrite firstn_all. rewrite <- app_assoc. reflexivity.
Qed.

(* ---------------------------------------------------------------- wire log and rx buffer *)
Lemma winv_eq k w s s' :
  wire s' = wire s -> accepted s' = accepted s -> delivered s' = delivered s -> rxbs s' = rxbs s ->
  winv k w s -> winv k w s'.
Proof.
  intros W A D R [H1 H3 H4 H5]. unfold tx_records, rx_records in *.
  constructor; unfold tx_records, rx_records; rewrite ?W, ?A, ?D, ?R; assumption.
Qed.

Lemma winv_took k w s n b : (n = 0 -> b = []) -> winv k w s -> winv k w (took w (negb (is_driver k)) s n b).
Proof.
  intros Hn [H1 H3 H4 H5]. unfold logs_tx, logs_rx, tx_records, rx_records in *.
  destruct n as [|n].
  - rewrite (Hn eq_refl).
    constructor; unfold tx_records, rx_records, logs_tx, logs_rx; cbn; rewrite ?app_nil_r; assumption.
  - constructor; unfold tx_records, rx_records, logs_tx, logs_rx; cbn [took wire accepted delivered rxbs].
    + intro L. rewrite L. rewrite filter_snoc. cbn. rewrite map_app. cbn [map snd]. rewrite concat_snoc.
      rewrite (H1 L). reflexivity.
    + intro L. destruct (negb (is_driver k) && w_present w && w_tx w); [|exact (H3 L)].
      rewrite filter_snoc. cbn. rewrite app_nil_r. exact (H3 L).
    + exact H4.
    + exact H5.
Qed.

Lemma winv_gave_extend k w s b : b <> [] -> winv k w s ->
  winv k w (extend_rx (gave w (negb (is_driver k)) s b) b).
Proof.
  intros Hb [H1 H3 H4 H5]. unfold logs_tx, logs_rx, tx_records, rx_records in *.
  constructor; unfold tx_records, rx_records, logs_tx, logs_rx; cbn [extend_rx gave wire accepted delivered rxbs].
  - intro L. destruct (negb (is_driver k) && w_present w && w_rx w); [|exact (H1 L)].
    rewrite filter_snoc. cbn. rewrite app_nil_r. exact (H1 L).
  - intro L. rewrite L. rewrite filter_snoc. cbn. rewrite map_app. cbn. rewrite (H3 L). reflexivity.
  - rewrite concat_snoc. rewrite H4. reflexivity.
  - apply Forall_app. split; [exact H5|]. constructor; [exact Hb|constructor].
Qed.

Lemma winv_tx_loop k w : forall q orc s s' ex,
  winv k w s -> tx_loop k w q orc s = (s', ex) -> winv k w s'.
Proof.
  induction q as [|d q IH]; intros orc s s' ex Hs H; cbn [tx_loop] in H.
  - inversion H; subst. eapply winv_eq; [..|exact Hs]; reflexivity.
  - destruct (negb (guard k s)).
    + inversion H; subst. eapply winv_eq; [..|exact Hs]; reflexivity.
    + destruct (next_s orc) as [r orc']. destruct r as [n| | |]; cbn [send] in H.
      * assert (Ht : winv k w (took w (negb (is_driver k)) s n (firstn n d))) by (apply winv_took; [intro; subst; reflexivity|exact Hs]).
        destruct (n <? length d).
        -- inversion H; subst. eapply winv_eq; [..|exact Ht]; reflexivity.
        -- eapply IH; [exact Ht|exact H].
      * destruct (0 <? length d).
        -- inversion H; subst. eapply winv_eq; [..|exact Hs]; reflexivity.
        -- eapply IH; [exact Hs|exact H].
      * destruct (is_driver k).
        -- inversion H; subst. eapply winv_eq; [..|exact Hs]; reflexivity.
        -- assert (Hc : winv k w (set_cutoff s true)) by (eapply winv_eq; [..|exact Hs]; reflexivity).
           destruct (0 <? length d).
           ++ inversion H; subst. eapply winv_eq; [..|exact Hc]; reflexivity.
           ++ eapply IH; [exact Hc|exact H].
      * inversion H; subst. eapply winv_eq; [..|exact Hs]; reflexivity.
Qed.

Lemma winv_rx_loop k w : forall orc s s' ex,
  winv k w s -> rx_loop k w orc s = (s', ex) -> winv k w s'.
Proof.
  induction orc as [|r orc IH]; intros s s' ex Hs H; cbn [rx_loop] in H.
  - destruct (negb (guard k s)); inversion H; subst; exact Hs.
  - destruct (negb (guard k s)); [inversion H; subst; exact Hs|].
    destruct r as [[|b d]| | |]; cbn [receive] in H.
    + inversion H; subst. destruct (is_driver k); [exact Hs|].
      eapply winv_eq; [..|exact Hs]; reflexivity.
    + eapply IH; [|exact H]. apply winv_gave_extend; [discriminate|exact Hs].
    + inversion H; subst. exact Hs.
    + destruct (is_driver k); inversion H; subst; [exact Hs|].
      eapply winv_eq; [..|exact Hs]; reflexivity.
    + inversion H; subst. exact Hs.
Qed.

Lemma winv_step k w s o : winv k w s -> winv k w (step k w s o).
Proof.
  intro Hs. destruct o as [d|orc|r|orc|r|b|]; cbn [step].
  - eapply winv_eq; [..|exact Hs]; reflexivity.
  - unfold service_txes. destruct (tx_loop k w (txes s) orc s) as [s' ex] eqn:E.
    pose proof (winv_tx_loop k w _ _ _ _ _ Hs E) as H'.
    destruct ex; [|exact H']. eapply winv_eq; [..|exact H']; reflexivity.
  - unfold service_tx_once. destruct (txes s) as [|d q']; [exact Hs|].
    destruct (negb (guard k s)); [exact Hs|].
    destruct r as [n| | |]; cbn [send].
    + assert (Ht : winv k w (took w (negb (is_driver k)) s n (firstn n d))) by (apply winv_took; [intro; subst; reflexivity|exact Hs]).
      destruct (n <? length d); (eapply winv_eq; [..|exact Ht]; reflexivity).
    + destruct (0 <? length d); (eapply winv_eq; [..|exact Hs]; reflexivity).
    + destruct (is_driver k); [eapply winv_eq; [..|exact Hs]; reflexivity|].
      destruct (0 <? length d); (eapply winv_eq; [..|exact Hs]; reflexivity).
    + eapply winv_eq; [..|exact Hs]; reflexivity.
  - unfold service_receives. destruct (rx_loop k w orc s) as [s' ex] eqn:E.
    pose proof (winv_rx_loop k w _ _ _ _ Hs E) as H'.
    destruct ex; [|exact H']. eapply winv_eq; [..|exact H']; reflexivity.
  - unfold service_receive_once. destruct (negb (guard k s)); [exact Hs|].
    destruct r as [[|b d]| | |]; cbn [receive].
    + destruct (is_driver k); (eapply winv_eq; [..|exact Hs]; try reflexivity).
      all: cbn; rewrite app_nil_r; reflexivity.
    + apply winv_gave_extend; [discriminate|exact Hs].
    + eapply winv_eq; [..|exact Hs]; try reflexivity. cbn. rewrite app_nil_r. reflexivity.
    + destruct (is_driver k); (eapply winv_eq; [..|exact Hs]; try reflexivity).
      cbn. rewrite app_nil_r. reflexivity.
    + eapply winv_eq; [..|exact Hs]; reflexivity.
  - eapply winv_eq; [..|exact Hs]; reflexivity.
  - eapply winv_eq; [..|exact Hs]; reflexivity.
Qed.

Lemma winv_run k w conn ops : winv k w (run k w conn ops).
Proof.
  unfold run. assert (G : forall ops s, winv k w s -> winv k w (fold_left (step k w) ops s)).
  { induction ops0 as [|o ops0 IH]; intros s Hs; [exact Hs|]. cbn [fold_left]. apply IH.
    apply winv_step. exact Hs. }
  apply G. constructor; cbn; auto.
Qed.

(* ---------------------------------------------------------------- one receive pass *)
Lemma rx_loop_appends k w : forall orc s,
  guard k s = true ->
  rxbs (fst (rx_loop k w orc s)) = rxbs s ++ concat (chunks_until_block orc) /\
  delivered (fst (rx_loop k w orc s)) = delivered s ++ chunks_until_block orc.
Proof.
  induction orc as [|r orc IH]; intros s G; cbn [rx_loop]; rewrite G; cbn [negb].
  - cbn. rewrite !app_nil_r. auto.
  - destruct r as [[|b d]| | |]; cbn [receive chunks_until_block].
    + destruct (is_driver k); cbn; rewrite !app_nil_r; auto.
    + destruct (IH (extend_rx (gave w (negb (is_driver k)) s (b :: d)) (b :: d))) as [R D].
      { destruct k; cbn in *; exact G. }
      rewrite R, D. cbn [extend_rx gave rxbs delivered concat].
      rewrite <- !app_assoc. auto.
    + cbn. rewrite !app_nil_r. auto.
    + destruct (is_driver k); cbn; rewrite !app_nil_r; auto.
    + cbn. rewrite !app_nil_r. auto.
Qed.

(* ---------------------------------------------------------------- WireLog.getTx / getRx bytes *)

Lemma render_separate w hrx htx l : w_same w = false ->
  render w DTx hrx htx l = flat_map (frame htx) (map snd (filter is_tx l)) /\
  render w DRx hrx htx l = flat_map (frame hrx) (map snd (filter is_rx l)).
Proof.
  destruct w as [p r t sm]. cbn [w_same]. intro Hs. subst sm. unfold render, frame. cbn [w_same].
  induction l as [|[d b] l [IH1 IH2]]; [split; reflexivity|].
  destruct d; cbn [flat_map fst snd filter is_tx is_rx map app].
  - split; [exact IH1|]. rewrite IH2. reflexivity.
  - split; [|exact IH2]. rewrite IH1. reflexivity.
Qed.

Lemma render_shared w hrx htx l : w_same w = true ->
  render w DTx hrx htx l = render w DRx hrx htx l /\
  render w DTx hrx htx l = flat_map (fun e => frame (match fst e with DTx => htx | DRx => hrx end) (snd e)) l.
Proof.
  destruct w as [p r t sm]. cbn [w_same]. intro Hs. subst sm. unfold render, frame. cbn [w_same].
  split; [reflexivity|].
  induction l as [|[d b] l IH]; [reflexivity|].
  destruct d; cbn [flat_map fst snd]; rewrite IH; reflexivity.
Qed.
