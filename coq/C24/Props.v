(* C24 -- property theorems only.  Each closed by [exact]; Print Assumptions beneath. *)
From Coq Require Import List ZArith Bool Arith.
Import ListNotations.
Require Import V.C24.Model V.C24.Proofs V.C24.Account.

(* EXACTLY ONCE, IN ORDER.  For every transport class k (Client, ClientTls, Incomer, IncomerTls,
   serial Driver), every wire-log configuration, every history of tx() enqueues, service passes
   (serviceTxes / serviceTxOnce / serviceReceives / serviceReceiveOnce), reconnects and cutoff
   resets, and every send oracle made of full sends, partial sends of every length (also zero and
   over-long counts), would-block results and connection-loss errors:
     bytes accepted by the socket so far ++ concatenation of what is still queued
       = concatenation of everything ever queued, in queue order.
   Hence nothing is lost, repeated or reordered. *)
Theorem tx_exactly_once_in_order : forall k w conn ops,
  forallb (benign_op k) ops = true ->
  accepted (run k w conn ops) ++ concat (txes (run k w conn ops)) = queued (run k w conn ops).
Proof. exact run_conserves. Qed.
Print Assumptions tx_exactly_once_in_order.

(* COMPLETE ACCOUNT, for EVERY oracle (no premise: also errors that propagate out of send).
   The ghost list [stream s] records, in order, every slice the socket accepted (tagged true) and
   every message that was popped when its send raised a propagating error (tagged false; the
   implementation drops it).  These pieces followed by what is still queued are exactly the queued
   stream, and the bytes the socket accepted are exactly the true-tagged pieces: apart from the
   messages dropped by a propagating error nothing is lost, and nothing is ever repeated or
   reordered. *)
Theorem tx_stream_fully_accounted : forall k w conn ops,
  acct (run k w conn ops).
Proof. exact acct_run. Qed.
Print Assumptions tx_stream_fully_accounted.

(* what the socket has accepted is always a prefix of what was queued *)
Theorem accepted_is_prefix_of_queued : forall k w conn ops,
  forallb (benign_op k) ops = true ->
  exists rest, queued (run k w conn ops) = accepted (run k w conn ops) ++ rest.
Proof. exact run_accepted_prefix. Qed.
Print Assumptions accepted_is_prefix_of_queued.

(* WIRE LOG and RECEIVE BUFFER, for every history and EVERY oracle (including propagating errors):
   - with tx logging on, the tx records concatenate to exactly the accepted bytes;
   - with rx logging on, the rx records are exactly the chunks the socket delivered, in order;
   - the receive buffer is the concatenation of the delivered chunks in arrival order. *)
Theorem wirelog_and_rxbuffer : forall k w conn ops,
  winv k w (run k w conn ops).
Proof. exact winv_run. Qed.
Print Assumptions wirelog_and_rxbuffer.

(* the BYTES of a buffified WireLog: getTx() is the concatenation of "TX <addr>\n" slice "\n"
   frames of the tx records (getRx() likewise) when the two directions have separate buffers;
   with same=True both return the one shared buffer holding all frames in write order *)
Theorem wirelog_rendering : forall w hrx htx l,
  (w_same w = false ->
   render w DTx hrx htx l = flat_map (frame htx) (map snd (filter is_tx l)) /\
   render w DRx hrx htx l = flat_map (frame hrx) (map snd (filter is_rx l))) /\
  (w_same w = true ->
   render w DTx hrx htx l = render w DRx hrx htx l /\
   render w DTx hrx htx l =
     flat_map (fun e => frame (match fst e with DTx => htx | DRx => hrx end) (snd e)) l).
Proof. exact (fun w hrx htx l => conj (render_separate w hrx htx l) (render_shared w hrx htx l)). Qed.
Print Assumptions wirelog_rendering.

(* a partial send re-queues exactly the unsent suffix at the head and stops the pass *)
Theorem service_stops_on_partial : forall k w d q n orc s,
  guard k s = true -> n < length d ->
  tx_loop k w (d :: q) (Sent n :: orc) s
  = (set_txes (took w (negb (is_driver k)) s n (firstn n d)) (skipn n d :: q), false).
Proof. exact partial_stops. Qed.
Print Assumptions service_stops_on_partial.

(* would-block on a non-empty message changes nothing and stops the pass *)
Theorem service_stops_on_block : forall k w d q orc s,
  guard k s = true -> d <> [] ->
  tx_loop k w (d :: q) (SBlock :: orc) s = (set_txes s (d :: q), false).
Proof. exact block_stops. Qed.
Print Assumptions service_stops_on_block.

(* one receive pass appends the chunks that arrive before the first block/EOF/error, in order *)
Theorem rx_appends_in_order : forall k w orc s,
  guard k s = true ->
  rxbs (fst (rx_loop k w orc s)) = rxbs s ++ concat (chunks_until_block orc) /\
  delivered (fst (rx_loop k w orc s)) = delivered s ++ chunks_until_block orc.
Proof. exact rx_loop_appends. Qed.
Print Assumptions rx_appends_in_order.

(* with every message accepted in full the whole deque goes out in one pass, in order *)
Theorem full_sends_drain_queue : forall k w q s,
  guard k s = true ->
  exists s', tx_loop k w q (map (fun d => Sent (length d)) q) s = (s', false) /\
             txes s' = [] /\ accepted s' = accepted s ++ concat q.
Proof. exact full_sends_drain. Qed.
Print Assumptions full_sends_drain_queue.

(* non-vacuity: partial, zero, would-block, cutoff + reconnect, over-long count *)
Example c24_nonvacuous :
  let w := {| w_present := true; w_rx := true; w_tx := true; w_same := false |} in
  let s := run KClient w true
             [Tx [1;2;3]%Z; Tx [4;5]%Z; SvcTx [Sent 2; Sent 9]; SvcTx [SBlock]; SvcTx [Sent 0];
              SvcTx [SCut]; Tx [6]%Z; SvcTx [Sent 1]; Uncut; SvcTx [Sent 7; Sent 2; Sent 0];
              SvcRx [Chunk [7;8]%Z; Chunk [9]%Z; RBlock; Chunk [10]%Z]] in
  accepted s = [1;2;3;4;5]%Z /\ txes s = [[6]%Z] /\ tx_records s = [[1;2]%Z; [3]%Z; [4;5]%Z] /\
  rxbs s = [7;8;9]%Z /\ cutoff s = false /\ raises s = 0.
Proof. vm_compute. repeat split; reflexivity. Qed.

(* outside the property's oracle alphabet: a propagating send error drops the popped message
   (documented model behaviour, matches the implementation; not part of the claim) *)
Example c24_fail_drops_popped :
  let w := {| w_present := false; w_rx := false; w_tx := false; w_same := false |} in
  let s := run KIncomer w true [Tx [1;2]%Z; Tx [3]%Z; SvcTx [SFail]; SvcTx [Sent 1]] in
  accepted s = [3]%Z /\ txes s = [] /\ raises s = 1.
Proof. vm_compute. repeat split; reflexivity. Qed.
