(* C24 -- complete stream accounting, for EVERY oracle (no premise on the send results):
   the queued byte stream is, in order, the slices the socket accepted and the messages dropped by a
   propagating send error, followed by what is still queued. *)
From Coq Require Import List ZArith Bool Arith Lia.
Import ListNotations.
Require Import V.C24.Model V.C24.Proofs.


Lemma sb_took w l s n b : stream_bytes (took w l s n b) = stream_bytes s ++ b.
Proof. unfold stream_bytes. cbn [stream took]. rewrite map_app. cbn [map snd]. apply concat_snoc. Qed.
Lemma sa_took w l s n b : stream_accepted (took w l s n b) = stream_accepted s ++ b.
Proof.
  unfold stream_accepted. cbn [stream took]. rewrite filter_snoc. cbn [fst]. rewrite map_app.
  cbn [map snd]. apply concat_snoc.
Qed.
Lemma sb_dropped s d : stream_bytes (dropped s d) = stream_bytes s ++ d.
Proof. unfold stream_bytes. cbn [stream dropped]. rewrite map_app. cbn [map snd]. apply concat_snoc. Qed.
Lemma sa_dropped s d : stream_accepted (dropped s d) = stream_accepted s.
Proof. unfold stream_accepted. cbn [stream dropped]. rewrite filter_snoc. cbn [fst]. rewrite app_nil_r. reflexivity. Qed.

(* one service pass *)
Lemma tx_loop_accounts k w : forall q orc s s' ex,
  tx_loop k w q orc s = (s', ex) ->
  stream_bytes s' ++ concat (txes s') = stream_bytes s ++ concat q /\ queued s' = queued s /\
  (accepted s = stream_accepted s -> accepted s' = stream_accepted s').
Proof.
  induction q as [|d q IH]; intros orc s s' ex H.
  - cbn in H. inversion H; subst. cbn. auto.
  - cbn [tx_loop] in H. destruct (negb (guard k s)).
    + inversion H; subst. cbn. auto.
    + destruct (next_s orc) as [r orc']. destruct r as [n| | |]; cbn [send] in H.
      * destruct (n <? length d) eqn:Hn.
        -- inversion H; subst. split; [|split; [reflexivity|]].
           ++ change (stream_bytes (took w (negb (is_driver k)) s n (firstn n d)) ++ (skipn n d ++ concat q)
                      = stream_bytes s ++ d ++ concat q).
              rewrite sb_took. rewrite <- app_assoc. f_equal. rewrite app_assoc, firstn_skipn. reflexivity.
           ++ intro A. change (accepted s ++ firstn n d = stream_accepted (took w (negb (is_driver k)) s n (firstn n d))).
              rewrite sa_took, A. reflexivity.
        -- destruct (IH _ _ _ _ H) as [B [Q A]]. split; [|split; [exact Q|]].
           ++ rewrite B, sb_took. rewrite (ltb_false_firstn _ _ Hn). cbn. rewrite <- app_assoc. reflexivity.
           ++ intro A0. apply A. cbn [accepted took]. rewrite sa_took, A0. reflexivity.
      * destruct (0 <? length d) eqn:Hn.
        -- inversion H; subst. cbn. auto.
        -- destruct (IH _ _ _ _ H) as [B [Q A]]. split; [|split; [exact Q|exact A]].
           rewrite B. apply Nat.ltb_ge in Hn. destruct d; [reflexivity|cbn in Hn; lia].
      * destruct (is_driver k).
        -- inversion H; subst. split; [|split; [reflexivity|]].
           ++ change (stream_bytes (dropped s d) ++ concat q = stream_bytes s ++ d ++ concat q).
              rewrite sb_dropped, <- app_assoc. reflexivity.
           ++ intro A. change (accepted s = stream_accepted (dropped s d)). rewrite sa_dropped. exact A.
        -- destruct (0 <? length d) eqn:Hn.
           ++ inversion H; subst. cbn. auto.
           ++ destruct (IH _ _ _ _ H) as [B [Q A]]. split; [|split; [exact Q|exact A]].
              rewrite B. apply Nat.ltb_ge in Hn. destruct d; [reflexivity|cbn in Hn; lia].
      * inversion H; subst. split; [|split; [reflexivity|]].
        -- change (stream_bytes (dropped s d) ++ concat q = stream_bytes s ++ d ++ concat q).
           rewrite sb_dropped, <- app_assoc. reflexivity.
        -- intro A. change (accepted s = stream_accepted (dropped s d)). rewrite sa_dropped. exact A.
Qed.

Lemma rx_loop_keeps k w : forall orc s s' ex, rx_loop k w orc s = (s', ex) ->
  stream s' = stream s /\ accepted s' = accepted s /\ txes s' = txes s /\ queued s' = queued s.
Proof.
  induction orc as [|r orc IH]; intros s s' ex H; cbn [rx_loop] in H.
  - destruct (negb (guard k s)); inversion H; subst; auto.
  - destruct (negb (guard k s)); [inversion H; subst; auto|].
    destruct r as [[|b d]| | |]; cbn [receive] in H.
    + inversion H; subst. destruct (is_driver k); cbn; auto.
    + apply IH in H. cbn in H. exact H.
    + inversion H; subst; auto.
    + destruct (is_driver k); inversion H; subst; cbn; auto.
    + inversion H; subst; auto.
Qed.

Lemma acct_same s s' :
  stream s' = stream s -> accepted s' = accepted s -> txes s' = txes s -> queued s' = queued s ->
  acct s -> acct s'.
Proof. unfold acct, stream_bytes, stream_accepted. intros -> -> -> ->. auto. Qed.

Lemma acct_step k w s o : acct s -> acct (step k w s o).
Proof.
  intros [Hb Ha]. destruct o as [d|orc|r|orc|r|b|]; cbn [step].
  - split.
    + change (stream_bytes s ++ concat (txes s ++ [d]) = queued s ++ d).
      rewrite concat_snoc, app_assoc, Hb. reflexivity.
    + exact Ha.
  - unfold service_txes. destruct (tx_loop k w (txes s) orc s) as [s' ex] eqn:E.
    destruct (tx_loop_accounts k w _ _ _ _ _ E) as [B [Q A]].
    assert (G : acct s') by (split; [rewrite B, Q; exact Hb|exact (A Ha)]).
    destruct ex; [|exact G]. eapply acct_same; [..|exact G]; reflexivity.
  - unfold service_tx_once. destruct (txes s) as [|d q'] eqn:Et; [split; [rewrite Et; exact Hb|exact Ha]|].
    destruct (negb (guard k s)); [split; [rewrite Et; exact Hb|exact Ha]|].
    destruct r as [n| | |]; cbn [send].
    + destruct (n <? length d) eqn:Hn; split.
      * change (stream_bytes (took w (negb (is_driver k)) s n (firstn n d)) ++ (skipn n d ++ concat q') = queued s).
        rewrite sb_took, <- Hb. cbn [concat]. rewrite <- !app_assoc. f_equal.
        rewrite app_assoc, firstn_skipn. reflexivity.
      * change (accepted s ++ firstn n d = stream_accepted (took w (negb (is_driver k)) s n (firstn n d))).
        rewrite sa_took, Ha. reflexivity.
      * change (stream_bytes (took w (negb (is_driver k)) s n (firstn n d)) ++ concat q' = queued s).
        rewrite sb_took, <- Hb. cbn [concat]. rewrite (ltb_false_firstn _ _ Hn), <- app_assoc. reflexivity.
      * change (accepted s ++ firstn n d = stream_accepted (took w (negb (is_driver k)) s n (firstn n d))).
        rewrite sa_took, Ha. reflexivity.
    + destruct (0 <? length d) eqn:Hn; split; try exact Ha.
      * cbn. rewrite <- Hb. reflexivity.
      * change (stream_bytes s ++ concat q' = queued s). rewrite <- Hb.
        apply Nat.ltb_ge in Hn. destruct d; [reflexivity|cbn in Hn; lia].
    + destruct (is_driver k).
      * split.
        -- change (stream_bytes (dropped s d) ++ concat q' = queued s).
           rewrite sb_dropped, <- Hb. cbn [concat]. rewrite <- app_assoc. reflexivity.
        -- change (accepted s = stream_accepted (dropped s d)). rewrite sa_dropped. exact Ha.
      * destruct (0 <? length d) eqn:Hn; split; try exact Ha.
        -- cbn. rewrite <- Hb. reflexivity.
        -- change (stream_bytes s ++ concat q' = queued s). rewrite <- Hb.
           apply Nat.ltb_ge in Hn. destruct d; [reflexivity|cbn in Hn; lia].
    + split.
      * change (stream_bytes (dropped s d) ++ concat q' = queued s).
        rewrite sb_dropped, <- Hb. cbn [concat]. rewrite <- app_assoc. reflexivity.
      * change (accepted s = stream_accepted (dropped s d)). rewrite sa_dropped. exact Ha.
  - unfold service_receives. destruct (rx_loop k w orc s) as [s' ex] eqn:E.
    destruct (rx_loop_keeps k w _ _ _ _ E) as [S1 [A1 [T1 Q1]]].
    destruct ex; (eapply acct_same; [..|exact (conj Hb Ha)]); cbn; assumption.
  - unfold service_receive_once. destruct (negb (guard k s)); [exact (conj Hb Ha)|].
    destruct r as [[|b d]| | |]; cbn [receive]; try (destruct (is_driver k));
      (eapply acct_same; [..|exact (conj Hb Ha)]); reflexivity.
  - eapply acct_same; [..|exact (conj Hb Ha)]; reflexivity.
  - eapply acct_same; [..|exact (conj Hb Ha)]; reflexivity.
Qed.

Lemma acct_run k w conn ops : acct (run k w conn ops).
Proof.
  unfold run. assert (G : forall ops s, acct s -> acct (fold_left (step k w) ops s)).
  { induction ops0 as [|o ops0 IH]; intros s Hs; [exact Hs|]. cbn [fold_left]. apply IH.
    apply acct_step. exact Hs. }
  apply G. split; reflexivity.
Qed.

