(* C24 -- stream transports: tx deque / send oracle, rx buffer / recv oracle, wire log.
   Hand model (tie H) of
     ioflo/aio/tcp/clienting.py  Client(.Tls).send / serviceTxes / receive / serviceReceives(/Once)
     ioflo/aio/tcp/serving.py    Incomer(.Tls).send / serviceTxes / receive / serviceReceives(/Once)
     ioflo/aio/serial/serialing.py Driver._serviceOneTx / serviceTxes / serviceTxOnce / serviceReceives(/Once)
                                  over DeviceNb.send / DeviceNb.receive
     ioflo/aio/wiring.py         WireLog.writeTx / writeRx / getTx / getRx
   Definitions only.

   bytes  = list Z (the harness only produces values in [0,256))
   The environment is an ORACLE: one result per socket/fd call of the service pass.
     send  : Sent n  -> the socket accepted data[:n] and returned n   (n may exceed len data:
                        the slice semantics of Python make that the same as n = len data)
             SBlock  -> would block (EAGAIN / EWOULDBLOCK / SSL_ERROR_WANT_READ/WRITE)
             SCut    -> connection-loss errno (stream classes: cutoff := True, result 0;
                        serial DeviceNb: any errno other than EAGAIN re-raises)
             SFail   -> any other error: the exception propagates out of the service call
     recv  : Chunk d -> d bytes arrived (Chunk [] = orderly EOF / nothing on the serial fd)
             RBlock / RCut / RFail as above
   An exhausted oracle means "would block".                                            *)
From Coq Require Import List ZArith Bool Arith.
Import ListNotations.

Notation bytes := (list Z).

Inductive kind := KClient | KClientTls | KIncomer | KIncomerTls | KDriver.
Inductive sres := Sent (n : nat) | SBlock | SCut | SFail.
Inductive rres := Chunk (d : bytes) | RBlock | RCut | RFail.
Inductive dir := DRx | DTx.

(* WireLog configuration: w_present = a wlog object was given to the transport (never for the
   serial driver, which has no wire log); rx/tx/same as in WireLog.__init__ (buffify=True). *)
Record wcfg := { w_present : bool; w_rx : bool; w_tx : bool; w_same : bool }.

Record st := {
  txes : list bytes;            (* .txes deque, head = left *)
  rxbs : bytes;                 (* .rxbs bytearray *)
  connected : bool;             (* Client: .connected ; Driver: .server.opened ; Incomer: unused *)
  cutoff : bool;                (* .cutoff (Driver: unused, stays false) *)
  wire : list (dir * bytes);    (* WireLog records, in write order *)
  accepted : bytes;             (* ghost: what the socket/fd double took: data[:n] of every send *)
  delivered : list bytes;       (* ghost: non-empty chunks handed out by the double's recv/read *)
  queued : bytes;               (* ghost: concatenation of everything ever passed to .tx() *)
  stream : list (bool * bytes); (* ghost: the queued stream so far, in order, cut into the slices the
                                   socket accepted (true) and the messages dropped because their send
                                   raised a propagating error (false) *)
  raises : nat                  (* ghost: number of service calls that ended with an exception *)
}.

Definition init (conn : bool) : st :=
  {| txes := []; rxbs := []; connected := conn; cutoff := false; wire := [];
     accepted := []; delivered := []; queued := []; stream := []; raises := 0 |}.

Definition set_txes (s : st) (q : list bytes) : st :=
  {| txes := q; rxbs := rxbs s; connected := connected s; cutoff := cutoff s; wire := wire s;
     accepted := accepted s; delivered := delivered s; queued := queued s; stream := stream s; raises := raises s |}.
Definition set_cutoff (s : st) (b : bool) : st :=
  {| txes := txes s; rxbs := rxbs s; connected := connected s; cutoff := b; wire := wire s;
     accepted := accepted s; delivered := delivered s; queued := queued s; stream := stream s; raises := raises s |}.
Definition set_connected (s : st) (b : bool) : st :=
  {| txes := txes s; rxbs := rxbs s; connected := b; cutoff := cutoff s; wire := wire s;
     accepted := accepted s; delivered := delivered s; queued := queued s; stream := stream s; raises := raises s |}.
Definition raise1 (s : st) : st :=
  {| txes := txes s; rxbs := rxbs s; connected := connected s; cutoff := cutoff s; wire := wire s;
     accepted := accepted s; delivered := delivered s; queued := queued s; stream := stream s; raises := S (raises s) |}.
(* send(d) raised a propagating error: the popped message d is gone *)
Definition dropped (s : st) (d : bytes) : st :=
  {| txes := txes s; rxbs := rxbs s; connected := connected s; cutoff := cutoff s; wire := wire s;
     accepted := accepted s; delivered := delivered s; queued := queued s;
     stream := stream s ++ [(false, d)]; raises := raises s |}.
(* the double returned count n after accepting [b] = data[:n]; the transport writes a tx record
   when the log is on and n is non-zero ("if result:") *)
Definition took (w : wcfg) (logs : bool) (s : st) (n : nat) (b : bytes) : st :=
  {| txes := txes s; rxbs := rxbs s; connected := connected s; cutoff := cutoff s;
     wire := match n with
             | O => wire s
             | _ => if logs && w_present w && w_tx w then wire s ++ [(DTx, b)] else wire s
             end;
     accepted := accepted s ++ b; delivered := delivered s; queued := queued s;
     stream := stream s ++ [(true, b)]; raises := raises s |}.
(* the double handed out the non-empty chunk [b] *)
Definition gave (w : wcfg) (logs : bool) (s : st) (b : bytes) : st :=
  {| txes := txes s; rxbs := rxbs s; connected := connected s; cutoff := cutoff s;
     wire := if logs && w_present w && w_rx w then wire s ++ [(DRx, b)] else wire s;
     accepted := accepted s; delivered := delivered s ++ [b]; queued := queued s; stream := stream s; raises := raises s |}.
Definition extend_rx (s : st) (b : bytes) : st :=
  {| txes := txes s; rxbs := rxbs s ++ b; connected := connected s; cutoff := cutoff s; wire := wire s;
     accepted := accepted s; delivered := delivered s; queued := queued s; stream := stream s; raises := raises s |}.

Definition is_driver (k : kind) : bool := match k with KDriver => true | _ => false end.

(* loop guards:  Client: .txes and .connected and not .cutoff ; Incomer: .txes and not .cutoff ;
   Driver: .txes and .server.opened *)
Definition guard (k : kind) (s : st) : bool :=
  match k with
  | KClient | KClientTls => connected s && negb (cutoff s)
  | KIncomer | KIncomerTls => negb (cutoff s)
  | KDriver => connected s
  end.

(* X.send(data) with socket result r : None = exception propagates, Some (count, state) *)
Definition send (k : kind) (w : wcfg) (d : bytes) (r : sres) (s : st) : option (nat * st) :=
  match r with
  | Sent n => Some (n, took w (negb (is_driver k)) s n (firstn n d))
  | SBlock => Some (0, s)
  | SCut => if is_driver k then None else Some (0, set_cutoff s true)
  | SFail => None
  end.

Definition next_s (orc : list sres) : sres * list sres :=
  match orc with [] => (SBlock, []) | r :: o => (r, o) end.

(* serviceTxes: the state's own .txes is ignored during the loop, the deque is the argument q *)
Fixpoint tx_loop (k : kind) (w : wcfg) (q : list bytes) (orc : list sres) (s : st) : st * bool :=
  match q with
  | [] => (set_txes s [], false)
  | d :: q' =>
      if negb (guard k s) then (set_txes s q, false)
      else let (r, orc') := next_s orc in
           match send k w d r s with
           | None => (set_txes (dropped s d) q', true)        (* popped data is gone *)
           | Some (count, s1) =>
               if count <? length d
               then (set_txes s1 (skipn count d :: q'), false) (* appendleft(data[count:]); break *)
               else tx_loop k w q' orc' s1
           end
  end.

Definition service_txes (k : kind) (w : wcfg) (orc : list sres) (s : st) : st :=
  let (s', ex) := tx_loop k w (txes s) orc s in if ex then raise1 s' else s'.

(* Driver.serviceTxOnce : one _serviceOneTx if .txes and .server.opened *)
Definition service_tx_once (k : kind) (w : wcfg) (r : sres) (s : st) : st :=
  match txes s with
  | [] => s
  | d :: q' =>
      if negb (guard k s) then s
      else match send k w d r s with
           | None => raise1 (set_txes (dropped s d) q')
           | Some (count, s1) =>
               if count <? length d then set_txes s1 (skipn count d :: q') else set_txes s1 q'
           end
  end.

(* X.receive() with socket result r : None = raises ; Some (data, state) where data = [] stands
   for both "None" and "empty" (the callers only test truthiness) *)
Definition receive (k : kind) (w : wcfg) (r : rres) (s : st) : option (bytes * st) :=
  match r with
  | Chunk [] => Some ([], if is_driver k then s else set_cutoff s true)
  | Chunk d => Some (d, gave w (negb (is_driver k)) s d)
  | RBlock => Some ([], s)
  | RCut => if is_driver k then None else Some ([], set_cutoff s true)
  | RFail => None
  end.

Fixpoint rx_loop (k : kind) (w : wcfg) (orc : list rres) (s : st) : st * bool :=
  if negb (guard k s) then (s, false) else
  match orc with
  | [] => (s, false)
  | r :: orc' =>
      match receive k w r s with
      | None => (s, true)
      | Some ([], s1) => (s1, false)
      | Some (d, s1) => rx_loop k w orc' (extend_rx s1 d)
      end
  end.

Definition service_receives (k : kind) (w : wcfg) (orc : list rres) (s : st) : st :=
  let (s', ex) := rx_loop k w orc s in if ex then raise1 s' else s'.

Definition service_receive_once (k : kind) (w : wcfg) (r : rres) (s : st) : st :=
  if negb (guard k s) then s
  else match receive k w r s with
       | None => raise1 s
       | Some (d, s1) => extend_rx s1 d
       end.

Inductive op :=
| Tx (d : bytes)                 (* .tx(data) *)
| SvcTx (orc : list sres)        (* .serviceTxes() *)
| SvcTxOnce (r : sres)           (* Driver.serviceTxOnce() (modelled for every kind) *)
| SvcRx (orc : list rres)        (* .serviceReceives() *)
| SvcRxOnce (r : rres)           (* .serviceReceiveOnce() *)
| SetConn (b : bool)             (* connection (re)established / lost ; serial port opened / closed *)
| Uncut.                         (* cutoff cleared (Client.open / accept) *)

Definition step (k : kind) (w : wcfg) (s : st) (o : op) : st :=
  match o with
  | Tx d => {| txes := txes s ++ [d]; rxbs := rxbs s; connected := connected s; cutoff := cutoff s;
               wire := wire s; accepted := accepted s; delivered := delivered s;
               queued := queued s ++ d; stream := stream s; raises := raises s |}
  | SvcTx orc => service_txes k w orc s
  | SvcTxOnce r => service_tx_once k w r s
  | SvcRx orc => service_receives k w orc s
  | SvcRxOnce r => service_receive_once k w r s
  | SetConn b => set_connected s b
  | Uncut => set_cutoff s false
  end.

Definition run (k : kind) (w : wcfg) (conn : bool) (ops : list op) : st :=
  fold_left (step k w) ops (init conn).

(* the oracle alphabet the property talks about: full / partial / zero sends, would-block, and
   connection loss (which the stream classes turn into result 0); no propagating error *)
Definition benign_s (k : kind) (r : sres) : bool :=
  match r with SFail => false | SCut => negb (is_driver k) | _ => true end.
Definition benign_op (k : kind) (o : op) : bool :=
  match o with
  | SvcTx orc => forallb (benign_s k) orc
  | SvcTxOnce r => benign_s k r
  | _ => true
  end.

Definition is_tx (e : dir * bytes) : bool := match fst e with DTx => true | DRx => false end.
Definition is_rx (e : dir * bytes) : bool := match fst e with DRx => true | DTx => false end.
Definition tx_records (s : st) : list bytes := map snd (filter is_tx (wire s)).
Definition rx_records (s : st) : list bytes := map snd (filter is_rx (wire s)).

(* leading non-empty chunks of a recv oracle = what arrives before the first block/EOF/error *)
Fixpoint chunks_until_block (orc : list rres) : list bytes :=
  match orc with
  | Chunk (b :: d) :: orc' => (b :: d) :: chunks_until_block orc'
  | _ => []
  end.

(* WireLog.getTx() / getRx() of a buffified log: "TX <da>\n" data "\n" per record; with
   same=True both directions share one buffer *)
Definition render (w : wcfg) (want : dir) (hrx htx : bytes) (l : list (dir * bytes)) : bytes :=
  flat_map (fun e => match fst e, want with
                     | DTx, DTx => htx ++ snd e ++ [10%Z]
                     | DRx, DRx => hrx ++ snd e ++ [10%Z]
                     | DTx, DRx => if w_same w then htx ++ snd e ++ [10%Z] else []
                     | DRx, DTx => if w_same w then hrx ++ snd e ++ [10%Z] else []
                     end) l.

(* specification predicates used by the property theorems *)
Definition logs_tx (k : kind) (w : wcfg) : bool := negb (is_driver k) && w_present w && w_tx w.
Definition logs_rx (k : kind) (w : wcfg) : bool := negb (is_driver k) && w_present w && w_rx w.

Record winv (k : kind) (w : wcfg) (s : st) : Prop := {
  wi_tx : logs_tx k w = true -> concat (tx_records s) = accepted s;
  wi_rx : logs_rx k w = true -> rx_records s = delivered s;
  wi_rxbs : rxbs s = concat (delivered s);
  wi_delivered_nonempty : Forall (fun b => b <> []) (delivered s)
}.


(* one WireLog record as bytes: header, payload, newline *)
Definition frame (h : bytes) (b : bytes) : bytes := h ++ b ++ [10%Z].

(* bytes of the stream account, and of its accepted part *)
Definition stream_bytes (s : st) : bytes := concat (map snd (stream s)).
Definition stream_accepted (s : st) : bytes := concat (map snd (filter fst (stream s))).
Definition stream_dropped (s : st) : list bytes := map snd (filter (fun e => negb (fst e)) (stream s)).

(* the complete stream account (see Props.tx_stream_fully_accounted) *)
Definition acct (s : st) : Prop :=
  stream_bytes s ++ concat (txes s) = queued s /\ accepted s = stream_accepted s.
