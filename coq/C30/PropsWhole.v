(* C30 -- whole-message round trips: property theorems only (each closed by [exact]).
   Sender side = this development's model of Requester.build / Responder.build + packHeader
   (V.C30.WholeMessage); receiver side = C29's model of Requestant / Respondent
   (V.Lib.C29_Http.http_feed), through C29's round-trip lemmas.  Side conditions are boolean
   checks on the concrete message (token/whitespace/length limits of the parser configuration). *)
From Coq Require Import String.
From Coq Require Import List ZArith Bool.
Import ListNotations.
Require Import V.Lib.C29_Http V.C29.Model V.C29.Proofs V.C30.WholeMessage.
Open Scope Z_scope.

(* httping.packHeader: the line "Title-Cased-Name: value" CRLF is a line C29's parser accepts, and
   it files the value under the LOWER-CASE name: the receiver's header map of the packed lines of
   a sender's lodict is that lodict itself (same names, same values, same order). *)
Theorem packed_headers_parse_to_the_senders_lodict : forall h, lodict_ok h -> hdrs_of (map pack h) = h.
Proof. exact hdrs_of_pack. Qed.
Print Assumptions packed_headers_parse_to_the_senders_lodict.

Theorem packed_header_line_is_wellformed : forall kv, hdr_ok kv = true -> hline_ok (pack kv) = true.
Proof. exact pack_ok. Qed.
Print Assumptions packed_header_line_is_wellformed.

(* RESPONSE, application declared Content-Length.  h = the application's headers as stored by
   Responder.start (lodict), date = the Date value build() generates; Responder.build adds Server /
   Date when absent.  The client (Respondent, any split of the bytes by C29's
   http_split_independent) ends in SDone with the same status, reason, EXACTLY Responder's header
   lodict and the body, leaving the next message untouched. *)
Theorem response_roundtrip : forall cf : cfg,
  0 <= maxline cf ->
  forall (v11 : bool) (date : bytes) (h : hdrs) (ds : list Z) (reason : list bytes),
  status_ok ds = true -> body_allowed (dval 10 ds 0) = true -> forallb tok_ok reason = true ->
  len (status_line true ds reason) <= maxline cf ->
  lodict_ok h -> has K_TE h = false ->
  forallb hdr_ok (responder_headers v11 date h) = true ->
  forallb (hdr_len_ok cf) (responder_headers v11 date h) = true ->
  Z.of_nat (length (responder_headers v11 date h)) <= maxhdrs cf ->
  forall (cls : list Z) (body : bytes) (rest : list Z),
  aget K_CL h = Some (num cls) -> cls <> [] -> digits_ok 10 cls = true -> len cls <= 4300 ->
  dval 10 cls 0 = len body ->
  let k := http_feed cf (init_pst true false, [])
             (responder_head ds reason (responder_headers v11 date h) ++ body ++ rest) in
  snd k = rest /\ p_stage (fst k) = SDone /\ p_status (fst k) = dval 10 ds 0 /\
  p_start (fst k) = [join_with [32] reason] /\
  p_headers (fst k) = responder_headers v11 date h /\ p_body (fst k) = body.
Proof. exact response_roundtrip_length. Qed.
Print Assumptions response_roundtrip.

(* RESPONSE without a declared length to an HTTP/1.1 request: build() adds Transfer-Encoding:
   chunked, write() sends one chunk per piece and the empty chunk. *)
Theorem response_roundtrip_streamed : forall cf : cfg,
  0 <= maxline cf ->
  forall (v11 : bool) (date : bytes) (h : hdrs) (ds : list Z) (reason : list bytes),
  status_ok ds = true -> forallb tok_ok reason = true ->
  len (status_line true ds reason) <= maxline cf ->
  lodict_ok h -> has K_TE h = false ->
  forallb hdr_ok (responder_headers v11 date h) = true ->
  forallb (hdr_len_ok cf) (responder_headers v11 date h) = true ->
  Z.of_nat (length (responder_headers v11 date h)) <= maxhdrs cf ->
  forall (chunks : list chunk) (rest : list Z),
  v11 = true -> has K_CL h = false -> forallb (chunk_ok cf) chunks = true -> zeros_ok cf [0] [] = true ->
  let k := http_feed cf (init_pst true false, [])
             (responder_head ds reason (responder_headers v11 date h) ++
              chunked_bytes chunks [0] [] [] LCrLf ++ rest) in
  snd k = rest /\ p_stage (fst k) = SDone /\ p_status (fst k) = dval 10 ds 0 /\
  p_start (fst k) = [join_with [32] reason] /\
  p_headers (fst k) = responder_headers v11 date h /\ p_body (fst k) = concat (map ch_data chunks).
Proof. exact response_roundtrip_chunked. Qed.
Print Assumptions response_roundtrip_streamed.

(* every header the application set reaches the client under its lower-case name *)
Theorem response_headers_reach_client : forall v11 date h k v,
  aget k h = Some v -> aget k (responder_headers v11 date h) = Some v.
Proof. exact responder_keeps. Qed.
Print Assumptions response_headers_reach_client.

(* REQUEST.  user = Requester.headers (lodict, after the JSON / form content-type override), cls =
   decimal digits of len body.  The server (Requestant) ends in SDone with the client's method,
   request target, HTTP/1.1, EXACTLY the client's header lines as a lower-case keyed map in
   order (Host, Accept-Encoding, Content-Length added when absent), the body and length. *)
Theorem request_roundtrip : forall cf : cfg,
  0 <= maxline cf ->
  forall (method url hostport : bytes) (user : hdrs) (body : bytes) (cls : list Z),
  tok_ok method = true -> existsb (beq method) METHODS = true ->
  tok_ok url = true -> url_ok cf url = true ->
  len (request_line method url true) <= maxline cf ->
  has K_TE user = false -> has K_CL user = false ->
  cls <> [] /\ digits_ok 10 cls = true /\ len cls <= 4300 /\ dval 10 cls 0 = len body ->
  lodict_ok (requester_headers hostport user body cls) ->
  forallb hdr_ok (requester_headers hostport user body cls) = true ->
  forallb (hdr_len_ok cf) (requester_headers hostport user body cls) = true ->
  Z.of_nat (length (requester_headers hostport user body cls)) <= maxhdrs cf ->
  forall rest : list Z,
  let k := http_feed cf (init_pst false false, [])
             (requester_head method url (requester_headers hostport user body cls) ++ body ++ rest) in
  snd k = rest /\ p_stage (fst k) = SDone /\ p_start (fst k) = [method; url] /\ p_version (fst k) = 1 /\
  p_headers (fst k) = requester_headers hostport user body cls /\
  p_body (fst k) = body /\ p_length (fst k) = Some (len body).
Proof. exact request_roundtrip_lemma. Qed.
Print Assumptions request_roundtrip.

(* Valet.buildEnviron: each header of the parsed request is presented as HTTP_<NAME> (upper
   case, '-' -> '_'), provided those keys do not collide *)
Theorem environ_http_keys : forall h k v, NoDup (map env_key (keys h)) -> In (k, v) h ->
  aget (env_key k) (environ_http h) = Some v.
Proof. exact environ_keys. Qed.
Print Assumptions environ_http_keys.

(* request target: PATH_INFO = unquote(path part) is the client's path (ALL byte strings),
   QUERY_STRING decodes to the client's query arguments *)
Theorem path_info_and_query_string : forall path qargs,
  V.C30.Percent.bytes_ok path = true ->
  Forall (fun kv => V.C30.Proofs.key_ok (fst kv) /\ V.C30.Percent.bytes_ok (snd kv) = true) qargs ->
  NoDup (map fst qargs) ->
  let '(p, q) := cut_q (request_target path qargs) in
  V.C30.Percent.unquote p = path /\ V.C30.Model.parse_query q = qargs.
Proof. exact target_roundtrip. Qed.
Print Assumptions path_info_and_query_string.

(* non-vacuity: real bytes *)
Definition cfw : cfg := {| maxline := 65536; maxhdrs := 100; url_ok := fun _ => true |}.
Example c30_whole_message_examples :
  (* Responder: app headers {content-type, x-req-id, content-length: 2} *)
  let h := [(bz "content-type", bz "text/plain"); (bz "x-req-id", bz "a b"); (bz "content-length", bz "2")] in
  let H := responder_headers true (bz "Tue, 22 Sep 2026 08:00:00 GMT") h in
  responder_head [2;0;1] [bz "Created"] H =
    bz "HTTP/1.1 201 Created" ++ [13;10] ++ bz "Content-Type: text/plain" ++ [13;10] ++
    bz "X-Req-Id: a b" ++ [13;10] ++ bz "Content-Length: 2" ++ [13;10] ++
    bz "Server: Ioflo WSGI Server" ++ [13;10] ++ bz "Date: Tue, 22 Sep 2026 08:00:00 GMT" ++ [13;10;13;10] /\
  (let k := http_feed cfw (init_pst true false, []) (responder_head [2;0;1] [bz "Created"] H ++ bz "hi" ++ bz "HTTP/1.1 ") in
   snd k = bz "HTTP/1.1 " /\ p_status (fst k) = 201 /\ p_headers (fst k) = H /\ p_body (fst k) = bz "hi") /\
  (* Requester: POST with a 3-byte body and one user header *)
  let L := requester_headers (bz "127.0.0.1:6101") [(bz "x-token", bz "t1")] (bz "abc") [3] in
  requester_head (bz "POST") (bz "/a%20b?k=v+w") L =
    bz "POST /a%20b?k=v+w HTTP/1.1" ++ [13;10] ++ bz "Host: 127.0.0.1:6101" ++ [13;10] ++
    bz "Accept-Encoding: identity" ++ [13;10] ++ bz "Content-Length: 3" ++ [13;10] ++
    bz "X-Token: t1" ++ [13;10;13;10] /\
  (let k := http_feed cfw (init_pst false false, []) (requester_head (bz "POST") (bz "/a%20b?k=v+w") L ++ bz "abc") in
   p_stage (fst k) = SDone /\ p_headers (fst k) = L /\ p_body (fst k) = bz "abc" /\
   environ_http (p_headers (fst k)) =
     [(bz "HTTP_HOST", bz "127.0.0.1:6101"); (bz "HTTP_ACCEPT_ENCODING", bz "identity");
      (bz "HTTP_CONTENT_LENGTH", bz "3"); (bz "HTTP_X_TOKEN", bz "t1")]) /\
  cut_q (request_target (bz "/a b") [(bz "k", bz "v w")]) = (bz "/a%20b", bz "k=v+w").
Proof. vm_compute. repeat split; reflexivity. Qed.
