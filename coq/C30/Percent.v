(* C30 -- percent codec of urllib.parse as used by ioflo.aio.http (tie H).  Definitions only.

   Bytes are Z in [0,256) (predicate [bytes_ok]).  The model is byte level:
     quote safe bs        = urllib.parse.quote_from_bytes(bs, safe)       (as ASCII bytes)
     quote_plus safe bs   = urllib.parse.quote_plus(bs, safe)             (as ASCII bytes)
     unquote bs           = urllib.parse.unquote_to_bytes(bs)
     unquote_plus bs      = unquote_to_bytes(bs.replace(b'+', b' '))
   The str-level functions ioflo calls (quote / quote_plus / unquote / unquote_plus on str)
   are  s.encode('utf-8') |> byte-level function |> .decode(...)  -- the UTF-8 codec is
   CPython's and is modelled, not verified (see meta.json).

   quote_from_bytes:  chr(b) if b in ALWAYS_SAFE+safe else '%{:02X}'.format(b)
   quote_plus      :  quote(s, safe + ' ').replace(' ', '+')
   unquote_to_bytes:  split on '%'; an item whose first two bytes are both hex digits
                      (either case) contributes that byte + the rest of the item, any other
                      item contributes '%' + item.  Equivalent left-to-right scan below
                      (hex digits are never '%').                                            *)
From Coq Require Import List ZArith Bool.
Import ListNotations.
Open Scope Z_scope.

Definition byte_ok (b : Z) : bool := (0 <=? b) && (b <? 256).
Definition bytes_ok (bs : list Z) : bool := forallb byte_ok bs.

Definition memZ (x : Z) (l : list Z) : bool := existsb (Z.eqb x) l.

Definition is_digit (c : Z) : bool := (48 <=? c) && (c <=? 57).
Definition is_upper (c : Z) : bool := (65 <=? c) && (c <=? 90).
Definition is_lower (c : Z) : bool := (97 <=? c) && (c <=? 122).
(* _ALWAYS_SAFE = A-Z a-z 0-9 '_' '.' '-' '~' *)
Definition always_safe (c : Z) : bool :=
  is_digit c || is_upper c || is_lower c || (c =? 95) || (c =? 46) || (c =? 45) || (c =? 126).
Definition is_safe (safe : list Z) (c : Z) : bool := always_safe c || memZ c safe.

(* '{:X}' of one nibble 0..15 *)
Definition hexU (d : Z) : Z := if d <? 10 then 48 + d else 55 + d.
(* '{:x}' of one nibble 0..15 *)
Definition hexL (d : Z) : Z := if d <? 10 then 48 + d else 87 + d.

Definition is_hex (c : Z) : bool :=
  is_digit c || ((65 <=? c) && (c <=? 70)) || ((97 <=? c) && (c <=? 102)).
Definition hexval (c : Z) : Z :=
  if is_digit c then c - 48 else if (65 <=? c) && (c <=? 70) then c - 55 else c - 87.

Definition pct (b : Z) : list Z := [37; hexU (b / 16); hexU (b mod 16)].

Definition quote1 (safe : list Z) (b : Z) : list Z := if is_safe safe b then [b] else pct b.
Definition quote (safe : list Z) (bs : list Z) : list Z := flat_map (quote1 safe) bs.

Definition quote_plus1 (safe : list Z) (b : Z) : list Z :=
  if b =? 32 then [43] else quote1 safe b.
Definition quote_plus (safe : list Z) (bs : list Z) : list Z := flat_map (quote_plus1 safe) bs.

Fixpoint unquote (l : list Z) : list Z :=
  match l with
  | [] => []
  | c :: t =>
      if c =? 37 then
        match t with
        | a :: b :: r => if is_hex a && is_hex b then (16 * hexval a + hexval b) :: unquote r
                         else 37 :: unquote t
        | _ => 37 :: unquote t
        end
      else c :: unquote t
  end.

Definition plus_to_space (c : Z) : Z := if c =? 43 then 32 else c.
Definition unquote_plus (l : list Z) : list Z := unquote (map plus_to_space l).

(* the safe sets ioflo uses *)
Definition safe_none : list Z := [].            (* quote_plus(str(val))        query values  *)
Definition safe_slash : list Z := [47].         (* quote(path)                 request path  *)
Definition safe_form : list Z := [38; 61].      (* quote_plus(form, '&=')      pre-fix form  *)

(* a safe set is usable when neither '%' nor '+' is declared safe *)
Definition safe_wf (safe : list Z) : bool := negb (memZ 37 safe) && negb (memZ 43 safe).

(* ---- '{0:x}'.format(n) and int(s, 16) restricted to what packChunk emits -------------- *)
(* hex digits of n > 0, most significant first; fuel = number of digits bound *)
Fixpoint hex_digits (fuel : nat) (n : Z) (acc : list Z) : list Z :=
  match fuel with
  | O => acc
  | S f => if n <? 16 then hexL n :: acc else hex_digits f (n / 16) (hexL (n mod 16) :: acc)
  end.
(* '{0:x}'.format(n) for 0 <= n < 16^fuel *)
Definition hex_of (fuel : nat) (n : Z) : list Z := hex_digits fuel n [].

(* int(s, 16) on a string of hex digits; None when a byte is not a hex digit or s is empty *)
Fixpoint hex_parse_acc (s : list Z) (acc : Z) : option Z :=
  match s with
  | [] => Some acc
  | c :: t => if is_hex c then hex_parse_acc t (16 * acc + hexval c) else None
  end.
Definition hex_parse (s : list Z) : option Z :=
  match s with [] => None | _ => hex_parse_acc s 0 end.
