(* C30 -- whole-message round trips bound to C29's serialisation and parser model.

   Serialiser side (this file): the ACTUAL line lists of Responder.build and Requester.build --
   every header goes through httping.packHeader (name.title() ++ ": " ++ value, CRLF).
   Parser side: V.Lib.C29_Http.http_feed (clienting.Respondent / serving.Requestant as modelled
   and proved by C29).  The round trips instantiate C29's response_fixed_roundtrip /
   response_chunked_roundtrip / request_fixed_roundtrip with those line lists; what this file
   adds is the header-line serialisation (packHeader incl. title-casing), the identification of
   the parsed header map with the sender's own lodict, the HTTP_* environ keys of
   Valet.buildEnviron, and PATH_INFO / QUERY_STRING through the percent codec.
   C29's files are imported, not edited. *)
From Coq Require Import String.
From Coq Require Import List ZArith Bool Lia.
Import ListNotations.
Require Import V.Lib.C29_Http V.Lib.C29_HttpProofs V.Lib.C29_HttpMachine V.C29.Model V.C29.Proofs.
Require V.C30.Percent V.C30.PercentProofs V.C30.Model V.C30.Proofs.
Open Scope Z_scope.

(* ---------------------------------------------------------------- association lists *)

Definition keys {V} (h : list (bytes * V)) : list bytes := map fst h.

Lemma beq_neq a b : a <> b -> beq a b = false.
Proof. intros H. destruct (beq a b) eqn:E; [|reflexivity]. apply beq_eq in E. contradiction. Qed.

Lemma aset_fresh {V} k (v : V) : forall h, ~ In k (keys h) -> aset k v h = h ++ [(k, v)].
Proof.
  induction h as [|[k' v'] t IH]; intros H; [reflexivity|].
  cbn [aset]. rewrite beq_neq by (intro E; apply H; left; symmetry; exact E).
  cbn [app]. f_equal. apply IH. intro Hi. apply H. right. exact Hi.
Qed.

Lemma fold_aset_nodup {V} : forall (l acc : list (bytes * V)),
  NoDup (keys acc ++ keys l) ->
  fold_left (fun a kv => aset (fst kv) (snd kv) a) l acc = acc ++ l.
Proof.
  induction l as [|[k v] l IH]; intros acc H; [cbn; rewrite app_nil_r; reflexivity|].
  cbn [fold_left fst snd]. unfold keys in H. cbn [map fst] in H.
  assert (Hf : ~ In k (keys acc)).
  { apply NoDup_remove_2 in H. intro Hi. apply H. apply in_or_app. left. exact Hi. }
  rewrite aset_fresh by exact Hf. rewrite IH.
  - rewrite <- app_assoc. reflexivity.
  - unfold keys. rewrite map_app. cbn [map fst]. rewrite <- app_assoc. exact H.
Qed.

Lemma aget_in {V} : forall (h : list (bytes * V)) k v, NoDup (keys h) -> In (k, v) h -> aget k h = Some v.
Proof.
  induction h as [|[k' v'] t IH]; intros k v Hn Hi; [contradiction|].
  cbn [aget]. inversion Hn as [|x l Hx Hl]; subst. destruct Hi as [E|Hi].
  - inversion E; subst. rewrite beq_refl. reflexivity.
  - rewrite beq_neq.
    + apply IH; assumption.
    + intro E. subst. apply Hx. unfold keys. apply (in_map fst) in Hi. exact Hi.
Qed.

Lemma aget_notin {V} : forall (h : list (bytes * V)) k, ~ In k (keys h) -> aget k h = None.
Proof.
  induction h as [|[k' v'] t IH]; intros k H; [reflexivity|].
  cbn [aget]. rewrite beq_neq by (intro E; apply H; left; symmetry; exact E).
  apply IH. intro Hi. apply H. right. exact Hi.
Qed.

(* ---------------------------------------------------------------- httping.packHeader *)

Definition is_up (c : Z) : bool := (65 <=? c) && (c <=? 90).
Definition is_lo (c : Z) : bool := (97 <=? c) && (c <=? 122).
(* bytes.title(): ASCII letters only; first letter of every run of letters upper, the rest lower *)
Definition tchar (prev : bool) (c : Z) : Z :=
  if is_up c then (if prev then c + 32 else c)
  else if is_lo c then (if prev then c else c - 32)
  else c.
Fixpoint title_aux (prev : bool) (l : bytes) : bytes :=
  match l with
  | [] => []
  | c :: t => tchar prev c :: title_aux (is_up c || is_lo c) t
  end.
Definition title (l : bytes) : bytes := title_aux false l.

(* packHeader(name, value) as a C29 header line:  Title-Name ": " value CRLF *)
Definition pack (kv : bytes * bytes) : hline :=
  {| hl_name := title (fst kv); hl_pre := []; hl_post := [32]; hl_value := snd kv; hl_end := LCrLf |}.

Lemma tchar_lower prev c : lower_c (tchar prev c) = lower_c c.
Proof.
  unfold tchar, lower_c, is_up, is_lo.
  destruct (65 <=? c) eqn:A; destruct (c <=? 90) eqn:B; destruct (97 <=? c) eqn:C; destruct (c <=? 122) eqn:D;
    destruct prev; cbn [andb orb];
    repeat match goal with
           | H : (_ <=? _) = true |- _ => apply Z.leb_le in H
           | H : (_ <=? _) = false |- _ => apply Z.leb_gt in H
           end; try lia;
    repeat match goal with
           | |- context [?a <=? ?b] => let E := fresh in destruct (a <=? b) eqn:E;
                                        [apply Z.leb_le in E|apply Z.leb_gt in E]
           | |- context [?a =? ?b] => let E := fresh in destruct (a =? b) eqn:E;
                                        [apply Z.eqb_eq in E|apply Z.eqb_neq in E]
           end; cbn [andb orb negb]; lia.
Qed.

Lemma title_lower : forall l prev, lower (title_aux prev l) = lower l.
Proof.
  induction l as [|c t IH]; intros prev; [reflexivity|].
  cbn [title_aux]. unfold lower in *. cbn [map]. rewrite tchar_lower. f_equal. apply IH.
Qed.

(* a character test that cannot tell letters apart gives the same verdict on the title-cased name *)
Lemma tchar_keeps (P : Z -> bool) prev c :
  (forall x, is_up x || is_lo x = true -> P x = true) -> P (tchar prev c) = P c.
Proof.
  intros HP. unfold tchar. destruct (is_up c) eqn:U.
  - destruct prev; [|reflexivity]. rewrite (HP c) by (rewrite U; reflexivity). apply HP.
    unfold is_up, is_lo in *. apply andb_true_iff in U. destruct U as [A B].
    apply Z.leb_le in A. apply Z.leb_le in B. apply orb_true_iff. right. apply andb_true_iff.
    split; apply Z.leb_le; lia.
  - destruct (is_lo c) eqn:L; [|reflexivity]. destruct prev; [reflexivity|].
    rewrite (HP c) by (rewrite L; apply orb_true_r). apply HP.
    unfold is_up, is_lo in *. apply andb_true_iff in L. destruct L as [A B].
    apply Z.leb_le in A. apply Z.leb_le in B. apply orb_true_iff. left. apply andb_true_iff.
    split; apply Z.leb_le; lia.
Qed.

Lemma letters_pass_name_test x : is_up x || is_lo x = true -> (negb (x =? 58) && negb (is_ws_u x)) = true.
Proof.
  intros H. assert (R : 65 <= x <= 122).
  { unfold is_up, is_lo in H. apply orb_true_iff in H. destruct H as [H|H]; apply andb_true_iff in H;
      destruct H as [A B]; apply Z.leb_le in A; apply Z.leb_le in B; lia. }
  unfold is_ws_u, is_ws_b.
  repeat match goal with
         | |- context [?a <=? ?b] => let E := fresh in destruct (a <=? b) eqn:E;
                                      [apply Z.leb_le in E|apply Z.leb_gt in E]
         | |- context [?a =? ?b] => let E := fresh in destruct (a =? b) eqn:E;
                                      [apply Z.eqb_eq in E|apply Z.eqb_neq in E]
         end; cbn [andb orb negb]; try reflexivity; lia.
Qed.

Lemma title_name_ok n : name_ok n = true -> name_ok (title n) = true.
Proof.
  unfold name_ok, title. intros H. apply andb_true_iff in H. destruct H as [Hn Hf].
  apply andb_true_iff. split.
  - destruct n; [discriminate|reflexivity].
  - clear Hn. generalize false. induction n as [|c t IH]; intros prev; [reflexivity|].
    cbn [forallb] in Hf. apply andb_true_iff in Hf. destruct Hf as [Hc Ht].
    cbn [title_aux forallb].
    rewrite (tchar_keeps (fun x => negb (x =? 58) && negb (is_ws_u x)) prev c letters_pass_name_test).
    rewrite Hc. cbn [andb]. apply IH. exact Ht.
Qed.

Lemma title_length : forall l prev, length (title_aux prev l) = length l.
Proof. induction l as [|c t IH]; intros prev; [reflexivity|]. cbn. f_equal. apply IH. Qed.

(* a header (name, value) a sender may hold: name a token (no ':' / white space), value without
   CR / LF and without white space at either end *)
Definition hdr_ok (kv : bytes * bytes) : bool := name_ok (fst kv) && value_ok (snd kv).
Definition hdr_len_ok (cf : cfg) (kv : bytes * bytes) : bool := len (fst kv) + 2 + len (snd kv) <=? maxline cf.

Lemma pack_ok kv : hdr_ok kv = true -> hline_ok (pack kv) = true.
Proof.
  unfold hdr_ok, hline_ok, pack. intros H. apply andb_true_iff in H. destruct H as [A B].
  cbn [hl_name hl_value hl_pre hl_post]. rewrite (title_name_ok _ A), B. reflexivity.
Qed.

Lemma pack_len_ok cf kv : hdr_len_ok cf kv = true -> line_len_ok cf (pack kv) = true.
Proof.
  unfold hdr_len_ok, line_len_ok, pack, len. intros H. apply Z.leb_le in H. apply Z.leb_le.
  cbn [hl_name hl_value hl_pre hl_post]. rewrite !app_length. unfold title. rewrite title_length.
  cbn [length app]. lia.
Qed.

(* the header map the receiver builds from the packed lines of a sender's lodict IS that lodict *)
Definition lodict_ok (h : hdrs) : Prop :=
  NoDup (keys h) /\ Forall (fun k => lower k = k) (keys h).

Lemma hdrs_of_pack : forall h, lodict_ok h -> hdrs_of (map pack h) = h.
Proof.
  intros h [Hn Hl]. unfold hdrs_of.
  assert (E : forall (l : hdrs) acc,
            fold_left (fun a x => aset (lower (hl_name x)) (hl_value x) a) (map pack l) acc =
            fold_left (fun a kv => aset (fst kv) (snd kv) a) (map (fun kv => (lower (fst kv), snd kv)) l) acc).
  { induction l as [|kv l IH]; intros acc; [reflexivity|]. cbn [map fold_left pack hl_name hl_value fst snd].
    unfold title. rewrite title_lower. apply IH. }
  rewrite E.
  assert (M : map (fun kv : bytes * bytes => (lower (fst kv), snd kv)) h = h).
  { clear E Hn. induction h as [|[k v] t IH]; [reflexivity|]. cbn [map fst snd].
    inversion Hl as [|x l Hk Ht]; subst. rewrite Hk. f_equal. apply IH. exact Ht. }
  rewrite M. rewrite fold_aset_nodup; [reflexivity|exact Hn].
Qed.

(* ---------------------------------------------------------------- Responder.build + write *)

Definition K_CL := bz "content-length".
Definition K_TE := bz "transfer-encoding".
Definition K_SERVER := bz "server".
Definition K_DATE := bz "date".
Definition V_CHUNKED := bz "chunked".
Definition V_SERVER := bz "Ioflo WSGI Server".

Definition has (k : bytes) (h : hdrs) : bool := match aget k h with Some _ => true | None => false end.

(* Responder.build on .headers (a lodict): Server and Date added when absent; Transfer-Encoding:
   chunked added when .chunkable and absent.  .chunkable = request is HTTP/1.1 and start() saw no
   content-length *)
Definition responder_headers (v11 : bool) (date : bytes) (h : hdrs) : hdrs :=
  let h1 := if has K_SERVER h then h else h ++ [(K_SERVER, V_SERVER)] in
  let h2 := if has K_DATE h1 then h1 else h1 ++ [(K_DATE, date)] in
  let chunkable := v11 && negb (has K_CL h) in
  if chunkable && negb (has K_TE h2) then h2 ++ [(K_TE, V_CHUNKED)] else h2.

(* the head bytes: "HTTP/1.1 <status> <reason>" CRLF, one packHeader line per header, CRLF *)
Definition responder_head (ds : list Z) (reason : list bytes) (H : hdrs) : bytes :=
  head_bytes (status_line true ds reason) LCrLf (map pack H) LCrLf.

(* the body bytes of Responder.write: raw under a content-length, one chunk per non-empty piece
   plus the empty chunk when chunked *)
Definition hexd (n : Z) : list Z := V.C30.Percent.hex_of 16 n.
Definition piece_chunk (size_digits : list Z) (p : bytes) : chunk := (size_digits, [], p).

Section Response.
  Variable cf : cfg.
  Hypothesis cf_line : 0 <= maxline cf.

  Variables (ds : list Z) (reason : list bytes) (H : hdrs).
  Hypothesis status_good : status_ok ds = true.
  Hypothesis reason_good : forallb tok_ok reason = true.
  Hypothesis start_short : len (status_line true ds reason) <= maxline cf.
  Hypothesis H_lodict : lodict_ok H.
  Hypothesis H_ok : forallb hdr_ok H = true.
  Hypothesis H_short : forallb (hdr_len_ok cf) H = true.
  Hypothesis H_count : Z.of_nat (length H) <= maxhdrs cf.

  Lemma lines_ok : forallb hline_ok (map pack H) = true /\ forallb (line_len_ok cf) (map pack H) = true /\
                   Z.of_nat (length (map pack H)) <= maxhdrs cf.
  Proof.
    split; [|split].
    - rewrite forallb_forall in *. intros l Hl. apply in_map_iff in Hl. destruct Hl as [kv [E Hkv]]. subst.
      apply pack_ok. apply H_ok. exact Hkv.
    - rewrite forallb_forall in *. intros l Hl. apply in_map_iff in Hl. destruct Hl as [kv [E Hkv]]. subst.
      apply pack_len_ok. apply H_short. exact Hkv.
    - rewrite map_length. exact H_count.
  Qed.

  (* FIXED LENGTH: the client ends in SDone with the responder's status, reason, its whole header
     lodict (names lower case, in order) and the body; the following bytes are untouched *)
  Lemma response_fixed : forall hr body rest,
    is_chunked H = false -> response_length hr (dval 10 ds 0) H = Some (len body) ->
    let k := http_feed cf (init_pst true hr, []) (responder_head ds reason H ++ body ++ rest) in
    snd k = rest /\ p_stage (fst k) = SDone /\ p_status (fst k) = dval 10 ds 0 /\
    p_start (fst k) = [join_with [32] reason] /\ p_headers (fst k) = H /\ p_body (fst k) = body.
  Proof.
    intros hr body rest Hc Hl. destruct lines_ok as [A [B C]].
    pose proof (hdrs_of_pack H H_lodict) as E.
    unfold responder_head.
    rewrite (response_fixed_roundtrip cf hr true ds reason LCrLf (map pack H) LCrLf body rest); try assumption.
    - cbn [fst snd]. unfold with_body, resp_headed, head_done. rewrite E.
      cbn [p_resp set_start init_pst]. cbn. repeat split; reflexivity.
    - rewrite E. exact Hc.
    - rewrite E. exact Hl.
  Qed.

  (* CHUNKED: any pieces (each with a hex size numeral, lower or upper case digits, as C29 allows) *)
  Lemma response_chunked : forall hr (chunks : list chunk) rest,
    is_chunked H = true -> forallb (chunk_ok cf) chunks = true -> zeros_ok cf [0] [] = true ->
    let k := http_feed cf (init_pst true hr, [])
                       (responder_head ds reason H ++ chunked_bytes chunks [0] [] [] LCrLf ++ rest) in
    snd k = rest /\ p_stage (fst k) = SDone /\ p_status (fst k) = dval 10 ds 0 /\
    p_start (fst k) = [join_with [32] reason] /\ p_headers (fst k) = H /\
    p_body (fst k) = concat (map ch_data chunks).
  Proof.
    intros hr chunks rest Hc Hck Hz. destruct lines_ok as [A [B C]].
    pose proof (hdrs_of_pack H H_lodict) as E.
    unfold responder_head.
    rewrite (response_chunked_roundtrip cf hr true ds reason LCrLf (map pack H) LCrLf chunks [0] [] [] LCrLf rest);
      try assumption; try reflexivity.
    - cbn [fst snd]. unfold with_chunked, resp_headed, head_done. rewrite E.
      cbn [p_resp set_start init_pst]. cbn. repeat split; reflexivity.
    - rewrite E. exact Hc.
    - cbn. lia.
  Qed.
End Response.

(* ---------------------------------------------------------------- Responder.build's own header lodict *)

Lemma aget_app {V} : forall (h : list (bytes * V)) k k' v,
  aget k (h ++ [(k', v)]) = match aget k h with Some x => Some x | None => if beq k k' then Some v else None end.
Proof.
  induction h as [|[a b] t IH]; intros k k' v; [reflexivity|].
  cbn [app aget]. destruct (beq k a); [reflexivity|apply IH].
Qed.

Lemma aget_app_keep {V} (h : list (bytes * V)) k v k' v' : aget k h = Some v -> aget k (h ++ [(k', v')]) = Some v.
Proof. intros H. rewrite aget_app, H. reflexivity. Qed.

Lemma aget_none_notin {V} : forall (h : list (bytes * V)) k, aget k h = None -> ~ In k (keys h).
Proof.
  induction h as [|[a b] t IH]; intros k H Hi; [contradiction|].
  cbn [aget] in H. destruct (beq k a) eqn:E; [discriminate|]. destruct Hi as [Hi|Hi].
  - cbn in Hi. subst. rewrite beq_refl in E. discriminate.
  - exact (IH k H Hi).
Qed.

Lemma lodict_app h k v : lodict_ok h -> aget k h = None -> lower k = k -> lodict_ok (h ++ [(k, v)]).
Proof.
  intros [Hn Hl] Ha Hk. split.
  - unfold keys. rewrite map_app. cbn [map fst].
    assert (Hni := aget_none_notin h k Ha).
    clear Hl Ha. unfold keys in *. induction (map fst h) as [|a t IH]; [constructor; [intros []|constructor]|].
    inversion Hn as [|x l Hx Ht]; subst. cbn [app]. constructor.
    + intro Hi. apply in_app_or in Hi. destruct Hi as [Hi|[Hi|[]]]; [contradiction|].
      apply Hni. left. symmetry. exact Hi.
    + apply IH; [exact Ht|]. intro Hi. apply Hni. right. exact Hi.
  - unfold keys. rewrite map_app. apply Forall_app. split; [exact Hl|]. constructor; [exact Hk|constructor].
Qed.

Lemma has_false k (h : hdrs) : has k h = false -> aget k h = None.
Proof. unfold has. destruct (aget k h); [discriminate|reflexivity]. Qed.

Lemma responder_headers_lodict v11 date h : lodict_ok h -> lodict_ok (responder_headers v11 date h).
Proof.
  intros H0. unfold responder_headers.
  set (h1 := if has K_SERVER h then h else h ++ [(K_SERVER, V_SERVER)]).
  assert (H1 : lodict_ok h1).
  { unfold h1. destruct (has K_SERVER h) eqn:E; [exact H0|]. apply lodict_app; [exact H0|apply has_false; exact E|reflexivity]. }
  set (h2 := if has K_DATE h1 then h1 else h1 ++ [(K_DATE, date)]).
  assert (H2 : lodict_ok h2).
  { unfold h2. destruct (has K_DATE h1) eqn:E; [exact H1|]. apply lodict_app; [exact H1|apply has_false; exact E|reflexivity]. }
  destruct (v11 && negb (has K_CL h) && negb (has K_TE h2)) eqn:E; [|exact H2].
  apply lodict_app; [exact H2| |reflexivity].
  apply andb_true_iff in E. destruct E as [_ E]. apply negb_true_iff in E. apply has_false. exact E.
Qed.

(* the framing the client will read off Responder's headers: an application that declares a
   content-length (and no transfer-encoding of its own) is never chunked; one that declares
   neither is chunked iff the request was HTTP/1.1 *)
Lemma responder_headers_te v11 date h : has K_TE h = false ->
  aget K_TE (responder_headers v11 date h) = if v11 && negb (has K_CL h) then Some V_CHUNKED else None.
Proof.
  intros Hte. unfold responder_headers.
  set (h1 := if has K_SERVER h then h else h ++ [(K_SERVER, V_SERVER)]).
  assert (A1 : aget K_TE h1 = None).
  { unfold h1. destruct (has K_SERVER h); [apply has_false; exact Hte|]. rewrite aget_app, (has_false _ _ Hte). reflexivity. }
  set (h2 := if has K_DATE h1 then h1 else h1 ++ [(K_DATE, date)]).
  assert (A2 : aget K_TE h2 = None).
  { unfold h2. destruct (has K_DATE h1); [exact A1|]. rewrite aget_app, A1. reflexivity. }
  assert (Hh : has K_TE h2 = false) by (unfold has; rewrite A2; reflexivity).
  rewrite Hh. cbn [negb]. rewrite andb_true_r.
  destruct (v11 && negb (has K_CL h)); [|exact A2]. rewrite aget_app, A2. reflexivity.
Qed.

Lemma responder_is_chunked v11 date h : has K_TE h = false ->
  is_chunked (responder_headers v11 date h) = v11 && negb (has K_CL h).
Proof.
  intros Hte. unfold is_chunked. change (bz "transfer-encoding") with K_TE.
  rewrite (responder_headers_te v11 date h Hte). destruct (v11 && negb (has K_CL h)); reflexivity.
Qed.

Lemma responder_keeps v11 date h k v : aget k h = Some v -> aget k (responder_headers v11 date h) = Some v.
Proof.
  intros Ha. unfold responder_headers. cbv zeta.
  set (h1 := if has K_SERVER h then h else h ++ [(K_SERVER, V_SERVER)]).
  assert (A1 : aget k h1 = Some v) by (unfold h1; destruct (has K_SERVER h); [exact Ha|rewrite aget_app, Ha; reflexivity]).
  set (h2 := if has K_DATE h1 then h1 else h1 ++ [(K_DATE, date)]).
  assert (A2 : aget k h2 = Some v) by (unfold h2; destruct (has K_DATE h1); [exact A1|rewrite aget_app, A1; reflexivity]).
  match goal with |- context [if ?c then _ else _] => destruct c end; [apply aget_app_keep; exact A2|exact A2].
Qed.

(* ---------------------------------------------------------------- response_roundtrip *)

Definition body_allowed (status : Z) : bool :=
  negb ((status =? 204) || (status =? 304) || ((100 <=? status) && (status <? 200))).

Section ResponseRoundTrip.
  Variable cf : cfg.
  Hypothesis cf_line : 0 <= maxline cf.
  Variables (v11 : bool) (date : bytes) (h : hdrs) (ds : list Z) (reason : list bytes).
  Hypothesis status_good : status_ok ds = true.
  Hypothesis status_body : body_allowed (dval 10 ds 0) = true.
  Hypothesis reason_good : forallb tok_ok reason = true.
  Hypothesis start_short : len (status_line true ds reason) <= maxline cf.
  (* the application's headers as Responder.start stores them (lodict: lower-case, distinct names),
     none of them Transfer-Encoding *)
  Hypothesis h_lodict : lodict_ok h.
  Hypothesis h_no_te : has K_TE h = false.
  Let H := responder_headers v11 date h.
  Hypothesis H_ok : forallb hdr_ok H = true.
  Hypothesis H_short : forallb (hdr_len_ok cf) H = true.
  Hypothesis H_count : Z.of_nat (length H) <= maxhdrs cf.

  Lemma H_lodict : lodict_ok H.
  Proof. apply responder_headers_lodict. exact h_lodict. Qed.

  (* the application declared Content-Length: <cls> = len body *)
  Lemma response_roundtrip_length : forall cls body rest,
    aget K_CL h = Some (num cls) -> cls <> [] -> digits_ok 10 cls = true -> len cls <= 4300 ->
    dval 10 cls 0 = len body ->
    let k := http_feed cf (init_pst true false, []) (responder_head ds reason H ++ body ++ rest) in
    snd k = rest /\ p_stage (fst k) = SDone /\ p_status (fst k) = dval 10 ds 0 /\
    p_start (fst k) = [join_with [32] reason] /\ p_headers (fst k) = H /\ p_body (fst k) = body.
  Proof.
    intros cls body rest Hcl Hne Hd Hl Hv.
    assert (Hhas : has K_CL h = true) by (unfold has; rewrite Hcl; reflexivity).
    assert (Hch : is_chunked H = false).
    { unfold H. rewrite responder_is_chunked by exact h_no_te. rewrite Hhas. cbn. apply andb_false_r. }
    apply (response_fixed cf cf_line ds reason H status_good reason_good start_short H_lodict H_ok H_short H_count);
      [exact Hch|].
    unfold response_length. unfold body_allowed in status_body. apply negb_true_iff in status_body.
    rewrite orb_false_r, status_body, Hch.
    rewrite (content_length_of_header H cls); [rewrite Hv; reflexivity| |assumption..].
    apply responder_keeps. exact Hcl.
  Qed.

  (* the application declared no length, the request was HTTP/1.1: chunked, one chunk per piece *)
  Lemma response_roundtrip_chunked : forall (chunks : list chunk) rest,
    v11 = true -> has K_CL h = false -> forallb (chunk_ok cf) chunks = true -> zeros_ok cf [0] [] = true ->
    let k := http_feed cf (init_pst true false, [])
                       (responder_head ds reason H ++ chunked_bytes chunks [0] [] [] LCrLf ++ rest) in
    snd k = rest /\ p_stage (fst k) = SDone /\ p_status (fst k) = dval 10 ds 0 /\
    p_start (fst k) = [join_with [32] reason] /\ p_headers (fst k) = H /\
    p_body (fst k) = concat (map ch_data chunks).
  Proof.
    intros chunks rest Hv Hcl Hck Hz.
    apply (response_chunked cf cf_line ds reason H status_good reason_good start_short H_lodict H_ok H_short H_count);
      try assumption.
    unfold H. rewrite responder_is_chunked by exact h_no_te. rewrite Hv, Hcl. reflexivity.
  Qed.

  (* every header of the application reaches the client under its lower-case name *)
  Lemma response_headers_arrive : forall k v, aget k h = Some v -> aget k H = Some v.
  Proof. intros k v. apply responder_keeps. Qed.
End ResponseRoundTrip.

(* ---------------------------------------------------------------- Requester.build *)

Definition K_HOST := bz "host".
Definition K_AE := bz "accept-encoding".
Definition V_IDENTITY := bz "identity".

(* the header lines of Requester.build, in order: Host and Accept-Encoding when the caller gave
   none, Content-Length when there is a body and the caller gave none, then the caller's headers
   (user = Requester.headers, a lodict, after the content-type override for JSON / form bodies).
   cls = decimal digits of len body *)
Definition requester_headers (hostport : bytes) (user : hdrs) (body : bytes) (cls : list Z) : hdrs :=
  (if has K_HOST user then [] else [(K_HOST, hostport)]) ++
  (if has K_AE user then [] else [(K_AE, V_IDENTITY)]) ++
  (match body with [] => [] | _ => if has K_CL user then [] else [(K_CL, num cls)] end) ++
  user.

Definition requester_head (method url : bytes) (L : hdrs) : bytes :=
  head_bytes (request_line method url true) LCrLf (map pack L) LCrLf.

Lemma aget_cat {V} : forall (a b : list (bytes * V)) k,
  aget k (a ++ b) = match aget k a with Some x => Some x | None => aget k b end.
Proof.
  induction a as [|[x y] t IH]; intros b k; [reflexivity|].
  cbn [app aget]. destruct (beq k x); [reflexivity|apply IH].
Qed.

(* what the server's framing decision reads off those headers *)
Lemma requester_framing hostport user body cls :
  has K_TE user = false -> has K_CL user = false ->
  aget K_TE (requester_headers hostport user body cls) = None /\
  aget K_CL (requester_headers hostport user body cls) = match body with [] => None | _ => Some (num cls) end.
Proof.
  intros Hte Hcl. unfold requester_headers. rewrite Hcl.
  pose proof (has_false _ _ Hte) as A. pose proof (has_false _ _ Hcl) as B.
  split.
  - rewrite !aget_cat, A. destruct (has K_HOST user); destruct (has K_AE user); destruct body; reflexivity.
  - rewrite !aget_cat, B. destruct (has K_HOST user); destruct (has K_AE user); destruct body; reflexivity.
Qed.

(* ---------------------------------------------------------------- Valet.buildEnviron *)

(* key.replace("-", "_").upper() with "HTTP_" in front (ASCII names) *)
Definition env_char (c : Z) : Z := if c =? 45 then 95 else if is_lo c then c - 32 else c.
Definition env_key (k : bytes) : bytes := bz "HTTP_" ++ map env_char k.
(* the loop over requestant.headers.items(): environ[key] = value (odict assignment) *)
Definition environ_http (h : hdrs) : hdrs :=
  fold_left (fun acc kv => aset (env_key (fst kv)) (snd kv) acc) h [].

Lemma environ_http_map : forall (h acc : hdrs),
  fold_left (fun (a : hdrs) (kv : bytes * bytes) => aset (env_key (fst kv)) (snd kv) a) h acc =
  fold_left (fun (a : hdrs) (kv : bytes * bytes) => aset (fst kv) (snd kv) a)
            (map (fun kv : bytes * bytes => (env_key (fst kv), snd kv)) h) acc.
Proof. induction h as [|kv t IH]; intros acc; [reflexivity|]. cbn [map fold_left fst snd]. apply IH. Qed.

Lemma environ_keys : forall h k v, NoDup (map env_key (keys h)) -> In (k, v) h ->
  aget (env_key k) (environ_http h) = Some v.
Proof.
  intros h k v Hn Hi. unfold environ_http. rewrite environ_http_map.
  assert (Hk : keys (map (fun kv : bytes * bytes => (env_key (fst kv), snd kv)) h) = map env_key (keys h)).
  { unfold keys. rewrite !map_map. reflexivity. }
  assert (Hn' : NoDup (keys (@nil (bytes * bytes)) ++ keys (map (fun kv : bytes * bytes => (env_key (fst kv), snd kv)) h))).
  { rewrite Hk. exact Hn. }
  unfold hdrs. rewrite (fold_aset_nodup _ _ Hn').
  cbn [app]. apply aget_in; [rewrite Hk; exact Hn|].
  apply in_map_iff. exists (k, v). split; [reflexivity|exact Hi].
Qed.

(* ---------------------------------------------------------------- request_roundtrip *)

Section RequestRoundTrip.
  Variable cf : cfg.
  Hypothesis cf_line : 0 <= maxline cf.
  Variables (method url hostport : bytes) (user : hdrs) (body : bytes) (cls : list Z).
  Hypothesis method_tok : tok_ok method = true.
  Hypothesis method_known : existsb (beq method) METHODS = true.
  Hypothesis url_tok : tok_ok url = true.
  Hypothesis url_allowed : url_ok cf url = true.
  Hypothesis start_short : len (request_line method url true) <= maxline cf.
  Hypothesis user_no_te : has K_TE user = false.
  Hypothesis user_no_cl : has K_CL user = false.
  Hypothesis cls_digits : cls <> [] /\ digits_ok 10 cls = true /\ len cls <= 4300 /\ dval 10 cls 0 = len body.
  Let L := requester_headers hostport user body cls.
  Hypothesis L_lodict : lodict_ok L.
  Hypothesis L_ok : forallb hdr_ok L = true.
  Hypothesis L_short : forallb (hdr_len_ok cf) L = true.
  Hypothesis L_count : Z.of_nat (length L) <= maxhdrs cf.

  (* the server ends in SDone with the client's method, request target, its header lines as a
     lower-case keyed map in order, and the body; the next message is untouched *)
  Lemma request_roundtrip_lemma : forall rest,
    let k := http_feed cf (init_pst false false, []) (requester_head method url L ++ body ++ rest) in
    snd k = rest /\ p_stage (fst k) = SDone /\ p_start (fst k) = [method; url] /\ p_version (fst k) = 1 /\
    p_headers (fst k) = L /\ p_body (fst k) = body /\ p_length (fst k) = Some (len body).
  Proof.
    intros rest. destruct cls_digits as [Hne [Hd [Hl Hv]]].
    destruct (requester_framing hostport user body cls user_no_te user_no_cl) as [Fte Fcl]. fold L in Fte, Fcl.
    assert (Hfr : is_chunked L = false /\ request_length L = Some (len body)).
    { destruct body as [|b0 bt] eqn:Eb.
      - change (len []) with 0. apply request_length_nobody; assumption.
      - rewrite <- Hv. apply request_length_fixed; assumption. }
    destruct Hfr as [Hch Hrl].
    pose proof (hdrs_of_pack L L_lodict) as E.
    assert (A : forallb hline_ok (map pack L) = true).
    { rewrite forallb_forall in *. intros l Hl'. apply in_map_iff in Hl'. destruct Hl' as [kv [Ek Hkv]]. subst.
      apply pack_ok. apply L_ok. exact Hkv. }
    assert (B : forallb (line_len_ok cf) (map pack L) = true).
    { rewrite forallb_forall in *. intros l Hl'. apply in_map_iff in Hl'. destruct Hl' as [kv [Ek Hkv]]. subst.
      apply pack_len_ok. apply L_short. exact Hkv. }
    unfold requester_head.
    rewrite (request_fixed_roundtrip cf method url true LCrLf (map pack L) LCrLf body rest); try assumption.
    - cbn [fst snd]. unfold with_body, req_headed, head_done. rewrite E.
      cbn [p_resp set_start init_pst]. rewrite Hch, Hrl. cbn. repeat split; reflexivity.
    - rewrite map_length. exact L_count.
    - rewrite E. exact Hch.
    - rewrite E. exact Hrl.
  Qed.

  (* ... and every header line the client sent is presented to the WSGI application under its
     HTTP_* key, provided the keys do not collide (e.g. "x-a" / "x_a") *)
  Lemma request_environ_lemma : forall rest k v,
    NoDup (map env_key (keys L)) -> In (k, v) L ->
    aget (env_key k) (environ_http (p_headers (fst (http_feed cf (init_pst false false, [])
                                                               (requester_head method url L ++ body ++ rest))))) = Some v.
  Proof.
    intros rest k v Hn Hi. destruct (request_roundtrip_lemma rest) as [_ [_ [_ [_ [Hh _]]]]].
    rewrite Hh. apply environ_keys; assumption.
  Qed.
End RequestRoundTrip.

(* ---------------------------------------------------------------- request target: PATH_INFO / QUERY_STRING *)

Module P := V.C30.Percent.
Module PP := V.C30.PercentProofs.
Module M := V.C30.Model.
Module MP := V.C30.Proofs.

(* Requester.build: quote(path) [ '?' query ] with query = updateQargsQuery's string *)
Definition request_target (path : bytes) (qargs : list (bytes * bytes)) : bytes :=
  P.quote P.safe_slash path ++ match qargs with [] => [] | _ => 63 :: M.build_query qargs end.

(* Requestant.parseHead: urlsplit(url): path up to the first '?', query after it *)
Fixpoint cut_q (l : bytes) : bytes * bytes :=
  match l with
  | [] => ([], [])
  | c :: t => if c =? 63 then ([], t) else let '(a, b) := cut_q t in (c :: a, b)
  end.

Lemma cut_q_app : forall a b, ~ In 63 a -> cut_q (a ++ 63 :: b) = (a, b).
Proof.
  induction a as [|c t IH]; intros b H; [reflexivity|].
  cbn [app cut_q]. assert (E : c =? 63 = false) by (apply Z.eqb_neq; intro X; apply H; left; exact X).
  rewrite E, IH; [reflexivity|]. intro Hi. apply H. right. exact Hi.
Qed.

Lemma cut_q_none : forall a, ~ In 63 a -> cut_q a = (a, []).
Proof.
  induction a as [|c t IH]; intros H; [reflexivity|].
  cbn [cut_q]. assert (E : c =? 63 = false) by (apply Z.eqb_neq; intro X; apply H; left; exact X).
  rewrite E, IH; [reflexivity|]. intro Hi. apply H. right. exact Hi.
Qed.

(* PATH_INFO = unquote(path part) is the client's path; QUERY_STRING decodes (with ioflo's own
   decoder) to the client's query arguments *)
Lemma target_roundtrip : forall path qargs,
  P.bytes_ok path = true ->
  Forall (fun kv => MP.key_ok (fst kv) /\ P.bytes_ok (snd kv) = true) qargs -> NoDup (map fst qargs) ->
  let '(p, q) := cut_q (request_target path qargs) in
  P.unquote p = path /\ M.parse_query q = qargs.
Proof.
  intros path qargs Hp Hq Hn. unfold request_target.
  destruct (PP.quote_slash_no_sep path Hp) as [Hno _].
  destruct qargs as [|kv qs] eqn:E.
  - rewrite app_nil_r, cut_q_none by exact Hno. split; [apply PP.unquote_quote; [reflexivity|exact Hp]|reflexivity].
  - rewrite cut_q_app by exact Hno. split; [apply PP.unquote_quote; [reflexivity|exact Hp]|].
    apply MP.query_roundtrip_lemma; assumption.
Qed.
