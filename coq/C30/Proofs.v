From Coq Require Import List ZArith Bool Lia.
Import ListNotations.
Require Import V.C30.Percent V.C30.PercentProofs V.C30.Model.
Open Scope Z_scope.

(* ---------------------------------------------------------------- generic helpers *)

Lemma memZ_In : forall x l, memZ x l = true <-> In x l.
Proof.
  intros x l. unfold memZ. rewrite existsb_exists. split.
  - intros [y [Hy He]]. apply Z.eqb_eq in He. subst. exact Hy.
  - intros H. exists x. split; [exact H|apply Z.eqb_refl].
Qed.

Lemma memZ_false : forall x l, ~ In x l -> memZ x l = false.
Proof.
  intros x l H. destruct (memZ x l) eqn:E; [|reflexivity]. apply memZ_In in E. contradiction.
Qed.

Lemma bytes_eqb_eq : forall a b, bytes_eqb a b = true <-> a = b.
Proof.
  induction a as [|x a IH]; destruct b as [|y b]; cbn; split; intro H; try reflexivity; try discriminate.
  - apply andb_true_iff in H. destruct H as [H1 H2]. apply Z.eqb_eq in H1. apply IH in H2. congruence.
  - inversion H; subst. rewrite Z.eqb_refl. cbn. apply IH. reflexivity.
Qed.

Lemma bytes_eqb_neq : forall a b, a <> b -> bytes_eqb a b = false.
Proof.
  intros a b H. destruct (bytes_eqb a b) eqn:E; [|reflexivity]. apply bytes_eqb_eq in E. contradiction.
Qed.

Lemma split_on_nosep : forall sep p, ~ In sep p -> split_on sep p = [p].
Proof.
  induction p as [|c t IH]; intros H; [reflexivity|].
  cbn [split_on]. assert (Hc : c =? sep = false).
  { apply Z.eqb_neq. intro E. apply H. left. exact E. }
  rewrite Hc. rewrite IH; [reflexivity|]. intro Hi. apply H. right. exact Hi.
Qed.

Lemma split_on_app : forall sep p rest, ~ In sep p ->
  split_on sep (p ++ sep :: rest) = p :: split_on sep rest.
Proof.
  induction p as [|c t IH]; intros rest H.
  - cbn. rewrite Z.eqb_refl. reflexivity.
  - cbn [app split_on]. assert (Hc : c =? sep = false).
    { apply Z.eqb_neq. intro E. apply H. left. exact E. }
    rewrite Hc. rewrite IH; [reflexivity|]. intro Hi. apply H. right. exact Hi.
Qed.

Lemma split_join : forall sep parts, parts <> [] -> Forall (fun p => ~ In sep p) parts ->
  split_on sep (join sep parts) = parts.
Proof.
  induction parts as [|p ps IH]; intros Hne H; [contradiction|].
  inversion H as [|x l Hp Hps]; subst. destruct ps as [|p2 ps'].
  - cbn. apply split_on_nosep. exact Hp.
  - cbn [join]. rewrite split_on_app by exact Hp. f_equal. apply IH; [discriminate|exact Hps].
Qed.

Lemma in_join : forall sep parts x, In x (join sep parts) -> x = sep \/ exists p, In p parts /\ In x p.
Proof.
  induction parts as [|p ps IH]; intros x H; [contradiction|].
  destruct ps as [|p2 ps'].
  - cbn in H. right. exists p. split; [left; reflexivity|exact H].
  - cbn [join] in H. apply in_app_or in H. destruct H as [H|[H|H]].
    + right. exists p. split; [left; reflexivity|exact H].
    + left. symmetry. exact H.
    + destruct (IH x H) as [E|[q [Hq Hx]]]; [left; exact E|].
      right. exists q. split; [right; exact Hq|exact Hx].
Qed.

Lemma cut_eq_app : forall k v, ~ In EQ k -> cut_eq (k ++ EQ :: v) = (k, Some v).
Proof.
  induction k as [|c t IH]; intros v H.
  - cbn. reflexivity.
  - cbn [app cut_eq]. assert (Hc : c =? EQ = false).
    { apply Z.eqb_neq. intro E. apply H. left. exact E. }
    rewrite Hc. rewrite IH; [reflexivity|]. intro Hi. apply H. right. exact Hi.
Qed.

Lemma safe_none_wf : safe_wf safe_none = true.
Proof. reflexivity. Qed.

(* ---------------------------------------------------------------- (1) query *)

Definition key_ok (k : bytes) : Prop := ~ In AMP k /\ ~ In SEMI k /\ ~ In EQ k.

Lemma assoc_set_fresh : forall k v l, ~ In k (map fst l) -> assoc_set k v l = l ++ [(k, v)].
Proof.
  induction l as [|[k' v'] t IH]; intros H; [reflexivity|].
  cbn [assoc_set]. rewrite bytes_eqb_neq.
  - cbn [app]. f_equal. apply IH. intro Hi. apply H. right. exact Hi.
  - intro E. apply H. left. symmetry. exact E.
Qed.

Lemma dec_enc_qarg : forall acc k v, ~ In EQ k -> bytes_ok v = true ->
  dec_qpart acc (enc_qarg (k, v)) = assoc_set k v acc.
Proof.
  intros acc k v Hk Hv. unfold dec_qpart, enc_qarg. cbn [fst snd].
  rewrite cut_eq_app by exact Hk.
  rewrite unquote_plus_quote_plus by (auto using safe_none_wf).
  destruct k; reflexivity.
Qed.

Lemma fold_dec_qargs : forall pairs acc,
  Forall (fun kv => key_ok (fst kv) /\ bytes_ok (snd kv) = true) pairs ->
  NoDup (map fst acc ++ map fst pairs) ->
  fold_left dec_qpart (map enc_qarg pairs) acc = acc ++ pairs.
Proof.
  induction pairs as [|[k v] ps IH]; intros acc H Hnd.
  - cbn. rewrite app_nil_r. reflexivity.
  - inversion H as [|x l [[_ [_ Hk]] Hv] Hps]; subst. cbn [fst snd] in Hk, Hv.
    cbn [map fold_left]. rewrite dec_enc_qarg by assumption.
    assert (Hfresh : ~ In k (map fst acc)).
    { cbn [map fst] in Hnd. apply NoDup_remove_2 in Hnd. intro Hi. apply Hnd. apply in_or_app. left. exact Hi. }
    rewrite assoc_set_fresh by exact Hfresh.
    rewrite IH.
    + rewrite <- app_assoc. reflexivity.
    + exact Hps.
    + rewrite map_app. cbn [map fst]. rewrite <- app_assoc. exact Hnd.
Qed.

Lemma enc_qarg_nosep : forall sep k v, sep <> EQ -> ~ In sep k -> bytes_ok v = true ->
  (sep = AMP \/ sep = SEMI) -> ~ In sep (enc_qarg (k, v)).
Proof.
  intros sep k v Hne Hk Hv Hs Hin. unfold enc_qarg in Hin. cbn [fst snd] in Hin.
  apply in_app_or in Hin. destruct Hin as [Hin|[Hin|Hin]].
  - contradiction.
  - apply Hne. symmetry. exact Hin.
  - destruct (quote_plus_none_no_sep v Hv) as [A [_ [S _]]].
    destruct Hs; subst; contradiction.
Qed.

Lemma query_roundtrip_lemma : forall pairs,
  Forall (fun kv => key_ok (fst kv) /\ bytes_ok (snd kv) = true) pairs ->
  NoDup (map fst pairs) ->
  parse_query (build_query pairs) = pairs.
Proof.
  intros pairs H Hnd. unfold parse_query, parse_query_into, build_query.
  assert (Hsemi : memZ SEMI (join AMP (map enc_qarg pairs)) = false).
  { apply memZ_false. intro Hin. apply in_join in Hin. destruct Hin as [E|[p [Hp Hx]]]; [discriminate|].
    apply in_map_iff in Hp. destruct Hp as [[k v] [E Hkv]]. subst p.
    rewrite Forall_forall in H. destruct (H _ Hkv) as [[_ [Hs _]] Hv]. cbn [fst snd] in Hs, Hv.
    revert Hx. apply enc_qarg_nosep; auto; discriminate. }
  rewrite Hsemi. destruct pairs as [|kv ps] eqn:Ep; [reflexivity|]. rewrite <- Ep in *.
  rewrite split_join.
  - rewrite fold_dec_qargs; [reflexivity|exact H|exact Hnd].
  - rewrite Ep. discriminate.
  - apply Forall_forall. intros p Hp. apply in_map_iff in Hp. destruct Hp as [[k v] [E Hkv]]. subst p.
    rewrite Forall_forall in H. destruct (H _ Hkv) as [[Ha _] Hv]. cbn [fst snd] in Ha, Hv.
    apply enc_qarg_nosep; auto; discriminate.
Qed.

(* ---------------------------------------------------------------- (1) form *)

Lemma dec_enc_farg : forall k v, bytes_ok k = true -> bytes_ok v = true ->
  dec_fpart (enc_farg (k, v)) = [(k, v)].
Proof.
  intros k v Hk Hv. unfold dec_fpart, enc_farg. cbn [fst snd].
  destruct (quote_plus_none_no_sep k Hk) as [_ [He _]].
  rewrite cut_eq_app by exact He.
  rewrite !unquote_plus_quote_plus by (auto using safe_none_wf).
  destruct (quote_plus safe_none k); reflexivity.
Qed.

Lemma enc_farg_noamp : forall k v, bytes_ok k = true -> bytes_ok v = true -> ~ In AMP (enc_farg (k, v)).
Proof.
  intros k v Hk Hv Hin. unfold enc_farg in Hin. cbn [fst snd] in Hin.
  apply in_app_or in Hin. destruct Hin as [Hin|[Hin|Hin]].
  - destruct (quote_plus_none_no_sep k Hk) as [A _]. contradiction.
  - discriminate.
  - destruct (quote_plus_none_no_sep v Hv) as [A _]. contradiction.
Qed.

Lemma form_roundtrip_lemma : forall fargs,
  Forall (fun kv => bytes_ok (fst kv) = true /\ bytes_ok (snd kv) = true) fargs ->
  parse_form (build_form fargs) = fargs.
Proof.
  intros fargs H. unfold parse_form, build_form.
  destruct fargs as [|kv ps] eqn:Ep; [reflexivity|]. rewrite <- Ep in *.
  rewrite split_join.
  - clear Ep. induction fargs as [|[k v] t IH]; [reflexivity|].
    inversion H as [|x l [Hk Hv] Ht]; subst. cbn [fst snd] in Hk, Hv.
    cbn [map flat_map]. rewrite dec_enc_farg by assumption. cbn [app]. f_equal. apply IH. exact Ht.
  - rewrite Ep. discriminate.
  - apply Forall_forall. intros p Hp. apply in_map_iff in Hp. destruct Hp as [[k v] [E Hkv]]. subst p.
    rewrite Forall_forall in H. destruct (H _ Hkv) as [Hk Hv]. apply enc_farg_noamp; assumption.
Qed.

Lemma form_unfixed_refuted_lemma :
  exists fargs, Forall (fun kv => bytes_ok (fst kv) = true /\ bytes_ok (snd kv) = true) fargs /\
                parse_form (build_form_unfixed fargs) <> fargs.
Proof.
  exists [([97], [120; 38; 121; 61; 122])].   (* a -> "x&y=z" *)
  split; [repeat constructor|]. vm_compute. discriminate.
Qed.

(* ---------------------------------------------------------------- (2) request body *)

Lemma firstn_len_app : forall (A : Type) (a b : list A), firstn (length a) (a ++ b) = a.
Proof. induction a; intros; cbn; [reflexivity|f_equal; auto]. Qed.

Lemma skipn_len_app : forall (A : Type) (a b : list A), skipn (length a) (a ++ b) = b.
Proof. induction a; intros; cbn; auto. Qed.

Lemma request_body_roundtrip_lemma : forall r rest, q_has_cl r = false ->
  server_body (added_content_length r) (fst (select_body r) ++ rest) = Some (fst (select_body r), rest).
Proof.
  intros r rest Hcl. unfold added_content_length, server_body. rewrite Hcl.
  destruct (fst (select_body r)) as [|c b] eqn:E.
  - cbn. reflexivity.
  - cbn [server_length]. rewrite Nat2Z.id.
    assert (Hlt : (length ((c :: b) ++ rest) <? length (c :: b))%nat = false).
    { apply Nat.ltb_ge. rewrite app_length. lia. }
    rewrite Hlt. rewrite firstn_len_app, skipn_len_app. reflexivity.
Qed.

Lemma get_sends_no_body : forall r, q_method r = GET_ -> select_body r = ([], CtUser).
Proof. intros r H. unfold select_body. rewrite H. reflexivity. Qed.

Lemma body_priority : forall r, q_method r <> GET_ ->
  select_body r = match q_data r with
                  | Some j => (j, CtJson)
                  | None => match q_fargs r with Some f => (build_form f, CtForm) | None => (q_body r, CtUser) end
                  end.
Proof. intros r H. unfold select_body. rewrite bytes_eqb_neq by exact H. reflexivity. Qed.

Lemma body_selection_lemma : forall r,
  (q_method r = GET_ -> select_body r = ([], CtUser)) /\
  (q_method r <> GET_ ->
   select_body r = match q_data r with
                   | Some j => (j, CtJson)
                   | None => match q_fargs r with Some f => (build_form f, CtForm) | None => (q_body r, CtUser) end
                   end).
Proof. intro r. split; [exact (get_sends_no_body r)|exact (body_priority r)]. Qed.

Lemma server_body_consistent : forall cl m b rest, 0 <= server_length cl ->
  server_body cl m = Some (b, rest) -> m = b ++ rest /\ environ_content_length b = server_length cl.
Proof.
  intros cl m b rest H0 H. unfold server_body in H.
  destruct (length m <? Z.to_nat (server_length cl))%nat eqn:E; [discriminate|].
  inversion H; subst. split; [symmetry; apply firstn_skipn|].
  unfold environ_content_length. rewrite firstn_length. apply Nat.ltb_ge in E. rewrite Nat.min_l by exact E. lia.
Qed.

(* ---------------------------------------------------------------- (3) chunked bodies *)

Lemma take_line_app : forall a x, ~ In CR a -> take_line (a ++ CR :: LF :: x) = Some (a, x).
Proof.
  induction a as [|c a IH]; intros x H.
  - reflexivity.
  - assert (Hc : c =? CR = false). { apply Z.eqb_neq. intro E. apply H. left. exact E. }
    assert (Ha : ~ In CR a). { intro Hi. apply H. right. exact Hi. }
    specialize (IH x Ha).
    cbn [app take_line]. destruct a as [|d a'].
    + cbn [app]. rewrite Hc. cbn [andb]. cbn [app] in IH. rewrite IH. reflexivity.
    + cbn [app]. rewrite Hc. cbn [andb]. cbn [app] in IH. rewrite IH. reflexivity.
Qed.

Lemma is_hex_not_sep : forall c, is_hex c = true -> c <> CR /\ c <> SEMI.
Proof. intros c H. split; intro E; subst; vm_compute in H; discriminate. Qed.

Lemma break_semi_id : forall l, ~ In SEMI l -> break_semi l = l.
Proof.
  induction l as [|c t IH]; intros H; [reflexivity|].
  cbn [break_semi]. assert (Hc : c =? SEMI = false). { apply Z.eqb_neq. intro E. apply H. left. exact E. }
  rewrite Hc. f_equal. apply IH. intro Hi. apply H. right. exact Hi.
Qed.

Lemma hex_line : forall n, 0 <= n < 16 ^ 16 ->
  ~ In CR (hex_of HEXFUEL n) /\ break_semi (hex_of HEXFUEL n) = hex_of HEXFUEL n /\
  hex_parse (hex_of HEXFUEL n) = Some n.
Proof.
  intros n Hn.
  assert (Hall : forall c, In c (hex_of HEXFUEL n) -> is_hex c = true).
  { intros c Hc. apply (hex_of_all_hex HEXFUEL n c); [lia|exact Hc]. }
  split; [|split].
  - intro Hi. apply Hall in Hi. apply is_hex_not_sep in Hi. destruct Hi as [A _]. apply A. reflexivity.
  - apply break_semi_id. intro Hi. apply Hall in Hi. apply is_hex_not_sep in Hi. destruct Hi as [_ A]. apply A. reflexivity.
  - apply hex_parse_hex_of; [|unfold HEXFUEL; lia]. unfold HEXFUEL. exact Hn.
Qed.

Lemma dechunk_end : forall f rest acc, dechunk (S f) (pack_chunk [] ++ rest) acc = Done acc rest.
Proof. intros. vm_compute pack_chunk. cbn. reflexivity. Qed.

Lemma dechunk_pieces : forall ps rest acc fuel,
  Forall (fun p => p <> [] /\ Z.of_nat (length p) < 16 ^ 16) ps ->
  (length ps < fuel)%nat ->
  dechunk fuel (flat_map pack_chunk ps ++ pack_chunk [] ++ rest) acc = Done (acc ++ concat ps) rest.
Proof.
  induction ps as [|p ps IH]; intros rest acc fuel H Hf.
  - destruct fuel as [|f]; [inversion Hf|]. cbn [flat_map concat app]. rewrite app_nil_r. apply dechunk_end.
  - destruct fuel as [|f]; [inversion Hf|]. inversion H as [|x l [Hne Hlen] Hps]; subst.
    set (n := Z.of_nat (length p)).
    assert (Hn : 0 <= n < 16 ^ 16) by (unfold n; lia).
    destruct (hex_line n Hn) as [Hcr [Hbs Hhp]].
    cbn [flat_map]. unfold pack_chunk at 1. fold n.
    set (more := flat_map pack_chunk ps ++ pack_chunk [] ++ rest).
    assert (Eshape : ((hex_of HEXFUEL n ++ CRLF ++ p ++ CRLF) ++ flat_map pack_chunk ps) ++ pack_chunk [] ++ rest
                     = hex_of HEXFUEL n ++ CR :: LF :: (p ++ CR :: LF :: more)).
    { unfold more, CRLF. repeat rewrite <- app_assoc. cbn [app]. repeat rewrite <- app_assoc. reflexivity. }
    rewrite Eshape. cbn [dechunk]. rewrite take_line_app by exact Hcr. rewrite Hbs, Hhp.
    assert (Hnz : n =? 0 = false).
    { apply Z.eqb_neq. unfold n. destruct p; [contradiction|cbn; lia]. }
    rewrite Hnz. unfold n. rewrite Nat2Z.id.
    assert (Hlt : (length (p ++ CR :: LF :: more) <? length p)%nat = false).
    { apply Nat.ltb_ge. rewrite app_length. lia. }
    rewrite Hlt. rewrite skipn_len_app, firstn_len_app.
    assert (Htl : take_line (CR :: LF :: more) = Some ([], more)) by reflexivity.
    rewrite Htl. unfold more. rewrite IH.
    + cbn [concat]. rewrite <- app_assoc. reflexivity.
    + exact Hps.
    + cbn in Hf. lia.
Qed.

Lemma concat_filter_nonempty : forall ps : list bytes, concat (filter nonempty ps) = concat ps.
Proof.
  induction ps as [|p ps IH]; [reflexivity|]. cbn [filter]. destruct p; cbn; [exact IH|].
  f_equal. rewrite IH. reflexivity.
Qed.

Lemma filter_len_le : forall (A : Type) (f : A -> bool) (l : list A), (length (filter f l) <= length l)%nat.
Proof. induction l as [|a l IH]; cbn; [lia|]. destruct (f a); cbn; lia. Qed.

Lemma chunked_roundtrip_lemma : forall pieces rest fuel,
  Forall (fun p => Z.of_nat (length p) < 16 ^ 16) pieces ->
  (length pieces < fuel)%nat ->
  dechunk fuel (chunked_body pieces ++ rest) [] = Done (concat pieces) rest.
Proof.
  intros pieces rest fuel H Hf. unfold chunked_body. rewrite <- app_assoc.
  rewrite dechunk_pieces.
  - cbn [app]. rewrite concat_filter_nonempty. reflexivity.
  - apply Forall_forall. intros p Hp. apply filter_In in Hp. destruct Hp as [Hin Hne].
    rewrite Forall_forall in H. split; [destruct p; [discriminate|discriminate]|apply H; exact Hin].
  - pose proof (filter_len_le _ nonempty pieces) as Hl. unfold bytes in *. lia.
Qed.

(* ---------------------------------------------------------------- (4) HTTPError *)

Lemma error_body_whole : forall e, error_sent_body e = e_body e.
Proof.
  intros e. unfold error_sent_body, error_content_length. rewrite Nat2Z.id. apply firstn_all.
Qed.

(* ---------------------------------------------------------------- (4b) HTTPError at every point *)

Definition quiet_state (s : rstate) : Prop :=
  rs_headed s = false /\ rs_ended s = false /\ rs_broken s = false /\ rs_sent s = [].

Lemma idle_keeps_quiet : forall e s, idle_ev e = true -> quiet_state s -> quiet_state (serve_ev s e).
Proof.
  intros e s He [Hh [He' [Hb Hs]]]. unfold serve_ev. rewrite He', Hb. cbn [orb].
  destruct e as [st cl|b|est eb]; cbn in He.
  - repeat split; cbn; assumption.
  - destruct b; [|discriminate]. repeat split; assumption.
  - discriminate.
Qed.

Lemma idle_fold_quiet : forall evs s, forallb idle_ev evs = true -> quiet_state s ->
  quiet_state (fold_left serve_ev evs s).
Proof.
  induction evs as [|e evs IH]; intros s H Hq; [exact Hq|].
  cbn in H. apply andb_true_iff in H. destruct H as [He Hr].
  cbn [fold_left]. apply IH; [exact Hr|]. apply idle_keeps_quiet; assumption.
Qed.

Lemma error_before_head_lemma : forall evs est eb, forallb idle_ev evs = true ->
  client_view (serve_app (evs ++ [EvRaise est eb])) = (est, Some (Z.of_nat (length eb)), eb, true).
Proof.
  intros evs est eb H. unfold serve_app. rewrite fold_left_app. cbn [fold_left].
  assert (Hq0 : quiet_state rs_init) by (repeat split; reflexivity).
  destruct (idle_fold_quiet evs rs_init H Hq0) as [Hh [He [Hb Hs]]].
  set (s := fold_left serve_ev evs rs_init) in *.
  unfold serve_ev. rewrite He, Hb, Hh. cbn [orb].
  unfold do_write. cbn [rs_started negb rs_len rs_sent rs_status rs_headed rs_ended rs_broken].
  rewrite Nat2Z.id. cbn [length]. rewrite Nat.sub_0_r, firstn_all. cbn [app].
  unfold serve_stop, set_ended. cbn [rs_ended orb].
  unfold client_view, resp_complete. cbn [rs_status rs_len rs_sent rs_headed rs_ended andb].
  rewrite Z.eqb_refl. reflexivity.
Qed.

Lemma raise_after_head_ignored : forall s est eb, rs_headed s = true -> serve_ev s (EvRaise est eb) = s.
Proof.
  intros s est eb H. unfold serve_ev. destruct (rs_ended s || rs_broken s); [reflexivity|].
  rewrite H. reflexivity.
Qed.

Definition live_state (st : Z) (s : rstate) : Prop :=
  rs_started s = true /\ rs_broken s = false /\ rs_status s = st /\ (rs_ended s = true -> rs_headed s = true).

Lemma yield_keeps_live : forall st b s, live_state st s ->
  live_state st (serve_ev s (EvYield b)) /\
  (rs_headed s = true -> rs_headed (serve_ev s (EvYield b)) = true) /\
  (b <> [] -> rs_headed (serve_ev s (EvYield b)) = true).
Proof.
  intros st b s [Hs [Hb [Hst He]]]. unfold serve_ev. rewrite Hb, orb_false_r.
  destruct (rs_ended s) eqn:Ee.
  - split; [repeat split; auto|]. split; [auto|]. intros _. apply He. reflexivity.
  - destruct b as [|c b].
    + split; [|split; [auto|intro H; contradiction]].
      split; [exact Hs|]. split; [exact Hb|]. split; [exact Hst|]. intro H. rewrite Ee in H. discriminate.
    + unfold do_write. rewrite Hs. cbn [negb]. unfold set_ended. cbn.
      split; [repeat split; try assumption; reflexivity|]. split; reflexivity.
Qed.

Lemma yields_headed : forall st ys s, live_state st s ->
  (rs_headed s = true \/ exists y, In y ys /\ y <> []) ->
  live_state st (fold_left serve_ev (map EvYield ys) s) /\
  rs_headed (fold_left serve_ev (map EvYield ys) s) = true.
Proof.
  induction ys as [|y ys IH]; intros s Hl H.
  - cbn. destruct H as [H|[y [[] _]]]. split; assumption.
  - cbn [map fold_left]. destruct (yield_keeps_live st y s Hl) as [Hl' [Hmono Hne]].
    apply IH; [exact Hl'|].
    destruct H as [H|[z [[Hz|Hz] Hnz]]].
    + left. apply Hmono. exact H.
    + subst z. left. apply Hne. exact Hnz.
    + right. exists z. split; assumption.
Qed.

Lemma error_after_bytes_lemma : forall st cl ys est eb,
  (exists y, In y ys /\ y <> []) ->
  serve_app (EvStart st cl :: map EvYield ys ++ [EvRaise est eb]) = serve_app (EvStart st cl :: map EvYield ys) /\
  rs_status (serve_app (EvStart st cl :: map EvYield ys ++ [EvRaise est eb])) = st /\
  rs_headed (serve_app (EvStart st cl :: map EvYield ys ++ [EvRaise est eb])) = true.
Proof.
  intros st cl ys est eb Hex. unfold serve_app. cbn [fold_left].
  set (s1 := serve_ev rs_init (EvStart st cl)).
  assert (Hl1 : live_state st s1) by (repeat split; try reflexivity; cbn; discriminate).
  destruct (yields_headed st ys s1 Hl1 (or_intror Hex)) as [[Hs [Hb [Hst He]]] Hh].
  rewrite fold_left_app. cbn [fold_left]. rewrite raise_after_head_ignored by exact Hh.
  split; [reflexivity|].
  set (s2 := fold_left serve_ev (map EvYield ys) s1) in *.
  unfold serve_stop. destruct (rs_ended s2 || rs_broken s2); [split; assumption|].
  unfold do_write. rewrite Hs. cbn. split; [exact Hst|reflexivity].
Qed.

Lemma error_response_lemma :
  (forall evs est eb, forallb idle_ev evs = true ->
     client_view (serve_app (evs ++ [EvRaise est eb])) = (est, Some (Z.of_nat (length eb)), eb, true)) /\
  (forall st cl ys est eb, (exists y, In y ys /\ y <> []) ->
     serve_app (EvStart st cl :: map EvYield ys ++ [EvRaise est eb]) = serve_app (EvStart st cl :: map EvYield ys) /\
     rs_status (serve_app (EvStart st cl :: map EvYield ys ++ [EvRaise est eb])) = st /\
     rs_headed (serve_app (EvStart st cl :: map EvYield ys ++ [EvRaise est eb])) = true).
Proof. split; [exact error_before_head_lemma|exact error_after_bytes_lemma]. Qed.
