(* C30 -- property theorems only.  Each closed by [exact]; Print Assumptions beneath. *)
From Coq Require Import List ZArith Bool.
Import ListNotations.
Require Import V.C30.Percent V.C30.PercentProofs V.C30.Model V.C30.Proofs.
Open Scope Z_scope.

(* Percent codec, for ALL byte strings and every safe set without '%' / '+':
   urllib.parse.unquote_to_bytes(quote_from_bytes(bs, safe)) = bs *)
Theorem unquote_quote : forall safe bs,
  memZ 37 safe = false -> bytes_ok bs = true -> unquote (quote safe bs) = bs.
Proof. exact PercentProofs.unquote_quote. Qed.
Print Assumptions unquote_quote.

(* unquote_plus(quote_plus(bs, safe)) = bs *)
Theorem unquote_plus_quote_plus : forall safe bs,
  safe_wf safe = true -> bytes_ok bs = true -> unquote_plus (quote_plus safe bs) = bs.
Proof. exact PercentProofs.unquote_plus_quote_plus. Qed.
Print Assumptions unquote_plus_quote_plus.

(* quoted values never contain a separator of the request line or of the query string *)
Theorem quoted_value_has_no_separator : forall bs, bytes_ok bs = true ->
  ~ In 38 (quote_plus safe_none bs) /\ ~ In 61 (quote_plus safe_none bs) /\
  ~ In 59 (quote_plus safe_none bs) /\ ~ In 35 (quote_plus safe_none bs) /\
  ~ In 63 (quote_plus safe_none bs) /\ ~ In 32 (quote_plus safe_none bs) /\
  ~ In 13 (quote_plus safe_none bs) /\ ~ In 10 (quote_plus safe_none bs).
Proof. exact quote_plus_none_no_sep. Qed.
Print Assumptions quoted_value_has_no_separator.

Theorem quoted_path_has_no_separator : forall bs, bytes_ok bs = true ->
  ~ In 63 (quote safe_slash bs) /\ ~ In 35 (quote safe_slash bs) /\
  ~ In 32 (quote safe_slash bs) /\ ~ In 13 (quote safe_slash bs) /\
  ~ In 10 (quote safe_slash bs).
Proof. exact quote_slash_no_sep. Qed.
Print Assumptions quoted_path_has_no_separator.

(* Query arguments: names that are URL tokens (no '&' ';' '='), ARBITRARY byte-string values,
   distinct names: httping.updateQargsQuery's decoder inverts its encoder. *)
Theorem query_roundtrip : forall pairs,
  Forall (fun kv => key_ok (fst kv) /\ bytes_ok (snd kv) = true) pairs ->
  NoDup (map fst pairs) ->
  parse_query (build_query pairs) = pairs.
Proof. exact query_roundtrip_lemma. Qed.
Print Assumptions query_roundtrip.

(* Form arguments (after the fix): ARBITRARY names and values survive the standard
   application/x-www-form-urlencoded decoder ... *)
Theorem form_roundtrip : forall fargs,
  Forall (fun kv => bytes_ok (fst kv) = true /\ bytes_ok (snd kv) = true) fargs ->
  parse_form (build_form fargs) = fargs.
Proof. exact form_roundtrip_lemma. Qed.
Print Assumptions form_roundtrip.

(* ... which the encoding as found (quote_plus('&'.join(k=v), '&=')) does not. *)
Theorem form_unfixed_refuted :
  exists fargs, Forall (fun kv => bytes_ok (fst kv) = true /\ bytes_ok (snd kv) = true) fargs /\
                parse_form (build_form_unfixed fargs) <> fargs.
Proof. exact form_unfixed_refuted_lemma. Qed.
Print Assumptions form_unfixed_refuted.

(* Request body: whatever Requester.build selects (nothing for GET; JSON data, else form
   arguments, else the body) is, with the Content-Length line Requester adds, exactly what
   Requestant.parseHead/parseBody cut out of the bytes following the head -- and the bytes of
   the next message are left untouched. *)
Theorem request_body_roundtrip : forall r rest, q_has_cl r = false ->
  server_body (added_content_length r) (fst (select_body r) ++ rest) = Some (fst (select_body r), rest).
Proof. exact request_body_roundtrip_lemma. Qed.
Print Assumptions request_body_roundtrip.

Theorem body_selection : forall r,
  (q_method r = GET_ -> select_body r = ([], CtUser)) /\
  (q_method r <> GET_ ->
   select_body r = match q_data r with
                   | Some j => (j, CtJson)
                   | None => match q_fargs r with Some f => (build_form f, CtForm) | None => (q_body r, CtUser) end
                   end).
Proof. exact body_selection_lemma. Qed.
Print Assumptions body_selection.

(* WSGI environ: CONTENT_LENGTH equals the length of wsgi.input, which is a prefix of the
   received bytes *)
Theorem environ_consistent : forall cl m b rest, 0 <= server_length cl ->
  server_body cl m = Some (b, rest) -> m = b ++ rest /\ environ_content_length b = server_length cl.
Proof. exact server_body_consistent. Qed.
Print Assumptions environ_consistent.

(* Chunked / streamed responses: for ANY sequence of yielded pieces (empty ones are idle
   yields) the body Responder.write emits, followed by ANY further bytes, is decoded by the
   client's chunk parser into the concatenation of the pieces, leaving those bytes. *)
Theorem chunked_response_roundtrip : forall pieces rest fuel,
  Forall (fun p => Z.of_nat (length p) < 16 ^ 16) pieces ->
  (length pieces < fuel)%nat ->
  dechunk fuel (chunked_body pieces ++ rest) [] = Done (concat pieces) rest.
Proof. exact chunked_roundtrip_lemma. Qed.
Print Assumptions chunked_response_roundtrip.

(* '{0:x}'.format(n) and int(s, 16) *)
Theorem chunk_size_roundtrip : forall fuel n,
  0 <= n < 16 ^ (Z.of_nat fuel) -> (fuel > 0)%nat -> hex_parse (hex_of fuel n) = Some n.
Proof. exact hex_parse_hex_of. Qed.
Print Assumptions chunk_size_roundtrip.

(* Raised HTTPError, at EVERY point of the application (generator or plain callable; events as
   Responder.service sees them).
   (1) As long as no head has been sent -- i.e. the error is raised while the app is called, before
       start_response, after start_response (with or without a declared Content-Length), or after
       any number of idle (empty) yields -- the client parses exactly the error: its status, a
       Content-Length equal to the rendered body, that body whole, response complete.  Whatever
       status / Content-Length the app had declared is replaced.
   (2) Once a non-empty piece has been yielded the head is on the wire and the error can no longer
       be rendered: the outcome is exactly that of the same application simply stopping at that
       point -- the original status, the bytes yielded so far (cut at a declared Content-Length);
       complete iff chunked (terminating chunk) or the declared length was reached, otherwise the
       client is left with an incomplete response; the error status is never shown. *)
Theorem error_response_body :
  (forall evs est eb, forallb idle_ev evs = true ->
     client_view (serve_app (evs ++ [EvRaise est eb])) = (est, Some (Z.of_nat (length eb)), eb, true)) /\
  (forall st cl ys est eb, (exists y, In y ys /\ y <> []) ->
     serve_app (EvStart st cl :: map EvYield ys ++ [EvRaise est eb]) = serve_app (EvStart st cl :: map EvYield ys) /\
     rs_status (serve_app (EvStart st cl :: map EvYield ys ++ [EvRaise est eb])) = st /\
     rs_headed (serve_app (EvStart st cl :: map EvYield ys ++ [EvRaise est eb])) = true).
Proof. exact error_response_lemma. Qed.
Print Assumptions error_response_body.

(* the rendered body is never cut by its own Content-Length *)
Theorem error_body_not_truncated : forall e, error_sent_body e = e_body e.
Proof. exact error_body_whole. Qed.
Print Assumptions error_body_not_truncated.

(* non-vacuity *)
Example c30_examples :
  (* quote_plus("a b&c=d+e%/ü") *)
  quote_plus safe_none [97;32;98;38;99;61;100;43;101;37;47;195;188]
    = [97;43;98;37;50;54;99;37;51;68;100;37;50;66;101;37;50;53;37;50;70;37;67;51;37;66;67] /\
  unquote_plus [97;43;98;37;50;54;99;37;51;68;100;37;50;66;101;37;50;53;37;50;70;37;67;51;37;66;67]
    = [97;32;98;38;99;61;100;43;101;37;47;195;188] /\
  (* "k=v+w&x=a%26b" *)
  build_query [([107], [118;32;119]); ([120], [97;38;98])]
    = [107;61;118;43;119;38;120;61;97;37;50;54;98] /\
  parse_query [107;61;118;43;119;38;120;61;97;37;50;54;98] = [([107], [118;32;119]); ([120], [97;38;98])] /\
  (* packChunk: "2\r\nab\r\n" ... "0\r\n\r\n" *)
  chunked_body [[97;98]; []; [99]] = [50;13;10;97;98;13;10;49;13;10;99;13;10;48;13;10;13;10] /\
  dechunk 5 ([50;13;10;97;98;13;10;49;13;10;99;13;10;48;13;10;13;10] ++ [72]) [] = Done [97;98;99] [72] /\
  (* start_response(200, Content-Length 5), idle yield, HTTPError 404 "nf" -> the error *)
  client_view (serve_app [EvStart 200 (Some 5); EvYield []; EvRaise 404 [110;102]]) = (404, Some 2, [110;102], true) /\
  (* ... after 2 of 5 declared bytes: original status, incomplete *)
  client_view (serve_app [EvStart 200 (Some 5); EvYield [97;98]; EvRaise 404 [110;102]]) = (200, Some 5, [97;98], false) /\
  (* ... chunked: original status, the bytes so far, terminated *)
  client_view (serve_app [EvStart 200 None; EvYield [97;98]; EvRaise 404 [110;102]]) = (200, None, [97;98], true).
Proof. vm_compute. repeat split; reflexivity. Qed.
