(* C30 -- the response to exchange k on a reused connection depends only on exchange k.
   V.gen.C30_ResponderFields is GENERATED on every run from the AST of
   ioflo/aio/http/serving.py class Responder (props/C30/check.py gen): for each method the
   attributes of self it reads and the attributes it assigns.  The event model of
   coq/C30/Model.v (serve_app) starts every exchange from rs_init; that is justified by the
   obligation below: every attribute that build / write / start / service READ and that some
   per-response method WRITES is assigned again by reset(), unless it is connection-level. *)
From Coq Require Import String List Bool.
Import ListNotations.
Require Import V.gen.C30_ResponderFields.
Open Scope string_scope.

Definition mem (s : string) (l : list string) : bool := existsb (String.eqb s) l.

(* attributes that legitimately outlive one response *)
Definition CONNECTION_LEVEL : list string := ["closed"; "evented"; "incomer"; "app"].

Definition response_state : list string :=
  filter (fun f => mem f response_reads) response_writes.

Theorem responder_reset_clears_state :
  forallb (fun f => mem f reset_writes || mem f CONNECTION_LEVEL) response_state = true.
Proof. vm_compute. reflexivity. Qed.
Print Assumptions responder_reset_clears_state.

(* non-vacuity: the framing flags are among the state in question *)
Example c30_reset_nonvacuous :
  mem "chunked" response_state && mem "chunkable" response_state && mem "headed" response_state &&
  mem "length" response_state && mem "size" response_state = true.
Proof. vm_compute. reflexivity. Qed.
