(* C30 -- the percent-encoding calls of the implementation, as found in its source on this run.
   V.gen.C30_QuoteCalls is GENERATED (props/C30/check.py gen_quote, fail-closed) from the AST of
   Requester.build (quote(path, safe), quote_plus of form names/values), httping.updateQargsQuery
   (quote_plus of query values) and Requestant.parseHead (unquote of the path): it records which
   urllib function is called and with which safe set.  The theorems below are about THOSE safe
   sets, so a change of a safe set in the source breaks them. *)
From Coq Require Import List ZArith Bool.
Import ListNotations.
Require Import V.C30.Percent V.C30.PercentProofs V.C30.Model V.C30.Proofs.
Require Import V.gen.C30_QuoteCalls.
Open Scope Z_scope.

(* the modelled codec is the one the source calls *)
Theorem source_safe_sets_are_the_modelled_ones :
  path_safe = safe_slash /\ query_value_safe = safe_none /\ form_safe = safe_none /\
  path_quote_fn = 0 /\ query_quote_fn = 1 /\ form_quote_fn = 1 /\ server_path_unquote_fn = 0.
Proof. vm_compute. repeat split; reflexivity. Qed.
Print Assumptions source_safe_sets_are_the_modelled_ones.

Lemma path_safe_no_percent : memZ 37 path_safe = false.
Proof. vm_compute. reflexivity. Qed.

(* PATH_INFO: for ALL byte strings (in particular paths containing '%41', '%2', '%%', or text that
   looks quoted already) the server's unquote of the client's quote(path, safe) is the path *)
Theorem path_info_roundtrip_source : forall path, bytes_ok path = true ->
  unquote (quote path_safe path) = path.
Proof. exact (fun path H => unquote_quote path_safe path path_safe_no_percent H). Qed.
Print Assumptions path_info_roundtrip_source.

Lemma query_safe_wf : safe_wf query_value_safe = true /\ safe_wf form_safe = true.
Proof. vm_compute. split; reflexivity. Qed.

Theorem query_and_form_values_roundtrip_source : forall v, bytes_ok v = true ->
  unquote_plus (quote_plus query_value_safe v) = v /\ unquote_plus (quote_plus form_safe v) = v.
Proof.
  exact (fun v H => conj (unquote_plus_quote_plus query_value_safe v (proj1 query_safe_wf) H)
                         (unquote_plus_quote_plus form_safe v (proj2 query_safe_wf) H)).
Qed.
Print Assumptions query_and_form_values_roundtrip_source.
