(* C30 -- proofs about the percent codec model of Percent.v.
   Closed proofs only.  Per-byte facts over 0..255 (and per-nibble facts over 0..15) are
   established by a boolean brute-force check (vm_compute) and transferred with
   [range_check]. *)
From Coq Require Import List ZArith Bool Lia.
Import ListNotations.
Require Import V.C30.Percent.
Open Scope Z_scope.

(* ------------------------------------------------------------------------------------ *)
(* brute force over an initial segment of Z                                              *)

Lemma range_check : forall (P : Z -> bool) (n : nat),
  forallb P (map Z.of_nat (seq 0 n)) = true ->
  forall b, 0 <= b < Z.of_nat n -> P b = true.
Proof.
  intros P n H b Hb.
  rewrite forallb_forall in H. apply H.
  replace b with (Z.of_nat (Z.to_nat b)) by (apply Z2Nat.id; lia).
  apply in_map. apply in_seq. lia.
Qed.

Lemma byte_ok_range : forall b, byte_ok b = true -> 0 <= b < 256.
Proof. intros b. unfold byte_ok. rewrite andb_true_iff, Z.leb_le, Z.ltb_lt. tauto. Qed.

Lemma range_byte_ok : forall b, 0 <= b < 256 -> byte_ok b = true.
Proof. intros b. unfold byte_ok. rewrite andb_true_iff, Z.leb_le, Z.ltb_lt. tauto. Qed.

Lemma bytes_ok_cons : forall a bs,
  bytes_ok (a :: bs) = true -> 0 <= a < 256 /\ bytes_ok bs = true.
Proof.
  intros a bs. unfold bytes_ok. cbn [forallb]. rewrite andb_true_iff.
  intros [H1 H2]. split; auto using byte_ok_range.
Qed.

Lemma bytes_ok_In : forall bs b, bytes_ok bs = true -> In b bs -> 0 <= b < 256.
Proof.
  intros bs b H Hin. unfold bytes_ok in H. rewrite forallb_forall in H.
  apply byte_ok_range. apply H. exact Hin.
Qed.

(* ------------------------------------------------------------------------------------ *)
(* per-byte facts about '%XX'                                                            *)

Definition pct_check (b : Z) : bool :=
  is_hex (hexU (b / 16)) && is_hex (hexU (b mod 16))
  && (16 * hexval (hexU (b / 16)) + hexval (hexU (b mod 16)) =? b)
  && negb (hexU (b / 16) =? 43) && negb (hexU (b mod 16) =? 43)
  && byte_ok (hexU (b / 16)) && byte_ok (hexU (b mod 16)).

Lemma pct_check_all : forall b, 0 <= b < 256 -> pct_check b = true.
Proof.
  intros b Hb. apply (range_check pct_check 256).
  - vm_compute. reflexivity.
  - change (Z.of_nat 256) with 256. exact Hb.
Qed.

Lemma pct_facts : forall b, 0 <= b < 256 ->
  is_hex (hexU (b / 16)) = true /\ is_hex (hexU (b mod 16)) = true /\
  16 * hexval (hexU (b / 16)) + hexval (hexU (b mod 16)) = b /\
  hexU (b / 16) <> 43 /\ hexU (b mod 16) <> 43 /\
  byte_ok (hexU (b / 16)) = true /\ byte_ok (hexU (b mod 16)) = true.
Proof.
  intros b Hb. pose proof (pct_check_all b Hb) as H. unfold pct_check in H.
  repeat rewrite andb_true_iff in H.
  rewrite !negb_true_iff, !Z.eqb_neq, Z.eqb_eq in H. tauto.
Qed.

Lemma unquote_pct : forall b rest, 0 <= b < 256 -> unquote (pct b ++ rest) = b :: unquote rest.
Proof.
  intros b rest Hb. destruct (pct_facts b Hb) as (H1 & H2 & H3 & _).
  unfold pct. cbn [app]. cbn [unquote]. rewrite Z.eqb_refl, H1, H2. cbn [andb].
  rewrite H3. reflexivity.
Qed.

Lemma map_plus_pct : forall b, 0 <= b < 256 -> map plus_to_space (pct b) = pct b.
Proof.
  intros b Hb. destruct (pct_facts b Hb) as (_ & _ & _ & H4 & H5 & _).
  unfold pct. cbn [map]. unfold plus_to_space.
  apply Z.eqb_neq in H4. apply Z.eqb_neq in H5. rewrite H4, H5.
  reflexivity.
Qed.

Lemma pct_alphabet : forall b c, 0 <= b < 256 -> In c (pct b) -> c = 37 \/ is_hex c = true.
Proof.
  intros b c Hb. destruct (pct_facts b Hb) as (H1 & H2 & _).
  unfold pct. cbn [In]. intros [<-|[<-|[<-|[]]]]; auto.
Qed.

Lemma pct_ascii : forall b c, 0 <= b < 256 -> In c (pct b) -> 0 <= c < 256.
Proof.
  intros b c Hb. destruct (pct_facts b Hb) as (_ & _ & _ & _ & _ & H6 & H7).
  unfold pct. cbn [In]. intros [<-|[<-|[<-|[]]]]; auto using byte_ok_range; lia.
Qed.

(* ------------------------------------------------------------------------------------ *)
(* safe bytes are never '%' (nor '+') unless declared so                                 *)

Lemma is_safe_not_37 : forall safe b,
  memZ 37 safe = false -> is_safe safe b = true -> b <> 37.
Proof.
  intros safe b Hs H ->. unfold is_safe in H. rewrite Hs in H. vm_compute in H. discriminate.
Qed.

Lemma is_safe_not_43 : forall safe b,
  memZ 43 safe = false -> is_safe safe b = true -> b <> 43.
Proof.
  intros safe b Hs H ->. unfold is_safe in H. rewrite Hs in H. vm_compute in H. discriminate.
Qed.

Lemma safe_wf_inv : forall safe,
  safe_wf safe = true -> memZ 37 safe = false /\ memZ 43 safe = false.
Proof.
  intros safe. unfold safe_wf. rewrite andb_true_iff, !negb_true_iff. tauto.
Qed.

(* ------------------------------------------------------------------------------------ *)
(* 1. unquote . quote = id                                                               *)

Lemma unquote_quote1 : forall safe b rest,
  memZ 37 safe = false -> 0 <= b < 256 ->
  unquote (quote1 safe b ++ rest) = b :: unquote rest.
Proof.
  intros safe b rest Hs Hb. unfold quote1. destruct (is_safe safe b) eqn:E.
  - cbn [app]. cbn [unquote]. destruct (b =? 37) eqn:E37; [|reflexivity].
    apply Z.eqb_eq in E37. exfalso. eapply is_safe_not_37; eauto.
  - apply unquote_pct; assumption.
Qed.

Lemma unquote_quote : forall safe bs,
  memZ 37 safe = false -> bytes_ok bs = true -> unquote (quote safe bs) = bs.
Proof.
  intros safe bs Hs. unfold quote. induction bs as [|a bs IH]; intros Hok.
  - reflexivity.
  - apply bytes_ok_cons in Hok. destruct Hok as [Ha Hok].
    cbn [flat_map]. rewrite unquote_quote1 by assumption. rewrite IH by assumption.
    reflexivity.
Qed.

(* ------------------------------------------------------------------------------------ *)
(* 2. unquote_plus . quote_plus = id                                                     *)

Lemma unquote_plus1 : forall safe b rest,
  safe_wf safe = true -> 0 <= b < 256 ->
  unquote (map plus_to_space (quote_plus1 safe b) ++ rest) = b :: unquote rest.
Proof.
  intros safe b rest Hwf Hb. apply safe_wf_inv in Hwf. destruct Hwf as [H37 H43].
  unfold quote_plus1. destruct (b =? 32) eqn:E32.
  - apply Z.eqb_eq in E32. subst b. reflexivity.
  - unfold quote1. destruct (is_safe safe b) eqn:E.
    + pose proof (is_safe_not_37 safe b H37 E) as N37.
      pose proof (is_safe_not_43 safe b H43 E) as N43.
      cbn [map app]. unfold plus_to_space.
      apply Z.eqb_neq in N37. apply Z.eqb_neq in N43. rewrite N43.
      cbn [unquote]. rewrite N37. reflexivity.
    + rewrite map_plus_pct by assumption. apply unquote_pct. assumption.
Qed.

Lemma unquote_plus_quote_plus : forall safe bs,
  safe_wf safe = true -> bytes_ok bs = true -> unquote_plus (quote_plus safe bs) = bs.
Proof.
  intros safe bs Hwf. unfold unquote_plus, quote_plus.
  induction bs as [|a bs IH]; intros Hok.
  - reflexivity.
  - apply bytes_ok_cons in Hok. destruct Hok as [Ha Hok].
    cbn [flat_map]. rewrite map_app. rewrite unquote_plus1 by assumption.
    rewrite IH by assumption. reflexivity.
Qed.

(* ------------------------------------------------------------------------------------ *)
(* 3. output alphabet                                                                    *)

Lemma quote1_alphabet : forall safe b c,
  0 <= b < 256 -> In c (quote1 safe b) ->
  c = 37 \/ is_hex c = true \/ is_safe safe c = true.
Proof.
  intros safe b c Hb. unfold quote1. destruct (is_safe safe b) eqn:E.
  - cbn [In]. intros [<-|[]]. auto.
  - intros H. destruct (pct_alphabet b c Hb H); auto.
Qed.

Lemma quote_alphabet : forall safe bs c,
  bytes_ok bs = true -> In c (quote safe bs) ->
  c = 37 \/ is_hex c = true \/ is_safe safe c = true.
Proof.
  intros safe bs c Hok H. unfold quote in H. apply in_flat_map in H.
  destruct H as (b & Hin & Hc).
  eapply quote1_alphabet; [|exact Hc]. eapply bytes_ok_In; eauto.
Qed.

Lemma quote_plus_alphabet : forall safe bs c,
  bytes_ok bs = true -> In c (quote_plus safe bs) ->
  c = 37 \/ c = 43 \/ is_hex c = true \/ is_safe safe c = true.
Proof.
  intros safe bs c Hok H. unfold quote_plus in H. apply in_flat_map in H.
  destruct H as (b & Hin & Hc).
  pose proof (bytes_ok_In bs b Hok Hin) as Hb.
  unfold quote_plus1 in Hc. destruct (b =? 32).
  - cbn [In] in Hc. destruct Hc as [<-|[]]. auto.
  - destruct (quote1_alphabet safe b c Hb Hc) as [H|[H|H]]; auto.
Qed.

Ltac nosep_plus Hok :=
  let H := fresh "H" in
  intros H; apply quote_plus_alphabet in H; [|exact Hok];
  destruct H as [H|[H|[H|H]]];
  (discriminate H || (vm_compute in H; discriminate H)).

Lemma quote_plus_none_no_sep : forall bs, bytes_ok bs = true ->
  ~ In 38 (quote_plus safe_none bs) /\ ~ In 61 (quote_plus safe_none bs) /\
  ~ In 59 (quote_plus safe_none bs) /\ ~ In 35 (quote_plus safe_none bs) /\
  ~ In 63 (quote_plus safe_none bs) /\ ~ In 32 (quote_plus safe_none bs) /\
  ~ In 13 (quote_plus safe_none bs) /\ ~ In 10 (quote_plus safe_none bs).
Proof.
  intros bs Hok.
  split; [nosep_plus Hok|]. split; [nosep_plus Hok|]. split; [nosep_plus Hok|].
  split; [nosep_plus Hok|]. split; [nosep_plus Hok|]. split; [nosep_plus Hok|].
  split; [nosep_plus Hok|]. nosep_plus Hok.
Qed.

Ltac nosep_quote Hok :=
  let H := fresh "H" in
  intros H; apply quote_alphabet in H; [|exact Hok];
  destruct H as [H|[H|H]];
  (discriminate H || (vm_compute in H; discriminate H)).

Lemma quote_slash_no_sep : forall bs, bytes_ok bs = true ->
  ~ In 63 (quote safe_slash bs) /\ ~ In 35 (quote safe_slash bs) /\
  ~ In 32 (quote safe_slash bs) /\ ~ In 13 (quote safe_slash bs) /\
  ~ In 10 (quote safe_slash bs).
Proof.
  intros bs Hok.
  split; [nosep_quote Hok|]. split; [nosep_quote Hok|]. split; [nosep_quote Hok|].
  split; [nosep_quote Hok|]. nosep_quote Hok.
Qed.

(* ------------------------------------------------------------------------------------ *)
(* 5. output is ASCII / bytes_ok                                                         *)

Lemma quote1_ascii : forall safe b c, 0 <= b < 256 -> In c (quote1 safe b) -> 0 <= c < 256.
Proof.
  intros safe b c Hb. unfold quote1. destruct (is_safe safe b).
  - cbn [In]. intros [<-|[]]. exact Hb.
  - apply pct_ascii. exact Hb.
Qed.

Lemma quote_ascii : forall safe bs c,
  bytes_ok bs = true -> In c (quote safe bs) -> 0 <= c < 256.
Proof.
  intros safe bs c Hok H. unfold quote in H. apply in_flat_map in H.
  destruct H as (b & Hin & Hc). eapply quote1_ascii; [|exact Hc]. eapply bytes_ok_In; eauto.
Qed.

Lemma quote_plus_ascii : forall safe bs c,
  bytes_ok bs = true -> bytes_ok safe = true -> In c (quote_plus safe bs) -> 0 <= c < 256.
Proof.
  intros safe bs c Hok _ H. unfold quote_plus in H. apply in_flat_map in H.
  destruct H as (b & Hin & Hc).
  pose proof (bytes_ok_In bs b Hok Hin) as Hb.
  unfold quote_plus1 in Hc. destruct (b =? 32).
  - cbn [In] in Hc. destruct Hc as [<-|[]]. lia.
  - eapply quote1_ascii; eauto.
Qed.

Lemma quote_bytes_ok : forall safe bs, bytes_ok bs = true -> bytes_ok (quote safe bs) = true.
Proof.
  intros safe bs Hok. unfold bytes_ok. apply forallb_forall. intros c Hc.
  apply range_byte_ok. eapply quote_ascii; eauto.
Qed.

Lemma quote_plus_bytes_ok : forall safe bs,
  bytes_ok bs = true -> bytes_ok (quote_plus safe bs) = true.
Proof.
  intros safe bs Hok. unfold bytes_ok. apply forallb_forall. intros c Hc.
  apply range_byte_ok. unfold quote_plus in Hc. apply in_flat_map in Hc.
  destruct Hc as (b & Hin & Hc).
  pose proof (bytes_ok_In bs b Hok Hin) as Hb.
  unfold quote_plus1 in Hc. destruct (b =? 32).
  - cbn [In] in Hc. destruct Hc as [<-|[]]. lia.
  - eapply quote1_ascii; eauto.
Qed.

(* ------------------------------------------------------------------------------------ *)
(* 4. hex size line: '{0:x}'.format(n) / int(s, 16)                                      *)

Definition nib_check (d : Z) : bool := is_hex (hexL d) && (hexval (hexL d) =? d).

Lemma nib_facts : forall d, 0 <= d < 16 -> is_hex (hexL d) = true /\ hexval (hexL d) = d.
Proof.
  intros d Hd.
  assert (H : nib_check d = true).
  { apply (range_check nib_check 16).
    - vm_compute. reflexivity.
    - change (Z.of_nat 16) with 16. exact Hd. }
  unfold nib_check in H. rewrite andb_true_iff, Z.eqb_eq in H. exact H.
Qed.

Lemma hex_digits_all_hex : forall fuel n acc,
  0 <= n -> (forall c, In c acc -> is_hex c = true) ->
  forall c, In c (hex_digits fuel n acc) -> is_hex c = true.
Proof.
  induction fuel as [|f IH]; intros n acc Hn Hacc c Hc.
  - cbn [hex_digits] in Hc. auto.
  - cbn [hex_digits] in Hc. destruct (n <? 16) eqn:E.
    + apply Z.ltb_lt in E. destruct Hc as [<-|Hc]; [|auto].
      apply nib_facts. lia.
    + apply Z.ltb_ge in E. eapply IH; [| |exact Hc].
      * apply Z.div_pos; lia.
      * intros c' [<-|Hc']; [|auto]. apply nib_facts. apply Z.mod_pos_bound. lia.
Qed.

Lemma hex_of_all_hex : forall fuel n c, 0 <= n -> In c (hex_of fuel n) -> is_hex c = true.
Proof.
  intros fuel n c Hn Hc. unfold hex_of in Hc.
  eapply hex_digits_all_hex; [exact Hn| |exact Hc]. intros c' [].
Qed.

Lemma hex_digits_nonempty_acc : forall fuel n acc, acc <> [] -> hex_digits fuel n acc <> [].
Proof.
  induction fuel as [|f IH]; intros n acc Hacc.
  - exact Hacc.
  - cbn [hex_digits]. destruct (n <? 16).
    + discriminate.
    + apply IH. discriminate.
Qed.

Lemma hex_of_nonempty : forall fuel n, (fuel > 0)%nat -> hex_of fuel n <> [].
Proof.
  intros fuel n Hf. unfold hex_of. destruct fuel as [|f]; [lia|].
  cbn [hex_digits]. destruct (n <? 16).
  - discriminate.
  - apply hex_digits_nonempty_acc. discriminate.
Qed.

(* positional value of a string of hex digits *)
Fixpoint hval (s : list Z) : Z :=
  match s with
  | [] => 0
  | c :: t => hexval c * 16 ^ Z.of_nat (length t) + hval t
  end.

Lemma hex_parse_acc_val : forall s a,
  forallb is_hex s = true ->
  hex_parse_acc s a = Some (a * 16 ^ Z.of_nat (length s) + hval s).
Proof.
  induction s as [|c t IH]; intros a H.
  - cbn [hex_parse_acc length hval]. change (Z.of_nat 0) with 0. rewrite Z.pow_0_r.
    f_equal. ring.
  - cbn [forallb] in H. apply andb_true_iff in H. destruct H as [Hc Ht].
    cbn [hex_parse_acc]. rewrite Hc. rewrite IH by exact Ht.
    cbn [length hval]. rewrite Nat2Z.inj_succ, Z.pow_succ_r by lia.
    f_equal. ring.
Qed.

Lemma hex_digits_val : forall fuel n acc,
  0 <= n < 16 ^ Z.of_nat fuel ->
  hval (hex_digits fuel n acc) = n * 16 ^ Z.of_nat (length acc) + hval acc.
Proof.
  induction fuel as [|f IH]; intros n acc Hn.
  - change (Z.of_nat 0) with 0 in Hn. rewrite Z.pow_0_r in Hn.
    assert (n = 0) by lia. subst n. cbn [hex_digits]. ring.
  - rewrite Nat2Z.inj_succ, Z.pow_succ_r in Hn by lia.
    cbn [hex_digits]. destruct (n <? 16) eqn:E.
    + apply Z.ltb_lt in E. cbn [hval].
      destruct (nib_facts n) as [_ Hv]; [lia|]. rewrite Hv. reflexivity.
    + apply Z.ltb_ge in E. rewrite IH.
      * cbn [hval length]. rewrite Nat2Z.inj_succ, Z.pow_succ_r by lia.
        destruct (nib_facts (n mod 16)) as [_ Hv]; [apply Z.mod_pos_bound; lia|].
        rewrite Hv.
        pose proof (Z.div_mod n 16) as Hdm.
        assert (Hn16 : n = 16 * (n / 16) + n mod 16) by (apply Hdm; lia).
        rewrite Hn16 at 3. ring.
      * split; [apply Z.div_pos; lia|].
        apply Z.div_lt_upper_bound; lia.
Qed.

Lemma hex_parse_hex_of : forall fuel n,
  0 <= n < 16 ^ (Z.of_nat fuel) -> (fuel > 0)%nat -> hex_parse (hex_of fuel n) = Some n.
Proof.
  intros fuel n Hn Hf.
  pose proof (hex_of_nonempty fuel n Hf) as Hne.
  assert (Hall : forallb is_hex (hex_of fuel n) = true).
  { apply forallb_forall. intros c Hc. eapply hex_of_all_hex; [|exact Hc]. lia. }
  unfold hex_parse. destruct (hex_of fuel n) as [|c t] eqn:E; [congruence|].
  rewrite hex_parse_acc_val by exact Hall. rewrite <- E.
  unfold hex_of. rewrite hex_digits_val by exact Hn.
  cbn [length hval]. change (Z.of_nat 0) with 0. rewrite Z.pow_0_r. f_equal. ring.
Qed.
