(* C30 -- HTTP requests and WSGI responses survive the round trip.  Hand model (tie H), definitions only.

   Byte strings are lists of Z in [0,256).  Text (str) enters as its UTF-8 bytes -- the UTF-8 /
   latin-1 / JSON codecs are CPython's (modelled, not verified, see meta.json).
     Percent.v   quote / quote_plus / unquote / unquote_plus, '{:x}' / int(s,16)
     here        (1) httping.updateQargsQuery: query string built from query arguments, and its
                     own decoder; the url-encoded form body of Requester.build (FIXED behaviour,
                     fixes/C30-form-args-quoting.patch) and the standard form decoder
                 (2) Requester.build: which body is sent and which Content-Length /
                     Content-Type accompany it; what Requestant.parseHead/parseBody make of it
                 (3) httping.packChunk and the chunked body Responder.write emits, and the
                     decoder of Respondent.parseBody / httping.parseChunk
                 (4) the HTTPError branch of Responder.service                            *)
From Coq Require Import List ZArith Bool.
Import ListNotations.
Require Import V.C30.Percent.
Open Scope Z_scope.

Definition bytes := list Z.
Definition AMP := 38. Definition SEMI := 59. Definition EQ := 61.

(* ---------------------------------------------------------------- (1) query / form *)

(* bytes.split(sep): always at least one field *)
Fixpoint split_on (sep : Z) (l : bytes) : list bytes :=
  match l with
  | [] => [[]]
  | c :: t => if c =? sep then [] :: split_on sep t
              else match split_on sep t with
                   | [] => [[c]]
                   | f :: fs => (c :: f) :: fs
                   end
  end.

(* sep.join(parts) *)
Fixpoint join (sep : Z) (parts : list bytes) : bytes :=
  match parts with
  | [] => []
  | [p] => p
  | p :: ps => p ++ sep :: join sep ps
  end.

(* part.split('=', 1) when '=' in part:  (key, Some value) | (part, None) *)
Fixpoint cut_eq (part : bytes) : bytes * option bytes :=
  match part with
  | [] => ([], None)
  | c :: t => if c =? EQ then ([], Some t)
              else let '(k, v) := cut_eq t in (c :: k, v)
  end.

Fixpoint bytes_eqb (a b : bytes) : bool :=
  match a, b with
  | [], [] => true
  | x :: a', y :: b' => Z.eqb x y && bytes_eqb a' b'
  | _, _ => false
  end.

(* odict item assignment qargs[key] = val: replace in place, else append *)
Fixpoint assoc_set (k v : bytes) (l : list (bytes * bytes)) : list (bytes * bytes) :=
  match l with
  | [] => [(k, v)]
  | (k', v') :: t => if bytes_eqb k k' then (k, v) :: t else (k', v') :: assoc_set k v t
  end.

Definition TRUE_ : bytes := [116; 114; 117; 101].   (* u'true' *)

(* updateQargsQuery, encoding half: '&'.join("{0}={1}".format(key, quote_plus(str(val)))) *)
Definition enc_qarg (kv : bytes * bytes) : bytes := fst kv ++ EQ :: quote_plus safe_none (snd kv).
Definition build_query (qargs : list (bytes * bytes)) : bytes := join AMP (map enc_qarg qargs).

(* updateQargsQuery, decoding half, starting from already known qargs *)
Definition dec_qpart (acc : list (bytes * bytes)) (part : bytes) : list (bytes * bytes) :=
  match part with
  | [] => acc                                            (* if queryPart: *)
  | _ => match cut_eq part with
         | (k, Some v) => assoc_set k (unquote_plus v) acc
         | (k, None) => assoc_set k TRUE_ acc
         end
  end.
Definition parse_query_into (acc : list (bytes * bytes)) (q : bytes) : list (bytes * bytes) :=
  let parts := if memZ SEMI q then split_on SEMI q else split_on AMP q in
  fold_left dec_qpart parts acc.
Definition parse_query (q : bytes) : list (bytes * bytes) := parse_query_into [] q.

(* Requester.build, url-encoded form body (fixed): names and values quoted one by one *)
Definition enc_farg (kv : bytes * bytes) : bytes :=
  quote_plus safe_none (fst kv) ++ EQ :: quote_plus safe_none (snd kv).
Definition build_form (fargs : list (bytes * bytes)) : bytes := join AMP (map enc_farg fargs).
(* ... as it was found: quote_plus('&'.join(k=v), '&=') *)
Definition build_form_unfixed (fargs : list (bytes * bytes)) : bytes :=
  quote_plus safe_form (join AMP (map (fun kv => fst kv ++ EQ :: snd kv) fargs)).

(* the application/x-www-form-urlencoded decoder (urllib.parse.parse_qsl, keep_blank_values):
   split on '&', skip empty fields, split at the first '=', unquote_plus name and value *)
Definition dec_fpart (part : bytes) : list (bytes * bytes) :=
  match part with
  | [] => []
  | _ => match cut_eq part with
         | (k, Some v) => [(unquote_plus k, unquote_plus v)]
         | (k, None) => [(unquote_plus k, [])]
         end
  end.
Definition parse_form (b : bytes) : list (bytes * bytes) := flat_map dec_fpart (split_on AMP b).

(* ---------------------------------------------------------------- (2) request body selection *)

Definition GET_ : bytes := [71; 69; 84].

Record request := {
  q_method : bytes;                          (* already upper-cased by Requester           *)
  q_has_cl : bool;                           (* caller supplied a content-length header      *)
  q_data : option bytes;                     (* json.dumps(data) when data is not None        *)
  q_fargs : option (list (bytes * bytes));   (* form arguments (not multipart)                *)
  q_body : bytes
}.

Inductive ctype := CtUser | CtJson | CtForm.    (* which content-type header goes out *)

(* Requester.build: GET never carries a body; data, then fargs, then body *)
Definition select_body (r : request) : bytes * ctype :=
  if bytes_eqb (q_method r) GET_ then ([], CtUser)
  else match q_data r with
       | Some j => (j, CtJson)
       | None => match q_fargs r with
                 | Some f => (build_form f, CtForm)
                 | None => (q_body r, CtUser)
                 end
       end.

(* "if body and (u'content-length' not in self.headers)": the Content-Length line Requester adds *)
Definition added_content_length (r : request) : option Z :=
  let b := fst (select_body r) in
  match b with
  | [] => None
  | _ => if q_has_cl r then None else Some (Z.of_nat (length b))
  end.

(* Requestant.parseHead (not chunked): int(content-length) if present else 0;
   parseBody: body = msg[:length] once len(msg) >= length (None = wait for more) *)
Definition server_length (cl : option Z) : Z := match cl with Some n => n | None => 0 end.
Definition server_body (cl : option Z) (after_head : bytes) : option (bytes * bytes) :=
  let n := Z.to_nat (server_length cl) in
  if (length after_head <? n)%nat then None else Some (firstn n after_head, skipn n after_head).

(* Valet.buildEnviron: CONTENT_LENGTH = str(requestant.length) where .length = len(body) after
   parseBody *)
Definition environ_content_length (body : bytes) : Z := Z.of_nat (length body).

(* ---------------------------------------------------------------- (3) chunked bodies *)

Definition CR := 13. Definition LF := 10.
Definition CRLF : bytes := [CR; LF].
Definition HEXFUEL : nat := 16%nat.          (* chunk sizes below 16^16 *)

(* httping.packChunk *)
Definition pack_chunk (msg : bytes) : bytes :=
  hex_of HEXFUEL (Z.of_nat (length msg)) ++ CRLF ++ msg ++ CRLF.

Definition nonempty (b : bytes) : bool := match b with [] => false | _ => true end.

(* Responder.service/write with .chunked: empty yields write nothing, every other piece goes
   out as one chunk, StopIteration writes the terminating empty chunk *)
Definition chunked_body (pieces : list bytes) : bytes :=
  flat_map pack_chunk (filter nonempty pieces) ++ pack_chunk [].

(* httping.parseLine(eols=(CRLF,)): line up to the first CRLF; None = more bytes needed *)
Fixpoint take_line (l : bytes) : option (bytes * bytes) :=
  match l with
  | [] => None
  | c :: t => match t with
              | d :: r => if (c =? CR) && (d =? LF) then Some ([], r)
                          else match take_line t with
                               | Some (a, b) => Some (c :: a, b)
                               | None => None
                               end
              | [] => None
              end
  end.

Fixpoint break_semi (l : bytes) : bytes :=       (* line.partition(b';')[0] *)
  match l with
  | [] => []
  | c :: t => if c =? SEMI then [] else c :: break_semi t
  end.

Inductive dres := NeedMore | Bad | Done (body rest : bytes).

(* trailer: header lines until the empty line (CRLF line ends, as the Responder emits) *)
Fixpoint skip_trailer (fuel : nat) (l : bytes) : option bytes :=
  match fuel with
  | O => None
  | S f => match take_line l with
           | None => None
           | Some ([], rest) => Some rest
           | Some (_, rest) => skip_trailer f rest
           end
  end.

(* Respondent.parseBody (chunked) over httping.parseChunk; fuel bounds the number of chunks and
   trailer lines; size tokens without surrounding blanks *)
Fixpoint dechunk (fuel : nat) (l : bytes) (acc : bytes) : dres :=
  match fuel with
  | O => NeedMore
  | S f =>
      match take_line l with
      | None => NeedMore
      | Some (line, rest) =>
          match hex_parse (break_semi line) with
          | None => Bad                                          (* int(size, 16) raises *)
          | Some n =>
              if n =? 0 then
                match skip_trailer (S f) rest with
                | Some rest' => Done acc rest'
                | None => NeedMore
                end
              else if (length rest <? Z.to_nat n)%nat then NeedMore
              else match take_line (skipn (Z.to_nat n) rest) with
                   | None => NeedMore
                   | Some ([], rest') => dechunk f rest' (acc ++ firstn (Z.to_nat n) rest)
                   | Some (_, _) => Bad                          (* chunk end error *)
                   end
          end
      end
  end.

(* ---------------------------------------------------------------- (4) HTTPError branch *)

(* Responder.service, except HTTPError (head not sent yet): headers of the error plus a default
   content-type, content-length of the rendered body; start() then makes it fixed-length *)
Record error_response := { e_has_ctype : bool; e_body : bytes }.
Definition error_content_length (e : error_response) : Z := Z.of_nat (length (e_body e)).
Definition error_adds_ctype (e : error_response) : bool := negb (e_has_ctype e).
(* Responder.write under .length: bytes beyond length are cut *)
Definition error_sent_body (e : error_response) : bytes :=
  firstn (Z.to_nat (error_content_length e)) (e_body e).

(* ---------------------------------------------------------------- (4b) HTTPError at every point *)

(* What a WSGI application does, in order, as Responder.service sees it (one event per
   service() call; for a plain callable the events up to its return happen inside the call):
     EvStart st cl      start_response(status st, Content-Length cl or none)
     EvYield b          the iterator yields b (b = [] is an idle yield: nothing is written)
     EvRaise est eb     HTTPError with status est is raised; eb = ex.render()
   and then the iterator is exhausted (StopIteration).  A raise ends the application: a dead
   generator only raises StopIteration afterwards. *)
Inductive wsgi_ev := EvStart (st : Z) (cl : option Z) | EvYield (b : bytes) | EvRaise (est : Z) (eb : bytes).

Record rstate := {
  rs_started : bool;          (* Responder.started                                   *)
  rs_headed : bool;           (* Responder.headed: status line and headers are sent  *)
  rs_status : Z;              (* status that is / will be in the head                *)
  rs_len : option Z;          (* Responder.length                                    *)
  rs_sent : bytes;            (* body bytes handed to the connection (before chunk framing) *)
  rs_ended : bool;            (* Responder.ended                                     *)
  rs_broken : bool            (* write() before start_response(): AssertionError     *)
}.
Definition rs_init : rstate :=
  {| rs_started := false; rs_headed := false; rs_status := 200; rs_len := None; rs_sent := [];
     rs_ended := false; rs_broken := false |}.

(* Responder.write(msg) for msg <> b'' (or the final b''): head first, then at most .length bytes *)
Definition do_write (s : rstate) (b : bytes) : rstate :=
  if negb (rs_started s) then
    {| rs_started := false; rs_headed := rs_headed s; rs_status := rs_status s; rs_len := rs_len s;
       rs_sent := rs_sent s; rs_ended := rs_ended s; rs_broken := true |}
  else
    let room := match rs_len s with
                | Some n => firstn (Z.to_nat n - length (rs_sent s)) b
                | None => b
                end in
    {| rs_started := true; rs_headed := true; rs_status := rs_status s; rs_len := rs_len s;
       rs_sent := rs_sent s ++ room; rs_ended := rs_ended s; rs_broken := rs_broken s |}.

Definition set_ended (s : rstate) (e : bool) : rstate :=
  {| rs_started := rs_started s; rs_headed := rs_headed s; rs_status := rs_status s; rs_len := rs_len s;
     rs_sent := rs_sent s; rs_ended := e; rs_broken := rs_broken s |}.

Definition len_reached (s : rstate) : bool :=
  match rs_len s with Some n => (n <=? Z.of_nat (length (rs_sent s))) | None => false end.

(* one Responder.service() call consuming one event (nothing happens once .ended) *)
Definition serve_ev (s : rstate) (e : wsgi_ev) : rstate :=
  if rs_ended s || rs_broken s then s else
  match e with
  | EvStart st cl =>
      {| rs_started := true; rs_headed := rs_headed s; rs_status := st; rs_len := cl;
         rs_sent := rs_sent s; rs_ended := false; rs_broken := rs_broken s |}
  | EvYield [] => s                                            (* if msg: ... *)
  | EvYield b => let s' := do_write s b in set_ended s' (len_reached s')
  | EvRaise est eb =>
      if rs_headed s then s                                    (* logged, nothing sent *)
      else                                                     (* start(..., exc_info); write(msg); ended *)
        set_ended (do_write {| rs_started := true; rs_headed := false; rs_status := est;
                               rs_len := Some (Z.of_nat (length eb)); rs_sent := [];
                               rs_ended := false; rs_broken := rs_broken s |} eb) true
  end.

(* the service() call that meets StopIteration: write(b''), ended *)
Definition serve_stop (s : rstate) : rstate :=
  if rs_ended s || rs_broken s then s else set_ended (do_write s []) true.

Definition serve_app (evs : list wsgi_ev) : rstate := serve_stop (fold_left serve_ev evs rs_init).

(* what reaches the client: status, declared length, body bytes, and whether the response is
   complete (chunked: terminated by the empty chunk; fixed length: all declared bytes sent) *)
Definition resp_complete (s : rstate) : bool :=
  rs_headed s && match rs_len s with
                 | Some n => Z.of_nat (length (rs_sent s)) =? n
                 | None => rs_ended s
                 end.
Definition client_view (s : rstate) : Z * option Z * bytes * bool :=
  (rs_status s, rs_len s, rs_sent s, resp_complete s).

Definition idle_ev (e : wsgi_ev) : bool :=
  match e with EvStart _ _ => true | EvYield [] => true | _ => false end.
