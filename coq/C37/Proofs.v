From Coq Require Import List ZArith Bool Lia.
Import ListNotations.
Require Import V.C37.Model.
Open Scope Z_scope.

(* ------------------------------------------------------------------ lists *)
Lemma memZ_true_iff x l : memZ x l = true <-> In x l.
Proof.
  unfold memZ. rewrite existsb_exists. split.
  - intros [y [Hy He]]. apply Z.eqb_eq in He. subst. exact Hy.
  - intros H. exists x. split; [exact H | apply Z.eqb_refl].
Qed.

Lemma memZ_false_iff x l : memZ x l = false <-> ~ In x l.
Proof. rewrite <- memZ_true_iff. destruct (memZ x l); split; congruence. Qed.

Lemma lookup_in {A} (l : list (Z * A)) k v : lookup l k = Some v -> In (k, v) l.
Proof.
  induction l as [|[k' v'] t IH]; cbn; [discriminate|].
  destruct (Z.eqb k' k) eqn:E.
  - apply Z.eqb_eq in E. intros H; inversion H; subst. left; reflexivity.
  - intros H. right. apply IH. exact H.
Qed.

Lemma lookup_none {A} (l : list (Z * A)) k : lookup l k = None <-> ~ In k (map fst l).
Proof.
  induction l as [|[k' v'] t IH]; cbn; [tauto|].
  destruct (Z.eqb k' k) eqn:E.
  - apply Z.eqb_eq in E. subst. split; [discriminate | intros H; exfalso; apply H; left; reflexivity].
  - apply Z.eqb_neq in E. rewrite IH. split; [intros H [Hc|Hc]; [congruence | tauto] | tauto].
Qed.

Lemma lookup_app_some {A} (l l' : list (Z * A)) k v : lookup l k = Some v -> lookup (l ++ l') k = Some v.
Proof.
  induction l as [|[k' v'] t IH]; cbn; [discriminate|]. destruct (Z.eqb k' k); auto.
Qed.

Lemma lookup_app_none {A} (l l' : list (Z * A)) k : lookup l k = None -> lookup (l ++ l') k = lookup l' k.
Proof.
  induction l as [|[k' v'] t IH]; cbn; [reflexivity|]. destruct (Z.eqb k' k); [discriminate | auto].
Qed.

Lemma lookup_update_same {A} (l : list (Z * A)) k v v0 : lookup l k = Some v0 -> lookup (update l k v) k = Some v.
Proof.
  induction l as [|[k' v'] t IH]; cbn; [discriminate|]. destruct (Z.eqb k' k) eqn:E; cbn; rewrite E; auto.
Qed.

Lemma lookup_update_other {A} (l : list (Z * A)) k k0 v : k0 <> k -> lookup (update l k v) k0 = lookup l k0.
Proof.
  intros Hn. induction l as [|[k' v'] t IH]; cbn; [reflexivity|].
  destruct (Z.eqb k' k) eqn:E; cbn.
  - apply Z.eqb_eq in E. subst. destruct (Z.eqb k k0) eqn:E2; [apply Z.eqb_eq in E2; congruence | reflexivity].
  - destruct (Z.eqb k' k0); [reflexivity | exact IH].
Qed.

Lemma NoDup_app_one {A} (l : list A) x : NoDup l -> ~ In x l -> NoDup (l ++ [x]).
Proof.
  induction l as [|a t IH]; cbn; intros Hn Hx.
  - constructor; [intros [] | constructor].
  - inversion Hn; subst. constructor.
    + rewrite in_app_iff. cbn. intros [H|[H|[]]]; [tauto | subst; tauto].
    + apply IH; tauto.
Qed.

Lemma NoDup_map_inj {A B} (f : A -> B) l x y : NoDup (map f l) -> In x l -> In y l -> f x = f y -> x = y.
Proof.
  induction l as [|a t IH]; cbn; [tauto|]. intros Hn Hx Hy He. inversion Hn as [|? ? Hna Hnt]; subst.
  destruct Hx as [->|Hx], Hy as [->|Hy]; auto.
  - exfalso. apply Hna. rewrite He. apply in_map. exact Hy.
  - exfalso. apply Hna. rewrite <- He. apply in_map. exact Hx.
Qed.

Definition rem (x : Z) (l : list Z) : list Z := filter (fun y => negb (Z.eqb y x)) l.

Lemma rem_in x y l : In y (rem x l) <-> In y l /\ y <> x.
Proof.
  unfold rem. rewrite filter_In, negb_true_iff, Z.eqb_neq. tauto.
Qed.

Lemma rem_notin x l : ~ In x l -> rem x l = l.
Proof.
  induction l as [|a t IH]; cbn; [reflexivity|]. intros H.
  destruct (Z.eqb a x) eqn:E; cbn.
  - apply Z.eqb_eq in E. subst. tauto.
  - f_equal. apply IH. tauto.
Qed.

Lemma rem_NoDup x l : NoDup l -> NoDup (rem x l).
Proof. unfold rem. apply NoDup_filter. Qed.

(* ------------------------------------------------------------------ rekey / remove_key *)
Lemma rekey_keys_in l old new id k : In k (keys (rekey l old new id)) -> k = new \/ In k (keys l).
Proof.
  induction l as [|[k' v] t IH]; cbn; [tauto|]. destruct (Z.eqb k' old); cbn.
  - intros [H|H]; [left; congruence | right; right; exact H].
  - intros [H|H]; [right; left; exact H | destruct (IH H); tauto].
Qed.

Lemma rekey_NoDup l old new id : NoDup (keys l) -> ~ In new (keys l) -> NoDup (keys (rekey l old new id)).
Proof.
  induction l as [|[k' v] t IH]; cbn; [constructor|]. intros Hn Hnew. inversion Hn; subst.
  destruct (Z.eqb k' old); cbn.
  - constructor; [tauto | assumption].
  - constructor.
    + intros Hc. apply rekey_keys_in in Hc. destruct Hc; [subst; tauto | tauto].
    + apply IH; tauto.
Qed.

Lemma rekey_vals l old new id : lookup l old = Some id -> vals (rekey l old new id) = vals l.
Proof.
  induction l as [|[k' v] t IH]; cbn; [discriminate|]. destruct (Z.eqb k' old); cbn.
  - intros H; inversion H; reflexivity.
  - intros H. f_equal. apply IH. exact H.
Qed.

Lemma remove_key_keys_in l k k' : In k' (keys (remove_key l k)) -> In k' (keys l).
Proof.
  induction l as [|[k0 v] t IH]; cbn; [tauto|]. destruct (Z.eqb k0 k); cbn; [tauto|].
  intros [H|H]; [left; exact H | right; apply IH; exact H].
Qed.

Lemma remove_key_NoDup l k : NoDup (keys l) -> NoDup (keys (remove_key l k)).
Proof.
  induction l as [|[k0 v] t IH]; cbn; [constructor|]. intros Hn. inversion Hn; subst.
  destruct (Z.eqb k0 k); cbn; [assumption|]. constructor; [|apply IH; assumption].
  intros Hc. apply remove_key_keys_in in Hc. tauto.
Qed.

(* an index of the form  map (fun id => (F id, id)) order  *)
Section Shape.
  Variable F : Z -> Z.
  Definition shape (order : list Z) : alist := map (fun id => (F id, id)) order.

  Lemma shape_keys order : keys (shape order) = map F order.
  Proof. unfold shape, keys. rewrite map_map. reflexivity. Qed.

  Lemma shape_vals order : vals (shape order) = order.
  Proof. unfold shape, vals. rewrite map_map. cbn. apply map_id. Qed.

  Lemma shape_lookup order id : NoDup (map F order) -> In id order -> lookup (shape order) (F id) = Some id.
  Proof.
    induction order as [|a t IH]; cbn; [tauto|]. intros Hn Hin. inversion Hn as [|? ? Hna Hnt]; subst.
    destruct (Z.eqb (F a) (F id)) eqn:E.
    - apply Z.eqb_eq in E. destruct Hin as [->|Hin]; [reflexivity|].
      exfalso. apply Hna. rewrite E. apply in_map. exact Hin.
    - apply Z.eqb_neq in E. destruct Hin as [->|Hin]; [congruence | apply IH; assumption].
  Qed.

  Lemma shape_lookup_inv order k id : lookup (shape order) k = Some id -> In id order /\ F id = k.
  Proof.
    intros H. apply lookup_in in H. unfold shape in H. apply in_map_iff in H.
    destruct H as [x [Hx Hin]]. inversion Hx; subst. auto.
  Qed.

  Lemma shape_remove order id : NoDup order -> NoDup (map F order) -> In id order ->
    remove_key (shape order) (F id) = shape (rem id order).
  Proof.
    induction order as [|a t IH]; cbn; [tauto|]. intros Hn Hk Hin.
    inversion Hn as [|? ? Hna Hnt]; subst. inversion Hk as [|? ? Hka Hkt]; subst.
    destruct (Z.eqb (F a) (F id)) eqn:E.
    - apply Z.eqb_eq in E.
      assert (a = id).
      { destruct Hin as [->|Hin]; [reflexivity|]. exfalso. apply Hka. rewrite E. apply in_map. exact Hin. }
      subst a. rewrite Z.eqb_refl. cbn. fold (rem id t). rewrite rem_notin by exact Hna. reflexivity.
    - apply Z.eqb_neq in E. destruct Hin as [->|Hin]; [congruence|].
      destruct (Z.eqb a id) eqn:E2; [apply Z.eqb_eq in E2; subst; tauto|]. cbn. f_equal.
      apply IH; assumption.
  Qed.
End Shape.

Lemma shape_ext F G order : (forall id, In id order -> F id = G id) -> shape F order = shape G order.
Proof. intros H. unfold shape. apply map_ext_in. intros a Ha. rewrite (H a Ha). reflexivity. Qed.

(* rekey on a shaped index: F' agrees with F except at id, where it is new *)
Lemma shape_rekey F F' order id new : NoDup order -> NoDup (map F order) -> In id order ->
  F' id = new -> (forall x, x <> id -> F' x = F x) ->
  rekey (shape F order) (F id) new id = shape F' order.
Proof.
  induction order as [|a t IH]; cbn; [tauto|]. intros Hn Hk Hin Hnew Hoth.
  inversion Hn as [|? ? Hna Hnt]; subst. inversion Hk as [|? ? Hka Hkt]; subst.
  destruct (Z.eqb (F a) (F id)) eqn:E.
  - apply Z.eqb_eq in E.
    assert (a = id).
    { destruct Hin as [->|Hin]; [reflexivity|]. exfalso. apply Hka. rewrite E. apply in_map. exact Hin. }
    subst a. try rewrite Hnew. f_equal. apply shape_ext. intros x Hx. symmetry. apply Hoth. intros ->. tauto.
  - apply Z.eqb_neq in E. destruct Hin as [->|Hin]; [congruence|].
    assert (Ha : a <> id) by (intros ->; tauto). rewrite (Hoth a Ha). f_equal. apply IH; auto.
Qed.

(* ------------------------------------------------------------------ the invariant *)
Definition dummy : remote := {| r_uid := 0; r_name := 0; r_ha := 0 |}.
Definition the (s : stack) (id : Z) : remote :=
  match lookup (objs s) id with Some r => r | None => dummy end.
Definition order (s : stack) : list Z := vals (uidx s).
Definition key_of (f : field) (s : stack) (id : Z) : Z := getf f (the s id).

Definition inv (s : stack) : Prop :=
  NoDup (order s) /\
  (forall id, In id (order s) -> lookup (objs s) id <> None) /\
  (forall f, idx f s = shape (key_of f s) (order s)) /\
  (forall f, NoDup (keys (idx f s))) /\
  (forall f, ~ In (getf f (local s)) (keys (idx f s))).

Lemma inv_init a b c p : inv (init a b c p).
Proof.
  unfold inv, order; cbn. repeat split; try constructor; try tauto; intros f; destruct f; cbn; auto; constructor.
Qed.

Lemma taken_false f s k : taken f s k = false -> ~ In k (keys (idx f s)) /\ k <> getf f (local s).
Proof.
  unfold taken. rewrite orb_false_iff, memZ_false_iff, Z.eqb_neq. tauto.
Qed.

Lemma getf_setf_same f r v : getf f (setf f r v) = v.
Proof. destruct f; reflexivity. Qed.
Lemma getf_setf_other f g r v : f <> g -> getf g (setf f r v) = getf g r.
Proof. destruct f, g; cbn; congruence. Qed.

Lemma idx_set_same f s l : idx f (set_idx f s l) = l.
Proof. destruct f; reflexivity. Qed.
Lemma idx_set_other f g s l : f <> g -> idx g (set_idx f s l) = idx g s.
Proof. destruct f, g; cbn; congruence. Qed.
Lemma objs_set_idx f s l : objs (set_idx f s l) = objs s.
Proof. destruct f; reflexivity. Qed.
Lemma local_set_idx f s l : local (set_idx f s l) = local s.
Proof. destruct f; reflexivity. Qed.

Definition field_eq_dec (f g : field) : {f = g} + {f <> g}.
Proof. decide equality. Defined.

Lemma in_order_key f s id : inv s -> In id (order s) -> In (key_of f s id) (keys (idx f s)).
Proof.
  intros (_ & _ & Hs & _ & _) Hin. rewrite (Hs f), shape_keys. apply in_map. exact Hin.
Qed.

Lemma inv_keys_nodup f s : inv s -> NoDup (map (key_of f s) (order s)).
Proof. intros (_ & _ & Hs & Hk & _). rewrite <- shape_keys, <- (Hs f). apply Hk. Qed.

(* --- New: a fresh object, indexes untouched *)
Lemma inv_new s id r p : inv s -> lookup (objs s) id = None ->
  inv (set_puid (set_objs s (objs s ++ [(id, r)])) p).
Proof.
  intros (H1 & H2 & H3 & H4 & H5) Hfresh. unfold inv, order in *; cbn.
  assert (Hthe : forall x, In x (vals (uidx s)) ->
            the (set_puid (set_objs s (objs s ++ [(id, r)])) p) x = the s x).
  { intros x Hx. unfold the; cbn. specialize (H2 x Hx). destruct (lookup (objs s) x) eqn:E; [|congruence].
    rewrite (lookup_app_some _ _ _ _ E). reflexivity. }
  split; [exact H1|]. split.
  { intros x Hx. specialize (H2 x Hx). destruct (lookup (objs s) x) eqn:E; [|congruence].
    rewrite (lookup_app_some _ _ _ _ E). discriminate. }
  split.
  { intros f. specialize (H3 f). destruct f; cbn in *; rewrite H3 at 1; apply shape_ext; intros x Hx;
      unfold key_of; rewrite Hthe; auto. }
  split; intros f; [specialize (H4 f) | specialize (H5 f)]; destruct f; cbn in *; assumption.
Qed.

(* --- Add *)
Lemma inv_add s id r s' : inv s -> lookup (objs s) id = Some r -> do_add s id r = (Done, s') -> inv s'.
Proof.
  intros Hi Hl H. unfold do_add in H.
  destruct (taken FUid s (r_uid r) || taken FName s (r_name r) || taken FHa s (r_ha r)) eqn:Et; [discriminate|].
  apply orb_false_iff in Et. destruct Et as [Et Et3]. apply orb_false_iff in Et. destruct Et as [Et1 Et2].
  apply taken_false in Et1, Et2, Et3. cbn in Et1, Et2, Et3.
  inversion H; subst; clear H.
  assert (Hthe : the s id = r) by (unfold the; rewrite Hl; reflexivity).
  assert (Hnot : ~ In id (order s)).
  { intros Hin. apply (in_order_key FUid) in Hin; [|exact Hi]. unfold key_of in Hin. rewrite Hthe in Hin.
    cbn in Hin. tauto. }
  destruct Hi as (H1 & H2 & H3 & H4 & H5).
  unfold inv, order in *; cbn [uidx nidx hidx objs local puid].
  assert (Hv : vals (uidx s ++ [(r_uid r, id)]) = vals (uidx s) ++ [id]).
  { unfold vals. rewrite map_app. reflexivity. }
  rewrite Hv.
  split; [apply NoDup_app_one; assumption|].
  split.
  { intros x Hx. apply in_app_iff in Hx. destruct Hx as [Hx|[<-|[]]]; [apply H2; exact Hx | congruence]. }
  split.
  { intros f. unfold shape. rewrite map_app. cbn [map]. unfold key_of at 2, the at 1; cbn [objs].
    rewrite Hl. pose proof (H3 f) as Hf. unfold shape in Hf.
    destruct f; cbn [idx getf uidx nidx hidx] in *; rewrite Hf at 1; f_equal. }
  split; intros f.
  - specialize (H4 f). destruct f; cbn [idx uidx nidx hidx] in *; unfold keys in *; rewrite map_app; cbn [map fst];
      apply NoDup_app_one; tauto.
  - specialize (H5 f). destruct f; cbn [idx uidx nidx hidx local getf] in *; unfold keys in *; rewrite map_app;
      rewrite in_app_iff; cbn; intros [Hc|[Hc|[]]]; try tauto; symmetry in Hc; tauto.
Qed.

(* --- Rekey *)
Lemma inv_rekey s f id r new s' : inv s -> lookup (objs s) id = Some r ->
  do_rekey s f id r new = (Done, s') ->
  inv s' /\ order s' = order s /\ (forall g, vals (idx g s') = vals (idx g s)) /\
  (forall g, g <> f -> idx g s' = idx g s) /\
  (new <> getf f r -> lookup (idx f s') new = Some id /\ the s' id = setf f r new).
Proof.
  intros Hi Hl H. unfold do_rekey in H.
  destruct (Z.eqb new (getf f r)) eqn:Enew.
  { inversion H; subst. apply Z.eqb_eq in Enew. split; [exact Hi|]. split; [reflexivity|].
    split; [reflexivity|]. split; [reflexivity|]. intros Hc; exfalso; exact (Hc Enew). }
  apply Z.eqb_neq in Enew.
  destruct (taken f s new) eqn:Et; [discriminate|]. apply taken_false in Et. destruct Et as [Et1 Et2].
  destruct (lookup (idx f s) (getf f r)) as [id'|] eqn:Elk; [|discriminate].
  destruct (Z.eqb id' id) eqn:Eid; [|discriminate]. apply Z.eqb_eq in Eid. subst id'.
  inversion H; subst; clear H.
  assert (Hthe : the s id = r) by (unfold the; rewrite Hl; reflexivity).
  pose proof Hi as (H1 & H2 & H3 & H4 & H5).
  assert (Hin : In id (order s)).
  { rewrite (H3 f) in Elk. apply shape_lookup_inv in Elk. tauto. }
  set (s1 := set_objs s (update (objs s) id (setf f r new))).
  set (s' := set_idx f s1 (rekey (idx f s) (getf f r) new id)).
  assert (Hthe_id : the s' id = setf f r new).
  { unfold the, s', s1. rewrite objs_set_idx. cbn. rewrite (lookup_update_same _ _ _ _ Hl). reflexivity. }
  assert (Hthe_o : forall x, x <> id -> the s' x = the s x).
  { intros x Hx. unfold the, s', s1. rewrite objs_set_idx. cbn. rewrite lookup_update_other by exact Hx. reflexivity. }
  assert (Hidx_f : idx f s' = shape (key_of f s') (order s)).
  { assert (Hraw : idx f s' = rekey (idx f s) (getf f r) new id) by (unfold s'; apply idx_set_same).
    rewrite Hraw, (H3 f).
    replace (getf f r) with (key_of f s id) by (unfold key_of; rewrite Hthe; reflexivity).
    apply shape_rekey; auto.
    - apply inv_keys_nodup. exact Hi.
    - unfold key_of. rewrite Hthe_id. apply getf_setf_same.
    - intros x Hx. unfold key_of. rewrite Hthe_o by exact Hx. reflexivity. }
  assert (Hidx_g : forall g, g <> f -> idx g s' = idx g s).
  { intros g Hg. unfold s'. rewrite idx_set_other by congruence. destruct g; reflexivity. }
  assert (Hord : order s' = order s).
  { unfold order. destruct (field_eq_dec f FUid) as [->|Hne].
    - change (uidx s') with (idx FUid s'). rewrite Hidx_f, shape_vals. reflexivity.
    - change (uidx s') with (idx FUid s'). rewrite Hidx_g by congruence. reflexivity. }
  assert (Hshape_g : forall g, g <> f -> idx g s = shape (key_of g s') (order s)).
  { intros g Hg. rewrite (H3 g). apply shape_ext. intros x Hx. unfold key_of.
    destruct (Z.eq_dec x id) as [->|Hne].
    - rewrite Hthe_id, Hthe. symmetry. apply getf_setf_other. congruence.
    - rewrite Hthe_o by exact Hne. reflexivity. }
  split.
  { unfold inv. rewrite Hord. split; [exact H1|]. split.
    { intros x Hx. unfold s', s1. rewrite objs_set_idx. cbn. destruct (Z.eq_dec x id) as [->|Hne].
      - rewrite (lookup_update_same _ _ _ _ Hl). discriminate.
      - rewrite lookup_update_other by exact Hne. apply H2. exact Hx. }
    split.
    { intros g. destruct (field_eq_dec g f) as [->|Hne]; [exact Hidx_f|].
      rewrite Hidx_g by exact Hne. apply Hshape_g. exact Hne. }
    split; intros g; (destruct (field_eq_dec g f) as [->|Hne]; [|rewrite Hidx_g by exact Hne]).
    - unfold s'. rewrite idx_set_same. apply rekey_NoDup; [apply H4 | exact Et1].
    - apply H4.
    - unfold s'. rewrite idx_set_same, local_set_idx. cbn [local s1 set_objs]. intros Hc.
      apply rekey_keys_in in Hc. destruct Hc as [Hc|Hc]; [congruence | exact (H5 f Hc)].
    - unfold s'. rewrite local_set_idx. cbn [local s1 set_objs]. apply H5. }
  split; [exact Hord|]. split.
  { intros g. destruct (field_eq_dec g f) as [->|Hne]; [|rewrite Hidx_g by exact Hne; reflexivity].
    unfold s'. rewrite idx_set_same. apply rekey_vals. exact Elk. }
  split; [exact Hidx_g|].
  intros _. split; [|exact Hthe_id].
  rewrite Hidx_f. replace new with (key_of f s' id) by (unfold key_of; rewrite Hthe_id; apply getf_setf_same).
  apply shape_lookup; [|exact Hin].
  rewrite <- shape_keys, <- Hidx_f. unfold s'. rewrite idx_set_same. apply rekey_NoDup; [apply H4 | exact Et1].
Qed.

(* --- Remove *)
Lemma inv_remove s id r oc s' : inv s -> lookup (objs s) id = Some r -> do_remove s id r = (oc, s') ->
  (oc = Rejected /\ s' = s) \/
  (oc = Done /\ inv s' /\ order s' = rem id (order s) /\ In id (order s) /\ objs s' = objs s).
Proof.
  intros Hi Hl H. unfold do_remove in H.
  destruct (lookup (uidx s) (r_uid r)) as [id'|] eqn:Elk; [|inversion H; auto].
  destruct (Z.eqb id' id) eqn:Eid; cbn [negb] in H; [|inversion H; auto].
  apply Z.eqb_eq in Eid. subst id'. right.
  assert (Hthe : the s id = r) by (unfold the; rewrite Hl; reflexivity).
  pose proof Hi as (H1 & H2 & H3 & H4 & H5).
  assert (Hin : In id (order s)).
  { change (uidx s) with (idx FUid s) in Elk. rewrite (H3 FUid) in Elk. apply shape_lookup_inv in Elk. tauto. }
  assert (Hkey : forall f, getf f r = key_of f s id) by (intros f; unfold key_of; rewrite Hthe; reflexivity).
  assert (Hn : memZ (r_name r) (keys (nidx s)) = true).
  { apply memZ_true_iff. change (r_name r) with (getf FName r). rewrite Hkey.
    apply (in_order_key FName s id Hi Hin). }
  assert (Hh : memZ (r_ha r) (keys (hidx s)) = true).
  { apply memZ_true_iff. change (r_ha r) with (getf FHa r). rewrite Hkey.
    apply (in_order_key FHa s id Hi Hin). }
  rewrite Hn, Hh in H. cbn [negb] in H. injection H as Hoc Hs'. subst oc s'.
  assert (Hrm : forall f, remove_key (idx f s) (getf f r) = shape (key_of f s) (rem id (order s))).
  { intros f. rewrite (H3 f), Hkey. apply shape_remove; auto. apply inv_keys_nodup. exact Hi. }
  split; [reflexivity|].
  assert (Hord : vals (remove_key (uidx s) (r_uid r)) = rem id (order s)).
  { change (uidx s) with (idx FUid s). change (r_uid r) with (getf FUid r). rewrite Hrm, shape_vals. reflexivity. }
  split.
  { unfold inv, order; cbn [uidx nidx hidx objs local puid]. rewrite Hord. split; [apply rem_NoDup; exact H1|]. split.
    { intros x Hx. apply rem_in in Hx. apply H2. tauto. }
    split.
    { intros f. destruct f; cbn [idx uidx nidx hidx].
      - exact (Hrm FUid). - exact (Hrm FName). - exact (Hrm FHa). }
    split; intros f; destruct f; cbn [idx uidx nidx hidx local getf].
    + apply (remove_key_NoDup _ _ (H4 FUid)).
    + apply (remove_key_NoDup _ _ (H4 FName)).
    + apply (remove_key_NoDup _ _ (H4 FHa)).
    + intros Hc. apply remove_key_keys_in in Hc. exact (H5 FUid Hc).
    + intros Hc. apply remove_key_keys_in in Hc. exact (H5 FName Hc).
    + intros Hc. apply remove_key_keys_in in Hc. exact (H5 FHa Hc). }
  split; [unfold order; cbn [uidx]; exact Hord|]. split; [exact Hin | reflexivity].
Qed.

(* ------------------------------------------------------------------ fresh uid *)
Lemma next_free_sound fuel : forall s p u, next_free fuel s p = Some u -> taken FUid s u = false /\ p < u.
Proof.
  induction fuel as [|n IH]; cbn; intros s p u H; [discriminate|].
  destruct (taken FUid s (p + 1)) eqn:E.
  - apply IH in H. destruct H. split; [assumption | lia].
  - inversion H; subst. split; [exact E | lia].
Qed.

Lemma filter_length_lt (f g : Z -> bool) l a : (forall x, g x = true -> f x = true) ->
  In a l -> f a = true -> g a = false -> (length (filter g l) < length (filter f l))%nat.
Proof.
  intros Hgf. induction l as [|b t IH]; cbn; [tauto|]. intros [->|Hin] Hfa Hga.
  - rewrite Hfa, Hga. cbn.
    assert (length (filter g t) <= length (filter f t))%nat.
    { clear IH. induction t as [|c t IH]; cbn; [lia|]. destruct (g c) eqn:Eg.
      - rewrite (Hgf c Eg). cbn. lia.
      - destruct (f c); cbn; lia. }
    lia.
  - specialize (IH Hin Hfa Hga). destruct (g b) eqn:Eg.
    + rewrite (Hgf b Eg). cbn. lia.
    + destruct (f b); cbn; lia.
Qed.

(* the uid loop of RemoteDevice terminates: fuel = number of keys above p (+1 for the local uid, +1) *)
Lemma next_free_total fuel : forall s p,
  (length (filter (fun x => Z.ltb p x) (getf FUid (local s) :: keys (uidx s))) < fuel)%nat ->
  exists u, next_free fuel s p = Some u.
Proof.
  induction fuel as [|n IH]; intros s p Hlen; [lia|]. cbn [next_free].
  destruct (taken FUid s (p + 1)) eqn:E; [|eexists; reflexivity].
  apply IH.
  assert (Hin : In (p + 1) (getf FUid (local s) :: keys (uidx s))).
  { unfold taken in E. apply orb_true_iff in E. destruct E as [E|E].
    - right. apply memZ_true_iff. exact E.
    - left. apply Z.eqb_eq in E. cbn in *. congruence. }
  pose proof (filter_length_lt (fun x => Z.ltb p x) (fun x => Z.ltb (p + 1) x)
                (getf FUid (local s) :: keys (uidx s)) (p + 1)) as Hlt.
  assert (length (filter (fun x => Z.ltb (p + 1) x) (getf FUid (local s) :: keys (uidx s))) <
          length (filter (fun x => Z.ltb p x) (getf FUid (local s) :: keys (uidx s))))%nat.
  { apply Hlt; auto.
    - intros x Hx. apply Z.ltb_lt in Hx. apply Z.ltb_lt. lia.
    - apply Z.ltb_lt. lia.
    - apply Z.ltb_ge. lia. }
  lia.
Qed.

Lemma filter_length_le {A} (f : A -> bool) l : (length (filter f l) <= length l)%nat.
Proof. induction l as [|a t IH]; cbn; [lia|]. destruct (f a); cbn; lia. Qed.

(* ------------------------------------------------------------------ steps and runs *)
Lemma step_inv s o oc s' : inv s -> step s o = (oc, s') ->
  inv s' /\ oc <> KeyErr /\ (oc = Rejected -> s' = s).
Proof.
  intros Hi H.
  assert (Hrej : (Rejected, s) = (oc, s') -> inv s' /\ oc <> KeyErr /\ (oc = Rejected -> s' = s)).
  { intros E. inversion E; subst. split; [exact Hi | split; [discriminate | reflexivity]]. }
  destruct o as [id uid name ha | id | f id new | id]; cbn [step] in H.
  - destruct (lookup (objs s) id) eqn:El; [exact (Hrej H)|].
    destruct uid as [u|].
    + inversion H; subst. split; [|split; [discriminate | discriminate]].
      pose proof (inv_new s id {| r_uid := u; r_name := name; r_ha := ha |} (puid s) Hi El) as Hn.
      destruct s; exact Hn.
    + destruct (next_free_total (S (S (length (uidx s)))) s (puid s)) as [u Hu].
      { pose proof (filter_length_le (fun x => Z.ltb (puid s) x) (getf FUid (local s) :: keys (uidx s))) as Hle.
        assert (Hk : length (keys (uidx s)) = length (uidx s)) by (unfold keys; apply map_length).
        cbn [length] in Hle. lia. }
      rewrite Hu in H. inversion H; subst. split; [|split; discriminate].
      apply inv_new; assumption.
  - destruct (lookup (objs s) id) as [r|] eqn:El; [|exact (Hrej H)].
    destruct oc.
    + split; [eapply inv_add; eauto | split; discriminate].
    + unfold do_add in H.
      destruct (taken FUid s (r_uid r) || taken FName s (r_name r) || taken FHa s (r_ha r)); [exact (Hrej H)|].
      discriminate.
    + unfold do_add in H.
      destruct (taken FUid s (r_uid r) || taken FName s (r_name r) || taken FHa s (r_ha r)); discriminate.
  - destruct (lookup (objs s) id) as [r|] eqn:El; [|exact (Hrej H)].
    destruct oc.
    + destruct (inv_rekey s f id r new s' Hi El H) as [Hi' _]. split; [exact Hi' | split; discriminate].
    + unfold do_rekey in H. destruct (Z.eqb new (getf f r)); [discriminate|].
      destruct (taken f s new); [exact (Hrej H)|].
      destruct (lookup (idx f s) (getf f r)); [|exact (Hrej H)].
      destruct (Z.eqb z id); [discriminate | exact (Hrej H)].
    + exfalso. unfold do_rekey in H. destruct (Z.eqb new (getf f r)); [discriminate|].
      destruct (taken f s new); [discriminate|].
      destruct (lookup (idx f s) (getf f r)); [|discriminate].
      destruct (Z.eqb z id); discriminate.
  - destruct (lookup (objs s) id) as [r|] eqn:El; [|exact (Hrej H)].
    destruct (inv_remove s id r oc s' Hi El H) as [[-> ->]|(-> & Hi' & _)].
    + split; [exact Hi | split; [discriminate | reflexivity]].
    + split; [exact Hi' | split; discriminate].
Qed.

Lemma run_inv ops : forall s, inv s -> inv (run_from s ops).
Proof.
  induction ops as [|o r IH]; intros s Hi; cbn; [exact Hi|].
  destruct (step s o) as [oc s'] eqn:E. cbn. apply IH. eapply step_inv; eauto.
Qed.

(* the user-facing reading of the invariant *)
Lemma inv_consistent s : inv s ->
  (forall f, vals (idx f s) = vals (uidx s)) /\
  NoDup (vals (uidx s)) /\
  (forall f k id, In (k, id) (idx f s) -> exists r, lookup (objs s) id = Some r /\ getf f r = k) /\
  (forall f, NoDup (keys (idx f s))) /\
  (forall f, ~ In (getf f (local s)) (keys (idx f s))).
Proof.
  intros (H1 & H2 & H3 & H4 & H5). split; [|split; [exact H1|split; [|split; assumption]]].
  - intros f. rewrite (H3 f), shape_vals. reflexivity.
  - intros f k id Hin. rewrite (H3 f) in Hin. unfold shape in Hin. apply in_map_iff in Hin.
    destruct Hin as [x [Hx Hin]]. inversion Hx; subst. specialize (H2 id Hin).
    unfold key_of, the. destruct (lookup (objs s) id) as [r|]; [|congruence]. exists r. auto.
Qed.
