(* C37 -- property theorems only.  Each closed by [exact]; Print Assumptions beneath. *)
From Coq Require Import List ZArith Bool.
Import ListNotations.
Require Import V.C37.Model V.C37.Proofs.
Open Scope Z_scope.

(* After ANY sequence of create / add / move / rename / reha / remove operations, successful or
   rejected, from an empty stack with any local device:
   - the name and ha indexes list exactly the same remotes as the uid index, in the same order,
     each remote once;
   - every entry (k, remote) of an index is filed under the remote's CURRENT uid / name / ha;
   - keys are unique; no key equals the local device's uid / name / ha. *)
Theorem indexes_inv : forall luid lname lha p ops,
  let s := run_from (init luid lname lha p) ops in
  (forall f, vals (idx f s) = vals (uidx s)) /\
  NoDup (vals (uidx s)) /\
  (forall f k id, In (k, id) (idx f s) -> exists r, lookup (objs s) id = Some r /\ getf f r = k) /\
  (forall f, NoDup (keys (idx f s))) /\
  (forall f, ~ In (getf f (local s)) (keys (idx f s))).
Proof. exact (fun a b c p ops => inv_consistent _ (run_inv ops _ (inv_init a b c p))). Qed.
Print Assumptions indexes_inv.

(* In every reachable state every operation either succeeds or is rejected leaving the WHOLE
   state (indexes and remote attributes) unchanged; the KeyError path of removeRemote (indexes
   out of step) and exhaustion of the uid loop never happen. *)
Theorem rejected_unchanged : forall luid lname lha p ops o oc s',
  step (run_from (init luid lname lha p) ops) o = (oc, s') ->
  oc <> KeyErr /\ (oc = Rejected -> s' = run_from (init luid lname lha p) ops).
Proof.
  exact (fun a b c p ops o oc s' H =>
           proj2 (step_inv _ o oc s' (run_inv ops _ (inv_init a b c p)) H)).
Qed.
Print Assumptions rejected_unchanged.

(* move / rename / reha keep the remote's position: the sequence of remotes of every index is
   unchanged, the other two indexes are untouched, and the remote is now found under the new key
   with its attribute updated. *)
Theorem rekey_keeps_position : forall s f id r new s', inv s -> lookup (objs s) id = Some r ->
  do_rekey s f id r new = (Done, s') ->
  inv s' /\ order s' = order s /\ (forall g, vals (idx g s') = vals (idx g s)) /\
  (forall g, g <> f -> idx g s' = idx g s) /\
  (new <> getf f r -> lookup (idx f s') new = Some id /\ the s' id = setf f r new).
Proof. exact inv_rekey. Qed.
Print Assumptions rekey_keeps_position.

(* removeRemote: rejected (nothing changes) or the remote leaves all three indexes, the others
   keep their relative order *)
Theorem remove_spec : forall s id r oc s', inv s -> lookup (objs s) id = Some r ->
  do_remove s id r = (oc, s') ->
  (oc = Rejected /\ s' = s) \/
  (oc = Done /\ inv s' /\ order s' = rem id (order s) /\ In id (order s) /\ objs s' = objs s).
Proof. exact inv_remove. Qed.
Print Assumptions remove_spec.

(* the invariant used above holds in every reachable state *)
Theorem reachable_inv : forall luid lname lha p ops, inv (run_from (init luid lname lha p) ops).
Proof. exact (fun a b c p ops => run_inv ops _ (inv_init a b c p)). Qed.
Print Assumptions reachable_inv.

(* RemoteDevice uid assignment: the loop `uid = stack.nextUid() while taken` terminates within
   len(remotes)+2 iterations, and the uid it yields is free (not a remote's, not the local's) *)
Theorem fresh_uid_free : forall fuel s p u, next_free fuel s p = Some u -> taken FUid s u = false /\ p < u.
Proof. exact next_free_sound. Qed.
Print Assumptions fresh_uid_free.

Theorem fresh_uid_terminates : forall fuel s p,
  (length (filter (fun x => Z.ltb p x) (getf FUid (local s) :: keys (uidx s))) < fuel)%nat ->
  exists u, next_free fuel s p = Some u.
Proof. exact next_free_total. Qed.
Print Assumptions fresh_uid_terminates.

(* non-vacuity: add two remotes, move the first, a rejected rename, remove *)
Example c37_nonvacuous :
  let ops := [New 0 None 101 201; New 1 (Some 5) 102 202; Add 0; Add 1; Rekey FUid 0 7;
              Rekey FName 1 101; Rekey FName 0 103; Remove 1] in
  map (fun o => fst (fst o)) (trace (init 1 100 200 1) ops)
    = [Done; Done; Done; Done; Done; Rejected; Done; Done] /\
  let s := run_from (init 1 100 200 1) ops in
  (uidx s, nidx s, hidx s) = ([(7, 0)], [(103, 0)], [(201, 0)]).
Proof. vm_compute. split; reflexivity. Qed.
