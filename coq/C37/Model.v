(* C37 -- RemoteStack.addRemote / moveRemote / renameRemote / rehaRemote / removeRemote
   (ioflo/aio/proto/stacking.py) and RemoteDevice uid assignment (devicing.py).
   Hand model (tie H).  Definitions only.

   uids, names and host addresses are interned as Z by the harness.  Remote objects have an
   identity (rid, assigned by the harness) and three mutable attributes.  The stack holds three
   insertion-ordered indexes (odict) key -> remote object:  association lists (key, rid).

   move/rename/reha are the same code up to the attribute: one op [Rekey f rid new].
   odict.insert(index, key, val) after `del`: the new key takes the old key's position.   *)
From Coq Require Import List ZArith Bool.
Import ListNotations.
Open Scope Z_scope.

Inductive field := FUid | FName | FHa.
Definition fields := [FUid; FName; FHa].

Record remote := { r_uid : Z; r_name : Z; r_ha : Z }.

Definition getf (f : field) (r : remote) : Z :=
  match f with FUid => r_uid r | FName => r_name r | FHa => r_ha r end.
Definition setf (f : field) (r : remote) (v : Z) : remote :=
  match f with
  | FUid => {| r_uid := v; r_name := r_name r; r_ha := r_ha r |}
  | FName => {| r_uid := r_uid r; r_name := v; r_ha := r_ha r |}
  | FHa => {| r_uid := r_uid r; r_name := r_name r; r_ha := v |}
  end.

Definition alist := list (Z * Z).
Definition keys (l : alist) : list Z := map fst l.
Definition vals (l : alist) : list Z := map snd l.
Definition memZ (x : Z) (l : list Z) : bool := existsb (Z.eqb x) l.

Fixpoint lookup {A} (l : list (Z * A)) (k : Z) : option A :=
  match l with
  | [] => None
  | (k', v) :: t => if Z.eqb k' k then Some v else lookup t k
  end.

Fixpoint update {A} (l : list (Z * A)) (k : Z) (v : A) : list (Z * A) :=
  match l with
  | [] => []
  | (k', v') :: t => if Z.eqb k' k then (k', v) :: t else (k', v') :: update t k v
  end.

(* del d[old]; d.insert(index_of_old, new, id) *)
Fixpoint rekey (l : alist) (old new id : Z) : alist :=
  match l with
  | [] => []
  | (k, v) :: t => if Z.eqb k old then (new, id) :: t else (k, v) :: rekey t old new id
  end.

(* del d[k] *)
Fixpoint remove_key (l : alist) (k : Z) : alist :=
  match l with
  | [] => []
  | (k', v) :: t => if Z.eqb k' k then t else (k', v) :: remove_key t k
  end.

Record stack := {
  objs : list (Z * remote);      (* every remote object created so far, by identity *)
  uidx : alist; nidx : alist; hidx : alist;    (* .uidRemotes .nameRemotes .haRemotes *)
  local : remote;
  puid : Z
}.

Definition idx (f : field) (s : stack) : alist :=
  match f with FUid => uidx s | FName => nidx s | FHa => hidx s end.
Definition set_idx (f : field) (s : stack) (l : alist) : stack :=
  match f with
  | FUid => {| objs := objs s; uidx := l; nidx := nidx s; hidx := hidx s; local := local s; puid := puid s |}
  | FName => {| objs := objs s; uidx := uidx s; nidx := l; hidx := hidx s; local := local s; puid := puid s |}
  | FHa => {| objs := objs s; uidx := uidx s; nidx := nidx s; hidx := l; local := local s; puid := puid s |}
  end.
Definition set_objs (s : stack) (o : list (Z * remote)) : stack :=
  {| objs := o; uidx := uidx s; nidx := nidx s; hidx := hidx s; local := local s; puid := puid s |}.
Definition set_puid (s : stack) (p : Z) : stack :=
  {| objs := objs s; uidx := uidx s; nidx := nidx s; hidx := hidx s; local := local s; puid := p |}.

Definition init (luid lname lha p : Z) : stack :=
  {| objs := []; uidx := []; nidx := []; hidx := [];
     local := {| r_uid := luid; r_name := lname; r_ha := lha |}; puid := p |}.

(* key already used in index f, or equal to the local device's *)
Definition taken (f : field) (s : stack) (k : Z) : bool :=
  memZ k (keys (idx f s)) || Z.eqb k (getf f (local s)).

(* Rejected: the operation raises the stack's rejection error, always ValueError
   (removeRemote's "not identical" path as fixed by fixes/C37-removeremote-nameerror.patch;
   the unfixed code raises NameError there - undefined `uid` - which rejects just the same).
   KeyErr: `del index[key]` on a missing key (indexes out of step) / uid loop out of fuel. *)
Inductive rejection := ValueError.
Definition rejection_class : rejection := ValueError.
Inductive outcome := Done | Rejected | KeyErr.

(* RemoteDevice(stack, uid=None): uid = stack.nextUid() until free.  fuel bounds the loop *)
Fixpoint next_free (fuel : nat) (s : stack) (p : Z) : option Z :=
  match fuel with
  | O => None
  | S n => let u := p + 1 in if taken FUid s u then next_free n s u else Some u
  end.

Inductive op :=
| New (id : Z) (uid : option Z) (name ha : Z)   (* create a RemoteDevice object (not added) *)
| Add (id : Z)
| Rekey (f : field) (id new : Z)                (* moveRemote / renameRemote / rehaRemote *)
| Remove (id : Z).

Definition do_add (s : stack) (id : Z) (r : remote) : outcome * stack :=
  if taken FUid s (r_uid r) || taken FName s (r_name r) || taken FHa s (r_ha r) then (Rejected, s)
  else (Done, {| objs := objs s;
                 uidx := uidx s ++ [(r_uid r, id)];
                 nidx := nidx s ++ [(r_name r, id)];
                 hidx := hidx s ++ [(r_ha r, id)];
                 local := local s; puid := puid s |}).

Definition do_rekey (s : stack) (f : field) (id : Z) (r : remote) (new : Z) : outcome * stack :=
  let old := getf f r in
  if Z.eqb new old then (Done, s)
  else if taken f s new then (Rejected, s)
  else match lookup (idx f s) old with
       | None => (Rejected, s)
       | Some id' =>
           if Z.eqb id' id
           then (Done, set_idx f (set_objs s (update (objs s) id (setf f r new)))
                               (rekey (idx f s) old new id))
           else (Rejected, s)
       end.

Definition do_remove (s : stack) (id : Z) (r : remote) : outcome * stack :=
  match lookup (uidx s) (r_uid r) with
  | None => (Rejected, s)
  | Some id' =>
      if negb (Z.eqb id' id) then (Rejected, s)      (* the code raises NameError here: rejected *)
      else
        let s1 := set_idx FUid s (remove_key (uidx s) (r_uid r)) in
        if negb (memZ (r_name r) (keys (nidx s))) then (KeyErr, s1)
        else let s2 := set_idx FName s1 (remove_key (nidx s) (r_name r)) in
             if negb (memZ (r_ha r) (keys (hidx s))) then (KeyErr, s2)
             else (Done, set_idx FHa s2 (remove_key (hidx s) (r_ha r)))
  end.

Definition step (s : stack) (o : op) : outcome * stack :=
  match o with
  | New id uid name ha =>
      match lookup (objs s) id with
      | Some _ => (Rejected, s)               (* identities are fresh: never generated *)
      | None =>
          match uid with
          | Some u => (Done, set_objs s (objs s ++ [(id, {| r_uid := u; r_name := name; r_ha := ha |})]))
          | None =>
              match next_free (S (S (length (uidx s)))) s (puid s) with
              | Some u => (Done, set_puid (set_objs s (objs s ++ [(id, {| r_uid := u; r_name := name; r_ha := ha |})])) u)
              | None => (KeyErr, s)           (* out of fuel: proved impossible *)
              end
          end
      end
  | Add id => match lookup (objs s) id with Some r => do_add s id r | None => (Rejected, s) end
  | Rekey f id new => match lookup (objs s) id with Some r => do_rekey s f id r new | None => (Rejected, s) end
  | Remove id => match lookup (objs s) id with Some r => do_remove s id r | None => (Rejected, s) end
  end.

Fixpoint run_from (s : stack) (ops : list op) : stack :=
  match ops with [] => s | o :: r => run_from (snd (step s o)) r end.

(* observation after each op: outcome, the three indexes, attributes of every object *)
Definition obs := (outcome * (alist * alist * alist) * list (Z * (Z * Z * Z)))%type.
Definition observe (oc : outcome) (s : stack) : obs :=
  (oc, (uidx s, nidx s, hidx s), map (fun p => (fst p, (r_uid (snd p), r_name (snd p), r_ha (snd p)))) (objs s)).
Fixpoint trace (s : stack) (ops : list op) : list obs :=
  match ops with
  | [] => []
  | o :: r => let '(oc, s') := step s o in observe oc s' :: trace s' r
  end.
