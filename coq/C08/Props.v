(* C08 -- entry guards are never bypassed and refused transitions have no effect. *)
From Coq Require Import List ZArith Bool Arith.
Import ListNotations.
Require Import V.Kernel.Model V.Kernel.PrecurProofs V.Kernel.MoreProofs.

(* a transition whose conditions fail, or whose target (any frame to be entered, any auxiliary's first
   frame, any auxiliary ownership) refuses, returns the WHOLE world unchanged: no exit, re-exit, re-enter,
   enter or transit action, same outline, same elapsed, same recurred, same store, same trace *)
Theorem refused_transit_noop : forall (O : TimeOps) (P : prog O) sub t ns far w,
  (forallb (eval_need P t w) ns = false \/
   let '(ex, en, re) := ExEn P t (actives (gett w t)) far in framer_checkEnter P sub t en ex w = false) ->
  transit P sub t ns far w = (w, false).
Proof. exact transit_refused_noop. Qed.
Print Assumptions refused_transit_noop.

(* a transition is taken only if every entry guard holds on the very world of the attempt (guards are
   pure functions of that world: nothing is written between the test and the first exit action) *)
Theorem enter_implies_checkEnter : forall (O : TimeOps) (P : prog O) sub t ns far w w',
  transit P sub t ns far w = (w', true) ->
  forallb (eval_need P t w) ns = true /\
  let '(ex, en, re) := ExEn P t (actives (gett w t)) far in
  framer_checkEnter P sub t en ex w = true /\
  w' = guard (framer_enter P sub t en (framer_renter P sub t re (framer_rexit P sub t re (framer_exit P sub t ex (run_acts P sub t (tracts_of ns) w)))))
             (activate P t far).
Proof. exact transit_taken. Qed.
Print Assumptions enter_implies_checkEnter.

Theorem checkEnter_means_every_frame_passes : forall (O : TimeOps) (P : prog O) sub a enters exits w,
  framer_checkEnter P sub a enters exits w = true ->
  enters <> [] /\ forall f, In f enters -> frame_checkEnter P sub a exits w f = true.
Proof. exact framer_checkEnter_all. Qed.
Print Assumptions checkEnter_means_every_frame_passes.

(* ownership: a frame listing an original auxiliary whose main is another frame that is not being exited
   refuses entry *)
Theorem foreign_owned_aux_refuses_entry : forall (O : TimeOps) (P : prog O) sub a exits w f aux mt m,
  In aux (fr_auxes (getf P a f)) -> main (gett w aux) = Some (mt, m) ->
  (Nat.eqb mt a && Nat.eqb m f) = false -> (Nat.eqb mt a && memf m exits) = false ->
  frame_checkEnter P sub a exits w f = false.
Proof. exact checkEnter_refuses_foreign_owner. Qed.
Print Assumptions foreign_owned_aux_refuses_entry.

Theorem refused_start_noop : forall (O : TimeOps) (P : prog O) sub a w,
  crashed w = None -> alive (gett w a) = true ->
  (st (gett w a) = Stopped \/ st (gett w a) = Readied) ->
  framer_checkStart P sub a w = false ->
  framer_send P sub a CStart w =
  (let w1 := modt w a (fun s => ts_set_st (ts_set_desire s CStop) Stopped) in
   emit w1 (ESend (tk w1) a CStart (Some (st (gett w1 a))) (actives (gett w1 a)) (elapsed (gett w1 a))
                  (recurred (gett w1 a))), Some (st (gett (modt w a (fun s => ts_set_st (ts_set_desire s CStop) Stopped)) a))).
Proof. exact start_refused. Qed.
Print Assumptions refused_start_noop.

Theorem refused_conditional_aux_noop : forall (O : TimeOps) (P : prog O) sub a mf ns aux w,
  done (gett w aux) = true ->
  (forallb (eval_need P a w) ns = false \/
   (exists mt m, main (gett w aux) = Some (mt, m) /\ (Nat.eqb mt a && Nat.eqb m mf) = false) \/
   o_checkStart sub aux w = false) ->
  suspend P sub a mf ns aux w = (w, false).
Proof. exact suspend_refused. Qed.
Print Assumptions refused_conditional_aux_noop.
