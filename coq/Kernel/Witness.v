(* Witnesses (computed on the model, binary64 instance) for the two open findings that refute the
   full bracketing statement of C06 / the single-owner statement of C09 on the code as it is.
   GENERATED from props/C06/corpus.json by the integrator; replayed on the implementation by the checks. *)
From Coq Require Import List ZArith Bool Arith.
From Coq Require Import Floats.PrimFloat.
Import ListNotations.
Require Import V.Kernel.Model V.Kernel.Inst.

Definition P_suspended : prog FOps := (@Build_prog FOps [(@Build_framer FOps [(@Build_frame FOps None [1%nat] (@nil (need FOps)) [(ARec 1%nat)] (@nil (act FOps)) [(PAux [(NVar 0%nat CGe (0)%Z)] 1%nat)] [(ARec 2%nat)] [(ARec 3%nat); (ADeactivize 1%nat)] (@nil (act FOps)) (@nil nat)); (@Build_frame FOps (Some 0%nat) (@nil nat) (@nil (need FOps)) [(ARec 4%nat)] (@nil (act FOps)) (@nil (pact FOps)) [(ARec 5%nat)] [(ARec 6%nat)] (@nil (act FOps)) (@nil nat))] 0%nat Active (0x0.0p+0)%float true None); (@Build_framer FOps [(@Build_frame FOps None (@nil nat) (@nil (need FOps)) [(ARec 7%nat)] (@nil (act FOps)) (@nil (pact FOps)) [(ARec 8%nat)] [(ARec 9%nat)] (@nil (act FOps)) (@nil nat))] 0%nat Aux (0x0.0p+0)%float true None)] [0%nat] (0x1.0000000000000p-3)%float (0x0.0p+0)%float).
Definition P_shared : prog FOps := (@Build_prog FOps [(@Build_framer FOps [(@Build_frame FOps None [1%nat] (@nil (need FOps)) [(ARec 1%nat)] (@nil (act FOps)) (@nil (pact FOps)) [(ARec 2%nat)] [(ARec 3%nat)] (@nil (act FOps)) [1%nat]); (@Build_frame FOps (Some 0%nat) (@nil nat) (@nil (need FOps)) [(ARec 4%nat)] (@nil (act FOps)) (@nil (pact FOps)) [(ARec 5%nat)] [(ARec 6%nat)] (@nil (act FOps)) [1%nat])] 1%nat Active (0x0.0p+0)%float true None); (@Build_framer FOps [(@Build_frame FOps None (@nil nat) (@nil (need FOps)) [(ARec 7%nat)] (@nil (act FOps)) (@nil (pact FOps)) [(ARec 8%nat)] [(ARec 9%nat)] (@nil (act FOps)) (@nil nat))] 0%nat Aux (0x0.0p+0)%float true None)] [0%nat] (0x1.0000000000000p-3)%float (0x0.0p+0)%float).

Definition count_enter (t f : nat) (l : list (event FOps)) : nat :=
  length (filter (fun e => match e with EEnter t' f' => Nat.eqb t t' && Nat.eqb f f' | _ => false end) l).
Definition count_exit (t f : nat) (l : list (event FOps)) : nat :=
  length (filter (fun e => match e with EExit t' f' => Nat.eqb t t' && Nat.eqb f f' | _ => false end) l).

(* frame f1 (suspended under the conditional auxiliary of f0) is entered once and never exited although the
   framer is aborted by the final sweep *)
Example suspended_frames_not_exited :
  let w := sw (fst (run P_suspended 1 None 6)) in
  count_enter 0 1 (trace w) = 1 /\ count_exit 0 1 (trace w) = 0 /\
  status_n (Some (st (gett w 0))) = 3 /\ actives (gett w 0) = [].
Proof. vm_compute. repeat split; reflexivity. Qed.

(* the auxiliary a1 listed by f0 and by f1 (same outline) is entered twice without an exit in between *)
Example shared_aux_entered_twice :
  let w := sw (fst (ticks P_shared 1 (init_sked P_shared 1 None))) in
  count_enter 1 0 (trace w) = 2 /\ count_exit 1 0 (trace w) = 0.
Proof. vm_compute. split; reflexivity. Qed.
