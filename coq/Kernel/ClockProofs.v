(* C11: a framer's clocks (fstamp, elapsed, recurred) change in exactly two places --
   Framer.enter with a non-empty list (restart: fstamp := stamp, elapsed := 0, recurred := 0) and the
   beginning of Framer.segue (elapsed := stamp - fstamp, recurred += 1) -- and are what the
   transition conditions see at every evaluation.  For every acyclic program, every auxiliary depth. *)
From Coq Require Import List ZArith Bool Arith Lia.
Import ListNotations.
Require Import V.Kernel.Model V.Kernel.GenInd V.Kernel.Basics V.Kernel.ActInv.

Section C.
Variable O : TimeOps.
Variable P : prog O.
Hypothesis Hac : acyclic O P.

Definition clock (s : tstate O) := (fstamp s, elapsed s, recurred s).
Definition ckeeps (a : tid) (w w' : world O) : Prop := clock (gett w' a) = clock (gett w a).
Definition ckeepf (g : tstate O -> tstate O) : Prop := forall s, clock (g s) = clock s.

Lemma ck_refl a w : ckeeps a w w. Proof. reflexivity. Qed.
Lemma ck_trans a w1 w2 w3 : ckeeps a w1 w2 -> ckeeps a w2 w3 -> ckeeps a w1 w3.
Proof. unfold ckeeps. congruence. Qed.
Lemma ck_guard a w k : (forall w, ckeeps a w (k w)) -> ckeeps a w (guard w k).
Proof. intros H. unfold guard. destruct (crashed w); [apply ck_refl|apply H]. Qed.
Lemma ck_fold_in {A} a (f : world O -> A -> world O) l :
  (forall w x, In x l -> ckeeps a w (f w x)) -> forall w, ckeeps a w (fold_left f l w).
Proof.
  induction l as [|x l IH]; intros H w; cbn; [apply ck_refl|].
  eapply ck_trans; [apply H; left; reflexivity|apply IH]. intros; apply H; right; assumption.
Qed.
Lemma ck_modt a w x g : ckeepf g -> ckeeps a w (modt w x g).
Proof.
  intros Hk. unfold ckeeps. rewrite gett_modt.
  destruct (Nat.eqb a x && Nat.ltb x (length (tss w))) eqn:E; [|reflexivity].
  apply andb_true_iff in E. destruct E as [E _]. apply Nat.eqb_eq in E. subst x. apply Hk.
Qed.
Lemma ck_same_tss a w w' : tss w' = tss w -> ckeeps a w w'.
Proof. intros H. unfold ckeeps, gett. rewrite H. reflexivity. Qed.
Lemma ck_emit a w e : ckeeps a w (emit w e).
Proof. apply ck_same_tss. reflexivity. Qed.
Lemma core_ck a w w' : core O (gett w' a) = core O (gett w a) -> ckeeps a w w'.
Proof. unfold core, ckeeps, clock. intros H. inversion H. congruence. Qed.

Ltac ckf := intros s; reflexivity.
Ltac ct := eapply ck_trans.

Section Step.
Variable sub : ops O.
Hypothesis Hfoot : ops_R O (footprint O P) sub.

Lemma child_ck a x w w' : child O P a x -> footprint O P x w w' -> ckeeps a w w'.
Proof. intros Hc Hf. apply core_ck. apply Hf. apply (Hac a x Hc). Qed.

Lemma ck_sub_enterAll a x w : child O P a x -> ckeeps a w (o_enterAll sub x w).
Proof. intros Hc. destruct Hfoot as [H _]. eapply child_ck; eauto. Qed.
Lemma ck_sub_exitAll a x b w : child O P a x -> ckeeps a w (o_exitAll sub b x w).
Proof. intros Hc. destruct Hfoot as [_ [H _]]. eapply child_ck; eauto. Qed.
Lemma ck_sub_segue a x w : child O P a x -> ckeeps a w (o_segue sub x w).
Proof. intros Hc. destruct Hfoot as [_ [_ [H _]]]. eapply child_ck; eauto. Qed.
Lemma ck_sub_recur a x w : child O P a x -> ckeeps a w (o_recur sub x w).
Proof. intros Hc. destruct Hfoot as [_ [_ [_ [H _]]]]. eapply child_ck; eauto. Qed.
Lemma ck_sub_send a x c w : child O P a x -> ckeeps a w (fst (o_send sub x c w)).
Proof. intros Hc. destruct Hfoot as [_ [_ [_ [_ H]]]]. eapply child_ck; eauto. Qed.

Lemma ck_deactivate a aux w : child O P a aux -> ckeeps a w (deactivate_aux P sub aux w).
Proof.
  intros Hc. unfold deactivate_aux. ct; [apply ck_sub_exitAll; exact Hc|].
  apply ck_guard. intros w'. destruct (fm_original _); [apply ck_modt; ckf|apply ck_refl].
Qed.

Lemma ck_run_act a ac w : act_ok O P a ac -> ckeeps a w (run_act P sub a ac w).
Proof.
  intros [Hch Hdn]. unfold run_act. apply ck_guard. clear w. intros w. destruct ac.
  - destruct (crash_at w) as [[k e]|]; [destruct (Nat.eqb k (nrec w))|]; apply ck_same_tss; reflexivity.
  - apply ck_same_tss; reflexivity.
  - apply ck_same_tss; reflexivity.
  - apply ck_same_tss; reflexivity.
  - apply ck_fold_in. intros w' t _. ct; [|apply ck_modt; ckf].
    destruct c; destruct p; try apply ck_refl; apply ck_modt; ckf.
  - apply ck_sub_send. apply Hch. reflexivity.
  - apply ck_fold_in. intros w' x _. apply ck_modt; ckf.
  - destruct (done _); [apply ck_refl|apply ck_deactivate; apply Hch; reflexivity].
  - apply ck_same_tss; reflexivity.
  - apply ck_same_tss; reflexivity.
Qed.

Lemma ck_run_acts a l w : (forall ac, In ac l -> act_ok O P a ac) -> ckeeps a w (run_acts P sub a l w).
Proof. intros H. unfold run_acts. apply ck_fold_in. intros; apply ck_run_act; auto. Qed.

Lemma ck_frame_enter a w f : ckeeps a w (frame_enter P sub a w f).
Proof.
  unfold frame_enter. apply ck_guard. clear w. intros w.
  ct; [apply ck_emit|]. ct; [apply ck_run_acts; intros; eapply in_enacts; eauto|].
  apply ck_fold_in. intros w' aux Hin. apply ck_guard. intros w''.
  pose proof (in_auxes O P a f aux Hin) as Hc.
  destruct (fm_original _); [ct; [|apply ck_sub_enterAll; exact Hc]; apply ck_modt; ckf|apply ck_sub_enterAll; exact Hc].
Qed.

Lemma ck_frame_exit a w f : ckeeps a w (frame_exit P sub a w f).
Proof.
  unfold frame_exit. apply ck_guard. clear w. intros w.
  ct; [|apply ck_guard; intros w'; ct; [apply ck_emit|apply ck_run_acts; intros; eapply in_exacts; eauto]].
  apply ck_fold_in. intros w' aux Hin. pose proof (in_auxes O P a f aux Hin) as Hc.
  apply ck_guard. intros w''. ct; [apply ck_sub_exitAll; exact Hc|]. apply ck_guard. intros w3.
  destruct (fm_original _); [apply ck_modt; ckf|apply ck_refl].
Qed.

Lemma ck_framer_exit a l w : ckeeps a w (framer_exit P sub a l w).
Proof. unfold framer_exit. apply ck_fold_in. intros; apply ck_frame_exit. Qed.
Lemma ck_framer_rexit a l w : ckeeps a w (framer_rexit P sub a l w).
Proof. unfold framer_rexit. apply ck_fold_in. intros; apply ck_run_acts; intros; eapply in_rexacts; eauto. Qed.
Lemma ck_framer_renter a l w : ckeeps a w (framer_renter P sub a l w).
Proof. unfold framer_renter. apply ck_fold_in. intros; apply ck_run_acts; intros; eapply in_renacts; eauto. Qed.

(* (i) entering a non-empty list of frames restarts the clocks at the current store stamp ... *)
Lemma enter_restarts_clock a e l w : crashed w = None -> a < length (tss w) ->
  clock (gett (framer_enter P sub a (e :: l) w) a) = (stamp w, tzero O, 0%Z).
Proof.
  intros Hc Hl. unfold framer_enter, guard. rewrite Hc.
  set (w1 := modt w a (fun s => ts_set_clock s (stamp w) (tzero O) 0%Z)).
  assert (H1 : clock (gett w1 a) = (stamp w, tzero O, 0%Z)).
  { unfold w1. rewrite gett_modt, Nat.eqb_refl.
    assert (Nat.ltb a (length (tss w)) = true) as -> by (apply Nat.ltb_lt; exact Hl). reflexivity. }
  rewrite <- H1. apply (ck_fold_in a (frame_enter P sub a) (e :: l)). intros; apply ck_frame_enter.
Qed.
(* ... and entering nothing leaves them alone *)
Lemma enter_nothing_keeps_clock a w : ckeeps a w (framer_enter P sub a [] w).
Proof. unfold framer_enter. apply ck_guard. intros w'. cbn. apply ck_refl. Qed.

Lemma ck_activate a f w : ckeeps a w (activate P a f w).
Proof. apply ck_modt; ckf. Qed.
Lemma ck_reactivate a w : ckeeps a w (reactivate P a w).
Proof. unfold reactivate. destruct (active _); [apply ck_modt; ckf|apply ck_refl]. Qed.
Lemma ck_change a l w : ckeeps a w (change a l w).
Proof. apply ck_modt; ckf. Qed.

(* a conditional-auxiliary clause never touches the clocks of the framer it suspends *)
Lemma ck_suspend a mf ns aux w : child O P a aux -> ckeeps a w (fst (suspend P sub a mf ns aux w)).
Proof.
  intros Hc. unfold suspend. destruct (done (gett w aux)).
  - destruct (negb (forallb _ ns)); [apply ck_refl|].
    destruct (match main (gett w aux) with Some (mt, m) => _ | None => false end); [apply ck_refl|].
    destruct (negb (o_checkStart sub aux w)); [apply ck_refl|].
    match goal with |- ckeeps a w (fst (match crashed ?W with _ => _ end)) =>
      assert (HW : ckeeps a w W); [|destruct (crashed W)] end.
    { ct; [|apply ck_guard; intros; apply ck_sub_recur; exact Hc].
      ct; [|apply ck_sub_enterAll; exact Hc].
      ct; [apply ck_run_acts; intros; eapply tracts_ok; eauto|].
      destruct (fm_original _); [apply ck_modt; ckf|apply ck_refl]. }
    + exact HW.
    + match goal with |- ckeeps a w (fst (if ?c then _ else _)) => destruct c end; cbn [fst].
      * ct; [exact HW|apply ck_deactivate; exact Hc].
      * ct; [exact HW|apply ck_change].
  - destruct (match main (gett w aux) with Some (mt, m) => _ | None => false end); [apply ck_refl|].
    match goal with |- ckeeps a w (fst (match crashed ?W with _ => _ end)) =>
      assert (HW : ckeeps a w W); [|destruct (crashed W)] end.
    { ct; [apply ck_sub_segue; exact Hc|]. apply ck_guard; intros; apply ck_sub_recur; exact Hc. }
    + exact HW.
    + match goal with |- ckeeps a w (fst (if ?c then _ else _)) => destruct c end; cbn [fst].
      * ct; [exact HW|]. ct; [apply ck_deactivate; exact Hc|]. apply ck_guard; intros; apply ck_reactivate.
      * exact HW.
Qed.

(* clause evaluation: as long as no clause fires the clocks stay what segue made them, so every
   clause is evaluated against the same elapsed / recurred *)
Lemma precur_keeps_clock a f l : (forall pa, In pa l -> In pa (preacts (getf P a f))) ->
  forall w, let '(w', r) := precur P sub a f l w in r = false -> ckeeps a w w'.
Proof.
  induction l as [|pa l IH]; intros Hin w; cbn [precur]; destruct (crashed w).
  1-3: intros; try discriminate; apply ck_refl.
  assert (Hl : forall pa0, In pa0 l -> In pa0 (preacts (getf P a f))) by (intros; apply Hin; right; assumption).
  assert (Hpa : In pa (preacts (getf P a f))) by (apply Hin; left; reflexivity).
  destruct pa as [ac|ns far|ns aux].
  - pose proof (in_preacts O P a f ac Hpa) as Hok.
    assert (Hgen : forall w1, ckeeps a w w1 ->
              let '(w', r) := precur P sub a f l w1 in r = false -> ckeeps a w w').
    { intros w1 K1. specialize (IH Hl w1). destruct (precur P sub a f l w1) as [w' r].
      intros Hr. eapply ck_trans; [exact K1|apply IH; exact Hr]. }
    destruct ac; try (apply Hgen; apply ck_run_act; exact Hok).
    destruct (o_send sub t c w) as [w' r] eqn:Hs.
    assert (H : ckeeps a w w').
    { pose proof (ck_sub_send a t c w (proj1 Hok t eq_refl)) as H2. rewrite Hs in H2. exact H2. }
    destruct (fiat_ok c r); [discriminate|apply Hgen; exact H].
  - destruct (transit P sub a ns far w) as [w' r] eqn:Ht. destruct r; [discriminate|].
    apply (transit_false_same O P) in Ht. subst w'. apply IH; exact Hl.
  - pose proof (ck_suspend a f ns aux w (in_paux O P a f ns aux Hpa)) as H.
    destruct (suspend P sub a f ns aux w) as [w' r]. cbn [fst] in H.
    destruct r; [discriminate|].
    specialize (IH Hl w'). destruct (precur P sub a f l w') as [w'' r']. intros Hr.
    eapply ck_trans; [exact H|apply IH; exact Hr].
Qed.

(* (ii) Framer.segue: the clocks seen by the first evaluated clause (after the auxiliaries' own segues)
   are elapsed = stamp - fstamp, recurred + 1, fstamp unchanged *)
Definition segue_world (a : tid) (w : world O) : world O :=
  let w0 := emit w (ESegue a) in
  let s := gett w0 a in
  let w1 := sett w0 a (ts_set_clock s (fstamp s) (tsub O (stamp w0) (fstamp s)) (recurred s + 1)%Z) in
  fold_left (fun w f => fold_left (fun w aux => guard w (o_segue sub aux)) (fr_auxes (getf P a f)) w)
            (actives (gett w1 a)) w1.

Lemma segue_unfold a w : crashed w = None ->
  framer_segue P sub a w =
  fst (segue_frames P sub a (actives (gett (sett (emit w (ESegue a)) a
         (ts_set_clock (gett (emit w (ESegue a)) a) (fstamp (gett (emit w (ESegue a)) a))
            (tsub O (stamp (emit w (ESegue a))) (fstamp (gett (emit w (ESegue a)) a)))
            (recurred (gett (emit w (ESegue a)) a) + 1)%Z)) a)) (segue_world a w)).
Proof. intros Hc. unfold framer_segue, guard. rewrite Hc. reflexivity. Qed.

Lemma segue_sets_clock a w : a < length (tss w) ->
  clock (gett (segue_world a w) a) =
  (fstamp (gett w a), tsub O (stamp w) (fstamp (gett w a)), (recurred (gett w a) + 1)%Z).
Proof.
  intros Hl. unfold segue_world.
  set (w0 := emit w (ESegue a)). set (s := gett w0 a).
  set (w1 := sett w0 a (ts_set_clock s (fstamp s) (tsub O (stamp w0) (fstamp s)) (recurred s + 1)%Z)).
  assert (H1 : clock (gett w1 a) = (fstamp (gett w a), tsub O (stamp w) (fstamp (gett w a)), (recurred (gett w a) + 1)%Z)).
  { unfold w1. rewrite gett_sett, Nat.eqb_refl.
    assert (Nat.ltb a (length (tss w0)) = true) as -> by (apply Nat.ltb_lt; exact Hl). reflexivity. }
  rewrite <- H1.
  apply (ck_fold_in a). intros w' f _. apply ck_fold_in. intros w'' aux Hin. apply ck_guard. intros w3.
  apply ck_sub_segue. eapply in_auxes; eauto.
Qed.

(* (iii) the other operations of the framer keep its clocks *)
Lemma recur_keeps_clock a w : ckeeps a w (framer_recur P sub a w).
Proof.
  unfold framer_recur. apply ck_guard. clear w. intros w.
  apply ck_fold_in. intros w' f _. apply ck_guard. intros w''.
  ct; [apply ck_emit|]. ct; [apply ck_run_acts; intros; eapply in_reacts; eauto|].
  apply ck_fold_in. intros w3 aux Hin. apply ck_guard. intros w4. apply ck_sub_recur. eapply in_auxes; eauto.
Qed.

Lemma exitAll_keeps_clock b a w : ckeeps a w (framer_exitAll P sub b a w).
Proof.
  unfold framer_exitAll. apply ck_guard. clear w. intros w.
  ct; [apply ck_framer_exit|]. apply ck_guard. intros w'.
  destruct b; [apply ck_modt; ckf|]. ct; apply ck_modt; ckf.
Qed.

End Step.

(* instantiated at every auxiliary depth *)
Lemma lvl_enter_restarts_clock n a e l w : crashed w = None -> a < length (tss w) ->
  clock (gett (framer_enter P (lvl P n) a (e :: l) w) a) = (stamp w, tzero O, 0%Z).
Proof. apply enter_restarts_clock. apply footprint_ops. Qed.

Lemma lvl_segue_sets_clock n a w : a < length (tss w) ->
  clock (gett (segue_world (lvl P n) a w) a) =
  (fstamp (gett w a), tsub O (stamp w) (fstamp (gett w a)), (recurred (gett w a) + 1)%Z).
Proof. apply segue_sets_clock. apply footprint_ops. Qed.

Lemma lvl_precur_keeps_clock n a f w :
  let '(w', r) := precur P (lvl P n) a f (preacts (getf P a f)) w in r = false -> ckeeps a w w'.
Proof. apply precur_keeps_clock; [apply footprint_ops|auto]. Qed.

End C.
