(* further lemmas for C03 C04 C08 C09 C10 C11 *)
From Coq Require Import List ZArith Bool Arith Lia.
Import ListNotations.
Require Import V.Kernel.Model V.Kernel.GenInd V.Kernel.Basics V.Kernel.ActInv V.Kernel.RunInv V.Kernel.SkedProofs.

Section M.
Variable O : TimeOps.
Variable P : prog O.

(* ---------- C03: the final sweep ---------- *)
Lemma sweep_all : forall n s, length (ready s) = n ->
  crashed (sw (sweep P n s)) = None ->
  ready (sweep P n s) = [] /\
  runlog (sweep P n s) = runlog s ++ map (fun e => (tk (sw s), rtid O e)) (ready s).
Proof.
  induction n as [|n IH]; intros s Hl Hc.
  - destruct (ready s) eqn:E; [|discriminate]. cbn [sweep map]. rewrite app_nil_r. split; [exact E|reflexivity].
  - cbn [sweep] in *. destruct (crashed (sw s)) eqn:Hcs; [congruence|].
    destruct (ready s) as [|[[t r] p] rest] eqn:E; [discriminate|]. cbn in Hl. injection Hl as Hl.
    destruct (o_send (top P) t CAbort (sw s)) as [w' x] eqn:Hs.
    pose proof (send_tk O P _ _ _ _ _ Hs) as Htk.
    match type of Hc with crashed (sw (sweep P n ?S1)) = None =>
      destruct (IH S1 Hl Hc) as [H1 H2] end.
    split; [exact H1|]. rewrite H2. cbn [runlog sw ready map]. rewrite Htk, <- app_assoc. reflexivity.
Qed.

(* how the main loop can end *)
Lemma ticks_end : forall n s s' e, ticks P n s = (s', e) ->
  match e with
  | EndEmpty => ready s' = [] /\ crashed (sw s') = None
  | EndIdle => ready s' <> [] /\ crashed (sw s') = None /\
               exists s0 l, tick_loop P (length (ready s0)) s0 None false = (s', l, false)
  | EndKbd => crashed (sw s') = Some KbdInt
  | EndExcn => crashed (sw s') = Some Excn
  | EndTicks => True
  end.
Proof.
  induction n as [|n IH]; intros s s' e H; cbn [ticks] in H; [inversion H; exact I|].
  destruct (tick_loop P (length (ready s)) s None false) as [[s1 l1] m1] eqn:Ht.
  destruct (crashed (sw s1)) as [[|]|] eqn:Hc; try (inversion H; subst; exact Hc).
  destruct (ready s1) as [|r1 rs] eqn:Hr.
  - inversion H; subst. split; assumption.
  - destruct m1; cbn [negb] in H.
    + destruct n; [inversion H; exact I|]. eapply IH; eauto.
    + inversion H; subst. split; [rewrite Hr; discriminate|]. split; [exact Hc|]. eauto.
Qed.

(* every send the skedder ever makes goes to a tasker of the initial queue: slaves, auxes and
   moots are never run by the scheduler *)
Lemma ticks_runlog : forall n s s' e, ticks P n s = (s', e) -> crashed (sw s') = None ->
  forall x, In x (map snd (runlog s')) -> In x (map snd (runlog s)) \/ In x (map (rtid O) (ready s)).
Proof.
  induction n as [|n IH]; intros s s' e H Hc x Hx; cbn [ticks] in H; [inversion H; subst; auto|].
  destruct (tick_loop P (length (ready s)) s None false) as [[s1 l1] m1] eqn:Ht.
  assert (Hstep : crashed (sw s1) = None ->
           forall y, In y (map snd (runlog s1)) -> In y (map snd (runlog s)) \/ In y (map (rtid O) (ready s))).
  { intros Hc1 y Hy. destruct (tick_rotation O P _ _ _ _ _ _ Ht Hc1) as [_ [ran [Hr [Hsub _]]]].
    rewrite Hr, map_app, map_map in Hy. cbn [snd] in Hy. rewrite map_id in Hy.
    apply in_app_or in Hy. destruct Hy as [Hy|Hy]; [left; exact Hy|right].
    apply (sublist_incl _ _ Hsub). exact Hy. }
  destruct (crashed (sw s1)) as [[|]|] eqn:Hc1; try (inversion H; subst; congruence).
  destruct (ready s1) as [|r1 rs] eqn:Hr1.
  { inversion H; subst. apply Hstep; auto. }
  destruct (negb m1).
  { inversion H; subst. apply Hstep; auto. }
  destruct n as [|n'].
  { inversion H; subst. apply Hstep; auto. }
  specialize (IH _ _ _ H Hc x Hx). cbn [runlog ready] in IH.
  destruct IH as [IH|IH]; [apply Hstep; auto|].
  right. destruct (tick_rotation O P _ _ _ _ _ _ Ht Hc1) as [Hsub _].
  rewrite Hr1 in Hsub. apply (sublist_incl _ _ Hsub). exact IH.
Qed.

(* ---------- C04: bids ---------- *)
Lemma fold_sets {A} (F : world O -> tid -> world O) (proj : tstate O -> A) (c : A) t :
  (forall w x, length (tss (F w x)) = length (tss w)) ->
  (forall w x, t < length (tss w) ->
     (x = t -> proj (gett (F w x) t) = c) /\ (proj (gett w t) = c -> proj (gett (F w x) t) = c)) ->
  forall l w0, t < length (tss w0) -> (In t l \/ proj (gett w0 t) = c) ->
  proj (gett (fold_left F l w0) t) = c.
Proof.
  intros H1 H2. induction l as [|y l IH]; intros w0 Hl [Hi|Hd]; cbn [fold_left]; try contradiction; auto.
  - apply IH; [rewrite H1; exact Hl|]. destruct Hi as [->|Hi]; [right|left; exact Hi].
    destruct (H2 w0 t Hl) as [HA _]. auto.
  - apply IH; [rewrite H1; exact Hl|]. right. destruct (H2 w0 y Hl) as [_ HB]. auto.
Qed.

Lemma bid_sets_desire c ts p me sub w t :
  crashed w = None -> In t ts -> t < length (tss w) ->
  desire (gett (run_act P sub me (ABid c ts p) w) t) = c.
Proof.
  intros Hc Hin Hl. unfold run_act, guard. rewrite Hc.
  apply fold_sets; auto.
  - intros w0 x. rewrite modt_length. destruct c; destruct p; rewrite ?modt_length; reflexivity.
  - intros w0 x Hl0. split.
    + intros ->. rewrite gett_modt, Nat.eqb_refl.
      match goal with |- context [Nat.ltb t (length (tss ?W))] =>
        assert (Hlt : Nat.ltb t (length (tss W)) = true) end.
      { apply Nat.ltb_lt. destruct c; destruct p; rewrite ?modt_length; lia. }
      rewrite Hlt. reflexivity.
    + intros Hd. rewrite gett_modt. destruct (Nat.eqb t x && _); [reflexivity|].
      destruct c; destruct p; rewrite ?gett_modt; try exact Hd;
        destruct (Nat.eqb_spec t x) as [->|Hne]; cbn [andb]; try exact Hd;
        destruct (Nat.ltb x (length (tss w0))); cbn; exact Hd.
Qed.

Lemma fiat_reports_reached c r :
  fiat_ok c r = true <->
  (c = CReady /\ r = Some Readied) \/ (c = CStart /\ r = Some Started) \/ (c = CStop /\ r = Some Stopped) \/
  (c = CRun /\ r = Some Running) \/ (c = CAbort /\ r = Some Aborted).
Proof.
  split.
  - destruct c; destruct r as [[]|]; cbn; intros H; try discriminate; intuition.
  - intros [[-> ->]|[[-> ->]|[[-> ->]|[[-> ->]|[-> ->]]]]]; reflexivity.
Qed.

(* ---------- C04 / C08: a start (or ready) whose first-frame conditions fail ---------- *)
Lemma start_refused sub a w :
  crashed w = None -> alive (gett w a) = true ->
  (st (gett w a) = Stopped \/ st (gett w a) = Readied) ->
  framer_checkStart P sub a w = false ->
  framer_send P sub a CStart w =
  (let w1 := modt w a (fun s => ts_set_st (ts_set_desire s CStop) Stopped) in
   emit w1 (ESend (tk w1) a CStart (Some (st (gett w1 a))) (actives (gett w1 a)) (elapsed (gett w1 a))
                  (recurred (gett w1 a))), Some (st (gett (modt w a (fun s => ts_set_st (ts_set_desire s CStop) Stopped)) a))).
Proof.
  intros Hc Hal Hst Hcs. unfold framer_send. rewrite Hc, Hal. cbn [negb].
  assert (Hs : match st (gett w a) with Stopped | Readied => true | _ => false end = true)
    by (destruct Hst as [-> | ->]; reflexivity).
  rewrite Hs, Hcs. cbn [crashed modt sett set_tss]. rewrite Hc. reflexivity.
Qed.

(* ---------- C08 / C10: refused conditional auxiliary is a no-op ---------- *)
Lemma suspend_refused sub a mf ns aux w :
  done (gett w aux) = true ->
  (forallb (eval_need P a w) ns = false \/
   (exists mt m, main (gett w aux) = Some (mt, m) /\ (Nat.eqb mt a && Nat.eqb m mf) = false) \/
   o_checkStart sub aux w = false) ->
  suspend P sub a mf ns aux w = (w, false).
Proof.
  intros Hd H. unfold suspend. rewrite Hd.
  destruct (forallb (eval_need P a w) ns) eqn:E1; cbn [negb]; [|reflexivity].
  destruct H as [H|[[mt [m [Hm Hne]]]|H]]; [discriminate| |].
  - rewrite Hm, Hne. reflexivity.
  - destruct (match main (gett w aux) with Some (mt, m) => _ | None => false end); [reflexivity|].
    rewrite H. reflexivity.
Qed.

(* an entry guard: a frame that lists an original auxiliary owned by another frame that is not
   being exited refuses entry *)
Lemma checkEnter_refuses_foreign_owner sub a exits w f aux mt m :
  In aux (fr_auxes (getf P a f)) -> main (gett w aux) = Some (mt, m) ->
  (Nat.eqb mt a && Nat.eqb m f) = false -> (Nat.eqb mt a && memf m exits) = false ->
  frame_checkEnter P sub a exits w f = false.
Proof.
  intros Hin Hm H1 H2. unfold frame_checkEnter.
  apply andb_false_iff. right. apply not_true_is_false. intros Hall.
  rewrite forallb_forall in Hall. specialize (Hall aux Hin). rewrite Hm, H1, H2 in Hall. discriminate.
Qed.

Lemma framer_checkEnter_all sub a enters exits w :
  framer_checkEnter P sub a enters exits w = true ->
  enters <> [] /\ forall f, In f enters -> frame_checkEnter P sub a exits w f = true.
Proof.
  unfold framer_checkEnter. destruct enters as [|e l]; [discriminate|]. intros H.
  split; [discriminate|]. apply forallb_forall. exact H.
Qed.

(* ---------- C09: completion conditions ---------- *)
Lemma done_need_any me w f :
  eval_need P me w (NDoneAux AuxAny f) = existsb (fun a => done (gett w a)) (fr_auxes (getf P me f)).
Proof. reflexivity. Qed.
Lemma done_need_all me w f :
  eval_need P me w (NDoneAux AuxAll f) =
  negb (match fr_auxes (getf P me f) with [] => true | _ => false end) &&
  forallb (fun a => done (gett w a)) (fr_auxes (getf P me f)).
Proof. reflexivity. Qed.
Lemma done_need_named me w f t :
  eval_need P me w (NDoneAux (AuxNamed t) f) = existsb (Nat.eqb t) (fr_auxes (getf P me f)) && done (gett w t).
Proof. reflexivity. Qed.

Lemma done_marks_done sub me ts w t :
  crashed w = None -> In t ts -> t < length (tss w) ->
  done (gett (run_act P sub me (ADone ts) w) t) = true.
Proof.
  intros Hc Hin Hl. unfold run_act, guard. rewrite Hc.
  apply fold_sets; auto.
  - intros; apply modt_length.
  - intros w0 x Hl0. split.
    + intros ->. rewrite gett_modt, Nat.eqb_refl.
      assert (Nat.ltb t (length (tss w0)) = true) as -> by (apply Nat.ltb_lt; lia). reflexivity.
    + intros Hd. rewrite gett_modt. destruct (Nat.eqb t x && _); [reflexivity|exact Hd].
Qed.

(* ---------- C10: resuming does not re-enter ---------- *)
Lemma reactivate_trace a w : trace (reactivate P a w) = trace w.
Proof. unfold reactivate. destruct (active (gett w a)); reflexivity. Qed.
Lemma change_trace a l (w : world O) : trace (change a l w) = trace w.
Proof. reflexivity. Qed.

(* only the frames of the (possibly truncated) active outline recur *)
Lemma recur_only_actives sub a w : crashed w = None ->
  framer_recur P sub a w =
  fold_left (fun w f => guard w (fun w =>
     let w := emit w (ERecur a f) in
     let w := run_acts P sub a (reacts (getf P a f)) w in
     fold_left (fun w aux => guard w (o_recur sub aux)) (fr_auxes (getf P a f)) w))
   (actives (gett w a)) w.
Proof. intros Hc. unfold framer_recur, guard at 1. rewrite Hc. reflexivity. Qed.

(* a conditional-auxiliary clause interrupts its frame (suspends everything below / after it) only while the
   auxiliary has not completed, and never in a crashed world *)
Lemma suspend_truthy_incomplete sub a mf ns aux w w' :
  suspend P sub a mf ns aux w = (w', true) -> done (gett w' aux) = false /\ crashed w' = None.
Proof.
  unfold suspend. intros H.
  destruct (done (gett w aux)) eqn:Hd.
  - destruct (negb (forallb (eval_need P a w) ns)); [inversion H|].
    destruct (match main (gett w aux) with Some (mt, m) => negb (Nat.eqb mt a && Nat.eqb m mf) | None => false end);
      [inversion H|].
    destruct (negb (o_checkStart sub aux w)); [inversion H|].
    match type of H with (match crashed ?W with _ => _ end) = _ => set (W4 := W) in * end.
    destruct (crashed W4) eqn:Hc; [inversion H|].
    destruct (done (gett W4 aux)) eqn:Hd4; [inversion H|].
    inversion H; subst w'. split.
    + unfold change. rewrite gett_modt. destruct (Nat.eqb aux a && _) eqn:E; [|exact Hd4].
      apply andb_true_iff in E. destruct E as [E _]. apply Nat.eqb_eq in E. subst a. exact Hd4.
    + exact Hc.
  - destruct (match main (gett w aux) with Some (mt, m) => negb (Nat.eqb mt a && Nat.eqb m mf) | None => false end);
      [inversion H|].
    match type of H with (match crashed ?W with _ => _ end) = _ => set (W4 := W) in * end.
    destruct (crashed W4) eqn:Hc; [inversion H|].
    destruct (done (gett W4 aux)) eqn:Hd4; [inversion H|].
    inversion H; subst w'. split; assumption.
Qed.

(* when the clause STARTS its auxiliary and the auxiliary does not complete in that first run, the framer's
   active frames become exactly the head of the main frame: everything below it is suspended *)
Lemma suspend_start_truncates sub a mf ns aux w w' :
  done (gett w aux) = true -> suspend P sub a mf ns aux w = (w', true) -> a < length (tss w') ->
  actives (gett w' a) = head P a mf.
Proof.
  unfold suspend. intros Hd H Hl. rewrite Hd in H.
  destruct (negb (forallb (eval_need P a w) ns)); [inversion H|].
  destruct (match main (gett w aux) with Some (mt, m) => negb (Nat.eqb mt a && Nat.eqb m mf) | None => false end);
    [inversion H|].
  destruct (negb (o_checkStart sub aux w)); [inversion H|].
  match type of H with (match crashed ?W with _ => _ end) = _ => set (W4 := W) in * end.
  destruct (crashed W4) eqn:Hc; [inversion H|].
  destruct (done (gett W4 aux)) eqn:Hd4; [inversion H|].
  inversion H; subst w'. unfold change in *. rewrite modt_length in Hl.
  rewrite gett_modt. rewrite Nat.eqb_refl. apply Nat.ltb_lt in Hl. rewrite Hl. reflexivity.
Qed.

(* an auxiliary that is running for ANOTHER frame (a shared original) is not ours: the clause is a no-op *)
Lemma suspend_foreign_running_noop sub a mf ns aux w mt m :
  done (gett w aux) = false -> main (gett w aux) = Some (mt, m) -> (Nat.eqb mt a && Nat.eqb m mf) = false ->
  suspend P sub a mf ns aux w = (w, false).
Proof. intros Hd Hm He. unfold suspend. rewrite Hd, Hm, He. reflexivity. Qed.

(* once it is running, what the clause does no longer depends on its conditions *)
Lemma suspend_running_ignores_conditions sub a mf ns ns' aux w :
  done (gett w aux) = false -> suspend P sub a mf ns aux w = suspend P sub a mf ns' aux w.
Proof. intros Hd. unfold suspend. rewrite Hd. reflexivity. Qed.

(* Framer.segue: the plain auxiliaries of EVERY active frame make their transitions (top down) before the
   first transition / conditional-auxiliary clause of any frame of the framer is evaluated, and the frames'
   clauses are evaluated on the world those auxiliary runs left *)
Lemma segue_auxes_first sub t w : crashed w = None ->
  framer_segue P sub t w =
  let w0 := emit w (ESegue t) in
  let s := gett w0 t in
  let w1 := sett w0 t (ts_set_clock s (fstamp s) (tsub O (stamp w0) (fstamp s)) (recurred s + 1)%Z) in
  let acts := actives (gett w1 t) in
  let w2 := fold_left (fun w f => fold_left (fun w aux => guard w (o_segue sub aux)) (fr_auxes (getf P t f)) w)
                      acts w1 in
  fst (segue_frames P sub t acts w2).
Proof. intros Hc. unfold framer_segue, guard at 1. rewrite Hc. reflexivity. Qed.

(* ---------- C11: the clocks at evaluation time ---------- *)
(* comparison needs on the framer clocks are exactly the written comparison *)
Lemma elapsed_need me w c g : eval_need P me w (NElapsed c g) = cmpT O c (elapsed (gett w me)) g.
Proof. reflexivity. Qed.
Lemma recurred_need me w c g : eval_need P me w (NRecurred c g) = cmpZ c (recurred (gett w me)) g.
Proof. reflexivity. Qed.

End M.
