(* lifting the active-outline invariant to whole scheduler runs; stop/abort clear the outline;
   structure of outlines *)
From Coq Require Import List ZArith Bool Arith Lia.
Import ListNotations.
Require Import V.Kernel.Model V.Kernel.GenInd V.Kernel.Basics V.Kernel.ActInv.

Section R.
Variable O : TimeOps.
Variable P : prog O.
Hypothesis Hac : acyclic O P.

Lemma send_inv a c w : Inv O P w -> Inv O P (fst (o_send (top P) a c w)).
Proof. destruct (lvl_inv O P Hac (depth P)) as [_ [_ [_ [_ H]]]]. apply H. Qed.

Lemma Inv_init nv ca : Inv O P (init_world P nv ca).
Proof.
  intros t. unfold gett, init_world. cbn [tss].
  destruct (Nat.lt_ge_cases t (length (framers P))) as [Hl|Hl].
  - rewrite (nth_indep _ _ (init_tstate (dframer O))) by (rewrite map_length; exact Hl).
    rewrite map_nth. left. split; reflexivity.
  - rewrite nth_overflow by (rewrite map_length; exact Hl). apply good_dts.
Qed.

Definition SInv (s : sked O) : Prop := Inv O P (sw s).

Lemma add_ready_inv s t : SInv s -> SInv (add_ready P s t).
Proof. unfold SInv, add_ready. cbn [sw]. apply Inv_modt_keep. intros x. split; reflexivity. Qed.

Lemma init_sked_inv nv ca : SInv (init_sked P nv ca).
Proof.
  unfold init_sked.
  assert (G : forall l s, SInv s -> SInv (fold_left (add_ready P) l s)).
  { induction l; intros s Hs; cbn; auto. apply IHl. apply add_ready_inv. exact Hs. }
  apply G. apply Inv_init.
Qed.

Lemma tick_loop_inv n : forall s last more, SInv s -> SInv (fst (fst (tick_loop P n s last more))).
Proof.
  induction n as [|n IH]; intros s last more Hs; cbn [tick_loop]; [exact Hs|].
  destruct (crashed (sw s)); [exact Hs|].
  destruct (ready s) as [|[[t retime] per] rest]; [exact Hs|].
  destruct (tltb O (stamp (sw s)) retime).
  - apply IH. exact Hs.
  - pose proof (send_inv t (desire (gett (sw s) t)) (sw s) Hs) as Hw.
    destruct (o_send (top P) t (desire (gett (sw s) t)) (sw s)) as [w' r]. cbn [fst] in Hw.
    destruct (crashed w'); [exact Hw|].
    destruct r as [x|]; [destruct x|]; apply IH; exact Hw.
Qed.

Lemma ticks_inv n : forall s, SInv s -> SInv (fst (ticks P n s)).
Proof.
  induction n as [|n IH]; intros s Hs; cbn [ticks]; [exact Hs|].
  pose proof (tick_loop_inv (length (ready s)) s None false Hs) as H1.
  destruct (tick_loop P (length (ready s)) s None false) as [[s1 l1] m1]. cbn [fst] in H1.
  destruct (crashed (sw s1)) as [[|]|]; try exact H1.
  destruct (ready s1); [exact H1|]. destruct (negb m1); [exact H1|].
  destruct n; [exact H1|]. apply IH. unfold SInv in *. cbn [sw].
  apply (Inv_same_tss O P (sw s1)); [reflexivity|exact H1].
Qed.

Lemma sweep_inv n : forall s, SInv s -> SInv (sweep P n s).
Proof.
  induction n as [|n IH]; intros s Hs; cbn [sweep]; [exact Hs|].
  destruct (crashed (sw s)); [exact Hs|]. destruct (ready s) as [|[[t r] p] rest]; [exact Hs|].
  pose proof (send_inv t CAbort (sw s) Hs) as Hw.
  destruct (o_send (top P) t CAbort (sw s)) as [w' x]. apply IH. exact Hw.
Qed.

Lemma run_inv nv ca n : SInv (fst (run P nv ca n)).
Proof.
  unfold run. pose proof (ticks_inv n _ (init_sked_inv nv ca)) as H.
  destruct (ticks P n (init_sked P nv ca)) as [s e]. cbn [fst] in *.
  apply sweep_inv. unfold SInv in *. cbn [sw]. apply (Inv_same_tss O P (sw s)); [reflexivity|exact H].
Qed.

End R.

Section Clear.
Variable O : TimeOps.
Variable P : prog O.

Lemma modt_length (w : world O) x g : length (tss (modt w x g)) = length (tss w).
Proof. unfold modt, sett, set_tss. cbn. apply upd_length. Qed.

(* Framer.exitAll ends with deactivate: no active frame, empty outline *)
Lemma exitAll_clears n b a w :
  crashed w = None -> crashed (framer_exitAll P (lvl P n) b a w) = None -> a < length (tss w) ->
  active (gett (framer_exitAll P (lvl P n) b a w) a) = None /\
  actives (gett (framer_exitAll P (lvl P n) b a w) a) = [].
Proof.
  intros Hc Hc' Hl.
  pose proof (same_clock_ops O P (S n)) as [_ [Hx _]]. specialize (Hx b a w). cbn in Hx.
  destruct Hx as [_ [_ [_ Hlen]]].
  unfold framer_exitAll, guard in *. rewrite Hc in *.
  set (W := framer_exit P (lvl P n) a (actives (gett w a)) w) in *.
  destruct (crashed W) eqn:HcW; [congruence|].
  assert (HlW : a < length (tss W)).
  { destruct b; rewrite ?modt_length in Hlen; lia. }
  destruct b.
  - rewrite gett_modt. apply Nat.ltb_lt in HlW. rewrite Nat.eqb_refl, HlW. cbn. split; reflexivity.
  - rewrite !gett_modt. rewrite modt_length.
    apply Nat.ltb_lt in HlW. rewrite Nat.eqb_refl, HlW. cbn. split; reflexivity.
Qed.

(* a scheduled or slave framer that is stopped or aborted while running ends with no active frames *)
Lemma send_stop_abort_clears n a c w w' r :
  framer_send P (lvl P n) a c w = (w', Some r) -> (c = CStop \/ c = CAbort) ->
  (st (gett w a) = Running \/ st (gett w a) = Started) -> a < length (tss w) ->
  active (gett w' a) = None /\ actives (gett w' a) = [] /\ (r = Stopped \/ r = Aborted).
Proof.
  intros H Hcc Hst Hl. unfold framer_send in H.
  destruct (crashed w) eqn:Hcw; [discriminate|].
  destruct (negb (alive (gett w a))); [inversion H|].
  assert (Hrun : match st (gett w a) with Running | Started => true | _ => false end = true)
    by (destruct Hst as [-> | ->]; reflexivity).
  pose proof (same_clock_ops O P (S n)) as [_ [Hx _]].
  destruct Hcc as [-> | ->]; rewrite Hrun in H.
  - set (w1 := modt w a (fun s => ts_set_desire s CStop)) in *.
    assert (Hl1 : a < length (tss w1)) by (unfold w1; rewrite modt_length; exact Hl).
    assert (Hc1 : crashed w1 = None) by exact Hcw.
    specialize (Hx true a w1). cbn in Hx. destruct Hx as [_ [_ [_ Hlen]]].
    set (w2 := framer_exitAll P (lvl P n) true a w1) in *.
    unfold guard in H. destruct (crashed w2) eqn:Hc2; [cbv iota beta in H; rewrite ?Hc2 in H; cbv iota beta in H; discriminate|].
    destruct (exitAll_clears n true a w1 Hc1 Hc2 Hl1) as [E1 E2]. fold w2 in E1, E2.
    cbn [crashed modt sett set_tss] in H. rewrite Hc2 in H. inversion H; subst. clear H.
    unfold gett, modt, sett, set_tss, emit. cbn [tss]. rewrite nth_upd_same by lia.
    cbn [active actives ts_set_st]. fold (gett w2 a). repeat split; auto.
  - set (w2 := framer_exitAll P (lvl P n) false a w) in *.
    specialize (Hx false a w). cbn in Hx. destruct Hx as [_ [_ [_ Hlen]]]. fold w2 in Hlen.
    unfold guard in H. destruct (crashed w2) eqn:Hc2; [cbv iota beta in H; rewrite ?Hc2 in H; cbv iota beta in H; discriminate|].
    destruct (exitAll_clears n false a w Hcw Hc2 Hl) as [E1 E2]. fold w2 in E1, E2.
    cbn [crashed modt sett set_tss] in H. rewrite Hc2 in H. inversion H; subst. clear H.
    unfold gett, modt, sett, set_tss, emit. cbn [tss]. rewrite nth_upd_same by lia.
    cbn [active actives ts_set_st abort_ts ts_set_desire]. fold (gett w2 a). repeat split; auto.
Qed.

(* ---- structure of outlines ---- *)
Lemma ups_head t n f : 0 < n -> hd_error (ups P t n f) = Some f.
Proof. destruct n; [lia|reflexivity]. Qed.

(* if the fuel was not exhausted the ancestor chain ends at a top frame (no over) *)
Lemma last_default {A} (l : list A) d d' : l <> [] -> last l d = last l d'.
Proof.
  induction l as [|x l IH]; intros H; [congruence|]. destruct l as [|y l]; [reflexivity|].
  cbn [last] in *. apply IH. discriminate.
Qed.

Lemma ups_top t n : forall f, length (ups P t n f) < n ->
  fr_over (getf P t (last (ups P t n f) f)) = None.
Proof.
  induction n as [|n IH]; intros f Hl; [cbn in Hl; lia|].
  cbn [ups] in *. destruct (fr_over (getf P t f)) as [o|] eqn:Ho; [|cbn; exact Ho].
  cbn [length] in Hl. assert (Hn : length (ups P t n o) < n) by lia.
  specialize (IH o Hn). destruct (ups P t n o) as [|y l] eqn:E.
  - destruct n; [lia|discriminate].
  - change (last (f :: y :: l) f) with (last (y :: l) f).
    rewrite (last_default (y :: l) f o) by discriminate. exact IH.
Qed.

Lemma downs_chain t n : forall f i a b,
  nth_error (f :: downs P t n f) i = Some a -> nth_error (f :: downs P t n f) (S i) = Some b ->
  hd_error (fr_unders (getf P t a)) = Some b.
Proof.
  induction n as [|n IH]; intros f i a b Ha Hb; [destruct i; cbn in Hb; try discriminate; destruct i; discriminate|].
  cbn [downs] in *. destruct (fr_unders (getf P t f)) as [|u us] eqn:Hu.
  - destruct i; cbn in Hb; [discriminate|destruct i; discriminate].
  - destruct i as [|i].
    + cbn in Ha, Hb. inversion Ha; inversion Hb; subst. rewrite Hu. reflexivity.
    + cbn [nth_error] in Ha, Hb. eapply IH; eauto.
Qed.

Lemma outline_contains t f : 0 < nfr P t -> In f (outline P t f).
Proof.
  intros H. unfold outline, head. apply in_or_app. left. rewrite <- in_rev.
  destruct (nfr P t); [lia|]. left. reflexivity.
Qed.

Lemma head_prefix t f : exists l, outline P t f = head P t f ++ l.
Proof. eexists. reflexivity. Qed.

End Clear.
