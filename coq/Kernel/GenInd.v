(* A generic, framer-indexed induction principle over the kernel operations.

   [R a w w'] describes what an operation executed BY framer [a] may do to the world.  If R is
   a preorder respected by the primitive updates -- where an operation of [a] may overwrite
   [a]'s own tasker state, bid (desire/period) on anybody, mark as done only its declared
   done-targets, set the main frame only of its children, and do to a child [x] whatever [R x]
   allows -- then every framer-level operation at every auxiliary depth satisfies R.

   children of a: the auxiliaries listed in a's frames, the targets of its fiats, of its
   conditional-aux clauses and of their deactivize side-acts. *)
From Coq Require Import List ZArith Bool Arith Lia.
Import ListNotations.
Require Import V.Kernel.Model.

Section G.
Variable O : TimeOps.
Variable P : prog O.

Definition act_child (ac : act O) (x : tid) : Prop :=
  match ac with AFiat _ t => t = x | ADeactivize t => t = x | _ => False end.
Definition act_done (ac : act O) (x : tid) : Prop :=
  match ac with ADone ts => In x ts | _ => False end.

Definition frame_acts (fr : frame O) : list (act O) :=
  enacts fr ++ renacts fr ++ reacts fr ++ exacts fr ++ rexacts fr ++
  flat_map (fun pa => match pa with PAct a => [a] | _ => [] end) (preacts fr).

Definition child (a x : tid) : Prop :=
  exists f, In x (fr_auxes (getf P a f)) \/
            (exists ac, In ac (frame_acts (getf P a f)) /\ act_child ac x) \/
            (exists ns, In (PAux ns x) (preacts (getf P a f))).
Definition dtarget (a x : tid) : Prop :=
  exists f ac, In ac (frame_acts (getf P a f)) /\ act_done ac x.

Variable R : tid -> world O -> world O -> Prop.
Hypothesis R_refl : forall a w, R a w w.
Hypothesis R_trans : forall a w1 w2 w3, R a w1 w2 -> R a w2 w3 -> R a w1 w3.
Hypothesis R_emit : forall a w e, R a w (emit w e).
Hypothesis R_vars : forall a w l, R a w (set_vars w l).
Hypothesis R_vstamps : forall a w l, R a w (set_vstamps w l).
Hypothesis R_marks : forall a w l, R a w (set_marks w l).
Hypothesis R_crashed : forall a w c, R a w (set_crashed w c).
Hypothesis R_bump : forall a w, R a w (bump_rec w).
Hypothesis R_oof : forall a w, R a w (set_oof w).
Hypothesis R_self : forall a w s, R a w (sett w a s).
Hypothesis R_bid : forall a w x c, R a w (modt w x (fun s => ts_set_desire s c)).
Hypothesis R_per : forall a w x p, R a w (modt w x (fun s => ts_set_period s p)).
Hypothesis R_done : forall a w x, dtarget a x -> R a w (modt w x (fun s => ts_set_done s true)).
Hypothesis R_main : forall a w x m, child a x -> R a w (modt w x (fun s => ts_set_main s m)).
Hypothesis R_sub : forall a x w w', child a x -> R x w w' -> R a w w'.

Definition ops_R (o : ops O) : Prop :=
  (forall a w, R a w (o_enterAll o a w)) /\
  (forall b a w, R a w (o_exitAll o b a w)) /\
  (forall a w, R a w (o_segue o a w)) /\
  (forall a w, R a w (o_recur o a w)) /\
  (forall a c w, R a w (fst (o_send o a c w))).

Lemma R_modself a w f : R a w (modt w a f).
Proof. apply R_self. Qed.

Lemma R_guard a w k : (forall w, R a w (k w)) -> R a w (guard w k).
Proof. intros H. unfold guard. destruct (crashed w); auto. Qed.

Lemma R_fold_in {A} a (f : world O -> A -> world O) l :
  (forall w x, In x l -> R a w (f w x)) -> forall w, R a w (fold_left f l w).
Proof.
  induction l as [|x l IH]; intros H w; cbn; [apply R_refl|].
  eapply R_trans; [apply H; left; reflexivity|apply IH]. intros; apply H; right; assumption.
Qed.

Ltac rt := eapply R_trans.

Definition act_ok (a : tid) (ac : act O) : Prop :=
  (forall x, act_child ac x -> child a x) /\ (forall x, act_done ac x -> dtarget a x).

Lemma frame_acts_ok a f ac : In ac (frame_acts (getf P a f)) -> act_ok a ac.
Proof.
  intros H. split; intros x Hx.
  - exists f. right. left. exists ac. auto.
  - exists f, ac. auto.
Qed.

Ltac inapp := repeat (apply in_or_app; first [left; assumption | right]); try assumption.

Lemma in_enacts a f ac : In ac (enacts (getf P a f)) -> act_ok a ac.
Proof. intros; apply (frame_acts_ok a f); unfold frame_acts; inapp. Qed.
Lemma in_renacts a f ac : In ac (renacts (getf P a f)) -> act_ok a ac.
Proof. intros; apply (frame_acts_ok a f); unfold frame_acts; inapp. Qed.
Lemma in_reacts a f ac : In ac (reacts (getf P a f)) -> act_ok a ac.
Proof. intros; apply (frame_acts_ok a f); unfold frame_acts; inapp. Qed.
Lemma in_exacts a f ac : In ac (exacts (getf P a f)) -> act_ok a ac.
Proof. intros; apply (frame_acts_ok a f); unfold frame_acts; inapp. Qed.
Lemma in_rexacts a f ac : In ac (rexacts (getf P a f)) -> act_ok a ac.
Proof. intros; apply (frame_acts_ok a f); unfold frame_acts; inapp. Qed.
Lemma in_preacts a f ac : In (PAct ac) (preacts (getf P a f)) -> act_ok a ac.
Proof.
  intros H; apply (frame_acts_ok a f); unfold frame_acts.
  repeat (apply in_or_app; right). apply in_flat_map. exists (PAct ac). split; [exact H|left; reflexivity].
Qed.
Lemma in_auxes a f x : In x (fr_auxes (getf P a f)) -> child a x.
Proof. intros H. exists f. left. exact H. Qed.
Lemma in_paux a f ns x : In (PAux ns x) (preacts (getf P a f)) -> child a x.
Proof. intros H. exists f. right. right. exists ns. exact H. Qed.

Section Step.
Variable sub : ops O.
Hypothesis Hsub : ops_R sub.

Lemma R_deactivate a aux w : child a aux -> R a w (deactivate_aux P sub aux w).
Proof.
  intros Hc. unfold deactivate_aux. destruct Hsub as [_ [Hx _]].
  rt; [eapply R_sub; [exact Hc|apply Hx]|]. apply R_guard. intros w'.
  destruct (fm_original _); [apply R_main; exact Hc|apply R_refl].
Qed.

Lemma R_run_act a ac w : act_ok a ac -> R a w (run_act P sub a ac w).
Proof.
  intros [Hch Hdn]. unfold run_act. apply R_guard. clear w. intros w. destruct ac.
  - destruct (crash_at w) as [[k e]|].
    + destruct (Nat.eqb k (nrec w)).
      * rt; [apply R_emit|]. rt; [apply R_bump|]. apply R_crashed.
      * rt; [apply R_emit|]. apply R_bump.
    + rt; [apply R_emit|]. apply R_bump.
  - unfold write_var. rt; [apply R_vars|apply R_vstamps].
  - unfold write_var. rt; [apply R_vars|apply R_vstamps].
  - unfold write_var. rt; [apply R_vars|apply R_vstamps].
  - apply R_fold_in. intros w' t _. rt; [|apply R_bid].
    destruct c; destruct p; try apply R_refl; apply R_per.
  - destruct Hsub as [_ [_ [_ [_ Hs]]]]. eapply R_sub; [apply Hch; reflexivity|apply Hs].
  - apply R_fold_in. intros w' x Hx. apply R_done. apply Hdn. exact Hx.
  - destruct (done _); [apply R_refl|apply R_deactivate; apply Hch; reflexivity].
  - apply R_marks.
  - apply R_marks.
Qed.

Lemma tracts_ok a ns ac : In ac (tracts_of ns) -> act_ok a ac.
Proof.
  unfold tracts_of. rewrite in_flat_map. intros [n [_ Hn]].
  induction n; cbn in Hn; try contradiction; auto.
  - destruct Hn as [<-|[]]. split; intros x Hx; destruct Hx.
  - destruct Hn as [<-|[]]. split; intros x Hx; destruct Hx.
Qed.

Lemma R_run_acts a l w : (forall ac, In ac l -> act_ok a ac) -> R a w (run_acts P sub a l w).
Proof. intros H. unfold run_acts. apply R_fold_in. intros; apply R_run_act; auto. Qed.

Lemma R_frame_enter a w f : R a w (frame_enter P sub a w f).
Proof.
  unfold frame_enter. apply R_guard. clear w. intros w.
  rt; [apply R_emit|]. rt; [apply R_run_acts; intros; eapply in_enacts; eauto|].
  apply R_fold_in. intros w' aux Hin.
  apply R_guard. intros w''. destruct Hsub as [He _]. pose proof (in_auxes a f aux Hin) as Hc.
  destruct (fm_original _).
  - rt; [apply R_main; exact Hc|]. eapply R_sub; [exact Hc|apply He].
  - eapply R_sub; [exact Hc|apply He].
Qed.

Lemma R_framer_enter a l w : R a w (framer_enter P sub a l w).
Proof.
  unfold framer_enter. apply R_guard. clear w. intros w.
  rt; [|apply R_fold_in; intros; apply R_frame_enter].
  destruct l; [apply R_refl|apply R_modself].
Qed.

Lemma R_frame_exit a w f : R a w (frame_exit P sub a w f).
Proof.
  unfold frame_exit. apply R_guard. clear w. intros w.
  rt; [|apply R_guard; intros w'; rt; [apply R_emit|apply R_run_acts; intros; eapply in_exacts; eauto]].
  apply R_fold_in.
  intros w' aux Hin. pose proof (in_auxes a f aux Hin) as Hc.
  apply R_guard. intros w''. destruct Hsub as [_ [Hx _]].
  rt; [eapply R_sub; [exact Hc|apply Hx]|]. apply R_guard. intros w3.
  destruct (fm_original _); [apply R_main; exact Hc|apply R_refl].
Qed.

Lemma R_framer_exit a l w : R a w (framer_exit P sub a l w).
Proof. unfold framer_exit. apply R_fold_in. intros; apply R_frame_exit. Qed.
Lemma R_framer_rexit a l w : R a w (framer_rexit P sub a l w).
Proof. unfold framer_rexit. apply R_fold_in. intros; apply R_run_acts; intros; eapply in_rexacts; eauto. Qed.
Lemma R_framer_renter a l w : R a w (framer_renter P sub a l w).
Proof. unfold framer_renter. apply R_fold_in. intros; apply R_run_acts; intros; eapply in_renacts; eauto. Qed.

Lemma R_activate a f w : R a w (activate P a f w).
Proof. apply R_modself. Qed.
Lemma R_reactivate a w : R a w (reactivate P a w).
Proof. unfold reactivate. destruct (active _); [apply R_modself|apply R_refl]. Qed.
Lemma R_change a l w : R a w (change a l w).
Proof. apply R_modself. Qed.

Lemma R_transit a ns far w : R a w (fst (transit P sub a ns far w)).
Proof.
  unfold transit. destruct (negb (forallb _ ns)); [apply R_refl|].
  destruct (ExEn P a (actives (gett w a)) far) as [[ex en] re].
  destruct (negb (framer_checkEnter P sub a en ex w)); [apply R_refl|]. cbn [fst].
  rt; [apply R_run_acts; intros; eapply tracts_ok; eauto|].
  rt; [apply R_framer_exit|]. rt; [apply R_framer_rexit|]. rt; [apply R_framer_renter|].
  rt; [apply R_framer_enter|]. apply R_guard. intros; apply R_activate.
Qed.

Lemma R_suspend a mf ns aux w : child a aux -> R a w (fst (suspend P sub a mf ns aux w)).
Proof.
  intros Hc. unfold suspend. destruct Hsub as [He [Hx [Hsg [Hrc Hs]]]].
  destruct (done (gett w aux)).
  - destruct (negb (forallb _ ns)); [apply R_refl|].
    destruct (match main (gett w aux) with Some (mt, m) => _ | None => false end); [apply R_refl|].
    destruct (negb (o_checkStart sub aux w)); [apply R_refl|].
    match goal with |- R a w (fst (match crashed ?W with _ => _ end)) =>
      assert (HW : R a w W); [|destruct (crashed W)] end.
    { rt; [|apply R_guard; intros; eapply R_sub; [exact Hc|apply Hrc]].
      rt; [|eapply R_sub; [exact Hc|apply He]].
      rt; [apply R_run_acts; intros; eapply tracts_ok; eauto|].
      destruct (fm_original _); [apply R_main; exact Hc|apply R_refl]. }
    + exact HW.
    + match goal with |- R a w (fst (if ?c then _ else _)) => destruct c end; cbn [fst].
      * rt; [exact HW|apply R_deactivate; exact Hc].
      * rt; [exact HW|apply R_change].
  - destruct (match main (gett w aux) with Some (mt, m) => _ | None => false end); [apply R_refl|].
    match goal with |- R a w (fst (match crashed ?W with _ => _ end)) =>
      assert (HW : R a w W); [|destruct (crashed W)] end.
    { rt; [eapply R_sub; [exact Hc|apply Hsg]|]. apply R_guard; intros; eapply R_sub; [exact Hc|apply Hrc]. }
    + exact HW.
    + match goal with |- R a w (fst (if ?c then _ else _)) => destruct c end; cbn [fst].
      * rt; [exact HW|]. rt; [apply R_deactivate; exact Hc|]. apply R_guard; intros; apply R_reactivate.
      * exact HW.
Qed.

Lemma R_precur a f l : (forall pa, In pa l -> In pa (preacts (getf P a f))) ->
  forall w, R a w (fst (precur P sub a f l w)).
Proof.
  induction l as [|pa l IH]; intros Hin w; cbn [precur]; destruct (crashed w); try apply R_refl.
  assert (Hl : forall pa0, In pa0 l -> In pa0 (preacts (getf P a f))) by (intros; apply Hin; right; assumption).
  assert (Hpa : In pa (preacts (getf P a f))) by (apply Hin; left; reflexivity).
  destruct pa as [ac|ns far|ns aux].
  - pose proof (in_preacts a f ac Hpa) as Hok.
    destruct ac; try (rt; [apply R_run_act; exact Hok|apply IH; exact Hl]).
    destruct (o_send sub t c w) as [w' r] eqn:Hs.
    assert (H : R a w w').
    { destruct Hsub as [_ [_ [_ [_ H]]]]. specialize (H t c w). rewrite Hs in H.
      eapply R_sub; [apply (proj1 Hok); reflexivity|exact H]. }
    destruct (fiat_ok c r); [exact H|]. rt; [exact H|apply IH; exact Hl].
  - pose proof (R_transit a ns far w) as H. destruct (transit P sub a ns far w) as [w' r].
    destruct r; [exact H|]. rt; [exact H|apply IH; exact Hl].
  - pose proof (R_suspend a f ns aux w (in_paux a f ns aux Hpa)) as H.
    destruct (suspend P sub a f ns aux w) as [w' r].
    destruct r; [exact H|]. rt; [exact H|apply IH; exact Hl].
Qed.

Lemma R_segue_frames a l : forall w, R a w (fst (segue_frames P sub a l w)).
Proof.
  induction l as [|f l IH]; intros w; cbn [segue_frames]; destruct (crashed w); try apply R_refl.
  pose proof (R_precur a f (preacts (getf P a f)) (fun pa H => H) w) as H.
  destruct (precur P sub a f (preacts (getf P a f)) w) as [w' r].
  destruct r; [exact H|]. rt; [exact H|apply IH].
Qed.

Lemma R_framer_segue a w : R a w (framer_segue P sub a w).
Proof.
  unfold framer_segue. apply R_guard. clear w. intros w.
  rt; [apply R_emit|]. rt; [apply R_self|].
  rt; [|apply R_segue_frames].
  apply R_fold_in. intros w' f _. apply R_fold_in. intros w'' aux Hin. apply R_guard.
  destruct Hsub as [_ [_ [Hsg _]]]. intros; eapply R_sub; [eapply in_auxes; eauto|apply Hsg].
Qed.

Lemma R_framer_recur a w : R a w (framer_recur P sub a w).
Proof.
  unfold framer_recur. apply R_guard. clear w. intros w.
  apply R_fold_in. intros w' f _. apply R_guard. intros w''.
  rt; [apply R_emit|]. rt; [apply R_run_acts; intros; eapply in_reacts; eauto|].
  apply R_fold_in. intros w3 aux Hin. apply R_guard. destruct Hsub as [_ [_ [_ [Hrc _]]]].
  intros; eapply R_sub; [eapply in_auxes; eauto|apply Hrc].
Qed.

Lemma R_framer_enterAll a w : R a w (framer_enterAll P sub a w).
Proof.
  unfold framer_enterAll. apply R_guard. clear w. intros w.
  rt; [apply R_modself|]. rt; [apply R_activate|]. apply R_framer_enter.
Qed.

Lemma R_framer_exitAll b a w : R a w (framer_exitAll P sub b a w).
Proof.
  unfold framer_exitAll. apply R_guard. clear w. intros w.
  rt; [apply R_framer_exit|]. apply R_guard. intros w'.
  destruct b; [apply R_modself|]. rt; apply R_modself.
Qed.

Lemma R_framer_send a c w : R a w (fst (framer_send P sub a c w)).
Proof.
  unfold framer_send. destruct (crashed w); [apply R_refl|].
  destruct (negb (alive (gett w a))); [apply R_emit|].
  match goal with |- R a w (fst (match crashed ?W with _ => _ end)) =>
    assert (HW : R a w W); [|destruct (crashed W); cbn [fst]; [rt; [exact HW|apply R_modself]|rt; [exact HW|apply R_emit]]] end.
  destruct c.
  - destruct (match st (gett w a) with Running | Started => true | _ => false end).
    + rt; [apply R_modself|]. rt; [apply R_framer_exitAll|]. apply R_guard; intros; apply R_modself.
    + destruct (match st (gett w a) with Stopped | Readied => true | _ => false end); [apply R_refl|apply R_modself].
  - destruct (match st (gett w a) with Stopped | Readied => true | _ => false end).
    + destruct (framer_checkStart P sub a w).
      * rt; [apply R_modself|]. rt; [apply R_framer_enterAll|]. rt; [apply R_framer_recur|].
        apply R_guard; intros; apply R_modself.
      * apply R_modself.
    + destruct (match st (gett w a) with Running | Started => true | _ => false end); apply R_modself.
  - destruct (match st (gett w a) with Running | Started => true | _ => false end).
    + rt; [apply R_framer_segue|]. rt; [apply R_framer_recur|]. apply R_guard; intros; apply R_modself.
    + destruct (match st (gett w a) with Stopped | Readied => true | _ => false end); apply R_modself.
  - rt; [|apply R_guard; intros; apply R_modself].
    destruct (match st (gett w a) with Running | Started => true | _ => false end);
      [apply R_framer_exitAll|apply R_refl].
  - destruct (match st (gett w a) with Stopped | Readied => true | _ => false end).
    + destruct (framer_checkStart P sub a w); apply R_modself.
    + destruct (match st (gett w a) with Running | Started => true | _ => false end);
        [apply R_refl|apply R_modself].
Qed.

Lemma step_ops_R : ops_R (step_ops P sub).
Proof.
  repeat split; intros; cbn.
  - apply R_framer_enterAll.
  - apply R_framer_exitAll.
  - apply R_framer_segue.
  - apply R_framer_recur.
  - apply R_framer_send.
Qed.

End Step.

Lemma ops0_R : ops_R (ops0 O).
Proof. repeat split; intros; cbn; apply R_oof. Qed.

Lemma lvl_R n : ops_R (lvl P n).
Proof. induction n; cbn; [apply ops0_R|apply step_ops_R; assumption]. Qed.

Lemma send_R n a c w : R a w (fst (o_send (lvl P n) a c w)).
Proof. destruct (lvl_R n) as [_ [_ [_ [_ H]]]]. apply H. Qed.

End G.
