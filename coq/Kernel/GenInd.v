(* A generic induction principle over the kernel operations: any preorder on worlds that is
   respected by the primitive updates relates the input and output world of every
   framer-level operation at every auxiliary depth. *)
From Coq Require Import List ZArith Bool Arith Lia.
Import ListNotations.
Require Import V.Kernel.Model.

Section G.
Variable O : TimeOps.
Variable P : prog O.
Variable R : world O -> world O -> Prop.
Hypothesis R_refl : forall w, R w w.
Hypothesis R_trans : forall a b c, R a b -> R b c -> R a c.
Hypothesis R_emit : forall w e, R w (emit w e).
Hypothesis R_sett : forall w t s, R w (sett w t s).
Hypothesis R_vars : forall w l, R w (set_vars w l).
Hypothesis R_crashed : forall w c, R w (set_crashed w c).
Hypothesis R_bump : forall w, R w (bump_rec w).
Hypothesis R_oof : forall w, R w (set_oof w).

Definition ops_R (o : ops O) : Prop :=
  (forall t w, R w (o_enterAll o t w)) /\
  (forall b t w, R w (o_exitAll o b t w)) /\
  (forall t w, R w (o_segue o t w)) /\
  (forall t w, R w (o_recur o t w)) /\
  (forall t c w, R w (fst (o_send o t c w))).

Lemma R_modt w t f : R w (modt w t f).
Proof. apply R_sett. Qed.

Lemma R_guard w k : (forall w, R w (k w)) -> R w (guard w k).
Proof. intros H. unfold guard. destruct (crashed w); auto. Qed.

Lemma R_fold {A} (f : world O -> A -> world O) l :
  (forall w a, R w (f w a)) -> forall w, R w (fold_left f l w).
Proof.
  intros H. induction l as [|a l IH]; intros w; cbn; [apply R_refl|].
  eapply R_trans; [apply H|apply IH].
Qed.

Ltac rt := eapply R_trans.

Section Step.
Variable sub : ops O.
Hypothesis Hsub : ops_R sub.

Lemma R_deactivate aux w : R w (deactivate_aux P sub aux w).
Proof.
  unfold deactivate_aux. destruct Hsub as [_ [Hx _]].
  rt; [apply Hx|]. apply R_guard. intros w'. destruct (fm_original _); [apply R_modt|apply R_refl].
Qed.

Lemma R_run_act me a w : R w (run_act P sub me a w).
Proof.
  unfold run_act. apply R_guard. clear w. intros w. destruct a.
  - destruct (crash_at w) as [[k e]|].
    + destruct (Nat.eqb k (nrec w)).
      * rt; [apply R_emit|]. rt; [apply R_bump|]. apply R_crashed.
      * rt; [apply R_emit|]. apply R_bump.
    + rt; [apply R_emit|]. apply R_bump.
  - apply R_vars.
  - apply R_vars.
  - apply R_vars.
  - apply R_fold. intros w' t. rt; [|apply R_modt].
    destruct c; destruct p; try apply R_refl; apply R_modt.
  - destruct Hsub as [_ [_ [_ [_ Hs]]]]. apply Hs.
  - apply R_fold. intros; apply R_modt.
  - destruct (done _); [apply R_refl|apply R_deactivate].
Qed.

Lemma R_run_acts me l w : R w (run_acts P sub me l w).
Proof. unfold run_acts. apply R_fold. intros; apply R_run_act. Qed.

Lemma R_frame_enter w f : R w (frame_enter P sub w f).
Proof.
  unfold frame_enter. apply R_guard. clear w. intros w.
  rt; [apply R_emit|]. rt; [apply R_run_acts|]. apply R_fold. intros w' aux.
  apply R_guard. intros w''. destruct Hsub as [He _].
  destruct (fm_original _); [rt; [apply R_modt|apply He]|apply He].
Qed.

Lemma R_framer_enter t l w : R w (framer_enter P sub t l w).
Proof.
  unfold framer_enter. apply R_guard. clear w. intros w.
  rt; [|apply R_fold; intros; apply R_frame_enter].
  destruct l; [apply R_refl|apply R_modt].
Qed.

Lemma R_frame_exit w f : R w (frame_exit P sub w f).
Proof.
  unfold frame_exit. apply R_guard. clear w. intros w.
  rt; [|apply R_guard; intros w'; rt; [apply R_emit|apply R_run_acts]].
  apply R_fold.
  intros w' aux. apply R_guard. intros w''. destruct Hsub as [_ [Hx _]].
  rt; [apply Hx|]. apply R_guard. intros w3. destruct (fm_original _); [apply R_modt|apply R_refl].
Qed.

Lemma R_framer_exit l w : R w (framer_exit P sub l w).
Proof. unfold framer_exit. apply R_fold. intros; apply R_frame_exit. Qed.
Lemma R_framer_rexit l w : R w (framer_rexit P sub l w).
Proof. unfold framer_rexit. apply R_fold. intros; apply R_run_acts. Qed.
Lemma R_framer_renter l w : R w (framer_renter P sub l w).
Proof. unfold framer_renter. apply R_fold. intros; apply R_run_acts. Qed.

Lemma R_activate t f w : R w (activate P t f w).
Proof. apply R_modt. Qed.
Lemma R_reactivate t w : R w (reactivate P t w).
Proof. unfold reactivate. destruct (active _); [apply R_modt|apply R_refl]. Qed.
Lemma R_change t l w : R w (change t l w).
Proof. apply R_modt. Qed.

Lemma R_transit t ns far w : R w (fst (transit P sub t ns far w)).
Proof.
  unfold transit. destruct (negb (forallb _ ns)); [apply R_refl|].
  destruct (ExEn P (actives (gett w t)) far) as [[ex en] re].
  destruct (negb (framer_checkEnter P sub en ex w)); [apply R_refl|]. cbn [fst].
  rt; [apply R_framer_exit|]. rt; [apply R_framer_rexit|]. rt; [apply R_framer_renter|].
  rt; [apply R_framer_enter|]. apply R_guard. intros; apply R_activate.
Qed.

Lemma R_suspend t mf ns aux w : R w (fst (suspend P sub t mf ns aux w)).
Proof.
  unfold suspend. destruct Hsub as [He [Hx [Hsg [Hrc Hs]]]].
  destruct (done (gett w aux)).
  - destruct (negb (forallb _ ns)); [apply R_refl|].
    destruct (match main (gett w aux) with Some m => negb (Nat.eqb m mf) | None => false end); [apply R_refl|].
    destruct (negb (o_checkStart sub aux w)); [apply R_refl|].
    match goal with |- R w (fst (match crashed ?W with _ => _ end)) =>
      assert (HW : R w W); [|destruct (crashed W)] end.
    { rt; [|apply R_guard; intros; apply Hrc]. rt; [|apply He].
      destruct (fm_original _); [apply R_modt|apply R_refl]. }
    + exact HW.
    + match goal with |- R w (fst (if ?c then _ else _)) => destruct c end; cbn [fst].
      * rt; [exact HW|apply R_deactivate].
      * rt; [exact HW|apply R_change].
  - match goal with |- R w (fst (match crashed ?W with _ => _ end)) =>
      assert (HW : R w W); [|destruct (crashed W)] end.
    { rt; [apply Hsg|]. apply R_guard; intros; apply Hrc. }
    + exact HW.
    + match goal with |- R w (fst (if ?c then _ else _)) => destruct c end; cbn [fst].
      * rt; [exact HW|]. rt; [apply R_deactivate|]. apply R_guard; intros; apply R_reactivate.
      * exact HW.
Qed.

Lemma R_precur t f l : forall w, R w (fst (precur P sub t f l w)).
Proof.
  induction l as [|pa l IH]; intros w; cbn [precur]; destruct (crashed w); try apply R_refl.
  destruct pa as [a|ns far|ns aux].
  - destruct a; try (rt; [apply R_run_act|apply IH]).
    destruct (o_send sub t0 c w) as [w' r] eqn:Hs.
    assert (R w w') by (destruct Hsub as [_ [_ [_ [_ H]]]]; specialize (H t0 c w); rewrite Hs in H; exact H).
    destruct (fiat_ok c r); [exact H|]. rt; [exact H|apply IH].
  - pose proof (R_transit t ns far w) as H. destruct (transit P sub t ns far w) as [w' r].
    destruct r; [exact H|]. rt; [exact H|apply IH].
  - pose proof (R_suspend t f ns aux w) as H. destruct (suspend P sub t f ns aux w) as [w' r].
    destruct r; [exact H|]. rt; [exact H|apply IH].
Qed.

Lemma R_segue_frames t l : forall w, R w (fst (segue_frames P sub t l w)).
Proof.
  induction l as [|f l IH]; intros w; cbn [segue_frames]; destruct (crashed w); try apply R_refl.
  pose proof (R_precur t f (preacts (getf P f)) w) as H.
  destruct (precur P sub t f (preacts (getf P f)) w) as [w' r].
  destruct r; [exact H|]. rt; [exact H|apply IH].
Qed.

Lemma R_framer_segue t w : R w (framer_segue P sub t w).
Proof.
  unfold framer_segue. apply R_guard. clear w. intros w.
  rt; [apply R_emit|]. rt; [apply R_sett|].
  rt; [|apply R_segue_frames].
  apply R_fold. intros w' f. apply R_fold. intros w'' aux. apply R_guard.
  destruct Hsub as [_ [_ [Hsg _]]]. intros; apply Hsg.
Qed.

Lemma R_framer_recur t w : R w (framer_recur P sub t w).
Proof.
  unfold framer_recur. apply R_guard. clear w. intros w.
  apply R_fold. intros w' f. apply R_guard. intros w''.
  rt; [apply R_emit|]. rt; [apply R_run_acts|].
  apply R_fold. intros w3 aux. apply R_guard. destruct Hsub as [_ [_ [_ [Hrc _]]]]. intros; apply Hrc.
Qed.

Lemma R_framer_enterAll t w : R w (framer_enterAll P sub t w).
Proof.
  unfold framer_enterAll. apply R_guard. clear w. intros w.
  rt; [apply R_modt|]. rt; [apply R_activate|]. apply R_framer_enter.
Qed.

Lemma R_framer_exitAll b t w : R w (framer_exitAll P sub b t w).
Proof.
  unfold framer_exitAll. apply R_guard. clear w. intros w.
  rt; [apply R_framer_exit|]. apply R_guard. intros w'.
  destruct b; [apply R_modt|]. rt; apply R_modt.
Qed.

Lemma R_framer_send t c w : R w (fst (framer_send P sub t c w)).
Proof.
  unfold framer_send. destruct (crashed w); [apply R_refl|].
  destruct (negb (alive (gett w t))); [apply R_emit|].
  match goal with |- R w (fst (match crashed ?W with _ => _ end)) =>
    assert (HW : R w W); [|destruct (crashed W); cbn [fst]; [rt; [exact HW|apply R_modt]|rt; [exact HW|apply R_emit]]] end.
  destruct c.
  - (* stop *)
    destruct (match st (gett w t) with Running | Started => true | _ => false end).
    + rt; [apply R_modt|]. rt; [apply R_framer_exitAll|]. apply R_guard; intros; apply R_modt.
    + destruct (match st (gett w t) with Stopped | Readied => true | _ => false end); [apply R_refl|apply R_modt].
  - (* start *)
    destruct (match st (gett w t) with Stopped | Readied => true | _ => false end).
    + destruct (framer_checkStart P sub t w).
      * rt; [apply R_modt|]. rt; [apply R_framer_enterAll|]. rt; [apply R_framer_recur|].
        apply R_guard; intros; apply R_modt.
      * apply R_modt.
    + destruct (match st (gett w t) with Running | Started => true | _ => false end); apply R_modt.
  - (* run *)
    destruct (match st (gett w t) with Running | Started => true | _ => false end).
    + rt; [apply R_framer_segue|]. rt; [apply R_framer_recur|]. apply R_guard; intros; apply R_modt.
    + destruct (match st (gett w t) with Stopped | Readied => true | _ => false end); apply R_modt.
  - (* abort *)
    rt; [|apply R_guard; intros; apply R_modt].
    destruct (match st (gett w t) with Running | Started => true | _ => false end);
      [apply R_framer_exitAll|apply R_refl].
  - (* ready *)
    destruct (match st (gett w t) with Stopped | Readied => true | _ => false end).
    + destruct (framer_checkStart P sub t w); apply R_modt.
    + destruct (match st (gett w t) with Running | Started => true | _ => false end);
        [apply R_refl|apply R_modt].
Qed.

Lemma step_ops_R : ops_R (step_ops P sub).
Proof.
  repeat split; intros; cbn.
  - apply R_framer_enterAll.
  - apply R_framer_exitAll.
  - apply R_framer_segue.
  - apply R_framer_recur.
  - apply R_framer_send.
Qed.

End Step.

Lemma ops0_R : ops_R (ops0 O).
Proof. repeat split; intros; cbn; apply R_oof. Qed.

Lemma lvl_R n : ops_R (lvl P n).
Proof. induction n; cbn; [apply ops0_R|apply step_ops_R; assumption]. Qed.

Lemma send_R n t c w : R w (fst (o_send (lvl P n) t c w)).
Proof. destruct (lvl_R n) as [_ [_ [_ [_ H]]]]. apply H. Qed.

End G.
