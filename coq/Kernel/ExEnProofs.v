(* Framer.ExEn: the outline-difference computation, for ALL pairs of outlines. *)
From Coq Require Import List ZArith Bool Arith Lia.
Import ListNotations.
Require Import V.Kernel.Model.

Section S.
Variable O : TimeOps.

(* specification of the split point: the first index i (below both lengths) where
   nears[i] is far, or nears[i] differs from fars[i] *)
Inductive exen_spec (nears fars : list fid) (far : fid)
  : list fid -> list fid -> list fid -> Prop :=
| ExEnSplit : forall pre n ns f fs,
    nears = pre ++ n :: ns -> fars = pre ++ f :: fs ->
    ~ In far pre -> (n = far \/ n <> f) ->
    exen_spec nears fars far (n :: ns) (f :: fs) pre
| ExEnNone : forall pre rest,
    (* ran off the end of the shorter outline: everything compared was common and not far *)
    ((nears = pre /\ fars = pre ++ rest) \/ (fars = pre /\ nears = pre ++ rest)) ->
    ~ In far pre ->
    exen_spec nears fars far [] [] nears.

Lemma exen_gen : forall nears fars far acc,
  ~ In far acc ->
  let '(ex, en, re) := exen nears fars far acc in
  exen_spec (rev acc ++ nears) (rev acc ++ fars) far ex en
            (match ex with [] => rev acc ++ nears | _ => re end)
  /\ (match ex with [] => re = rev acc ++ nears /\ en = [] | _ => True end).
Proof.
  induction nears as [|n ns IH]; intros fars far acc Hacc.
  - cbn. rewrite app_nil_r. split; [|auto].
    apply ExEnNone with (pre := rev acc) (rest := fars).
    + left. auto.
    + rewrite <- in_rev. exact Hacc.
  - destruct fars as [|f fs].
    + cbn. split; [|auto].
      apply ExEnNone with (pre := rev acc) (rest := n :: ns).
      * right. rewrite app_nil_r. auto.
      * rewrite <- in_rev. exact Hacc.
    + cbn [exen]. destruct (Nat.eqb n far || negb (Nat.eqb n f)) eqn:Hc.
      * split; [|exact I].
        apply ExEnSplit; auto.
        -- rewrite <- in_rev. exact Hacc.
        -- apply orb_true_iff in Hc. destruct Hc as [Hc|Hc].
           ++ left. apply Nat.eqb_eq. exact Hc.
           ++ right. apply negb_true_iff, Nat.eqb_neq in Hc. exact Hc.
      * apply orb_false_iff in Hc. destruct Hc as [Hnf Hnn].
        apply Nat.eqb_neq in Hnf. apply negb_false_iff, Nat.eqb_eq in Hnn. subst f.
        assert (Hacc' : ~ In far (n :: acc)).
        { intros [H|H]; [congruence|auto]. }
        specialize (IH fs far (n :: acc) Hacc').
        destruct (exen ns fs far (n :: acc)) as [[ex en] re].
        cbn [rev] in IH. rewrite <- !app_assoc in IH. cbn [app] in IH. exact IH.
Qed.

(* Full specification of Framer.ExEn for every pair (nears, far-outline) and every far. *)
Lemma exen_correct : forall nears fars far ex en re,
  exen nears fars far [] = (ex, en, re) ->
  exen_spec nears fars far ex en re.
Proof.
  intros nears fars far ex en re H.
  pose proof (exen_gen nears fars far [] (fun x => x)) as G.
  rewrite H in G. cbn [rev app] in G. destruct G as [G1 G2].
  destruct ex as [|x xs]; [destruct G2 as [-> ->]|]; exact G1.
Qed.

(* consequences in the vocabulary of the property *)
Lemma exen_partition : forall nears fars far ex en re,
  exen nears fars far [] = (ex, en, re) ->
  (ex <> [] -> nears = re ++ ex /\ fars = re ++ en /\ ~ In far re /\ en <> []) /\
  (ex = [] -> en = [] /\ re = nears).
Proof.
  intros nears fars far ex en re H. apply exen_correct in H.
  inversion H; subst; split; intro Hx; try congruence; auto.
  repeat split; auto. discriminate.
Qed.

(* when far belongs to its own outline (always true of Frame.outline) and the two outlines are
   duplicate free at the top, a non-degenerate answer is always produced unless nears is a strict
   prefix situation; in particular a transition to self (far in nears) exits from far downwards *)
Lemma exen_self : forall pre far ns fs,
  ~ In far pre ->
  exen (pre ++ far :: ns) (pre ++ far :: fs) far [] = (far :: ns, far :: fs, pre).
Proof.
  intros pre far ns fs Hn.
  assert (G : forall acc, ~ In far pre ->
           exen (pre ++ far :: ns) (pre ++ far :: fs) far acc = (far :: ns, far :: fs, rev acc ++ pre)).
  { induction pre as [|p pre IH]; intros acc Hp.
    - cbn. rewrite Nat.eqb_refl. cbn. rewrite app_nil_r. reflexivity.
    - cbn [app exen].
      assert (Nat.eqb p far = false) as ->.
      { apply Nat.eqb_neq. intro; subst. apply Hp. left; reflexivity. }
      rewrite Nat.eqb_refl. cbn [orb negb].
      rewrite IH by (intro; apply Hp; right; assumption).
      cbn [rev]. rewrite <- app_assoc. reflexivity. }
  rewrite (G [] Hn). reflexivity.
Qed.

End S.
