(* basic facts about the world updates and first instances of the generic induction *)
From Coq Require Import List ZArith Bool Arith Lia.
Import ListNotations.
Require Import V.Kernel.Model V.Kernel.GenInd.

Section B.
Variable O : TimeOps.
Variable P : prog O.

Lemma upd_length {A} (l : list A) i x : length (upd l i x) = length l.
Proof. revert i; induction l as [|y l IH]; intros [|i]; cbn; auto. Qed.

Lemma nth_upd_same {A} (l : list A) i x d : i < length l -> nth i (upd l i x) d = x.
Proof. revert i; induction l as [|y l IH]; intros [|i] H; cbn in *; try lia; auto. apply IH; lia. Qed.

Lemma nth_upd_other {A} (l : list A) i j x d : i <> j -> nth j (upd l i x) d = nth j l d.
Proof.
  revert i j; induction l as [|y l IH]; intros [|i] [|j] H; cbn; auto; try congruence.
Qed.

Lemma gett_sett_other (w : world O) t u s : t <> u -> gett (sett w t s) u = gett w u.
Proof. intros H. unfold gett, sett, set_tss. cbn. apply nth_upd_other. exact H. Qed.

Lemma gett_sett_same (w : world O) t s : t < length (tss w) -> gett (sett w t s) t = s.
Proof. intros H. unfold gett, sett, set_tss. cbn. apply nth_upd_same. exact H. Qed.

(* the clock, the crash oracle and the number of taskers are never changed by an operation *)
Definition same_clock (w w' : world O) : Prop :=
  tk w' = tk w /\ stamp w' = stamp w /\ crash_at w' = crash_at w /\ length (tss w') = length (tss w).

Lemma same_clock_ops n : ops_R O same_clock (lvl P n).
Proof.
  apply lvl_R; unfold same_clock.
  - intros; auto.
  - intros a b c [? [? [? ?]]] [? [? [? ?]]]. repeat split; congruence.
  - intros; cbn; auto.
  - intros; cbn; repeat split; auto. apply upd_length.
  - intros; cbn; auto.
  - intros; cbn; auto.
  - intros; cbn; auto.
  - intros; cbn; auto.
Qed.

Lemma send_same_clock n t c w w' r :
  o_send (lvl P n) t c w = (w', r) -> same_clock w w'.
Proof.
  intros H. destruct (same_clock_ops n) as [_ [_ [_ [_ Hs]]]].
  specialize (Hs t c w). rewrite H in Hs. exact Hs.
Qed.

Lemma send_tk t c w w' r : o_send (top P) t c w = (w', r) -> tk w' = tk w.
Proof. intros H. apply send_same_clock in H. apply H. Qed.

(* the trace only grows: the old trace is a suffix of the new one *)
Definition trace_ext (w w' : world O) : Prop := exists l, trace w' = l ++ trace w.

Lemma trace_ext_ops n : ops_R O trace_ext (lvl P n).
Proof.
  apply lvl_R; unfold trace_ext; intros; cbn.
  - exists []. reflexivity.
  - destruct H as [l1 H1], H0 as [l2 H2]. exists (l2 ++ l1). rewrite H2, H1, app_assoc. reflexivity.
  - exists [e]. reflexivity.
  - exists []. reflexivity.
  - exists []. reflexivity.
  - exists []. reflexivity.
  - exists []. reflexivity.
  - exists []. reflexivity.
Qed.

End B.
