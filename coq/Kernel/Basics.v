(* basic facts about the world updates and first instances of the generic induction *)
From Coq Require Import List ZArith Bool Arith Lia.
Import ListNotations.
Require Import V.Kernel.Model V.Kernel.GenInd.

Section B.
Variable O : TimeOps.
Variable P : prog O.

Lemma upd_length {A} (l : list A) i x : length (upd l i x) = length l.
Proof. revert i; induction l as [|y l IH]; intros [|i]; cbn; auto. Qed.

Lemma nth_upd_same {A} (l : list A) i x d : i < length l -> nth i (upd l i x) d = x.
Proof. revert i; induction l as [|y l IH]; intros [|i] H; cbn in *; try lia; auto. apply IH; lia. Qed.

Lemma nth_upd_other {A} (l : list A) i j x d : i <> j -> nth j (upd l i x) d = nth j l d.
Proof.
  revert i j; induction l as [|y l IH]; intros [|i] [|j] H; cbn; auto; try congruence.
Qed.

Lemma gett_sett_other (w : world O) t u s : t <> u -> gett (sett w t s) u = gett w u.
Proof. intros H. unfold gett, sett, set_tss. cbn. apply nth_upd_other. exact H. Qed.

Lemma gett_sett_same (w : world O) t s : t < length (tss w) -> gett (sett w t s) t = s.
Proof. intros H. unfold gett, sett, set_tss. cbn. apply nth_upd_same. exact H. Qed.

(* the clock, the crash oracle and the number of taskers are never changed by an operation *)
Definition same_clock (w w' : world O) : Prop :=
  tk w' = tk w /\ stamp w' = stamp w /\ crash_at w' = crash_at w /\ length (tss w') = length (tss w).

Lemma same_clock_ops n : ops_R O (fun _ => same_clock) (lvl P n).
Proof.
  apply lvl_R; unfold same_clock, modt; intros; cbn; repeat split; auto; try apply upd_length.
  all: try (destruct H as [? [? [? ?]]], H0 as [? [? [? ?]]]; congruence).
  all: try (destruct H0 as [? [? [? ?]]]; assumption).
Qed.

Lemma send_same_clock n t c w w' r :
  o_send (lvl P n) t c w = (w', r) -> same_clock w w'.
Proof.
  intros H. destruct (same_clock_ops n) as [_ [_ [_ [_ Hs]]]].
  specialize (Hs t c w). rewrite H in Hs. exact Hs.
Qed.

Lemma send_tk t c w w' r : o_send (top P) t c w = (w', r) -> tk w' = tk w.
Proof. intros H. apply send_same_clock in H. apply H. Qed.

(* the trace only grows: the old trace is a suffix of the new one *)
Definition trace_ext (w w' : world O) : Prop := exists l, trace w' = l ++ trace w.

Lemma trace_ext_ops n : ops_R O (fun _ => trace_ext) (lvl P n).
Proof.
  apply lvl_R; unfold trace_ext, modt; intros; cbn; try (exists []; reflexivity).
  - destruct H as [l1 H1], H0 as [l2 H2]. exists (l2 ++ l1). rewrite H2, H1, app_assoc. reflexivity.
  - exists [e]. reflexivity.
  - exact H0.
Qed.

(* ---- footprint: an operation of framer [a] changes, besides desires and periods, only the
   tasker states of [a] and of the framers reachable from it through the child relation
   (plain and conditional auxiliaries, fiat targets) and its declared done-targets ---- *)
Definition core (s : tstate O) :=
  (st s, done s, alive s, fstamp s, elapsed s, recurred s, active s, actives s, main s).

Inductive reach : tid -> tid -> Prop :=
| reach_refl : forall a, reach a a
| reach_child : forall a b x, child O P a b -> reach b x -> reach a x
| reach_done : forall a x, dtarget O P a x -> reach a x.

Definition footprint (a : tid) (w w' : world O) : Prop :=
  forall x, ~ reach a x -> core (gett w' x) = core (gett w x).

Lemma gett_modt_other (w : world O) t u f : t <> u -> gett (modt w t f) u = gett w u.
Proof. intros. unfold modt. apply gett_sett_other. assumption. Qed.

Lemma core_modt_or (w : world O) x t f :
  (t = x -> False) \/ core (f (gett w t)) = core (gett w t) ->
  core (gett (modt w t f) x) = core (gett w x).
Proof.
  intros [H|H].
  - rewrite gett_modt_other; auto.
  - destruct (Nat.eq_dec t x) as [->|Hne]; [|rewrite gett_modt_other; auto].
    unfold modt, sett, gett, set_tss. cbn.
    destruct (Nat.lt_ge_cases x (length (tss w))) as [Hl|Hl].
    + rewrite nth_upd_same by assumption. exact H.
    + rewrite !nth_overflow; auto. rewrite upd_length. assumption.
Qed.

Lemma footprint_ops n : ops_R O footprint (lvl P n).
Proof.
  apply lvl_R; unfold footprint.
  - reflexivity.
  - intros a w1 w2 w3 H H0 x Hx. rewrite H0, H; auto.
  - reflexivity.
  - reflexivity.
  - reflexivity.
  - reflexivity.
  - reflexivity.
  - reflexivity.
  - reflexivity.
  - (* self *) intros a w s x H. destruct (Nat.eq_dec a x) as [->|Hne]; [exfalso; apply H; apply reach_refl|].
    rewrite gett_sett_other; auto.
  - intros. apply core_modt_or. right. reflexivity.
  - intros. apply core_modt_or. right. reflexivity.
  - intros a w x H x0 H0. apply core_modt_or. left. intros ->. apply H0. apply reach_done. exact H.
  - intros a w x m H x0 H0. apply core_modt_or. left. intros ->. apply H0.
    eapply reach_child; [exact H|apply reach_refl].
  - intros a x w w' H H0 x0 H1. apply H0. intros Hr. apply H1. eapply reach_child; eauto.
Qed.

End B.
