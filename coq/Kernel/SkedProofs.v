(* Skedder tick loop: rotation, at-most-once, due test, reschedule with the current period.
   Generic in the time type and in the programs (every program, every world). *)
From Coq Require Import List ZArith QArith Bool Arith Lia.
Import ListNotations.
Require Import V.Kernel.Model V.Kernel.Inst V.Kernel.GenInd V.Kernel.Basics.
Close Scope Q_scope.

Section S.
Variable O : TimeOps.
Variable P : prog O.

Definition rtid (e : rentry O) : tid := fst (fst e).

(* l1 is an order-preserving sub-list of l2 *)
Inductive sublist {A} : list A -> list A -> Prop :=
| SubNil : sublist [] []
| SubSkip : forall x l1 l2, sublist l1 l2 -> sublist l1 (x :: l2)
| SubKeep : forall x l1 l2, sublist l1 l2 -> sublist (x :: l1) (x :: l2).

Lemma sublist_refl {A} (l : list A) : sublist l l.
Proof. induction l; [constructor | apply SubKeep; auto]. Qed.
Lemma sublist_nil {A} (l : list A) : sublist [] l.
Proof. induction l; constructor; auto. Qed.
Lemma sublist_app {A} (a b c d : list A) : sublist a b -> sublist c d -> sublist (a ++ c) (b ++ d).
Proof. induction 1; intros; cbn; [assumption | apply SubSkip; auto | apply SubKeep; auto]. Qed.
Lemma sublist_incl {A} (a b : list A) : sublist a b -> incl a b.
Proof.
  induction 1; intros y Hy; [destruct Hy| right; auto|].
  destruct Hy as [<-|Hy]; [left; reflexivity|right; auto].
Qed.
Lemma sublist_trans {A} (a b c : list A) : sublist a b -> sublist b c -> sublist a c.
Proof.
  intros Hab Hbc. revert a Hab. induction Hbc; intros a Hab.
  - exact Hab.
  - apply SubSkip. auto.
  - inversion Hab; subst; [apply SubSkip | apply SubKeep]; auto.
Qed.
Lemma sublist_length {A} (a b : list A) : sublist a b -> length a <= length b.
Proof. induction 1; cbn; lia. Qed.

(* One pass of the [for i in range(len(ready))] loop.  Invariant: the queue is
   [todo ++ back] with |todo| = n; at the end it is [back ++ kept] where kept is an
   order-preserving sub-list of todo: every entry is popped exactly once, survivors keep
   their relative order behind the entries that were already there; and the taskers
   sent to in this pass (ghost run log) are an order-preserving sub-list of todo. *)
Lemma tick_loop_rotation : forall n s last more s' last' more' todo back,
  ready s = todo ++ back -> length todo = n ->
  tick_loop P n s last more = (s', last', more') ->
  crashed (sw s') = None ->
  exists kept ran,
    ready s' = back ++ kept /\ sublist (map rtid kept) (map rtid todo) /\
    runlog s' = runlog s ++ map (fun t => (tk (sw s), t)) ran /\ sublist ran (map rtid todo) /\
    tk (sw s') = tk (sw s).
Proof.
  induction n as [|n IH]; intros s last more s' last' more' todo back Hr Hl Ht Hc.
  - destruct todo; [|discriminate]. cbn in Ht. inversion Ht; subst.
    exists [], []. rewrite !app_nil_r. repeat split; auto; constructor.
  - destruct todo as [|e todo]; [discriminate|]. cbn in Hl. injection Hl as Hl.
    cbn [tick_loop] in Ht.
    destruct (crashed (sw s)) eqn:Hcs.
    { inversion Ht; subst. congruence. }
    rewrite Hr in Ht. cbn [app] in Ht. destruct e as [[t retime] per].
    destruct (tltb O (stamp (sw s)) retime) eqn:Hdue.
    + (* not yet due: re-appended unchanged *)
      match type of Ht with tick_loop _ _ ?s1 ?l1 ?m1 = _ =>
        destruct (IH s1 l1 m1 s' last' more' todo (back ++ [(t, retime, per)]))
          as [kept [ran [Hk1 [Hk2 [Hk3 [Hk4 Hk5]]]]]] end;
        auto.
      { cbn. rewrite <- app_assoc. reflexivity. }
      exists ((t, retime, per) :: kept), ran. cbn [sw runlog] in *. repeat split; auto.
      * rewrite Hk1, <- app_assoc. reflexivity.
      * cbn. apply SubKeep. exact Hk2.
      * cbn. apply SubSkip. exact Hk4.
    + destruct (o_send (top P) t (desire (gett (sw s) t)) (sw s)) as [w' r] eqn:Hs.
      assert (Htk : tk w' = tk (sw s)) by (eapply send_tk; eauto).
      destruct (crashed w') eqn:Hcw.
      { inversion Ht; subst. cbn in Hc. congruence. }
      destruct r as [x|].
      * destruct x.
        all: try (match type of Ht with tick_loop _ _ ?s1 ?l1 ?m1 = _ =>
               destruct (IH s1 l1 m1 s' last' more' todo
                           (back ++ [(t, tadd O retime (period (gett w' t)), period (gett w' t))]))
                 as [kept [ran [Hk1 [Hk2 [Hk3 [Hk4 Hk5]]]]]] end; auto;
               [cbn; rewrite <- app_assoc; reflexivity|];
               exists ((t, tadd O retime (period (gett w' t)), period (gett w' t)) :: kept), (t :: ran);
               cbn [sw runlog] in *; repeat split;
               [rewrite Hk1, <- app_assoc; reflexivity| cbn; apply SubKeep; exact Hk2
               | rewrite Hk3, Htk, <- app_assoc; reflexivity | cbn; apply SubKeep; exact Hk4 | congruence]).
        (* Aborted: dropped *)
        match type of Ht with tick_loop _ _ ?s1 ?l1 ?m1 = _ =>
          destruct (IH s1 l1 m1 s' last' more' todo back) as [kept [ran [Hk1 [Hk2 [Hk3 [Hk4 Hk5]]]]]] end; auto.
        exists kept, (t :: ran). cbn [sw runlog] in *. repeat split; auto.
        -- cbn. apply SubSkip. exact Hk2.
        -- rewrite Hk3, Htk, <- app_assoc. reflexivity.
        -- cbn. apply SubKeep. exact Hk4.
        -- congruence.
      * (* StopIteration: dropped *)
        match type of Ht with tick_loop _ _ ?s1 ?l1 ?m1 = _ =>
          destruct (IH s1 l1 m1 s' last' more' todo back) as [kept [ran [Hk1 [Hk2 [Hk3 [Hk4 Hk5]]]]]] end; auto.
        exists kept, (t :: ran). cbn [sw runlog] in *. repeat split; auto.
        -- cbn. apply SubSkip. exact Hk2.
        -- rewrite Hk3, Htk, <- app_assoc. reflexivity.
        -- cbn. apply SubKeep. exact Hk4.
        -- congruence.
Qed.

(* whole tick: the new queue is an order preserving sub-list of the old one, and the taskers
   run in this tick are an order preserving sub-list of the queue: each at most once, in queue order *)
Lemma tick_rotation : forall s last more s' last' more',
  tick_loop P (length (ready s)) s last more = (s', last', more') ->
  crashed (sw s') = None ->
  sublist (map rtid (ready s')) (map rtid (ready s)) /\
    exists ran, runlog s' = runlog s ++ map (fun t => (tk (sw s), t)) ran /\
    sublist ran (map rtid (ready s)) /\ tk (sw s') = tk (sw s).
Proof.
  intros s last more s' last' more' Ht Hc.
  destruct (tick_loop_rotation (length (ready s)) s last more s' last' more' (ready s) [])
    as [kept [ran [H1 [H2 [H3 [H4 H5]]]]]]; auto using app_nil_r.
  split; [rewrite H1; exact H2|]. exists ran. auto.
Qed.

(* the decision taken for the entry at the head of the queue *)
Inductive head_step (s : sked O) : rentry O -> option (rentry O) -> Prop :=
| HeadNotDue : forall t retime per,
    tltb O (stamp (sw s)) retime = true ->
    head_step s (t, retime, per) (Some (t, retime, per))
| HeadRun : forall t retime per w' x,
    tltb O (stamp (sw s)) retime = false ->
    o_send (top P) t (desire (gett (sw s) t)) (sw s) = (w', Some x) -> x <> Aborted ->
    (* rescheduled with the period the tasker has AFTER this run *)
    head_step s (t, retime, per)
              (Some (t, tadd O retime (period (gett w' t)), period (gett w' t)))
| HeadGone : forall t retime per w' r,
    tltb O (stamp (sw s)) retime = false ->
    o_send (top P) t (desire (gett (sw s) t)) (sw s) = (w', r) ->
    (r = Some Aborted \/ r = None) ->
    head_step s (t, retime, per) None.

Lemma head_step_total : forall s e, exists r, head_step s e r.
Proof.
  intros s [[t retime] per].
  destruct (tltb O (stamp (sw s)) retime) eqn:Hd.
  - eexists. apply HeadNotDue. exact Hd.
  - destruct (o_send (top P) t (desire (gett (sw s) t)) (sw s)) as [w' r] eqn:Hs.
    destruct r as [x|].
    + destruct x; try (eexists; eapply HeadRun; eauto; discriminate).
      eexists. eapply HeadGone; eauto.
    + eexists. eapply HeadGone; eauto.
Qed.

(* ticks never add to the ready queue: a tasker once dropped (aborted) never comes back *)
Lemma ticks_ready_shrinks : forall n s s' e,
  ticks P n s = (s', e) -> crashed (sw s') = None ->
  sublist (map rtid (ready s')) (map rtid (ready s)).
Proof.
  induction n as [|n IH]; intros s s' e H Hc.
  - cbn in H. inversion H; subst. apply sublist_refl.
  - cbn [ticks] in H.
    destruct (tick_loop P (length (ready s)) s None false) as [[s1 l1] m1] eqn:Ht.
    destruct (crashed (sw s1)) as [[|]|] eqn:Hc1.
    + inversion H; subst. congruence.
    + inversion H; subst. congruence.
    + pose proof (proj1 (tick_rotation _ _ _ _ _ _ Ht Hc1)) as Hrot.
      destruct (ready s1) as [|r1 rs1] eqn:Hr1.
      { inversion H; subst. rewrite Hr1. apply sublist_nil. }
      destruct (negb m1).
      { inversion H; subst. rewrite Hr1. exact Hrot. }
      destruct n as [|n'].
      { inversion H; subst. rewrite Hr1. exact Hrot. }
      apply IH in H; [|exact Hc].
      cbn [ready] in H. eapply sublist_trans; [exact H|]. exact Hrot.
Qed.

End S.

(* ---- arithmetic of retimes over exact rationals: the k-th run ---- *)
(* One tasker with constant period p >= 0 scheduled from retime r0, observed at the tick stamps
   s_j = s0 + j*d (d > 0).  [runs n r j0] lists the tick indices (from j0, n ticks) at which it runs,
   exactly as the tick loop decides: run iff not (stamp < retime), then retime += p. *)
Open Scope Q_scope.
Fixpoint sim (n : nat) (s0 d p r : Q) (j : nat) : list nat :=
  match n with
  | O => []
  | S n' => if Qle_bool r (s0 + inject_Z (Z.of_nat j) * d)
            then j :: sim n' s0 d p (r + p) (S j)
            else sim n' s0 d p r (S j)
  end.

(* the k-th element of the run list is the first tick index, after the previous run, whose stamp
   has reached r0 + k*p *)
Lemma sim_kth : forall n s0 d p r j k jk,
  nth_error (sim n s0 d p r j) k = Some jk ->
  (r + inject_Z (Z.of_nat k) * p <= s0 + inject_Z (Z.of_nat jk) * d) /\
  (j <= jk)%nat /\
  (* minimality: every tick between the previous run (or the start) and jk was too early *)
  (forall jprev, match k with O => jprev = j | S k' => nth_error (sim n s0 d p r j) k' = Some jprev /\ True end ->
     forall i, (match k with O => jprev <= i | S _ => jprev < i end)%nat -> (i < jk)%nat ->
       ~ (r + inject_Z (Z.of_nat k) * p <= s0 + inject_Z (Z.of_nat i) * d)).
Proof.
  induction n as [|n IH]; intros s0 d p r j k jk H.
  - destruct k; discriminate.
  - cbn [sim] in H |- *.
    destruct (Qle_bool r (s0 + inject_Z (Z.of_nat j) * d)) eqn:Hle.
    + destruct k as [|k].
      * cbn in H. inversion H; subst jk. apply Qle_bool_iff in Hle.
        split; [|split; [lia|]].
        -- cbn. setoid_replace (r + 0 * p) with r by ring. exact Hle.
        -- intros jprev -> i Hi1 Hi2. lia.
      * cbn [nth_error] in H. destruct (IH s0 d p (r + p) (S j) k jk H) as [H1 [H2 H3]].
        split; [|split; [lia|]].
        -- setoid_replace (r + inject_Z (Z.of_nat (S k)) * p) with (r + p + inject_Z (Z.of_nat k) * p).
           exact H1. rewrite Nat2Z.inj_succ. unfold Z.succ. rewrite inject_Z_plus. ring.
        -- intros jprev [Hp _] i Hi1 Hi2.
           setoid_replace (r + inject_Z (Z.of_nat (S k)) * p) with (r + p + inject_Z (Z.of_nat k) * p)
             by (rewrite Nat2Z.inj_succ; unfold Z.succ; rewrite inject_Z_plus; ring).
           destruct k as [|k'].
           ++ cbn in Hp. inversion Hp; subst jprev. apply (H3 (S j) eq_refl i); lia.
           ++ cbn [nth_error] in Hp. apply (H3 jprev (conj Hp I) i); auto.
    + destruct (IH s0 d p r (S j) k jk H) as [H1 [H2 H3]].
      split; [exact H1|split; [lia|]].
      intros jprev Hp i Hi1 Hi2.
      destruct k as [|k'].
      * subst jprev. destruct (Nat.eq_dec i j) as [->|Hne].
        -- intro Hc. cbn in Hc. setoid_replace (r + 0 * p) with r in Hc by ring.
           apply Qle_bool_iff in Hc. congruence.
        -- apply (H3 (S j) eq_refl i); lia.
      * destruct Hp as [Hp _]. apply (H3 jprev (conj Hp I) i); auto.
Qed.

(* p <= d: once it has run it runs at every following tick *)
Lemma sim_every_tick : forall n s0 d p r j,
  p <= d -> r <= s0 + inject_Z (Z.of_nat j) * d ->
  sim n s0 d p r j = seq j n.
Proof.
  induction n as [|n IH]; intros s0 d p r j Hpd Hr; [reflexivity|].
  cbn [sim seq]. apply Qle_bool_iff in Hr. rewrite Hr. f_equal. apply IH; [exact Hpd|].
  apply Qle_bool_iff in Hr.
  rewrite Nat2Z.inj_succ. unfold Z.succ. rewrite inject_Z_plus.
  setoid_replace (s0 + (inject_Z (Z.of_nat j) + inject_Z 1) * d) with (s0 + inject_Z (Z.of_nat j) * d + d) by ring.
  apply Qplus_le_compat; assumption.
Qed.

Close Scope Q_scope.
Section S2.
Variable O : TimeOps.
Variable P : prog O.

Lemma sublist_NoDup {A} (a b : list A) : sublist a b -> NoDup b -> NoDup a.
Proof.
  induction 1; intros Hb; [constructor| |].
  - inversion Hb; auto.
  - inversion Hb; subst. constructor; auto. intro Hin. apply sublist_incl in H. apply H in Hin. contradiction.
Qed.

(* what the tick loop does with the entry at the head of the queue *)
Definition resched (t : tid) (retime : O) (w' : world O) (r : option status) : list (rentry O) :=
  match r with
  | Some Aborted | None => []
  | Some _ => [(t, tadd O retime (period (gett w' t)), period (gett w' t))]
  end.

Lemma tick_loop_head_notdue : forall n s last more t retime per rest,
  ready s = (t, retime, per) :: rest -> crashed (sw s) = None ->
  tltb O (stamp (sw s)) retime = true ->
  (* not run, re-appended unchanged *)
  tick_loop P (S n) s last more =
  tick_loop P n {| sw := sw s; ready := rest ++ [(t, retime, per)]; aborted := aborted s; runlog := runlog s |}
            (Some (st (gett (sw s) t))) (more || is_more (Some (st (gett (sw s) t)))).
Proof. intros. cbn [tick_loop]. rewrite H0, H, H1. reflexivity. Qed.

Lemma tick_loop_head_due : forall n s last more t retime per rest w' r,
  ready s = (t, retime, per) :: rest -> crashed (sw s) = None ->
  tltb O (stamp (sw s)) retime = false ->
  o_send (top P) t (desire (gett (sw s) t)) (sw s) = (w', r) -> crashed w' = None ->
  (* sent its current desire exactly once; rescheduled at retime + its period AFTER the run,
     or dropped for good when it aborted / its generator had finished *)
  exists ab last1,
  tick_loop P (S n) s last more =
  tick_loop P n {| sw := w'; ready := rest ++ resched t retime w' r; aborted := ab;
                   runlog := runlog s ++ [(tk (sw s), t)] |}
            last1 (more || is_more last1).
Proof.
  intros n s last more t retime per rest w' r Hr Hc Hd Hs Hcw.
  cbn [tick_loop]. rewrite Hc, Hr, Hd, Hs, Hcw.
  destruct r as [x|]; [destruct x|]; cbn [resched]; rewrite ?app_nil_r; do 2 eexists; reflexivity.
Qed.

(* the queue built by Skedder.run before the first tick is the declared order *)
Lemma init_ready_order nv ca : map (rtid O) (ready (init_sked P nv ca)) = taskables P.
Proof.
  unfold init_sked.
  assert (G : forall l s, map (rtid O) (ready (fold_left (add_ready P) l s)) = map (rtid O) (ready s) ++ l).
  { induction l as [|t l IH]; intros s; cbn [fold_left]; [rewrite app_nil_r; reflexivity|].
    rewrite IH. cbn. rewrite map_app. cbn. rewrite <- app_assoc. reflexivity. }
  rewrite G. reflexivity.
Qed.

End S2.
