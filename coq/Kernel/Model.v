(* M-Kernel: executable model of ioflo's run-time semantics (definitions only).

   Mirrors, one-for-one and in the same order of effects:
     skedding.Skedder.addReadyTask / run          (tick loop, try/except/finally skeleton)
     framing.Framer.makeRunner                    (control x status table)
     framing.Framer.segue/recur/enter/exit/rexit/renter/enterAll/exitAll/activate/
                    reactivate/change/deactivate/checkStart/checkEnter/ExEn/
                    restartTimer/updateTimer/restartCounter/updateCounter
     framing.Frame.enter/exit/recur/renter/rexit/segueAuxes/precur/checkEnter/
                    traceOutline/traceHead
     acting.Transiter.action, acting.Suspender.action/deactivize/deactivate
     wanting.Want*.action, fiating.Fiat*.action, completing.CompleteDone.action
     needing.NeedAlways/NeedDone/NeedDoneAux/NeedStatus/NeedDirect(on Z vars and the
                    framer's elapsed / recurred shares), acting.Nact
     poking PokeDirect (put), IncDirect (inc), PokeIndirect (copy) on integer shares

   Time is abstract (record TimeOps) and instantiated with Q and with binary64 (PrimFloat).
   Exceptions raised by an action are modelled by the flag [crashed]: once set, every
   model operation is the identity until a handler (a runner's finally clause, the
   skedder's except/finally) inspects it -- this is exception propagation.
   Auxiliary nesting is unfolded by levels: [lvl n] gives the framer-level operations
   able to descend n levels of auxiliaries/slaves; [lvl 0] sets the flag [oof]. *)
From Coq Require Import List ZArith Bool Arith.
Import ListNotations.

Set Implicit Arguments.

Record TimeOps := {
  T :> Type;
  tzero : T;
  tadd : T -> T -> T;
  tsub : T -> T -> T;
  tleb : T -> T -> bool;   (* a <= b *)
  tltb : T -> T -> bool;   (* a <  b *)
  teqb : T -> T -> bool;
}.

Definition tid := nat.   (* tasker / framer id *)
Definition fid := nat.   (* frame id (global) *)

Inductive cmp := CLt | CLe | CEq | CNe | CGe | CGt.
Inductive ctl := CStop | CStart | CRun | CAbort | CReady.
Inductive status := Stopped | Started | Running | Aborted | Readied.
Inductive sched := Inactive | Active | Aux | Slave | Moot.
Inductive exn := KbdInt | Excn.
Inductive auxsel := AuxAny | AuxAll | AuxNamed (t : tid).

Definition ctl_eqb (a b : ctl) : bool :=
  match a, b with
  | CStop, CStop | CStart, CStart | CRun, CRun | CAbort, CAbort | CReady, CReady => true
  | _, _ => false end.
Definition status_eqb (a b : status) : bool :=
  match a, b with
  | Stopped, Stopped | Started, Started | Running, Running | Aborted, Aborted
  | Readied, Readied => true
  | _, _ => false end.

Section Kernel.
Variable O : TimeOps.

Inductive need :=
| NAlways
| NVar (v : nat) (c : cmp) (g : Z)
| NElapsed (c : cmp) (g : O)
| NRecurred (c : cmp) (g : Z)
| NDone (t : tid)
| NDoneAux (k : auxsel) (f : fid)
| NStatus (t : tid) (s : status)
| NUpdated (v : nat) (mk : nat)       (* if share is updated [in frame f] [by m] : mark mk of share v *)
| NChanged (v : nat) (mk : nat)
| NNot (n : need).

Inductive act :=
| ARec (tag : nat)
| APut (v : nat) (z : Z)
| AInc (v : nat) (z : Z)
| ACopy (src dst : nat)
| ABid (c : ctl) (ts : list tid) (p : option O)
| AFiat (c : ctl) (t : tid)
| ADone (ts : list tid)
| ADeactivize (aux : tid)
| AMarkU (mk : nat) (transit : bool)   (* MarkerUpdate on mark mk; transit sub-context sets .used *)
| AMarkC (v : nat) (mk : nat).         (* MarkerChange: snapshot of share v into mark mk *)

Inductive pact :=
| PAct (a : act)
| PGo (ns : list need) (far : fid)
| PAux (ns : list need) (aux : tid).

Record frame := {
  fr_over : option fid;
  fr_unders : list fid;          (* primary under first *)
  beacts : list need;
  enacts : list act;
  renacts : list act;
  preacts : list pact;
  reacts : list act;
  exacts : list act;
  rexacts : list act;
  fr_auxes : list tid;
}.

Record framer := {
  fm_frames : list frame;        (* the framer's own frame namespace: frame ids are indices here *)
  fm_first : fid;
  fm_sched : sched;
  fm_period : O;
  fm_original : bool;
  fm_main0 : option (tid * fid); (* fixed main frame of a clone, None for originals *)
}.

Record prog := {
  framers : list framer;
  taskables : list tid;          (* house.taskables = fronts ++ mids ++ backs *)
  tick : O;                      (* skedder period *)
  stamp0 : O;
}.

Definition dframe : frame :=
  {| fr_over := None; fr_unders := []; beacts := []; enacts := [];
     renacts := []; preacts := []; reacts := []; exacts := []; rexacts := []; fr_auxes := [] |}.
Definition dframer : framer :=
  {| fm_frames := []; fm_first := 0; fm_sched := Inactive; fm_period := tzero O; fm_original := true; fm_main0 := None |}.

Variable P : prog.
Definition getm (t : tid) : framer := nth t (framers P) dframer.
Definition getf (t : tid) (f : fid) : frame := nth f (fm_frames (getm t)) dframe.

(* ---- outlines (Frame.traceOutline / traceHead), fuel = number of frames ---- *)
Fixpoint ups (t : tid) (n : nat) (f : fid) : list fid :=       (* f, over f, over over f ... *)
  match n with
  | 0 => []
  | S n' => f :: match fr_over (getf t f) with Some o => ups t n' o | None => [] end
  end.
Fixpoint downs (t : tid) (n : nat) (f : fid) : list fid :=     (* primary under chain below f *)
  match n with
  | 0 => []
  | S n' => match fr_unders (getf t f) with u :: _ => u :: downs t n' u | [] => [] end
  end.
Definition nfr (t : tid) : nat := length (fm_frames (getm t)).
Definition head (t : tid) (f : fid) : list fid := rev (ups t (nfr t) f).
Definition outline (t : tid) (f : fid) : list fid := head t f ++ downs t (nfr t) f.

(* number of marks: one more than the largest mark id mentioned by a need of the program *)
Fixpoint need_mark (n : need) : nat :=
  match n with NUpdated _ mk | NChanged _ mk => S mk | NNot n' => need_mark n' | _ => 0 end.
Definition act_mark (a : act) : nat :=
  match a with AMarkU mk _ | AMarkC _ mk => S mk | _ => 0 end.
Definition lmax (l : list nat) : nat := fold_left Nat.max l 0.
Definition frame_mark (fr : frame) : nat :=
  lmax (map need_mark (beacts fr) ++ map act_mark (enacts fr) ++
        flat_map (fun pa => match pa with
                            | PAct a => [act_mark a]
                            | PGo ns _ | PAux ns _ => map need_mark ns end) (preacts fr)).
Definition mark_bound : nat := lmax (flat_map (fun m => map frame_mark (fm_frames m)) (framers P)).

(* ---- dynamic state ---- *)
Record tstate := {
  st : status;
  desire : ctl;
  period : O;
  done : bool;
  alive : bool;            (* runner generator not finished *)
  fstamp : O;              (* Framer.stamp: time of last outline change *)
  elapsed : O;
  recurred : Z;
  active : option fid;
  actives : list fid;
  main : option (tid * fid);   (* main frame (framer, frame) when running as an auxiliary *)
}.

Inductive event :=
| ERec (tk : nat) (tag : nat)                          (* recorder action executed *)
| ESend (tk : nat) (t : tid) (c : ctl) (r : option status)  (* runner.send(c) -> status | StopIteration *)
        (acts : list fid) (el : O) (rc : Z)             (* actives, elapsed, recurred right after *)
| EEnter (t : tid) (f : fid)                           (* ghost: Frame.enter begins *)
| EExit (t : tid) (f : fid)                            (* ghost: Frame.exit runs its exacts *)
| ESegue (t : tid)                                     (* ghost: Framer.segue begins *)
| ERecur (t : tid) (f : fid).                          (* ghost: Frame.recur begins *)

Record mark := { m_stamp : option O; m_used : option O; m_data : option Z }.
Definition dmark : mark := {| m_stamp := None; m_used := None; m_data := None |}.

Record world := {
  stamp : O;
  tk : nat;                       (* tick counter *)
  vars : list Z;
  vstamps : list (option O);      (* stamp of each store share: None until first updated at run time *)
  marks : list mark;
  tss : list tstate;
  trace : list event;             (* newest first *)
  crashed : option exn;
  nrec : nat;                     (* recorder events so far *)
  crash_at : option (nat * exn);  (* raise at the recorder event with this index *)
  oof : bool;
}.

Definition dts : tstate :=
  {| st := Stopped; desire := CStop; period := tzero O; done := true; alive := true;
     fstamp := tzero O; elapsed := tzero O; recurred := 0%Z; active := None; actives := [];
     main := None |}.
Definition gett (w : world) (t : tid) : tstate := nth t (tss w) dts.

Fixpoint upd {A} (l : list A) (i : nat) (x : A) : list A :=
  match l, i with
  | [], _ => []
  | _ :: l', 0 => x :: l'
  | y :: l', S i' => y :: upd l' i' x
  end.

Definition set_tss (w : world) (l : list tstate) : world :=
  {| stamp := stamp w; tk := tk w; vars := vars w; vstamps := vstamps w; marks := marks w; tss := l; trace := trace w;
     crashed := crashed w; nrec := nrec w; crash_at := crash_at w; oof := oof w |}.
Definition sett (w : world) (t : tid) (s : tstate) : world := set_tss w (upd (tss w) t s).
Definition emit (w : world) (e : event) : world :=
  {| stamp := stamp w; tk := tk w; vars := vars w; vstamps := vstamps w; marks := marks w; tss := tss w; trace := e :: trace w;
     crashed := crashed w; nrec := nrec w; crash_at := crash_at w; oof := oof w |}.
Definition set_vars (w : world) (l : list Z) : world :=
  {| stamp := stamp w; tk := tk w; vars := l; vstamps := vstamps w; marks := marks w; tss := tss w; trace := trace w;
     crashed := crashed w; nrec := nrec w; crash_at := crash_at w; oof := oof w |}.
Definition set_vstamps (w : world) (l : list (option O)) : world :=
  {| stamp := stamp w; tk := tk w; vars := vars w; vstamps := l; marks := marks w; tss := tss w; trace := trace w;
     crashed := crashed w; nrec := nrec w; crash_at := crash_at w; oof := oof w |}.
Definition set_marks (w : world) (l : list mark) : world :=
  {| stamp := stamp w; tk := tk w; vars := vars w; vstamps := vstamps w; marks := l; tss := tss w; trace := trace w;
     crashed := crashed w; nrec := nrec w; crash_at := crash_at w; oof := oof w |}.
(* a store write: value and stamp (Share.update stamps with the store's current time) *)
Definition write_var (w : world) (v : nat) (z : Z) : world :=
  set_vstamps (set_vars w (upd (vars w) v z)) (upd (vstamps w) v (Some (stamp w))).
Definition getmark (w : world) (mk : nat) : mark := nth mk (marks w) dmark.
Definition set_crashed (w : world) (c : option exn) : world :=
  {| stamp := stamp w; tk := tk w; vars := vars w; vstamps := vstamps w; marks := marks w; tss := tss w; trace := trace w;
     crashed := c; nrec := nrec w; crash_at := crash_at w; oof := oof w |}.
Definition set_oof (w : world) : world :=
  {| stamp := stamp w; tk := tk w; vars := vars w; vstamps := vstamps w; marks := marks w; tss := tss w; trace := trace w;
     crashed := crashed w; nrec := nrec w; crash_at := crash_at w; oof := true |}.
Definition set_stamp (w : world) (s : O) (k : nat) : world :=
  {| stamp := s; tk := k; vars := vars w; vstamps := vstamps w; marks := marks w; tss := tss w; trace := trace w;
     crashed := crashed w; nrec := nrec w; crash_at := crash_at w; oof := oof w |}.
Definition bump_rec (w : world) : world :=
  {| stamp := stamp w; tk := tk w; vars := vars w; vstamps := vstamps w; marks := marks w; tss := tss w; trace := trace w;
     crashed := crashed w; nrec := S (nrec w); crash_at := crash_at w; oof := oof w |}.

(* per-tasker field updates *)
Definition ts_set_st (s : tstate) (x : status) : tstate :=
  {| st := x; desire := desire s; period := period s; done := done s; alive := alive s;
     fstamp := fstamp s; elapsed := elapsed s; recurred := recurred s; active := active s;
     actives := actives s; main := main s |}.
Definition ts_set_desire (s : tstate) (x : ctl) : tstate :=
  {| st := st s; desire := x; period := period s; done := done s; alive := alive s;
     fstamp := fstamp s; elapsed := elapsed s; recurred := recurred s; active := active s;
     actives := actives s; main := main s |}.
Definition ts_set_period (s : tstate) (x : O) : tstate :=
  {| st := st s; desire := desire s; period := x; done := done s; alive := alive s;
     fstamp := fstamp s; elapsed := elapsed s; recurred := recurred s; active := active s;
     actives := actives s; main := main s |}.
Definition ts_set_done (s : tstate) (x : bool) : tstate :=
  {| st := st s; desire := desire s; period := period s; done := x; alive := alive s;
     fstamp := fstamp s; elapsed := elapsed s; recurred := recurred s; active := active s;
     actives := actives s; main := main s |}.
Definition ts_set_alive (s : tstate) (x : bool) : tstate :=
  {| st := st s; desire := desire s; period := period s; done := done s; alive := x;
     fstamp := fstamp s; elapsed := elapsed s; recurred := recurred s; active := active s;
     actives := actives s; main := main s |}.
Definition ts_set_clock (s : tstate) (fs e : O) (r : Z) : tstate :=
  {| st := st s; desire := desire s; period := period s; done := done s; alive := alive s;
     fstamp := fs; elapsed := e; recurred := r; active := active s;
     actives := actives s; main := main s |}.
Definition ts_set_active (s : tstate) (a : option fid) (l : list fid) : tstate :=
  {| st := st s; desire := desire s; period := period s; done := done s; alive := alive s;
     fstamp := fstamp s; elapsed := elapsed s; recurred := recurred s; active := a;
     actives := l; main := main s |}.
Definition ts_set_main (s : tstate) (m : option (tid * fid)) : tstate :=
  {| st := st s; desire := desire s; period := period s; done := done s; alive := alive s;
     fstamp := fstamp s; elapsed := elapsed s; recurred := recurred s; active := active s;
     actives := actives s; main := m |}.

Definition modt (w : world) (t : tid) (f : tstate -> tstate) : world := sett w t (f (gett w t)).

(* exception propagation: a crashed world is not touched *)
Definition guard (w : world) (k : world -> world) : world :=
  match crashed w with Some _ => w | None => k w end.

(* ---- needs (pure) ---- *)
Definition cmpZ (c : cmp) (a b : Z) : bool :=
  match c with
  | CLt => Z.ltb a b | CLe => Z.leb a b | CEq => Z.eqb a b
  | CNe => negb (Z.eqb a b) | CGe => Z.leb b a | CGt => Z.ltb b a end.
(* Need.Check with tolerance 0 on floats/Q: == is (g <= s <= g) *)
Definition cmpT (c : cmp) (a b : O) : bool :=
  match c with
  | CLt => tltb O a b | CLe => tleb O a b | CEq => tleb O b a && tleb O a b
  | CNe => negb (tleb O b a && tleb O a b) | CGe => tleb O b a | CGt => tltb O b a end.

Definition getv (w : world) (v : nat) : Z := nth v (vars w) 0%Z.

Definition memf (f : fid) (l : list fid) : bool := existsb (Nat.eqb f) l.

Fixpoint eval_need (me : tid) (w : world) (n : need) : bool :=
  match n with
  | NAlways => true
  | NVar v c g => cmpZ c (getv w v) g
  | NElapsed c g => cmpT c (elapsed (gett w me)) g
  | NRecurred c g => cmpZ c (recurred (gett w me)) g
  | NDone t => done (gett w t)
  | NDoneAux k f =>
      let axs := fr_auxes (getf me f) in
      match k with
      | AuxAny => existsb (fun a => done (gett w a)) axs
      | AuxAll => negb (match axs with [] => true | _ => false end)
                  && forallb (fun a => done (gett w a)) axs
      | AuxNamed t => existsb (Nat.eqb t) axs && done (gett w t)
      end
  | NStatus t s => status_eqb (st (gett w t)) s
  | NUpdated v mk =>       (* needing.NeedUpdate.action *)
      match nth v (vstamps w) None with
      | None => false
      | Some sv =>
          let m := getmark w mk in
          match m_stamp m with
          | None => true
          | Some ms => tltb O ms sv ||
                       (teqb O sv ms && negb (match m_used m with Some u => teqb O u ms | None => false end))
          end
      end
  | NChanged v mk =>       (* needing.NeedChange.action on a single-field share *)
      match m_data (getmark w mk) with
      | None => true
      | Some d => negb (Z.eqb d (getv w v))
      end
  | NNot n' => negb (eval_need me w n')
  end.

(* the transit sub-context acts (tracts) a transition / conditional-aux clause collects from its marker needs *)
Fixpoint need_tracts (n : need) : list act :=
  match n with
  | NUpdated v mk => [AMarkU mk true]
  | NChanged v mk => [AMarkC v mk]
  | NNot n' => need_tracts n'
  | _ => []
  end.
Definition tracts_of (ns : list need) : list act := flat_map need_tracts ns.

(* ---- framer-level operations at a given auxiliary depth ---- *)
Record ops := {
  o_enterAll : tid -> world -> world;
  o_exitAll : bool -> tid -> world -> world;       (* abort flag *)
  o_segue : tid -> world -> world;
  o_recur : tid -> world -> world;
  o_checkStart : tid -> world -> bool;
  o_send : tid -> ctl -> world -> world * option status;
}.

Definition ops0 : ops :=
  {| o_enterAll := fun _ w => set_oof w;
     o_exitAll := fun _ _ w => set_oof w;
     o_segue := fun _ w => set_oof w;
     o_recur := fun _ w => set_oof w;
     o_checkStart := fun _ _ => false;
     o_send := fun _ _ w => (set_oof w, None) |}.

Definition pmax0 (x : O) : O := if tleb O (tzero O) x then x else tzero O.   (* max(0.0, x) *)

(* Suspender.deactivate *)
Definition deactivate_aux (sub : ops) (aux : tid) (w : world) : world :=
  let w := o_exitAll sub false aux w in
  guard w (fun w => if fm_original (getm aux) then modt w aux (fun s => ts_set_main s None) else w).

(* one simple action executed by framer [me] *)
Definition run_act (sub : ops) (me : tid) (a : act) (w : world) : world :=
  guard w (fun w =>
  match a with
  | ARec tag =>
      let w1 := bump_rec (emit w (ERec (tk w) tag)) in
      match crash_at w with
      | Some (k, e) => if Nat.eqb k (nrec w) then set_crashed w1 (Some e) else w1
      | None => w1
      end
  | APut v z => write_var w v z
  | AInc v z => write_var w v (getv w v + z)%Z
  | ACopy s d => write_var w d (getv w s)
  | ABid c ts p =>
      fold_left (fun w t =>
        let w := match c, p with
                 | CStop, _ | CAbort, _ => w
                 | _, Some x => modt w t (fun s => ts_set_period s (pmax0 x))
                 | _, None => w
                 end in
        modt w t (fun s => ts_set_desire s c)) ts w
  | AFiat c t => fst (o_send sub t c w)
  | ADone ts => fold_left (fun w t => modt w t (fun s => ts_set_done s true)) ts w
  | ADeactivize aux => if done (gett w aux) then w else deactivate_aux sub aux w
  | AMarkU mk transit =>   (* acting.MarkerUpdate.action *)
      let m := getmark w mk in
      set_marks w (upd (marks w) mk {| m_stamp := Some (stamp w);
                                       m_used := if transit then Some (stamp w) else m_used m;
                                       m_data := m_data m |})
  | AMarkC v mk =>         (* acting.MarkerChange.action *)
      let m := getmark w mk in
      set_marks w (upd (marks w) mk {| m_stamp := m_stamp m; m_used := m_used m; m_data := Some (getv w v) |})
  end).

Definition run_acts (sub : ops) (me : tid) (l : list act) (w : world) : world :=
  fold_left (fun w a => run_act sub me a w) l w.

(* Frame.checkEnter / Framer.checkEnter (frames of framer t) *)
Definition frame_checkEnter (sub : ops) (t : tid) (exits : list fid) (w : world) (f : fid) : bool :=
  let fr := getf t f in
  forallb (eval_need t w) (beacts fr) &&
  forallb (fun aux =>
             negb (match main (gett w aux) with
                   | Some (mt, m) => negb (Nat.eqb mt t && Nat.eqb m f)
                                     && negb (Nat.eqb mt t && memf m exits)
                   | None => false end)
             && o_checkStart sub aux w) (fr_auxes fr).

Definition framer_checkEnter (sub : ops) (t : tid) (enters exits : list fid) (w : world) : bool :=
  match enters with
  | [] => false
  | _ => forallb (frame_checkEnter sub t exits w) enters
  end.

(* Frame.enter *)
Definition frame_enter (sub : ops) (t : tid) (w : world) (f : fid) : world :=
  guard w (fun w =>
  let fr := getf t f in
  let w := emit w (EEnter t f) in
  let w := run_acts sub t (enacts fr) w in
  fold_left (fun w aux => guard w (fun w =>
               let w := if fm_original (getm aux) then modt w aux (fun s => ts_set_main s (Some (t, f))) else w in
               o_enterAll sub aux w)) (fr_auxes fr) w).

(* Framer.enter *)
Definition framer_enter (sub : ops) (t : tid) (enters : list fid) (w : world) : world :=
  guard w (fun w =>
  let w := match enters with
           | [] => w
           | _ => modt w t (fun s => ts_set_clock s (stamp w) (tzero O) 0%Z)
           end in
  fold_left (frame_enter sub t) enters w).

(* Frame.exit *)
Definition frame_exit (sub : ops) (t : tid) (w : world) (f : fid) : world :=
  guard w (fun w =>
  let fr := getf t f in
  let w := fold_left (fun w aux => guard w (fun w =>
               let w := o_exitAll sub false aux w in
               guard w (fun w =>
               if fm_original (getm aux) then modt w aux (fun s => ts_set_main s None) else w)))
             (fr_auxes fr) w in
  guard w (fun w =>
  let w := emit w (EExit t f) in
  run_acts sub t (exacts fr) w)).

Definition framer_exit (sub : ops) (t : tid) (exits : list fid) (w : world) : world :=
  fold_left (frame_exit sub t) (rev exits) w.

Definition framer_rexit (sub : ops) (t : tid) (l : list fid) (w : world) : world :=
  fold_left (fun w f => run_acts sub t (rexacts (getf t f)) w) (rev l) w.
Definition framer_renter (sub : ops) (t : tid) (l : list fid) (w : world) : world :=
  fold_left (fun w f => run_acts sub t (renacts (getf t f)) w) l w.

(* Framer.activate / reactivate / change / deactivate *)
Definition activate (t : tid) (f : fid) (w : world) : world :=
  modt w t (fun s => ts_set_active s (Some f) (outline t f)).
Definition reactivate (t : tid) (w : world) : world :=
  match active (gett w t) with
  | Some f => modt w t (fun s => ts_set_active s (Some f) (outline t f))
  | None => w
  end.
Definition change (t : tid) (l : list fid) (w : world) : world :=
  modt w t (fun s => ts_set_active s (active s) l).

(* Framer.ExEn *)
Fixpoint exen (nears fars : list fid) (far : fid) (acc : list fid)
  : list fid * list fid * list fid :=
  match nears, fars with
  | n :: ns, f :: fs =>
      if Nat.eqb n far || negb (Nat.eqb n f) then (nears, fars, rev acc)
      else exen ns fs far (n :: acc)
  | _, _ => ([], [], rev acc ++ nears)
  end.
Definition ExEn (t : tid) (nears : list fid) (far : fid) := exen nears (outline t far) far [].

(* Transiter.action : returns (world, taken?) *)
Definition transit (sub : ops) (t : tid) (ns : list need) (far : fid) (w : world) : world * bool :=
  if negb (forallb (eval_need t w) ns) then (w, false) else
  let '(exits, enters, reexens) := ExEn t (actives (gett w t)) far in
  if negb (framer_checkEnter sub t enters exits w) then (w, false) else
  let w := run_acts sub t (tracts_of ns) w in      (* transit sub-context: re-arm the marks *)
  let w := framer_exit sub t exits w in
  let w := framer_rexit sub t reexens w in
  let w := framer_renter sub t reexens w in
  let w := framer_enter sub t enters w in
  let w := guard w (activate t far) in
  (w, true).

(* Suspender.action : returns (world, truthy?) *)
Definition suspend (sub : ops) (t : tid) (mainf : fid) (ns : list need) (aux : tid) (w : world)
  : world * bool :=
  if done (gett w aux) then
    if negb (forallb (eval_need t w) ns) then (w, false) else
    if match main (gett w aux) with Some (mt, m) => negb (Nat.eqb mt t && Nat.eqb m mainf) | None => false end
    then (w, false) else
    if negb (o_checkStart sub aux w) then (w, false) else
    let w := run_acts sub t (tracts_of ns) w in
    let w := if fm_original (getm aux) then modt w aux (fun s => ts_set_main s (Some (t, mainf))) else w in
    let w := o_enterAll sub aux w in
    let w := guard w (o_recur sub aux) in
    match crashed w with Some _ => (w, false) | None =>
    if done (gett w aux) then (deactivate_aux sub aux w, false)
    else (change t (head t mainf) w, true)
    end
  else
    (* running for another frame (shared original auxiliary): not ours to run, complete or deactivate *)
    if match main (gett w aux) with Some (mt, m) => negb (Nat.eqb mt t && Nat.eqb m mainf) | None => false end
    then (w, false) else
    let w := o_segue sub aux w in
    let w := guard w (o_recur sub aux) in
    match crashed w with Some _ => (w, false) | None =>
    if done (gett w aux) then
      let w := deactivate_aux sub aux w in
      (guard w (reactivate t), false)
    else (w, true)
    end.

Definition fiat_ok (c : ctl) (r : option status) : bool :=
  match c, r with
  | CReady, Some Readied | CStart, Some Started | CStop, Some Stopped
  | CRun, Some Running | CAbort, Some Aborted => true
  | _, _ => false end.

(* Frame.precur : returns (world, interrupted?) *)
Fixpoint precur (sub : ops) (t : tid) (f : fid) (l : list pact) (w : world) : world * bool :=
  match crashed w with Some _ => (w, true) | None =>
  match l with
  | [] => (w, false)
  | pa :: l' =>
      let '(w, r) := match pa with
                     | PAct (AFiat c x) =>      (* Fiat*.action returns (status == wanted) *)
                         let '(w', r) := o_send sub x c w in (w', fiat_ok c r)
                     | PAct a => (run_act sub t a w, false)
                     | PGo ns far => transit sub t ns far w
                     | PAux ns aux => suspend sub t f ns aux w
                     end in
      if r then (w, true) else precur sub t f l' w
  end end.

(* Framer.segue at depth S n *)
Definition segue_frames (sub : ops) (t : tid) : list fid -> world -> world * bool :=
  fix go (l : list fid) (w : world) : world * bool :=
    match crashed w with Some _ => (w, true) | None =>
    match l with
    | [] => (w, false)
    | f :: l' => let '(w, r) := precur sub t f (preacts (getf t f)) w in
                 if r then (w, true) else go l' w
    end end.

Definition framer_segue (sub : ops) (t : tid) (w : world) : world :=
  guard w (fun w =>
  let w := emit w (ESegue t) in
  let s := gett w t in
  let w := sett w t (ts_set_clock s (fstamp s) (tsub O (stamp w) (fstamp s)) (recurred s + 1)%Z) in
  let acts := actives (gett w t) in
  let w := fold_left (fun w f => fold_left (fun w aux => guard w (o_segue sub aux)) (fr_auxes (getf t f)) w) acts w in
  fst (segue_frames sub t acts w)).

(* Framer.recur / Frame.recur *)
Definition framer_recur (sub : ops) (t : tid) (w : world) : world :=
  guard w (fun w =>
  fold_left (fun w f => guard w (fun w =>
     let w := emit w (ERecur t f) in
     let w := run_acts sub t (reacts (getf t f)) w in
     fold_left (fun w aux => guard w (o_recur sub aux)) (fr_auxes (getf t f)) w))
   (actives (gett w t)) w).

Definition framer_enterAll (sub : ops) (t : tid) (w : world) : world :=
  guard w (fun w =>
  let w := modt w t (fun s => ts_set_done s false) in
  let w := activate t (fm_first (getm t)) w in
  framer_enter sub t (actives (gett w t)) w).

Definition framer_exitAll (sub : ops) (abort : bool) (t : tid) (w : world) : world :=
  guard w (fun w =>
  let w := framer_exit sub t (actives (gett w t)) w in
  guard w (fun w =>
  let w := modt w t (fun s => ts_set_active s None []) in
  if abort then w else modt w t (fun s => ts_set_done s true))).

Definition framer_checkStart (sub : ops) (t : tid) (w : world) : bool :=
  framer_checkEnter sub t (outline t (fm_first (getm t))) [] w.

Definition abort_ts (s : tstate) : tstate := ts_set_st (ts_set_desire s CAbort) Aborted.

(* Framer.makeRunner: one send(control) *)
Definition framer_send (sub : ops) (t : tid) (c : ctl) (w : world) : world * option status :=
  match crashed w with Some _ => (w, None) | None =>
  if negb (alive (gett w t)) then
    (emit w (ESend (tk w) t c None (actives (gett w t)) (elapsed (gett w t)) (recurred (gett w t))), None) else
  let s0 := st (gett w t) in
  let running := match s0 with Running | Started => true | _ => false end in
  let stopped := match s0 with Stopped | Readied => true | _ => false end in
  let bad w := modt w t abort_ts in
  let w :=
    match c with
    | CRun =>
        if running then
          let w := framer_segue sub t w in
          let w := framer_recur sub t w in
          guard w (fun w => modt w t (fun s => ts_set_st s Running))
        else if stopped then modt w t (fun s => ts_set_desire s CStart)
        else bad w
    | CReady =>
        if stopped then
          if framer_checkStart sub t w then modt w t (fun s => ts_set_st s Readied)
          else modt w t (fun s => ts_set_st (ts_set_desire s CStop) Stopped)
        else if running then w else bad w
    | CStart =>
        if stopped then
          if framer_checkStart sub t w then
            let w := modt w t (fun s => ts_set_desire s CRun) in
            let w := framer_enterAll sub t w in
            let w := framer_recur sub t w in
            guard w (fun w => modt w t (fun s => ts_set_st s Started))
          else modt w t (fun s => ts_set_st (ts_set_desire s CStop) Stopped)
        else if running then modt w t (fun s => ts_set_desire s CRun)
        else bad w
    | CStop =>
        if running then
          let w := modt w t (fun s => ts_set_desire s CStop) in
          let w := framer_exitAll sub true t w in
          guard w (fun w => modt w t (fun s => ts_set_st s Stopped))
        else if stopped then w else bad w
    | CAbort =>
        let w := if running then framer_exitAll sub false t w else w in
        guard w (fun w => modt w t abort_ts)
    end in
  match crashed w with
  | Some _ =>   (* finally clause of the generator: it is now finished *)
      (modt w t (fun s => ts_set_alive (abort_ts s) false), None)
  | None => let x := gett w t in
            (emit w (ESend (tk w) t c (Some (st x)) (actives x) (elapsed x) (recurred x)), Some (st x))
  end end.

Definition step_ops (sub : ops) : ops :=
  {| o_enterAll := framer_enterAll sub;
     o_exitAll := framer_exitAll sub;
     o_segue := framer_segue sub;
     o_recur := framer_recur sub;
     o_checkStart := framer_checkStart sub;
     o_send := framer_send sub |}.

Fixpoint lvl (n : nat) : ops :=
  match n with 0 => ops0 | S n' => step_ops (lvl n') end.

Definition depth : nat := S (length (framers P)).
Definition top : ops := lvl depth.

(* ---- Skedder ---- *)
Definition rentry := (tid * O * O)%type.     (* (tasker, retime, period) *)

Record sked := {
  sw : world;
  ready : list rentry;
  aborted : list tid;
  runlog : list (nat * tid);     (* ghost: (tick, tasker) for every runner.send made by the skedder loop *)
}.

(* Skedder.addReadyTask *)
Definition add_ready (s : sked) (t : tid) : sked :=
  let w := modt (sw s) t (fun x =>
             ts_set_st (ts_set_desire x (match fm_sched (getm t) with Active => CStart | _ => CStop end))
                       Stopped) in
  {| sw := w; ready := ready s ++ [(t, stamp w, period (gett w t))]; aborted := aborted s; runlog := runlog s |}.

Definition is_more (r : option status) : bool :=
  match r with Some Running | Some Started => true | _ => false end.

(* the [for i in range(len(ready))] loop of one tick.  n = len(ready) at loop start.
   last = the loop's [status] variable (stale across iterations, as in the code) *)
Fixpoint tick_loop (n : nat) (s : sked) (last : option status) (more : bool)
  : sked * option status * bool :=
  match n with
  | 0 => (s, last, more)
  | S n' =>
    match crashed (sw s) with Some _ => (s, last, more) | None =>
    match ready s with
    | [] => (s, last, more)
    | (t, retime, per) :: rest =>
        let w := sw s in
        if tltb O (stamp w) retime then   (* retime > stamp : not time yet *)
          let s' := {| sw := w; ready := rest ++ [(t, retime, per)]; aborted := aborted s; runlog := runlog s |} in
          let st' := Some (st (gett w t)) in
          tick_loop n' s' st' (more || is_more st')
        else
          let '(w', r) := o_send top t (desire (gett w t)) w in
          let rl := runlog s ++ [(tk w, t)] in
          match crashed w' with
          | Some _ => ({| sw := w'; ready := rest; aborted := aborted s; runlog := rl |}, last, more)
          | None =>
            match r with
            | Some Aborted =>
                tick_loop n' {| sw := w'; ready := rest; aborted := aborted s ++ [t]; runlog := rl |} r (more || is_more r)
            | Some x =>
                let p' := period (gett w' t) in
                tick_loop n' {| sw := w'; ready := rest ++ [(t, tadd O retime p', p')]; aborted := aborted s; runlog := rl |}
                          r (more || is_more r)
            | None =>   (* StopIteration: status variable keeps its previous value *)
                tick_loop n' {| sw := w'; ready := rest; aborted := aborted s ++ [t]; runlog := rl |} last (more || is_more last)
            end
          end
    end end
  end.

Inductive ending := EndIdle | EndEmpty | EndKbd | EndExcn | EndTicks.

(* main while loop; fuel = number of tick bodies executed before a KeyboardInterrupt is
   delivered between two ticks (in store.changeStamp) *)
Fixpoint ticks (n : nat) (s : sked) : sked * ending :=
  match n with
  | 0 => (s, EndTicks)
  | S n' =>
      let '(s1, _, more) := tick_loop (length (ready s)) s None false in
      match crashed (sw s1) with
      | Some KbdInt => (s1, EndKbd)
      | Some Excn => (s1, EndExcn)
      | None =>
          match ready s1 with
          | [] => (s1, EndEmpty)
          | _ => if negb more then (s1, EndIdle)
                 else match n' with
                      | 0 => (s1, EndTicks)   (* KeyboardInterrupt delivered between ticks *)
                      | _ => let w := sw s1 in
                             ticks n' {| sw := set_stamp w (tadd O (stamp w) (tick P)) (S (tk w));
                                         ready := ready s1; aborted := aborted s1; runlog := runlog s1 |}
                      end
          end
      end
  end.

(* finally: abort every ready tasker *)
Fixpoint sweep (n : nat) (s : sked) : sked :=
  match n with
  | 0 => s
  | S n' =>
    match crashed (sw s) with Some _ => s | None =>
    match ready s with
    | [] => s
    | (t, _, _) :: rest =>
        let '(w', _) := o_send top t CAbort (sw s) in
        sweep n' {| sw := w'; ready := rest; aborted := aborted s; runlog := runlog s ++ [(tk (sw s), t)] |}
    end end
  end.

Definition init_tstate (m : framer) : tstate :=
  {| st := Stopped; desire := CStop; period := fm_period m; done := true; alive := true;
     fstamp := tzero O; elapsed := tzero O; recurred := 0%Z; active := None; actives := [];
     main := fm_main0 m |}.

Definition init_world (nvars : nat) (ca : option (nat * exn)) : world :=
  {| stamp := stamp0 P; tk := 0; vars := repeat 0%Z nvars; vstamps := repeat None nvars; marks := repeat dmark mark_bound;
     tss := map init_tstate (framers P);
     trace := []; crashed := None; nrec := 0; crash_at := ca; oof := false |}.

Definition init_sked (nvars : nat) (ca : option (nat * exn)) : sked :=
  fold_left add_ready (taskables P)
            {| sw := init_world nvars ca; ready := []; aborted := []; runlog := [] |}.

(* Skedder.run : (final state, how the loop ended) *)
Definition run (nvars : nat) (ca : option (nat * exn)) (maxticks : nat) : sked * ending :=
  let '(s, e) := ticks maxticks (init_sked nvars ca) in
  (* the exception (if any) has been caught by the skedder: clear the flag for the sweep *)
  let s := {| sw := set_crashed (sw s) None; ready := ready s; aborted := aborted s; runlog := runlog s |} in
  (sweep (length (ready s)) s, e).

End Kernel.

Arguments NAlways {O}.   Arguments NVar {O} _ _ _.   Arguments NElapsed {O} _ _.
Arguments NRecurred {O} _ _.   Arguments NDone {O} _.   Arguments NDoneAux {O} _ _.
Arguments NStatus {O} _ _.   Arguments NNot {O} _.   Arguments NUpdated {O} _ _.   Arguments NChanged {O} _ _.
Arguments ARec {O} _.   Arguments APut {O} _ _.   Arguments AInc {O} _ _.   Arguments ACopy {O} _ _.
Arguments ABid {O} _ _ _.   Arguments AFiat {O} _ _.   Arguments ADone {O} _.   Arguments ADeactivize {O} _.   Arguments AMarkU {O} _ _.   Arguments AMarkC {O} _ _.
Arguments PAct {O} _.   Arguments PGo {O} _ _.   Arguments PAux {O} _ _.
Arguments ERec {O} _ _.   Arguments ESend {O} _ _ _ _ _ _ _.   Arguments EEnter {O} _ _.
Arguments EExit {O} _ _.   Arguments ESegue {O} _.   Arguments ERecur {O} _ _.
