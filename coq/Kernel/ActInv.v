(* C05: the active-outline invariant, for every program without auxiliary cycles, every framer,
   every operation at every auxiliary depth, with or without injected exceptions:

     each framer's (active, actives) is either (None, []) or (Some f, outline f) or
     (Some f, head m) -- the outline cut at a conditional auxiliary's main frame m.          *)
From Coq Require Import List ZArith Bool Arith Lia.
Import ListNotations.
Require Import V.Kernel.Model V.Kernel.GenInd V.Kernel.Basics.

Section A.
Variable O : TimeOps.
Variable P : prog O.

Definition good (t : tid) (s : tstate O) : Prop :=
  (active s = None /\ actives s = []) \/
  (exists f, active s = Some f /\ (actives s = outline P t f \/ exists m, actives s = head P t m)).

Definition Inv (w : world O) : Prop := forall t, good t (gett w t).

(* no framer is (transitively) its own auxiliary / fiat target *)
Definition acyclic : Prop := forall a x, child O P a x -> ~ reach O P x a.
Hypothesis Hac : acyclic.

Lemma good_dts t : good t (dts O).
Proof. left. split; reflexivity. Qed.

Lemma gett_sett (w : world O) a s t :
  gett (sett w a s) t = if Nat.eqb t a && Nat.ltb a (length (tss w)) then s else gett w t.
Proof.
  destruct (Nat.eqb_spec t a) as [->|Hne]; cbn [andb].
  - destruct (Nat.ltb_spec a (length (tss w))) as [Hl|Hl].
    + apply gett_sett_same. exact Hl.
    + unfold gett, sett, set_tss. cbn. rewrite !nth_overflow; auto. rewrite upd_length. exact Hl.
  - apply gett_sett_other. congruence.
Qed.

Lemma gett_modt (w : world O) a g t :
  gett (modt w a g) t = if Nat.eqb t a && Nat.ltb a (length (tss w)) then g (gett w a) else gett w t.
Proof. unfold modt. apply gett_sett. Qed.

Lemma Inv_sett w a s : Inv w -> good a s -> Inv (sett w a s).
Proof.
  intros Hi Hg t. rewrite gett_sett.
  destruct (Nat.eqb_spec t a) as [->|Hne]; cbn [andb]; [|apply Hi].
  destruct (Nat.ltb a (length (tss w))); [exact Hg|apply Hi].
Qed.

Definition keepf (g : tstate O -> tstate O) : Prop :=
  forall s, active (g s) = active s /\ actives (g s) = actives s.

Lemma Inv_modt_keep w x g : keepf g -> Inv w -> Inv (modt w x g).
Proof.
  intros Hk Hi. unfold modt. apply Inv_sett; [exact Hi|].
  destruct (Hk (gett w x)) as [H1 H2]. unfold good. rewrite H1, H2. apply Hi.
Qed.

Lemma Inv_same_tss w w' : tss w' = tss w -> Inv w -> Inv w'.
Proof. intros H Hi t. unfold gett. rewrite H. apply Hi. Qed.

Ltac keepf_tac := intros s; split; reflexivity.

(* what an operation of a child cannot do: touch its parent's active outline *)
Definition keeps (a : tid) (w w' : world O) : Prop :=
  active (gett w' a) = active (gett w a) /\ actives (gett w' a) = actives (gett w a).

Lemma keeps_refl a w : keeps a w w. Proof. split; reflexivity. Qed.
Lemma keeps_trans a w1 w2 w3 : keeps a w1 w2 -> keeps a w2 w3 -> keeps a w1 w3.
Proof. intros [A B] [C D]. split; congruence. Qed.

Lemma core_keeps a w w' : core O (gett w' a) = core O (gett w a) -> keeps a w w'.
Proof. unfold core. intros H. inversion H. split; assumption. Qed.

Lemma keeps_modt a w x g : keepf g -> keeps a w (modt w x g).
Proof.
  intros Hk. unfold keeps, modt. rewrite gett_sett.
  destruct (Nat.eqb a x && Nat.ltb x (length (tss w))) eqn:E; [|split; reflexivity].
  apply andb_true_iff in E. destruct E as [E _]. apply Nat.eqb_eq in E. subst x. apply Hk.
Qed.

Lemma keeps_same_tss a w w' : tss w' = tss w -> keeps a w w'.
Proof. intros H. unfold keeps, gett. rewrite H. split; reflexivity. Qed.

Section Step.
Variable sub : ops O.
(* induction hypotheses on the operations one auxiliary level down *)
Hypothesis Hfoot : ops_R O (footprint O P) sub.
Definition ops_inv (o : ops O) : Prop :=
  (forall a w, Inv w -> Inv (o_enterAll o a w)) /\
  (forall b a w, Inv w -> Inv (o_exitAll o b a w)) /\
  (forall a w, Inv w -> Inv (o_segue o a w)) /\
  (forall a w, Inv w -> Inv (o_recur o a w)) /\
  (forall a c w, Inv w -> Inv (fst (o_send o a c w))).
Hypothesis Hinv : ops_inv sub.

Lemma child_keeps a x w w' : child O P a x -> footprint O P x w w' -> keeps a w w'.
Proof. intros Hc Hf. apply core_keeps. apply Hf. apply (Hac a x Hc). Qed.

Lemma sub_enterAll_keeps a x w : child O P a x -> keeps a w (o_enterAll sub x w).
Proof. intros Hc. destruct Hfoot as [H _]. eapply child_keeps; eauto. Qed.
Lemma sub_exitAll_keeps a x b w : child O P a x -> keeps a w (o_exitAll sub b x w).
Proof. intros Hc. destruct Hfoot as [_ [H _]]. eapply child_keeps; eauto. Qed.
Lemma sub_segue_keeps a x w : child O P a x -> keeps a w (o_segue sub x w).
Proof. intros Hc. destruct Hfoot as [_ [_ [H _]]]. eapply child_keeps; eauto. Qed.
Lemma sub_recur_keeps a x w : child O P a x -> keeps a w (o_recur sub x w).
Proof. intros Hc. destruct Hfoot as [_ [_ [_ [H _]]]]. eapply child_keeps; eauto. Qed.
Lemma sub_send_keeps a x c w : child O P a x -> keeps a w (fst (o_send sub x c w)).
Proof. intros Hc. destruct Hfoot as [_ [_ [_ [_ H]]]]. eapply child_keeps; eauto. Qed.

(* a pair: invariant preserved, and the executing framer's active outline kept *)
Definition IK (a : tid) (w w' : world O) : Prop := (Inv w -> Inv w') /\ keeps a w w'.
Lemma IK_refl a w : IK a w w. Proof. split; [auto|apply keeps_refl]. Qed.
Lemma IK_trans a w1 w2 w3 : IK a w1 w2 -> IK a w2 w3 -> IK a w1 w3.
Proof. intros [A B] [C D]. split; [auto|eapply keeps_trans; eauto]. Qed.
Lemma IK_guard a w k : (forall w, IK a w (k w)) -> IK a w (guard w k).
Proof. intros H. unfold guard. destruct (crashed w); [apply IK_refl|apply H]. Qed.
Lemma IK_fold_in {A} a (f : world O -> A -> world O) l :
  (forall w x, In x l -> IK a w (f w x)) -> forall w, IK a w (fold_left f l w).
Proof.
  induction l as [|x l IH]; intros H w; cbn; [apply IK_refl|].
  eapply IK_trans; [apply H; left; reflexivity|apply IH]. intros; apply H; right; assumption.
Qed.
Lemma IK_modt a w x g : keepf g -> IK a w (modt w x g).
Proof. intros Hk. split; [apply Inv_modt_keep; exact Hk|apply keeps_modt; exact Hk]. Qed.
Lemma IK_same_tss a w w' : tss w' = tss w -> IK a w w'.
Proof. intros H. split; [apply Inv_same_tss; exact H|apply keeps_same_tss; exact H]. Qed.

Lemma IK_emit a w e : IK a w (emit w e).
Proof. apply IK_same_tss. reflexivity. Qed.

Ltac it := eapply IK_trans.

Lemma IK_deactivate a aux w : child O P a aux -> IK a w (deactivate_aux P sub aux w).
Proof.
  intros Hc. unfold deactivate_aux. destruct Hinv as [_ [Hx _]].
  it; [split; [apply Hx|apply sub_exitAll_keeps; exact Hc]|].
  apply IK_guard. intros w'. destruct (fm_original _); [apply IK_modt; keepf_tac|apply IK_refl].
Qed.

Lemma IK_run_act a ac w : act_ok O P a ac -> IK a w (run_act P sub a ac w).
Proof.
  intros [Hch Hdn]. unfold run_act. apply IK_guard. clear w. intros w. destruct ac.
  - destruct (crash_at w) as [[k e]|]; [destruct (Nat.eqb k (nrec w))|]; apply IK_same_tss; reflexivity.
  - apply IK_same_tss; reflexivity.
  - apply IK_same_tss; reflexivity.
  - apply IK_same_tss; reflexivity.
  - apply IK_fold_in. intros w' t _. it; [|apply IK_modt; keepf_tac].
    destruct c; destruct p; try apply IK_refl; apply IK_modt; keepf_tac.
  - destruct Hinv as [_ [_ [_ [_ Hs]]]]. split; [apply Hs|apply sub_send_keeps; apply Hch; reflexivity].
  - apply IK_fold_in. intros w' x _. apply IK_modt; keepf_tac.
  - destruct (done _); [apply IK_refl|apply IK_deactivate; apply Hch; reflexivity].
  - apply IK_same_tss; reflexivity.
  - apply IK_same_tss; reflexivity.
Qed.

Lemma IK_run_acts a l w : (forall ac, In ac l -> act_ok O P a ac) -> IK a w (run_acts P sub a l w).
Proof. intros H. unfold run_acts. apply IK_fold_in. intros; apply IK_run_act; auto. Qed.

Lemma IK_frame_enter a w f : IK a w (frame_enter P sub a w f).
Proof.
  unfold frame_enter. apply IK_guard. clear w. intros w.
  it; [apply IK_emit|].
  it; [apply IK_run_acts; intros; eapply in_enacts; eauto|].
  apply IK_fold_in. intros w' aux Hin. apply IK_guard. intros w''.
  pose proof (in_auxes O P a f aux Hin) as Hc. destruct Hinv as [He _].
  assert (H : forall w0, IK a w0 (o_enterAll sub aux w0)) by (intros; split; [apply He|apply sub_enterAll_keeps; exact Hc]).
  destruct (fm_original _); [it; [|apply H]; apply IK_modt; keepf_tac|apply H].
Qed.

Lemma IK_frame_exit a w f : IK a w (frame_exit P sub a w f).
Proof.
  unfold frame_exit. apply IK_guard. clear w. intros w.
  it; [|apply IK_guard; intros w'; it; [apply IK_emit|apply IK_run_acts; intros; eapply in_exacts; eauto]].
  apply IK_fold_in. intros w' aux Hin. pose proof (in_auxes O P a f aux Hin) as Hc.
  apply IK_guard. intros w''. destruct Hinv as [_ [Hx _]].
  it; [split; [apply Hx|apply sub_exitAll_keeps; exact Hc]|]. apply IK_guard. intros w3.
  destruct (fm_original _); [apply IK_modt; keepf_tac|apply IK_refl].
Qed.

Lemma IK_framer_exit a l w : IK a w (framer_exit P sub a l w).
Proof. unfold framer_exit. apply IK_fold_in. intros; apply IK_frame_exit. Qed.
Lemma IK_framer_rexit a l w : IK a w (framer_rexit P sub a l w).
Proof. unfold framer_rexit. apply IK_fold_in. intros; apply IK_run_acts; intros; eapply in_rexacts; eauto. Qed.
Lemma IK_framer_renter a l w : IK a w (framer_renter P sub a l w).
Proof. unfold framer_renter. apply IK_fold_in. intros; apply IK_run_acts; intros; eapply in_renacts; eauto. Qed.

Lemma IK_framer_enter a l w : IK a w (framer_enter P sub a l w).
Proof.
  unfold framer_enter. apply IK_guard. clear w. intros w.
  it; [|apply IK_fold_in; intros; apply IK_frame_enter].
  destruct l; [apply IK_refl|apply IK_modt; keepf_tac].
Qed.

(* the four places where a framer's own active outline is written *)
Lemma Inv_activate a f w : Inv w -> Inv (activate P a f w).
Proof.
  intros Hi. unfold activate, modt. apply Inv_sett; [exact Hi|].
  right. exists f. cbn. split; [reflexivity|left; reflexivity].
Qed.
Lemma Inv_reactivate a w : Inv w -> Inv (reactivate P a w).
Proof.
  intros Hi. unfold reactivate. destruct (active (gett w a)) as [f|] eqn:E; [|exact Hi].
  unfold modt. apply Inv_sett; [exact Hi|]. right. exists f. cbn. split; [reflexivity|left; reflexivity].
Qed.
Lemma Inv_change a m w f0 : Inv w -> active (gett w a) = Some f0 -> Inv (change a (head P a m) w).
Proof.
  intros Hi Ha. unfold change, modt. apply Inv_sett; [exact Hi|].
  right. exists f0. cbn. split; [exact Ha|right; exists m; reflexivity].
Qed.
Lemma Inv_clear a w : Inv w -> Inv (modt w a (fun s => ts_set_active s None [])).
Proof. intros Hi. unfold modt. apply Inv_sett; [exact Hi|]. left. cbn. split; reflexivity. Qed.

Lemma Inv_transit a ns far w : Inv w -> Inv (fst (transit P sub a ns far w)).
Proof.
  intros Hi. unfold transit. destruct (negb (forallb _ ns)); [exact Hi|].
  destruct (ExEn P a (actives (gett w a)) far) as [[ex en] re].
  destruct (negb (framer_checkEnter P sub a en ex w)); [exact Hi|]. cbn [fst].
  unfold guard. match goal with |- Inv (match crashed ?W with _ => _ end) => assert (HW : Inv W) end.
  { apply IK_framer_enter. apply IK_framer_renter. apply IK_framer_rexit. apply IK_framer_exit.
    apply IK_run_acts; [intros; eapply tracts_ok; eauto|exact Hi]. }
  destruct (crashed _); [exact HW|apply Inv_activate; exact HW].
Qed.

(* a transition that is not taken leaves the world alone; one that is taken ends in [activate] *)
Lemma transit_false_same a ns far w w' : transit P sub a ns far w = (w', false) -> w' = w.
Proof.
  unfold transit. destruct (negb (forallb _ ns)); [intros H; inversion H; reflexivity|].
  destruct (ExEn P a (actives (gett w a)) far) as [[ex en] re].
  destruct (negb (framer_checkEnter P sub a en ex w)); intros H; inversion H; reflexivity.
Qed.

(* Suspender: under a known active frame the invariant is kept, and a falsy result keeps [active] *)
Lemma suspend_spec a mf ns aux w f0 :
  child O P a aux -> Inv w -> active (gett w a) = Some f0 ->
  let '(w', r) := suspend P sub a mf ns aux w in
  Inv w' /\ active (gett w' a) = Some f0.
Proof.
  intros Hc Hi Ha. unfold suspend. destruct Hinv as [He [Hx [Hsg [Hrc Hs]]]].
  destruct (done (gett w aux)).
  - destruct (negb (forallb _ ns)); [split; assumption|].
    destruct (match main (gett w aux) with Some (mt, m) => _ | None => false end); [split; assumption|].
    destruct (negb (o_checkStart sub aux w)); [split; assumption|].
    match goal with |- let '(_, _) := match crashed ?W with _ => _ end in _ =>
      assert (HW : IK a w W) end.
    { it; [|apply IK_guard; intros; split; [apply Hrc|apply sub_recur_keeps; exact Hc]].
      it; [|split; [apply He|apply sub_enterAll_keeps; exact Hc]].
      it; [apply IK_run_acts; intros; eapply tracts_ok; eauto|].
      destruct (fm_original _); [apply IK_modt; keepf_tac|apply IK_refl]. }
    destruct HW as [HWi [HWa HWb]].
    destruct (crashed _); [split; [auto|congruence]|].
    match goal with |- let '(_, _) := (if ?c then _ else _) in _ => destruct c end.
    + match goal with |- context [deactivate_aux P sub aux ?W] => destruct (IK_deactivate a aux W Hc) as [D1 [D2 D3]] end.
      split; [auto|congruence].
    + split.
      * apply Inv_change with (f0 := f0); [auto|congruence].
      * unfold change. rewrite gett_modt.
        destruct (Nat.eqb a a && _); cbn [active ts_set_active]; congruence.
  - destruct (match main (gett w aux) with Some (mt, m) => _ | None => false end); [split; assumption|].
    match goal with |- let '(_, _) := match crashed ?W with _ => _ end in _ =>
      assert (HW : IK a w W) end.
    { it; [split; [apply Hsg|apply sub_segue_keeps; exact Hc]|].
      apply IK_guard; intros; split; [apply Hrc|apply sub_recur_keeps; exact Hc]. }
    destruct HW as [HWi [HWa HWb]].
    destruct (crashed _); [split; [auto|congruence]|].
    match goal with |- let '(_, _) := (if ?c then _ else _) in _ => destruct c end.
    + match goal with |- context [deactivate_aux P sub aux ?W] => destruct (IK_deactivate a aux W Hc) as [D1 [D2 D3]] end.
      match goal with |- context [guard ?W2 (reactivate P a)] =>
        change (guard W2 (reactivate P a)) with (match crashed W2 with Some _ => W2 | None => reactivate P a W2 end) end.
      destruct (crashed (deactivate_aux P sub aux _)); [split; [auto|congruence]|].
      split; [apply Inv_reactivate; auto|].
      unfold reactivate. rewrite D2, HWa, Ha. rewrite gett_modt.
      destruct (Nat.eqb a a && _); cbn [active ts_set_active]; congruence.
    + split; [auto|congruence].
Qed.

Lemma precur_spec a f l : (forall pa, In pa l -> In pa (preacts (getf P a f))) ->
  forall w f0, Inv w -> active (gett w a) = Some f0 ->
  let '(w', r) := precur P sub a f l w in
  Inv w' /\ (r = false -> active (gett w' a) = Some f0).
Proof.
  induction l as [|pa l IH]; intros Hin w f0 Hi Ha; cbn [precur]; destruct (crashed w).
  1-3: split; [assumption|intros; try discriminate; assumption].
  assert (Hl : forall pa0, In pa0 l -> In pa0 (preacts (getf P a f))) by (intros; apply Hin; right; assumption).
  assert (Hpa : In pa (preacts (getf P a f))) by (apply Hin; left; reflexivity).
  destruct pa as [ac|ns far|ns aux].
  - pose proof (in_preacts O P a f ac Hpa) as Hok.
    assert (Hgen : forall w1, IK a w w1 ->
              let '(w', r) := precur P sub a f l w1 in Inv w' /\ (r = false -> active (gett w' a) = Some f0)).
    { intros w1 [K1 [K2 K3]]. apply IH; [exact Hl|auto|congruence]. }
    destruct ac; try (apply Hgen; apply IK_run_act; exact Hok).
    destruct (o_send sub t c w) as [w' r] eqn:Hs.
    assert (H : IK a w w').
    { destruct Hinv as [_ [_ [_ [_ H]]]]. pose proof (H t c w) as H1. rewrite Hs in H1.
      pose proof (sub_send_keeps a t c w (proj1 Hok t eq_refl)) as H2. rewrite Hs in H2. split; assumption. }
    destruct (fiat_ok c r); [split; [apply H; exact Hi|discriminate]|apply Hgen; exact H].
  - pose proof (Inv_transit a ns far w Hi) as H.
    destruct (transit P sub a ns far w) as [w' r] eqn:Ht. destruct r; [split; [exact H|discriminate]|].
    apply transit_false_same in Ht. subst w'. apply IH; assumption.
  - pose proof (suspend_spec a f ns aux w f0 (in_paux O P a f ns aux Hpa) Hi Ha) as H.
    destruct (suspend P sub a f ns aux w) as [w' r]. destruct H as [H1 H2].
    destruct r; [split; [exact H1|discriminate]|]. apply IH; assumption.
Qed.

Lemma segue_frames_spec a l : forall w f0, Inv w -> active (gett w a) = Some f0 ->
  Inv (fst (segue_frames P sub a l w)).
Proof.
  induction l as [|f l IH]; intros w f0 Hi Ha; cbn [segue_frames]; destruct (crashed w); try exact Hi.
  pose proof (precur_spec a f (preacts (getf P a f)) (fun pa H => H) w f0 Hi Ha) as H.
  destruct (precur P sub a f (preacts (getf P a f)) w) as [w' r]. destruct H as [H1 H2].
  destruct r; [exact H1|]. eapply IH; [exact H1|apply H2; reflexivity].
Qed.

Lemma Inv_framer_segue a w : Inv w -> Inv (framer_segue P sub a w).
Proof.
  intros Hi. unfold framer_segue, guard. destruct (crashed w); [exact Hi|].
  set (w1 := sett (emit w (ESegue a)) a _).
  assert (H1 : IK a w w1).
  { it; [apply IK_emit|]. unfold w1.
    apply (IK_modt a (emit w (ESegue a)) a (fun s => ts_set_clock s (fstamp s) (tsub O (stamp (emit w (ESegue a))) (fstamp s)) (recurred s + 1)%Z)).
    keepf_tac. }
  set (acts := actives (gett w1 a)).
  match goal with |- Inv (fst (segue_frames _ _ _ _ ?W)) => assert (H2 : IK a w1 W) end.
  { apply IK_fold_in. intros w' f _. apply IK_fold_in. intros w'' aux Hin. apply IK_guard. intros w3.
    destruct Hinv as [_ [_ [Hsg _]]]. split; [apply Hsg|apply sub_segue_keeps; eapply in_auxes; eauto]. }
  destruct H1 as [I1 [K1 K1']], H2 as [I2 [K2 K2']].
  destruct (active (gett w a)) as [f0|] eqn:Ha.
  - apply segue_frames_spec with (f0 := f0); [auto|]. rewrite K2, K1. reflexivity.
  - (* no active frame: the snapshot is empty, nothing is evaluated *)
    assert (Hacts : acts = []).
    { unfold acts. rewrite K1'. destruct (Hi a) as [[_ E]|[f [E _]]]; [exact E|congruence]. }
    rewrite Hacts. cbn [segue_frames]. destruct (crashed _); cbn; auto.
Qed.

Lemma Inv_framer_recur a w : Inv w -> Inv (framer_recur P sub a w).
Proof.
  intros Hi. revert Hi. apply (proj1 (A:=Inv w -> Inv (framer_recur P sub a w)) (B:=keeps a w (framer_recur P sub a w))).
  change (IK a w (framer_recur P sub a w)).
  unfold framer_recur. apply IK_guard. clear w. intros w.
  apply IK_fold_in. intros w' f _. apply IK_guard. intros w''.
  it; [apply IK_emit|]. it; [apply IK_run_acts; intros; eapply in_reacts; eauto|].
  apply IK_fold_in. intros w3 aux Hin. apply IK_guard. intros w4.
  destruct Hinv as [_ [_ [_ [Hrc _]]]]. split; [apply Hrc|apply sub_recur_keeps; eapply in_auxes; eauto].
Qed.

Lemma Inv_framer_enterAll a w : Inv w -> Inv (framer_enterAll P sub a w).
Proof.
  intros Hi. unfold framer_enterAll, guard. destruct (crashed w); [exact Hi|].
  apply IK_framer_enter. apply Inv_activate. apply Inv_modt_keep; [keepf_tac|exact Hi].
Qed.

Lemma Inv_framer_exitAll b a w : Inv w -> Inv (framer_exitAll P sub b a w).
Proof.
  intros Hi. unfold framer_exitAll, guard. destruct (crashed w); [exact Hi|].
  assert (H : Inv (framer_exit P sub a (actives (gett w a)) w)) by (apply IK_framer_exit; exact Hi).
  destruct (crashed _); [exact H|].
  destruct b; [apply Inv_clear; exact H|]. apply Inv_modt_keep; [keepf_tac|apply Inv_clear; exact H].
Qed.

Lemma Inv_framer_send a c w : Inv w -> Inv (fst (framer_send P sub a c w)).
Proof.
  intros Hi. unfold framer_send. destruct (crashed w); [exact Hi|].
  destruct (negb (alive (gett w a))); [apply (Inv_same_tss w); [reflexivity|exact Hi]|].
  assert (Hk : forall w0 g, keepf g -> Inv w0 -> Inv (modt w0 a g)) by (intros; apply Inv_modt_keep; assumption).
  assert (Hg : forall w0 g, keepf g -> Inv w0 -> Inv (guard w0 (fun w1 => modt w1 a g))).
  { intros w0 g Hkg H0. unfold guard. destruct (crashed w0); [exact H0|apply Hk; assumption]. }
  match goal with |- Inv (fst (match crashed ?W with _ => _ end)) =>
    assert (HW : Inv W); [|destruct (crashed W); cbn [fst];
       [apply Hk; [keepf_tac|exact HW]|apply (Inv_same_tss W); [reflexivity|exact HW]]] end.
  destruct c.
  - destruct (match st (gett w a) with Running | Started => true | _ => false end).
    + apply Hg; [keepf_tac|]. apply Inv_framer_exitAll. apply Hk; [keepf_tac|exact Hi].
    + destruct (match st (gett w a) with Stopped | Readied => true | _ => false end); [exact Hi|apply Hk; [keepf_tac|exact Hi]].
  - destruct (match st (gett w a) with Stopped | Readied => true | _ => false end).
    + destruct (framer_checkStart P sub a w).
      * apply Hg; [keepf_tac|]. apply Inv_framer_recur. apply Inv_framer_enterAll. apply Hk; [keepf_tac|exact Hi].
      * apply Hk; [keepf_tac|exact Hi].
    + destruct (match st (gett w a) with Running | Started => true | _ => false end); apply Hk; try keepf_tac; exact Hi.
  - destruct (match st (gett w a) with Running | Started => true | _ => false end).
    + apply Hg; [keepf_tac|]. apply Inv_framer_recur. apply Inv_framer_segue. exact Hi.
    + destruct (match st (gett w a) with Stopped | Readied => true | _ => false end); apply Hk; try keepf_tac; exact Hi.
  - apply Hg; [keepf_tac|].
    destruct (match st (gett w a) with Running | Started => true | _ => false end);
      [apply Inv_framer_exitAll; exact Hi|exact Hi].
  - destruct (match st (gett w a) with Stopped | Readied => true | _ => false end).
    + destruct (framer_checkStart P sub a w); apply Hk; try keepf_tac; exact Hi.
    + destruct (match st (gett w a) with Running | Started => true | _ => false end);
        [exact Hi|apply Hk; [keepf_tac|exact Hi]].
Qed.

Lemma step_ops_inv : ops_inv (step_ops P sub).
Proof.
  repeat split; intros; cbn.
  - apply Inv_framer_enterAll; assumption.
  - apply Inv_framer_exitAll; assumption.
  - apply Inv_framer_segue; assumption.
  - apply Inv_framer_recur; assumption.
  - apply Inv_framer_send; assumption.
Qed.

End Step.

Lemma ops0_inv : ops_inv (ops0 O).
Proof. repeat split; intros; cbn; apply (Inv_same_tss w); auto. Qed.

Lemma lvl_inv n : ops_inv (lvl P n).
Proof.
  induction n; cbn; [apply ops0_inv|]. apply step_ops_inv; [apply footprint_ops|assumption].
Qed.

End A.
