(* Instances of the kernel's abstract time: exact rationals (Q) and binary64 (PrimFloat),
   and decidable equality of observable events for the correspondence. Definitions only. *)
From Coq Require Import List ZArith QArith Bool Arith.
From Coq Require Import Floats.PrimFloat.
Import ListNotations.
Require Import V.Kernel.Model.

Definition QOps : TimeOps :=
  {| T := Q; tzero := 0%Q; tadd := Qplus; tsub := Qminus;
     tleb := Qle_bool; tltb := fun a b => negb (Qle_bool b a); teqb := Qeq_bool |}.

Definition FOps : TimeOps :=
  {| T := float; tzero := PrimFloat.zero; tadd := PrimFloat.add; tsub := PrimFloat.sub;
     tleb := PrimFloat.leb; tltb := PrimFloat.ltb; teqb := PrimFloat.eqb |}.

Section Obs.
Variable O : TimeOps.

Definition ctl_n (c : ctl) : nat :=
  match c with CStop => 0 | CStart => 1 | CRun => 2 | CAbort => 3 | CReady => 4 end.
Definition status_n (s : option status) : nat :=
  match s with None => 9 | Some Stopped => 0 | Some Started => 1 | Some Running => 2
             | Some Aborted => 3 | Some Readied => 4 end.

Fixpoint nl_eqb (a b : list nat) : bool :=
  match a, b with
  | [], [] => true
  | x :: a', y :: b' => Nat.eqb x y && nl_eqb a' b'
  | _, _ => false end.

(* only recorder and send events are observable on the implementation *)
Definition observable (e : event O) : bool :=
  match e with ERec _ _ | ESend _ _ _ _ _ _ _ => true | _ => false end.

Definition ev_eqb (a b : event O) : bool :=
  match a, b with
  | ERec k1 g1, ERec k2 g2 => Nat.eqb k1 k2 && Nat.eqb g1 g2
  | ESend k1 t1 c1 r1 a1 e1 n1, ESend k2 t2 c2 r2 a2 e2 n2 =>
      Nat.eqb k1 k2 && Nat.eqb t1 t2 && Nat.eqb (ctl_n c1) (ctl_n c2)
      && Nat.eqb (status_n r1) (status_n r2) && nl_eqb a1 a2 && teqb O e1 e2 && Z.eqb n1 n2
  | _, _ => false end.

Fixpoint evl_eqb (a b : list (event O)) : bool :=
  match a, b with
  | [], [] => true
  | x :: a', y :: b' => ev_eqb x y && evl_eqb a' b'
  | _, _ => false end.

Fixpoint zl_eqb (a b : list Z) : bool :=
  match a, b with
  | [], [] => true
  | x :: a', y :: b' => Z.eqb x y && zl_eqb a' b'
  | _, _ => false end.

Definition end_n (e : ending) : nat :=
  match e with EndIdle => 0 | EndEmpty => 1 | EndKbd => 2 | EndExcn => 3 | EndTicks => 4 end.

(* what the harness observes of a whole run *)
Record obs := {
  ob_trace : list (event O);        (* observable events, oldest first *)
  ob_vars : list Z;
  ob_status : list nat;             (* final status of every tasker *)
  ob_excn : bool;                   (* run() re-raised an exception *)
}.

Definition observe (r : sked O * ending) : obs :=
  let w := sw (fst r) in
  {| ob_trace := filter observable (rev (trace w));
     ob_vars := vars w;
     ob_status := map (fun s => status_n (Some (st s))) (tss w);
     ob_excn := match snd r with EndExcn => true | _ => false end
                || match crashed w with Some _ => true | None => false end  (* raised inside the final sweep *) |}.

Definition obs_eqb (a b : obs) : bool :=
  evl_eqb (ob_trace a) (ob_trace b) && zl_eqb (ob_vars a) (ob_vars b)
  && nl_eqb (ob_status a) (ob_status b) && Bool.eqb (ob_excn a) (ob_excn b).

(* index of the first differing observable event (for diagnostics) *)
Fixpoint first_diff (a b : list (event O)) (i : nat) : option nat :=
  match a, b with
  | [], [] => None
  | x :: a', y :: b' => if ev_eqb x y then first_diff a' b' (S i) else Some i
  | _, _ => Some i end.

End Obs.
