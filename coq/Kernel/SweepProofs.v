(* C03: a scheduled framer that nobody else can reach (not an auxiliary / fiat / done target of another
   framer) has no active frame whenever it is alive and neither started nor running; after an ABORT it is
   ABORTED with no active frame, and later sends to other taskers cannot change that. *)
From Coq Require Import List ZArith Bool Arith Lia.
Import ListNotations.
Require Import V.Kernel.Model V.Kernel.GenInd V.Kernel.Basics V.Kernel.ActInv V.Kernel.RunInv V.Kernel.SkedProofs.

Section S.
Variable O : TimeOps.
Variable P : prog O.
Variable t : tid.
Hypothesis Hiso : forall a, a <> t -> ~ reach O P a t.

Definition running_st (s : status) : bool := match s with Running | Started => true | _ => false end.

Definition Q (w : world O) : Prop :=
  alive (gett w t) = true -> running_st (st (gett w t)) = false ->
  active (gett w t) = None /\ actives (gett w t) = [].

Lemma Q_core w w' : core O (gett w' t) = core O (gett w t) -> Q w -> Q w'.
Proof.
  unfold Q, core. intros H Hq. inversion H as [[E1 E2 E3 E4 E5 E6 E7 E8 E9]].
  rewrite E1, E3, E7, E8. exact Hq.
Qed.

Lemma Q_other n a c w : a <> t -> Q w -> Q (fst (o_send (lvl P n) a c w)).
Proof.
  intros Hne Hq. eapply Q_core; [|exact Hq].
  destruct (footprint_ops O P n) as [_ [_ [_ [_ Hs]]]]. apply Hs. apply Hiso. exact Hne.
Qed.


Lemma len_enterAll n a w : length (tss (framer_enterAll P (lvl P n) a w)) = length (tss w).
Proof. pose proof (same_clock_ops O P (S n)) as [H _]. apply (H a w). Qed.
Lemma len_exitAll n b a w : length (tss (framer_exitAll P (lvl P n) b a w)) = length (tss w).
Proof. pose proof (same_clock_ops O P (S n)) as [_ [H _]]. apply (H b a w). Qed.
Lemma len_segue n a w : length (tss (framer_segue P (lvl P n) a w)) = length (tss w).
Proof. pose proof (same_clock_ops O P (S n)) as [_ [_ [H _]]]. apply (H a w). Qed.
Lemma len_recur n a w : length (tss (framer_recur P (lvl P n) a w)) = length (tss w).
Proof. pose proof (same_clock_ops O P (S n)) as [_ [_ [_ [H _]]]]. apply (H a w). Qed.

Lemma guard_none (X : world O) k : crashed (guard X k) = None -> crashed X = None /\ guard X k = k X.
Proof. unfold guard. destruct (crashed X) eqn:E; intros H; [congruence|auto]. Qed.

(* modifications of t that keep (alive, active, actives) *)
Definition keep3 (g : tstate O -> tstate O) : Prop :=
  forall s, active (g s) = active s /\ actives (g s) = actives s /\ alive (g s) = alive s.

Lemma Q_modt_clear w g : t < length (tss w) -> keep3 g ->
  active (gett w t) = None -> actives (gett w t) = [] -> Q (modt w t g).
Proof.
  intros Hl Hg Ha Hb. unfold Q. rewrite gett_modt, Nat.eqb_refl.
  assert (Nat.ltb t (length (tss w)) = true) as -> by (apply Nat.ltb_lt; exact Hl). cbn [andb].
  destruct (Hg (gett w t)) as [A [B C]]. rewrite A, B. intros _ _. split; assumption.
Qed.

Lemma Q_modt_running w g : t < length (tss w) ->
  (forall s, running_st (st (g s)) = true) -> Q (modt w t g).
Proof.
  intros Hl Hg. unfold Q. rewrite gett_modt, Nat.eqb_refl.
  assert (Nat.ltb t (length (tss w)) = true) as -> by (apply Nat.ltb_lt; exact Hl). cbn [andb].
  intros _ H. rewrite Hg in H. discriminate.
Qed.

Lemma Q_modt_samest w g : t < length (tss w) -> keep3 g ->
  (forall s, st (g s) = st s) -> Q w -> Q (modt w t g).
Proof.
  intros Hl Hg Hs Hq. unfold Q. rewrite gett_modt, Nat.eqb_refl.
  assert (Nat.ltb t (length (tss w)) = true) as -> by (apply Nat.ltb_lt; exact Hl). cbn [andb].
  destruct (Hg (gett w t)) as [A [B C]]. rewrite A, B, C, Hs. exact Hq.
Qed.

Ltac k3 := intros s; repeat split; reflexivity.

(* a send to t itself preserves the invariant *)
Lemma Q_self n c w : t < length (tss w) -> Q w -> Q (fst (framer_send P (lvl P n) t c w)).
Proof.
  intros Hl Hq. unfold framer_send.
  destruct (crashed w) eqn:Hcw; [exact Hq|].
  destruct (negb (alive (gett w t))) eqn:Hal; [exact Hq|].
  apply negb_false_iff in Hal.
  match goal with |- Q (fst (match crashed ?W0 with _ => _ end)) => set (W := W0) end.
  destruct (crashed W) eqn:HcW; cbn [fst].
  { (* finally clause: the generator is dead: alive = false, or t out of range (defaults) *)
    unfold Q. rewrite gett_modt, Nat.eqb_refl.
    destruct (Nat.ltb t (length (tss W))) eqn:E; cbn [andb].
    - cbn. discriminate.
    - apply Nat.ltb_ge in E. unfold gett. rewrite nth_overflow by exact E. cbn. auto. }
  cut (Q W). { intros HQW. exact HQW. }
  unfold W in *. clear W.
  destruct (st (gett w t)) eqn:Est.
  all: cbv iota in HcW |- *.
  - (* Stopped *) 
    destruct (Hq Hal) as [Ha Hb]; [rewrite Est; reflexivity|].
    assert (Hmod : forall g, keep3 g -> Q (modt w t g)) by (intros; apply Q_modt_clear; auto).
    destruct c.
    + exact Hq.
    + destruct (framer_checkStart P (lvl P n) t w).
      * apply guard_none in HcW. destruct HcW as [Hc2 ->].
        apply Q_modt_running; [|intros; reflexivity].
        rewrite len_recur, len_enterAll, modt_length. exact Hl.
      * apply Hmod; k3.
    + apply Hmod; k3.
    + apply guard_none in HcW. destruct HcW as [_ ->]. apply Hmod; k3.
    + destruct (framer_checkStart P (lvl P n) t w); apply Hmod; k3.
  - (* Started *)
    destruct c.
    + apply guard_none in HcW. destruct HcW as [Hc2 ->].
      set (w1 := modt w t (fun s => ts_set_desire s CStop)) in *.
      assert (Hl1 : t < length (tss w1)) by (unfold w1; rewrite modt_length; exact Hl).
      destruct (exitAll_clears O P n true t w1 Hcw Hc2 Hl1) as [E1 E2].
      apply Q_modt_clear; auto; [|k3].
      rewrite len_exitAll. exact Hl1.
    + apply Q_modt_samest; auto; try k3.
    + apply guard_none in HcW. destruct HcW as [Hc2 ->].
      apply Q_modt_running; [|intros; reflexivity].
      rewrite len_recur, len_segue. exact Hl.
    + apply guard_none in HcW. destruct HcW as [Hc2 ->].
      destruct (exitAll_clears O P n false t w Hcw Hc2 Hl) as [E1 E2].
      apply Q_modt_clear; auto; [|k3].
      rewrite len_exitAll. exact Hl.
    + exact Hq.
  - (* Running *)
    destruct c.
    + apply guard_none in HcW. destruct HcW as [Hc2 ->].
      set (w1 := modt w t (fun s => ts_set_desire s CStop)) in *.
      assert (Hl1 : t < length (tss w1)) by (unfold w1; rewrite modt_length; exact Hl).
      destruct (exitAll_clears O P n true t w1 Hcw Hc2 Hl1) as [E1 E2].
      apply Q_modt_clear; auto; [|k3].
      rewrite len_exitAll. exact Hl1.
    + apply Q_modt_samest; auto; try k3.
    + apply guard_none in HcW. destruct HcW as [Hc2 ->].
      apply Q_modt_running; [|intros; reflexivity].
      rewrite len_recur, len_segue. exact Hl.
    + apply guard_none in HcW. destruct HcW as [Hc2 ->].
      destruct (exitAll_clears O P n false t w Hcw Hc2 Hl) as [E1 E2].
      apply Q_modt_clear; auto; [|k3].
      rewrite len_exitAll. exact Hl.
    + exact Hq.
  - (* Aborted *)
    destruct (Hq Hal) as [Ha Hb]; [rewrite Est; reflexivity|].
    assert (Hmod : forall g, keep3 g -> Q (modt w t g)) by (intros; apply Q_modt_clear; auto).
    destruct c; try (apply Hmod; k3).
    apply guard_none in HcW. destruct HcW as [_ ->]. apply Hmod; k3.
  - (* Readied *)
    destruct (Hq Hal) as [Ha Hb]; [rewrite Est; reflexivity|].
    assert (Hmod : forall g, keep3 g -> Q (modt w t g)) by (intros; apply Q_modt_clear; auto).
    destruct c.
    + exact Hq.
    + destruct (framer_checkStart P (lvl P n) t w).
      * apply guard_none in HcW. destruct HcW as [Hc2 ->].
        apply Q_modt_running; [|intros; reflexivity].
        rewrite len_recur, len_enterAll, modt_length. exact Hl.
      * apply Hmod; k3.
    + apply Hmod; k3.
    + apply guard_none in HcW. destruct HcW as [_ ->]. apply Hmod; k3.
    + destruct (framer_checkStart P (lvl P n) t w); apply Hmod; k3.
Qed.

(* every send, to whichever tasker, at the top level preserves the invariant *)
Lemma Q_send a c w : t < length (tss w) -> Q w -> Q (fst (o_send (top P) a c w)).
Proof.
  intros Hl Hq. destruct (Nat.eq_dec a t) as [->|Hne].
  - unfold top, depth. cbn [lvl step_ops o_send]. apply Q_self; assumption.
  - apply Q_other; assumption.
Qed.

(* an ABORT sent to t (generator alive: the send returns a status) leaves it ABORTED and, its generator
   still being alive, with no active frame: everything it had entered was exited *)
Lemma abort_leaves_nothing w w' r : t < length (tss w) -> Q w ->
  o_send (top P) t CAbort w = (w', Some r) ->
  st (gett w' t) = Aborted /\
  (alive (gett w' t) = true -> active (gett w' t) = None /\ actives (gett w' t) = []).
Proof.
  intros Hl Hq Hs.
  assert (Hq' : Q w') by (pose proof (Q_send t CAbort w Hl Hq) as H; rewrite Hs in H; exact H).
  assert (HA : st (gett w' t) = Aborted).
  { unfold top, depth in Hs. cbn [lvl step_ops o_send] in Hs. unfold framer_send in Hs.
    destruct (crashed w) eqn:Hcw; [discriminate|].
    destruct (negb (alive (gett w t))) eqn:Hal; [discriminate|].
    match type of Hs with (match crashed ?W0 with _ => _ end) = _ => set (W := W0) in * end.
    destruct (crashed W) eqn:HcW; [discriminate|]. inversion Hs; subst w' r. clear Hs.
    unfold W in *. apply guard_none in HcW. destruct HcW as [Hc2 ->].
    match goal with |- context [modt ?X t _] => set (X0 := X) in * end.
    assert (HlX : t < length (tss X0)).
    { unfold X0. destruct (match st (gett w t) with Running | Started => true | _ => false end); [|exact Hl].
      rewrite len_exitAll. exact Hl. }
    unfold gett. cbn [emit tss]. fold (gett (modt X0 t (abort_ts (O:=O))) t).
    rewrite gett_modt, Nat.eqb_refl.
    assert (Nat.ltb t (length (tss X0)) = true) as -> by (apply Nat.ltb_lt; exact HlX). cbn [andb]. reflexivity. }
  split; [exact HA|]. intros Hal. apply Hq'; [exact Hal|]. rewrite HA. reflexivity.
Qed.

(* later sends to OTHER taskers keep that (footprint): the state reached by the sweep is final *)
Lemma aborted_stays a c w : a <> t ->
  core O (gett (fst (o_send (top P) a c w)) t) = core O (gett w t).
Proof.
  intros Hne. destruct (footprint_ops O P (depth P)) as [_ [_ [_ [_ Hs]]]]. apply Hs. apply Hiso. exact Hne.
Qed.

End S.
