(* Transition clauses: evaluated in declaration order inside a frame, frames top-down through the
   active outline, and evaluation stops at the first clause that interrupts. *)
From Coq Require Import List ZArith Bool Arith Lia.
Import ListNotations.
Require Import V.Kernel.Model.

Section S.
Variable O : TimeOps.
Variable P : prog O.
Variable sub : ops O.

(* one clause *)
Definition pact_step (t : tid) (f : fid) (pa : pact O) (w : world O) : world O * bool :=
  match pa with
  | PAct (AFiat c x) => let '(w', r) := o_send sub x c w in (w', fiat_ok c r)
  | PAct a => (run_act P sub t a w, false)
  | PGo ns far => transit P sub t ns far w
  | PAux ns aux => suspend P sub t f ns aux w
  end.

Lemma precur_cons t f pa l w : crashed w = None ->
  precur P sub t f (pa :: l) w =
  let '(w', r) := pact_step t f pa w in if r then (w', true) else precur P sub t f l w'.
Proof.
  intros Hc. cbn [precur]. rewrite Hc. unfold pact_step.
  destruct pa as [a|ns far|ns aux]; [destruct a|..]; reflexivity.
Qed.

(* clauses after the first interrupting one are never evaluated: the result does not depend on them *)
Lemma precur_first_wins : forall l1 t f pa l2 w w1 w2,
  precur P sub t f l1 w = (w1, false) -> crashed w1 = None ->
  pact_step t f pa w1 = (w2, true) ->
  precur P sub t f (l1 ++ pa :: l2) w = (w2, true).
Proof.
  induction l1 as [|p1 l1 IH]; intros t f pa l2 w w1 w2 H1 Hc Hs.
  - cbn [precur] in H1. destruct (crashed w) eqn:Hcw; inversion H1; subst.
    cbn [app]. rewrite precur_cons by assumption. rewrite Hs. reflexivity.
  - cbn [app]. destruct (crashed w) eqn:Hcw.
    { cbn [precur] in H1. rewrite Hcw in H1. discriminate. }
    rewrite precur_cons in H1 |- * by assumption.
    destruct (pact_step t f p1 w) as [w' r]. destruct r; [discriminate|].
    eapply IH; eauto.
Qed.

(* clauses before the first interrupting one are evaluated in declaration order: the world threads
   through them left to right *)
Lemma precur_app : forall l1 t f l2 w w1,
  precur P sub t f l1 w = (w1, false) ->
  precur P sub t f (l1 ++ l2) w = precur P sub t f l2 w1.
Proof.
  induction l1 as [|p1 l1 IH]; intros t f l2 w w1 H1.
  - cbn [precur] in H1. destruct (crashed w) eqn:Hcw; inversion H1; subst. reflexivity.
  - cbn [app]. destruct (crashed w) eqn:Hcw.
    { cbn [precur] in H1. rewrite Hcw in H1. discriminate. }
    rewrite precur_cons in H1 |- * by assumption.
    destruct (pact_step t f p1 w) as [w' r]. destruct r; [discriminate|]. eapply IH; eauto.
Qed.

(* frames: top-down through the active outline, stop at the first frame whose clauses interrupt *)
Lemma segue_frames_cons t f l w : crashed w = None ->
  segue_frames P sub t (f :: l) w =
  let '(w', r) := precur P sub t f (preacts (getf P t f)) w in
  if r then (w', true) else segue_frames P sub t l w'.
Proof. intros Hc. cbn [segue_frames]. rewrite Hc. reflexivity. Qed.

Lemma segue_first_frame_wins : forall l1 t f l2 w w1 w2,
  segue_frames P sub t l1 w = (w1, false) -> crashed w1 = None ->
  precur P sub t f (preacts (getf P t f)) w1 = (w2, true) ->
  segue_frames P sub t (l1 ++ f :: l2) w = (w2, true).
Proof.
  induction l1 as [|f1 l1 IH]; intros t f l2 w w1 w2 H1 Hc Hs.
  - cbn [segue_frames] in H1. destruct (crashed w) eqn:Hcw; inversion H1; subst.
    cbn [app]. rewrite segue_frames_cons by assumption. rewrite Hs. reflexivity.
  - cbn [app]. destruct (crashed w) eqn:Hcw.
    { cbn [segue_frames] in H1. rewrite Hcw in H1. discriminate. }
    rewrite segue_frames_cons in H1 |- * by assumption.
    destruct (precur P sub t f1 (preacts (getf P t f1)) w) as [w' r]. destruct r; [discriminate|].
    eapply IH; eauto.
Qed.

(* a transition whose conditions fail or whose target refuses entry changes nothing at all *)
Lemma transit_refused_noop t ns far w :
  (forallb (eval_need P t w) ns = false \/
   let '(ex, en, re) := ExEn P t (actives (gett w t)) far in framer_checkEnter P sub t en ex w = false) ->
  transit P sub t ns far w = (w, false).
Proof.
  intros [H|H]; unfold transit.
  - rewrite H. reflexivity.
  - destruct (negb (forallb (eval_need P t w) ns)); [reflexivity|].
    destruct (ExEn P t (actives (gett w t)) far) as [[ex en] re]. rewrite H. reflexivity.
Qed.

Lemma transit_taken t ns far w w' :
  transit P sub t ns far w = (w', true) ->
  forallb (eval_need P t w) ns = true /\
  let '(ex, en, re) := ExEn P t (actives (gett w t)) far in
  framer_checkEnter P sub t en ex w = true /\
  w' = guard (framer_enter P sub t en (framer_renter P sub t re (framer_rexit P sub t re (framer_exit P sub t ex (run_acts P sub t (tracts_of ns) w)))))
             (activate P t far).
Proof.
  unfold transit. intros H.
  destruct (forallb (eval_need P t w) ns); cbn [negb] in H; [|discriminate].
  split; [reflexivity|].
  destruct (ExEn P t (actives (gett w t)) far) as [[ex en] re].
  destruct (framer_checkEnter P sub t en ex w); cbn [negb] in H; [|discriminate].
  split; [reflexivity|]. inversion H. reflexivity.
Qed.

End S.
