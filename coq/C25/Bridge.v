(* C25 x C24 -- the error classification extracted from the code, composed with the stream model:
   whatever mixture of accepted counts and connection-loss / would-block ERRORS (as really
   classified by the send handlers of the four TCP connection classes) a socket produces, the
   queued byte stream is delivered exactly once and in order. *)
From Coq Require Import List ZArith Bool String.
Import ListNotations.
Require Import V.C25.Model V.gen.C25_Tables V.C25.Spec V.C25.Proofs.
Require V.C24.Model V.C24.Proofs.
Module S := V.C24.Model.

(* what a send handler's action means for serviceTxes: result 0 / cutoff + result 0 / exception *)
Definition sres_of_action (a : action) : S.sres :=
  match a with Quiet => S.SBlock | Cutoff => S.SCut | _ => S.SFail end.

(* the send handler of each TCP connection class (the serial driver has no table here) *)
Definition send_site (k : S.kind) : option trysite :=
  match k with
  | S.KClient => Some site_Client_send_0
  | S.KClientTls => Some site_ClientTls_send_0
  | S.KIncomer => Some site_Incomer_send_0
  | S.KIncomerTls => Some site_IncomerTls_send_0
  | S.KDriver => None
  end.

Definition is_tls (k : S.kind) : bool :=
  match k with S.KClientTls | S.KIncomerTls => true | _ => false end.

(* the errors the property talks about, per class *)
Definition tolerated (k : S.kind) : list errval :=
  if is_tls k then loss_errors ++ [tls_eof] ++ tls_wouldblock else loss_errors ++ plain_wouldblock.

(* one socket.send call: it takes n bytes, or raises e *)
Inductive sevent := Took (n : nat) | Raised (e : errval).

Definition lower_event (t : trysite) (ev : sevent) : S.sres :=
  match ev with Took n => S.Sent n | Raised e => sres_of_action (classify t e) end.

Inductive hop :=
| HTx (d : list Z) | HSvcTx (evs : list sevent) | HSvcRx (orc : list S.rres)
| HSvcRxOnce (r : S.rres) | HConn (b : bool) | HUncut.

Definition lower (t : trysite) (h : hop) : S.op :=
  match h with
  | HTx d => S.Tx d
  | HSvcTx evs => S.SvcTx (map (lower_event t) evs)
  | HSvcRx orc => S.SvcRx orc
  | HSvcRxOnce r => S.SvcRxOnce r
  | HConn b => S.SetConn b
  | HUncut => S.Uncut
  end.

Definition only_tolerated (k : S.kind) (h : hop) : Prop :=
  match h with HSvcTx evs => forall e, In (Raised e) evs -> In e (tolerated k) | _ => True end.

Lemma in_sites_plain k t : send_site k = Some t -> is_tls k = false -> In t plain_sites.
Proof. destruct k; cbn; intros H T; inversion H; subst; try discriminate; cbn; auto. Qed.

Lemma in_sites_tls k t : send_site k = Some t -> is_tls k = true -> In t tls_sites.
Proof. destruct k; cbn; intros H T; inversion H; subst; try discriminate; cbn; auto. Qed.

Lemma tolerated_benign k t e :
  send_site k = Some t -> In e (tolerated k) ->
  S.benign_s k (sres_of_action (classify t e)) = true.
Proof.
  intros Hs He. assert (Hd : S.is_driver k = false) by (destruct k; try reflexivity; discriminate).
  unfold tolerated in He. destruct (is_tls k) eqn:T.
  - pose proof (in_sites_tls k t Hs T) as Ht.
    apply in_app_or in He. destruct He as [He|He].
    + rewrite (loss_cuts_off t e (in_or_app _ _ _ (or_intror Ht)) He). cbn. rewrite Hd. reflexivity.
    + apply in_app_or in He. destruct He as [[He|[]]|He].
      * subst e. rewrite (tls_eof_cuts t Ht). cbn. rewrite Hd. reflexivity.
      * rewrite (tls_wb t e Ht He). reflexivity.
  - pose proof (in_sites_plain k t Hs T) as Ht.
    apply in_app_or in He. destruct He as [He|He].
    + rewrite (loss_cuts_off t e (in_or_app _ _ _ (or_introl Ht)) He). cbn. rewrite Hd. reflexivity.
    + rewrite (plain_wb t e Ht He). reflexivity.
Qed.

Lemma lower_benign k t h :
  send_site k = Some t -> only_tolerated k h -> S.benign_op k (lower t h) = true.
Proof.
  intros Hs Ho. destruct h as [d|evs|orc|r|b|]; cbn; try reflexivity.
  cbn in Ho. induction evs as [|ev evs IH]; [reflexivity|]. cbn.
  apply andb_true_iff. split.
  - destruct ev as [n|e]; cbn; [reflexivity|]. apply (tolerated_benign k t e Hs). apply Ho. left. reflexivity.
  - apply IH. intros e He. apply Ho. right. exact He.
Qed.

Lemma end_to_end k t w conn hs :
  send_site k = Some t -> (forall h, In h hs -> only_tolerated k h) ->
  let s := S.run k w conn (map (lower t) hs) in
  (S.accepted s ++ List.concat (S.txes s))%list = S.queued s.
Proof.
  intros Hs Ho. apply V.C24.Proofs.run_conserves.
  induction hs as [|h hs IH]; [reflexivity|]. cbn. apply andb_true_iff. split.
  - apply (lower_benign k t h Hs). apply Ho. left. reflexivity.
  - apply IH. intros h' Hh. apply Ho. right. exact Hh.
Qed.
