(* C25 -- the error sets named by the property, and the roles of the extracted sites.
   Definitions only; refers to the GENERATED tables (coq/gen/C25_Tables.v). *)
From Coq Require Import List ZArith Bool String.
Import ListNotations.
Require Import V.C25.Model V.gen.C25_Tables.
Open Scope Z_scope.

(* connection loss: reset, network/host unreachable or down, timed out, refused *)
Definition LOSS : list Z :=
  [ECONNRESET; ENETRESET; ENETUNREACH; EHOSTUNREACH; ENETDOWN; EHOSTDOWN; ETIMEDOUT; ECONNREFUSED].
Definition WOULDBLOCK : list Z := [EAGAIN; EWOULDBLOCK].
(* ints that a TLS site compares against ex.args[0] besides the errno's: SSL_ERROR_* codes live
   in a different numbering space than errno and collide with ENOENT(2) ESRCH(3) ENOEXEC(8) *)
Definition TLS_CODES : list Z := [SSL_ERROR_WANT_READ; SSL_ERROR_WANT_WRITE; SSL_ERROR_EOF].

Definition loss_errors : list errval := map oserr LOSS.
Definition tls_eof : errval := sslerr CSSLEOF SSL_ERROR_EOF.
Definition plain_wouldblock : list errval := map oserr WOULDBLOCK.
Definition tls_wouldblock : list errval :=
  [sslerr CSSLWantRead SSL_ERROR_WANT_READ; sslerr CSSLWantWrite SSL_ERROR_WANT_WRITE].

(* every errno of the platform that is neither loss nor would-block *)
Definition other_errnos : list Z :=
  filter (fun n => negb (memz n (LOSS ++ WOULDBLOCK))) all_errnos.
Definition other_errnos_tls : list Z :=
  filter (fun n => negb (memz n (LOSS ++ TLS_CODES))) all_errnos.
(* SSL-layer failures other than want-read/write and EOF, under every SSLError subclass *)
Definition other_ssl : list errval :=
  flat_map (fun code => if memz code TLS_CODES then []
                        else map (fun c => sslerr c code) [CSSLError; CSSLSyscall; CSSLZeroReturn; CSSLCertVerify])
           all_ssl_codes.
Definition other_errnos_gram : list Z :=
  filter (fun n => negb (memz n (LOSS ++ [ETIME]))) all_errnos.

(* stream I/O sites: receive/send of the four TCP connection classes *)
Definition plain_sites : list trysite :=
  [site_Client_receive_0; site_Client_send_0; site_Incomer_receive_0; site_Incomer_send_0].
Definition tls_sites : list trysite :=
  [site_ClientTls_receive_0; site_ClientTls_send_0; site_IncomerTls_receive_0; site_IncomerTls_send_0].
Definition handshake_sites : list trysite := [site_ClientTls_handshake_0; site_IncomerTls_handshake_0].

Definition every (ts : list trysite) (a : action) (es : list errval) : bool :=
  forallb (fun t => all_classified t a es) ts.
