(* C25 -- the retry CONSEQUENCE on the datagram stack: what happens to the packet queue when
   handler.send raises a transient destination error (classified Requeue by the extracted table of
   GramStack._serviceOneTxPkt) or another error (Raise), on EVERY service entry point.
   Hand model (tie H) of ioflo/aio/proto/stacking.py
     GramStack._serviceOneTxPkt / serviceTxPkts / serviceTxPktsOnce,
     Stack.serviceAllTx / serviceAllTxOnce (with an empty .txMsgs they are the two above),
     GramStack._serviceOneReceived, Stack.serviceReceives / serviceReceivesOnce / serviceAllRx(/Once).
   Definitions, then proofs.

   packet = (id, destination).  One oracle element per handler.send call:
     SOk         the datagram went out
     STransient  ECONNREFUSED ... ETIME: the packet goes to `laters`, its destination is blocked for
                 the rest of the pass, `laters` is put back on .txPkts at the end of the call (full
                 pass: the deque is empty by then; single shot: at the FRONT, appendleft)
     SFatal      any other errno: re-raised at once -- the popped packet is gone; the `laters` collected so
                 far in this call go back IN FRONT of the unpopped rest (finally clause, /repo 9b6e326)
   An exhausted oracle means SOk. *)
From Coq Require Import List ZArith Bool Arith Lia Permutation.
Import ListNotations.

Definition pkt := (Z * Z)%type.
Definition dst (p : pkt) : Z := snd p.
Definition memZ (x : Z) (l : list Z) : bool := existsb (Z.eqb x) l.

Inductive sres := SOk | STransient | SFatal.
Inductive rres := RData (d : Z) | RNone | RTransient | RFatal.

Record gs := {
  txq : list pkt;        (* .txPkts *)
  sent : list pkt;       (* ghost: datagrams the handler double sent, in order *)
  lost : list pkt;       (* ghost: packets dropped because a send error propagated *)
  queued : list pkt;     (* ghost: everything ever appended to .txPkts by the user *)
  rxq : list Z;          (* .rxPkts (ids of received datagrams) *)
  raised : nat           (* ghost: service calls that ended with an exception *)
}.
Definition ginit : gs := {| txq := []; sent := []; lost := []; queued := []; rxq := []; raised := 0 |}.

(* the pass of serviceTxPkts over the deque q:
   result = (what .txPkts holds afterwards, sent, lost, raised?) *)
Fixpoint pass (q laters : list pkt) (blk : list Z) (orc : list sres) (snt : list pkt)
  : list pkt * list pkt * list pkt * bool :=
  match q with
  | [] => (laters, snt, [], false)
  | p :: q' =>
      if memZ (dst p) blk then pass q' (laters ++ [p]) blk orc snt
      else match orc with
           | STransient :: orc' => pass q' (laters ++ [p]) (blk ++ [dst p]) orc' snt
           | SFatal :: _ => (laters ++ q', snt, [p], true)
           | SOk :: orc' => pass q' laters blk orc' (snt ++ [p])
           | [] => pass q' laters blk [] (snt ++ [p])
           end
  end.

Inductive gop :=
| Enq (p : pkt)
| TxAll (orc : list sres)      (* serviceTxPkts / serviceAllTx *)
| TxOnce (r : sres)            (* serviceTxPktsOnce / serviceAllTxOnce *)
| RxAll (orc : list rres)      (* serviceReceives / serviceAllRx *)
| RxOnce (r : rres).           (* serviceReceivesOnce / serviceAllRxOnce *)

(* _serviceOneReceived per handler.receive result: (continue?, raise?, received id) *)
Fixpoint rx_loop (orc : list rres) (acc : list Z) : list Z * bool :=
  match orc with
  | RData d :: orc' => rx_loop orc' (acc ++ [d])
  | RFatal :: _ => (acc, true)
  | _ => (acc, false)           (* nothing there / transient error / oracle exhausted: stop quietly *)
  end.

Definition gstep (s : gs) (o : gop) : gs :=
  match o with
  | Enq p => {| txq := txq s ++ [p]; sent := sent s; lost := lost s; queued := queued s ++ [p];
                rxq := rxq s; raised := raised s |}
  | TxAll orc =>
      let '(q', snt, lst, ex) := pass (txq s) [] [] orc [] in
      {| txq := q'; sent := sent s ++ snt; lost := lost s ++ lst; queued := queued s;
         rxq := rxq s; raised := if ex then S (raised s) else raised s |}
  | TxOnce r =>
      match txq s with
      | [] => s
      | p :: q' =>
          match r with
          | SOk => {| txq := q'; sent := sent s ++ [p]; lost := lost s; queued := queued s;
                      rxq := rxq s; raised := raised s |}
          | STransient => {| txq := p :: q'; sent := sent s; lost := lost s; queued := queued s;
                             rxq := rxq s; raised := raised s |}
          | SFatal => {| txq := q'; sent := sent s; lost := lost s ++ [p]; queued := queued s;
                         rxq := rxq s; raised := S (raised s) |}
          end
      end
  | RxAll orc =>
      let '(acc, ex) := rx_loop orc [] in
      {| txq := txq s; sent := sent s; lost := lost s; queued := queued s;
         rxq := rxq s ++ acc; raised := if ex then S (raised s) else raised s |}
  | RxOnce r =>
      match r with
      | RData d => {| txq := txq s; sent := sent s; lost := lost s; queued := queued s;
                      rxq := rxq s ++ [d]; raised := raised s |}
      | RFatal => {| txq := txq s; sent := sent s; lost := lost s; queued := queued s;
                     rxq := rxq s; raised := S (raised s) |}
      | _ => s
      end
  end.

Definition grun (ops : list gop) : gs := fold_left gstep ops ginit.

(* no propagating (non-transient) error anywhere in the history *)
Definition no_fatal (o : gop) : bool :=
  match o with
  | TxAll orc => forallb (fun r => match r with SFatal => false | _ => true end) orc
  | TxOnce SFatal => false
  | RxAll orc => forallb (fun r => match r with RFatal => false | _ => true end) orc
  | RxOnce RFatal => false
  | _ => true
  end.

(* ------------------------------------------------------------------ proofs *)
Lemma pass_perm : forall q laters blk orc snt q' snt' lst ex,
  pass q laters blk orc snt = (q', snt', lst, ex) ->
  Permutation (snt' ++ q' ++ lst) (snt ++ laters ++ q) /\
  (ex = false -> lst = []) /\
  (forallb (fun r => match r with SFatal => false | _ => true end) orc = true -> ex = false).
Proof.
  induction q as [|p q IH]; intros laters blk orc snt q' snt' lst ex H; cbn [pass] in H.
  - inversion H; subst. rewrite !app_nil_r. auto.
  - destruct (memZ (dst p) blk).
    + destruct (IH _ _ _ _ _ _ _ _ H) as [P [L F]]. split; [|auto].
      rewrite P. rewrite <- !app_assoc. reflexivity.
    + destruct orc as [|[| |] orc].
      * destruct (IH _ _ _ _ _ _ _ _ H) as [P [L F]]. split; [|auto].
        rewrite P. rewrite <- !app_assoc. cbn. apply Permutation_app_head. apply Permutation_middle.
      * destruct (IH _ _ _ _ _ _ _ _ H) as [P [L F]]. split; [|split; [exact L|]].
        -- rewrite P. rewrite <- !app_assoc. cbn. apply Permutation_app_head. apply Permutation_middle.
        -- intro Hb. apply F. cbn in Hb. exact Hb.
      * destruct (IH _ _ _ _ _ _ _ _ H) as [P [L F]]. split; [|split; [exact L|]].
        -- rewrite P. rewrite <- !app_assoc. reflexivity.
        -- intro Hb. apply F. cbn in Hb. exact Hb.
      * inversion H; subst. split; [|split; [discriminate|cbn; discriminate]].
        apply Permutation_app_head. rewrite <- app_assoc. apply Permutation_app_head.
        apply Permutation_sym. apply Permutation_cons_append.
Qed.

Definition accounted (s : gs) : Prop := Permutation (sent s ++ txq s ++ lost s) (queued s).

Lemma perm_ok (a q l : list pkt) p : Permutation ((a ++ [p]) ++ q ++ l) (a ++ (p :: q) ++ l).
Proof. rewrite <- app_assoc. reflexivity. Qed.
Lemma perm_fa (a q l : list pkt) p : Permutation (a ++ q ++ (l ++ [p])) (a ++ (p :: q) ++ l).
Proof.
  apply Permutation_app_head. rewrite app_assoc. cbn.
  apply Permutation_sym. apply (Permutation_cons_append (q ++ l) p).
Qed.

Lemma gstep_accounted s o : accounted s -> accounted (gstep s o).
Proof.
  unfold accounted. intro A. destruct o as [p|orc|r|orc|r]; cbn [gstep].
  - cbn [txq sent lost queued].
    apply Permutation_trans with ((sent s ++ txq s ++ lost s) ++ [p]); [|apply Permutation_app_tail; exact A].
    rewrite <- !app_assoc. apply Permutation_app_head. apply Permutation_app_head. apply Permutation_app_comm.
  - destruct (pass (txq s) [] [] orc []) as [[[q' snt] lst] ex] eqn:E.
    destruct (pass_perm _ _ _ _ _ _ _ _ _ E) as [P _]. cbn [app] in P.
    cbn [txq sent lost queued].
    apply Permutation_trans with (sent s ++ txq s ++ lost s); [|exact A].
    rewrite <- app_assoc. apply Permutation_app_head.
    apply Permutation_trans with ((snt ++ q' ++ lst) ++ lost s).
    + rewrite <- !app_assoc. apply Permutation_app_head. apply Permutation_app_head. apply Permutation_app_comm.
    + rewrite app_assoc. apply Permutation_app_tail. rewrite <- app_assoc.
      apply Permutation_trans with ([] ++ [] ++ txq s); [exact P|reflexivity].
  - destruct (txq s) as [|p q'] eqn:Et; [rewrite Et; exact A|].
    destruct r; cbn [txq sent lost queued].
    + eapply Permutation_trans; [apply perm_ok|exact A].
    + exact A.
    + eapply Permutation_trans; [apply perm_fa|exact A].
  - destruct (rx_loop orc []) as [acc ex]. cbn [txq sent lost queued]. exact A.
  - destruct r; cbn [txq sent lost queued]; exact A.
Qed.

Lemma grun_accounted ops : accounted (grun ops).
Proof.
  unfold grun. assert (G : forall ops s, accounted s -> accounted (fold_left gstep ops s)).
  { induction ops0 as [|o ops0 IH]; intros s Hs; [exact Hs|]. cbn. apply IH. apply gstep_accounted. exact Hs. }
  apply G. unfold accounted. cbn. constructor.
Qed.

Definition clean (s : gs) : Prop := lost s = [] /\ raised s = 0.

Lemma rx_loop_quiet : forall orc acc,
  forallb (fun r => match r with RFatal => false | _ => true end) orc = true -> snd (rx_loop orc acc) = false.
Proof.
  induction orc as [|[d| | |] orc IH]; intros acc H; cbn in *; try reflexivity; [apply IH; exact H|discriminate].
Qed.

Lemma gstep_clean s o : no_fatal o = true -> clean s -> clean (gstep s o).
Proof.
  unfold clean. intros Hn [L R]. destruct o as [p|orc|r|orc|r]; cbn [gstep].
  - cbn. auto.
  - destruct (pass (txq s) [] [] orc []) as [[[q' snt] lst] ex] eqn:E.
    destruct (pass_perm _ _ _ _ _ _ _ _ _ E) as [_ [Hl Hf]]. cbn in Hn.
    rewrite (Hf Hn) in *. cbn. rewrite (Hl eq_refl), L, R. auto.
  - destruct (txq s) as [|p q']; [auto|]. destruct r; cbn; auto. discriminate.
  - destruct (rx_loop orc []) as [acc ex] eqn:E. cbn in Hn.
    pose proof (rx_loop_quiet orc [] Hn) as Q. rewrite E in Q. cbn in Q. subst. cbn. auto.
  - destruct r; cbn; auto. discriminate.
Qed.

Lemma grun_transient_never_loses ops :
  forallb no_fatal ops = true ->
  lost (grun ops) = [] /\ raised (grun ops) = 0 /\
  Permutation (sent (grun ops) ++ txq (grun ops)) (queued (grun ops)).
Proof.
  intro H. assert (C : clean (grun ops)).
  { unfold grun. assert (G : forall ops s, forallb no_fatal ops = true -> clean s -> clean (fold_left gstep ops s)).
    { induction ops0 as [|o ops0 IH]; intros s Hb Hs; [exact Hs|]. cbn in Hb. apply andb_true_iff in Hb.
      destruct Hb. cbn. apply IH; [assumption|]. apply gstep_clean; assumption. }
    apply G; [exact H|split; reflexivity]. }
  destruct C as [L R]. split; [exact L|split; [exact R|]].
  pose proof (grun_accounted ops) as A. unfold accounted in A. rewrite L, app_nil_r in A. exact A.
Qed.

(* the single-shot path keeps a transiently failed head packet where it was: at the head *)
Lemma once_transient_keeps p q s : txq s = p :: q ->
  txq (gstep s (TxOnce STransient)) = p :: q /\ sent (gstep s (TxOnce STransient)) = sent s /\
  lost (gstep s (TxOnce STransient)) = lost s /\ raised (gstep s (TxOnce STransient)) = raised s.
Proof. intro E. cbn [gstep]. rewrite E. cbn. auto. Qed.

(* histories that use only the single-shot tx entry points (and any rx entry point), without a
   propagating send error *)
Definition single_shot (o : gop) : bool :=
  match o with
  | Enq _ | TxOnce SOk | TxOnce STransient | RxAll _ | RxOnce _ => true
  | _ => false
  end.

(* on that path the order is preserved EXACTLY: sent followed by still queued IS the queued
   sequence (so in particular per destination) *)
Lemma single_shot_keeps_order ops :
  forallb single_shot ops = true -> sent (grun ops) ++ txq (grun ops) = queued (grun ops).
Proof.
  unfold grun.
  assert (G : forall ops s, forallb single_shot ops = true -> sent s ++ txq s = queued s ->
              sent (fold_left gstep ops s) ++ txq (fold_left gstep ops s) = queued (fold_left gstep ops s)).
  { induction ops0 as [|o ops0 IH]; intros s Hb Hs; [exact Hs|]. cbn in Hb. apply andb_true_iff in Hb.
    destruct Hb as [Ho Hb]. cbn [fold_left]. apply IH; [exact Hb|].
    destruct o as [p|orc|r|orc|r]; cbn [gstep]; try discriminate.
    - cbn. rewrite app_assoc, Hs. reflexivity.
    - destruct (txq s) as [|p q'] eqn:Et; [rewrite Et; exact Hs|].
      destruct r; try discriminate; cbn; [|exact Hs]. rewrite <- Hs, <- app_assoc. reflexivity.
    - destruct (rx_loop orc []) as [acc ex]. cbn. exact Hs.
    - destruct r; cbn; exact Hs. }
  intro H. apply G; [exact H|reflexivity].
Qed.

(* after a transient failure, a later full pass with no failure sends everything that is queued *)
Lemma pass_all_ok : forall q snt, pass q [] [] [] snt = ([], snt ++ q, [], false).
Proof. induction q as [|p q IH]; intro snt; cbn; [rewrite app_nil_r; reflexivity|]. rewrite IH, <- app_assoc. reflexivity. Qed.

Lemma later_pass_sends_all s :
  txq (gstep s (TxAll [])) = [] /\ sent (gstep s (TxAll [])) = sent s ++ txq s.
Proof. cbn [gstep]. rewrite pass_all_ok. cbn. auto. Qed.

(* receive side: transient errors are quiet; the receive queue only grows *)
Lemma rx_grows s o : exists new, rxq (gstep s o) = rxq s ++ new.
Proof.
  destruct o as [p|orc|r|orc|r]; cbn [gstep].
  - exists []. cbn. rewrite app_nil_r. reflexivity.
  - destruct (pass (txq s) [] [] orc []) as [[[q' snt] lst] ex]. exists []. cbn. rewrite app_nil_r. reflexivity.
  - exists []. destruct (txq s); [rewrite app_nil_r; reflexivity|]. destruct r; cbn; rewrite app_nil_r; reflexivity.
  - destruct (rx_loop orc []) as [acc ex]. exists acc. reflexivity.
  - destruct r; cbn; eexists; try reflexivity; rewrite app_nil_r; reflexivity.
Qed.
