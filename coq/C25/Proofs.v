(* C25 -- proofs: finite, exhaustive over (sites x error universe), by computation on the
   GENERATED tables *)
From Coq Require Import List ZArith Bool String.
Import ListNotations.
Require Import V.C25.Model V.gen.C25_Tables V.C25.Spec.
Open Scope Z_scope.

Lemma all_classified_spec t a es :
  all_classified t a es = true -> forall e, In e es -> classify t e = a.
Proof.
  unfold all_classified. intros H e He. rewrite forallb_forall in H. specialize (H e He).
  destruct (classify t e), a; congruence.
Qed.

Lemma every_spec ts a es :
  every ts a es = true -> forall t e, In t ts -> In e es -> classify t e = a.
Proof.
  unfold every. intros H t e Ht He. rewrite forallb_forall in H.
  exact (all_classified_spec t a es (H t Ht) e He).
Qed.

Lemma in_map_oserr n l : In n l -> In (oserr n) (map oserr l).
Proof. apply in_map. Qed.

Lemma in_filter_not n bad l : In n l -> memz n bad = false ->
  In n (filter (fun n => negb (memz n bad)) l).
Proof. intros H1 H2. apply filter_In. split; [exact H1|]. rewrite H2. reflexivity. Qed.

(* ---- stream sites ---- *)
Lemma loss_cuts_off : forall t e, In t (plain_sites ++ tls_sites) -> In e loss_errors ->
  classify t e = Cutoff.
Proof. apply every_spec. vm_compute. reflexivity. Qed.

Lemma tls_eof_cuts : forall t, In t tls_sites -> classify t tls_eof = Cutoff.
Proof. intros t Ht. apply (every_spec tls_sites Cutoff [tls_eof]); [vm_compute; reflexivity|exact Ht|left; reflexivity]. Qed.

Lemma plain_wb : forall t e, In t plain_sites -> In e plain_wouldblock -> classify t e = Quiet.
Proof. apply every_spec. vm_compute. reflexivity. Qed.

Lemma tls_wb : forall t e, In t tls_sites -> In e tls_wouldblock -> classify t e = Quiet.
Proof. apply every_spec. vm_compute. reflexivity. Qed.

Lemma plain_others : forall t n, In t plain_sites -> In n all_errnos ->
  memz n (LOSS ++ WOULDBLOCK) = false -> classify t (oserr n) = Raise.
Proof.
  intros t n Ht Hn Hm. apply (every_spec plain_sites Raise (map oserr other_errnos));
    [vm_compute; reflexivity|exact Ht|]. apply in_map_oserr. apply in_filter_not; assumption.
Qed.

Lemma tls_others : forall t n, In t tls_sites -> In n all_errnos ->
  memz n (LOSS ++ TLS_CODES) = false -> classify t (oserr n) = Raise.
Proof.
  intros t n Ht Hn Hm. apply (every_spec tls_sites Raise (map oserr other_errnos_tls));
    [vm_compute; reflexivity|exact Ht|]. apply in_map_oserr. apply in_filter_not; assumption.
Qed.

Lemma tls_other_ssl : forall t e, In t tls_sites -> In e other_ssl -> classify t e = Raise.
Proof. apply every_spec. vm_compute. reflexivity. Qed.

Lemma timeout_raises : forall t, In t (plain_sites ++ tls_sites) -> classify t timeout_err = Raise.
Proof. intros t Ht. apply (every_spec (plain_sites ++ tls_sites) Raise [timeout_err]); [vm_compute; reflexivity|exact Ht|left; reflexivity]. Qed.

(* ---- datagram ---- *)
Lemma gram_tx_retry : forall e, In e loss_errors ->
  classify site_GramStack__serviceOneTxPkt_0 e = Requeue.
Proof. intros e He. apply (all_classified_spec _ Requeue loss_errors); [vm_compute; reflexivity|exact He]. Qed.

Lemma gram_rx_retry : forall e, In e loss_errors ->
  classify site_GramStack__serviceOneReceived_0 e = Quiet.
Proof. intros e He. apply (all_classified_spec _ Quiet loss_errors); [vm_compute; reflexivity|exact He]. Qed.

Lemma gram_others : forall n, In n all_errnos -> memz n (LOSS ++ [ETIME]) = false ->
  classify site_GramStack__serviceOneTxPkt_0 (oserr n) = Raise /\
  classify site_GramStack__serviceOneReceived_0 (oserr n) = Raise.
Proof.
  intros n Hn Hm.
  assert (Hi : In (oserr n) (map oserr other_errnos_gram)) by (apply in_map_oserr; apply in_filter_not; assumption).
  split; (apply (all_classified_spec _ Raise (map oserr other_errnos_gram)); [vm_compute; reflexivity|exact Hi]).
Qed.

Lemma udp_sites : (forall e, In e plain_wouldblock -> classify site_SocketUdpNb_receive_0 e = Quiet) /\
  (forall n, In n all_errnos -> memz n WOULDBLOCK = false ->
     classify site_SocketUdpNb_receive_0 (oserr n) = Raise) /\
  (forall n, In n all_errnos -> classify site_SocketUdpNb_send_0 (oserr n) = Raise).
Proof.
  split; [|split].
  - intros e He. apply (all_classified_spec _ Quiet plain_wouldblock); [vm_compute; reflexivity|exact He].
  - intros n Hn Hm.
    apply (all_classified_spec _ Raise (map oserr (filter (fun n => negb (memz n WOULDBLOCK)) all_errnos)));
      [vm_compute; reflexivity|]. apply in_map_oserr. apply in_filter_not; assumption.
  - intros n Hn. apply (all_classified_spec _ Raise (map oserr all_errnos)); [vm_compute; reflexivity|].
    apply in_map_oserr. exact Hn.
Qed.

(* ---- connect / accept / handshake ---- *)
Lemma handshake_sites_ok :
  (forall t e, In t handshake_sites -> In e tls_wouldblock -> classify t e = Quiet) /\
  (forall t e, In t handshake_sites -> In e (tls_eof :: other_ssl ++ map oserr all_errnos ++ [timeout_err]) ->
     classify t e = RaiseClose).
Proof. split; (apply every_spec; vm_compute; reflexivity). Qed.

Lemma accept_connect_sites :
  (forall e, In e plain_wouldblock -> classify site_Acceptor_accept_0 e = Quiet) /\
  (forall n, In n all_errnos -> memz n WOULDBLOCK = false ->
     classify site_Acceptor_accept_0 (oserr n) = Raise) /\
  (forall n, In n all_errnos -> classify site_Client_accept_0 (oserr n) = Raise).
Proof.
  split; [|split].
  - intros e He. apply (all_classified_spec _ Quiet plain_wouldblock); [vm_compute; reflexivity|exact He].
  - intros n Hn Hm.
    apply (all_classified_spec _ Raise (map oserr (filter (fun n => negb (memz n WOULDBLOCK)) all_errnos)));
      [vm_compute; reflexivity|]. apply in_map_oserr. apply in_filter_not; assumption.
  - intros n Hn. apply (all_classified_spec _ Raise (map oserr all_errnos)); [vm_compute; reflexivity|].
    apply in_map_oserr. exact Hn.
Qed.

Lemma quiet_no_change c : cutoff_after Quiet c = c /\ propagates Quiet = false.
Proof. split; reflexivity. Qed.

(* ---- the errno / SSL-code conflation on TLS sites, exactly ---- *)
Definition tls_deviation_check : bool :=
  forallb (fun t => forallb (fun n =>
     Bool.eqb (action_eqb (classify t (oserr n)) (if memz n LOSS then Cutoff else Raise))
              (negb (memz n TLS_CODES))) all_errnos) tls_sites.

Lemma tls_conflation_exactly : forall t n, In t tls_sites -> In n all_errnos ->
  action_eqb (classify t (oserr n)) (if memz n LOSS then Cutoff else Raise) = negb (memz n TLS_CODES).
Proof.
  assert (H : tls_deviation_check = true) by (vm_compute; reflexivity).
  intros t n Ht Hn. unfold tls_deviation_check in H. rewrite forallb_forall in H.
  specialize (H t Ht). rewrite forallb_forall in H. specialize (H n Hn).
  apply Bool.eqb_prop in H. exact H.
Qed.
