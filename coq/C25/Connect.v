(* C25 -- the RETURN code of connect_ex in Client.accept (inherited by ClientTls): which codes mean
   connected, which make the client throw its socket away and open a new one, and which leave the
   pending connection attempt alone.  The two code lists are EXTRACTED from the source
   (coq/gen/C25_Tables.v: connect_ok_codes, connect_reopen_codes); this file interprets them.
   Definitions, then proofs. *)
From Coq Require Import List ZArith Bool.
Import ListNotations.
Require Import V.C25.Model V.gen.C25_Tables.
Open Scope Z_scope.

(* sockid = which socket object the client holds (incremented by every reopen); accepted = .accepted *)
Record cst := { sockid : nat; accepted : bool }.

Inductive coutcome := CConnected | CReopened | CPending.

Definition connect_class (code : Z) : coutcome :=
  if memz code connect_ok_codes then CConnected
  else if memz code connect_reopen_codes then CReopened else CPending.

(* one Client.accept() call whose connect_ex returned `code`: (state, return value) *)
Definition connect_step (s : cst) (code : Z) : cst * bool :=
  match connect_class code with
  | CConnected => ({| sockid := sockid s; accepted := true |}, true)
  | CReopened => ({| sockid := S (sockid s); accepted := false |}, false)   (* open() clears the flags *)
  | CPending => (s, false)
  end.

(* successive attempts while not connected (serviceConnect stops calling once connected) *)
Fixpoint connect_run (s : cst) (codes : list Z) : cst :=
  match codes with
  | [] => s
  | c :: cs => if accepted s then s else connect_run (fst (connect_step s c)) cs
  end.

(* the would-block class of a non-blocking connect: still in progress / try again *)
Definition CONNECT_WOULDBLOCK : list Z := [EINPROGRESS; EALREADY; EAGAIN; EWOULDBLOCK; EINTR].

Lemma wouldblock_pending : forallb (fun c => match connect_class c with CPending => true | _ => false end)
                                   CONNECT_WOULDBLOCK = true.
Proof. vm_compute. reflexivity. Qed.

Lemma wouldblock_keeps_socket c s : In c CONNECT_WOULDBLOCK -> connect_step s c = (s, false).
Proof.
  intro Hc. pose proof wouldblock_pending as H. rewrite forallb_forall in H. specialize (H c Hc).
  unfold connect_step. destruct (connect_class c); try discriminate. reflexivity.
Qed.

Lemma wouldblock_run_keeps : forall codes s,
  (forall c, In c codes -> In c CONNECT_WOULDBLOCK) -> connect_run s codes = s.
Proof.
  induction codes as [|c codes IH]; intros s H; [reflexivity|]. cbn [connect_run].
  destruct (accepted s) eqn:A; [reflexivity|].
  rewrite (wouldblock_keeps_socket c s (H c (or_introl eq_refl))). cbn [fst].
  apply IH. intros c' Hc'. apply H. right. exact Hc'.
Qed.

(* any number of would-block results, then success: connected on the SAME socket *)
Lemma pending_then_connected codes s ok :
  accepted s = false -> (forall c, In c codes -> In c CONNECT_WOULDBLOCK) -> In ok connect_ok_codes ->
  connect_run s (codes ++ [ok]) = {| sockid := sockid s; accepted := true |}.
Proof.
  intros A H Hok. revert s A. induction codes as [|c codes IH]; intros s A.
  - cbn. rewrite A. unfold connect_step, connect_class.
    assert (M : memz ok connect_ok_codes = true).
    { unfold memz. apply existsb_exists. exists ok. split; [exact Hok|apply Z.eqb_refl]. }
    rewrite M. reflexivity.
  - cbn [app connect_run]. rewrite A.
    rewrite (wouldblock_keeps_socket c s (H c (or_introl eq_refl))). cbn [fst].
    apply IH; [intros c' Hc'; apply H; right; exact Hc'|exact A].
Qed.

Lemma connect_classes_as_documented :
  connect_class 0 = CConnected /\ connect_class EISCONN = CConnected /\
  connect_class EINVAL = CReopened /\ connect_class ECONNREFUSED = CReopened /\
  forallb (fun c => match connect_class c with CPending => true | _ => false end)
          (filter (fun c => negb (memz c [0; EISCONN; EINVAL; ECONNREFUSED])) (0 :: all_errnos)) = true.
Proof. vm_compute. repeat split; reflexivity. Qed.
