(* C25 -- property theorems only.  Each closed by [exact]; Print Assumptions beneath.
   All statements are about the decision tables GENERATED from the except clauses of the
   implementation (coq/gen/C25_Tables.v), interpreted by V.C25.Model.classify.  The domains are
   finite and named in the statements: the extracted sites x (every errno of the platform, every
   SSL error code under every SSLError subclass, socket.timeout). *)
From Coq Require Import List ZArith Bool String.
Import ListNotations.
Require Import V.C25.Model V.gen.C25_Tables V.C25.Spec V.C25.Proofs V.C25.Bridge V.C25.Gram V.C25.Connect.
From Coq Require Import Permutation.
Require V.C24.Model.
Open Scope Z_scope.

(* connection loss (reset, net/host unreachable or down, timed out, refused) raised by recv/send
   of Client, ClientTls, Incomer, IncomerTls: cutoff is set, an empty result is returned, nothing
   is raised *)
Theorem loss_set_cuts_off : forall t e, In t (plain_sites ++ tls_sites) -> In e loss_errors ->
  classify t e = Cutoff.
Proof. exact loss_cuts_off. Qed.
Print Assumptions loss_set_cuts_off.

(* TLS EOF (ssl.SSLEOFError, code SSL_ERROR_EOF) on the TLS classes cuts off as well *)
Theorem tls_eof_cuts_off : forall t, In t tls_sites -> classify t tls_eof = Cutoff.
Proof. exact tls_eof_cuts. Qed.
Print Assumptions tls_eof_cuts_off.

(* would-block (EAGAIN/EWOULDBLOCK; TLS: SSLWantRead/WriteError) changes no connection state and
   raises nothing *)
Theorem wouldblock_no_state_change :
  (forall t e, In t plain_sites -> In e plain_wouldblock -> classify t e = Quiet) /\
  (forall t e, In t tls_sites -> In e tls_wouldblock -> classify t e = Quiet) /\
  (forall c, cutoff_after Quiet c = c /\ propagates Quiet = false).
Proof. exact (conj plain_wb (conj tls_wb quiet_no_change)). Qed.
Print Assumptions wouldblock_no_state_change.

(* any other error propagates: every other errno of the platform, every other SSL failure,
   socket.timeout.  (On TLS sites the ints SSL_ERROR_WANT_READ/WRITE/EOF = 2/3/8 are excluded:
   the code compares ex.args[0] against errno's and SSL codes alike, see tls_int_conflation.) *)
Theorem others_raise :
  (forall t n, In t plain_sites -> In n all_errnos -> memz n (LOSS ++ WOULDBLOCK) = false ->
     classify t (oserr n) = Raise) /\
  (forall t n, In t tls_sites -> In n all_errnos -> memz n (LOSS ++ TLS_CODES) = false ->
     classify t (oserr n) = Raise) /\
  (forall t e, In t tls_sites -> In e other_ssl -> classify t e = Raise) /\
  (forall t, In t (plain_sites ++ tls_sites) -> classify t timeout_err = Raise).
Proof. exact (conj plain_others (conj tls_others (conj tls_other_ssl timeout_raises))). Qed.
Print Assumptions others_raise.

(* THE CONFLATION, EXACTLY.  On the TLS recv/send handlers an OSError with errno n is treated as the
   property demands (loss -> cutoff, every other errno -> propagates) for EVERY errno of the
   platform except exactly the three whose number equals an SSL code the handler also tests
   ex.args[0] against: 2 = ENOENT = SSL_ERROR_WANT_READ, 3 = ESRCH = SSL_ERROR_WANT_WRITE (taken
   for would-block) and 8 = ENOEXEC = SSL_ERROR_EOF (taken for TLS EOF). *)
Theorem tls_errno_conflation_is_exactly_the_ssl_codes : forall t n,
  In t tls_sites -> In n all_errnos ->
  action_eqb (classify t (oserr n)) (if memz n LOSS then Cutoff else Raise) = negb (memz n TLS_CODES).
Proof. exact tls_conflation_exactly. Qed.
Print Assumptions tls_errno_conflation_is_exactly_the_ssl_codes.

(* datagram stack: a transient destination error on send re-queues the packet and blocks only
   that destination; on receive it yields "nothing received"; neither raises; every other errno
   propagates from both *)
Theorem gram_transient_retry :
  (forall e, In e loss_errors -> classify site_GramStack__serviceOneTxPkt_0 e = Requeue) /\
  (forall e, In e loss_errors -> classify site_GramStack__serviceOneReceived_0 e = Quiet) /\
  (forall n, In n all_errnos -> memz n (LOSS ++ [ETIME]) = false ->
     classify site_GramStack__serviceOneTxPkt_0 (oserr n) = Raise /\
     classify site_GramStack__serviceOneReceived_0 (oserr n) = Raise).
Proof. exact (conj gram_tx_retry (conj gram_rx_retry gram_others)). Qed.
Print Assumptions gram_transient_retry.

(* the UDP socket wrapper: recvfrom would-block is "no data", everything else (and every sendto
   error) propagates to the stack *)
Theorem udp_socket_sites :
  (forall e, In e plain_wouldblock -> classify site_SocketUdpNb_receive_0 e = Quiet) /\
  (forall n, In n all_errnos -> memz n WOULDBLOCK = false ->
     classify site_SocketUdpNb_receive_0 (oserr n) = Raise) /\
  (forall n, In n all_errnos -> classify site_SocketUdpNb_send_0 (oserr n) = Raise).
Proof. exact udp_sites. Qed.
Print Assumptions udp_socket_sites.

(* handshake: want-read/write = try again; every other failure closes the socket and propagates.
   accept: would-block = nothing yet, others propagate.  connect: every error propagates. *)
Theorem handshake_accept_connect :
  ((forall t e, In t handshake_sites -> In e tls_wouldblock -> classify t e = Quiet) /\
   (forall t e, In t handshake_sites ->
      In e (tls_eof :: other_ssl ++ map oserr all_errnos ++ [timeout_err]) -> classify t e = RaiseClose)) /\
  ((forall e, In e plain_wouldblock -> classify site_Acceptor_accept_0 e = Quiet) /\
   (forall n, In n all_errnos -> memz n WOULDBLOCK = false ->
      classify site_Acceptor_accept_0 (oserr n) = Raise) /\
   (forall n, In n all_errnos -> classify site_Client_accept_0 (oserr n) = Raise)).
Proof. exact (conj handshake_sites_ok accept_connect_sites). Qed.
Print Assumptions handshake_accept_connect.

(* END TO END with the stream model of C24: for Client, ClientTls, Incomer, IncomerTls, any
   history of tx() / serviceTxes / serviceReceives / reconnects in which every socket.send call
   either takes some count of bytes or raises one of the errors the property names (connection
   loss, TLS EOF, would-block) -- classified by the send handler's EXTRACTED table -- the bytes
   accepted so far followed by what is still queued are exactly the queued stream, in order. *)
Theorem tx_once_in_order_under_classified_errors : forall k t w conn hs,
  send_site k = Some t -> (forall h, In h hs -> only_tolerated k h) ->
  let s := V.C24.Model.run k w conn (map (lower t) hs) in
  (V.C24.Model.accepted s ++ List.concat (V.C24.Model.txes s))%list = V.C24.Model.queued s.
Proof. exact end_to_end. Qed.
Print Assumptions tx_once_in_order_under_classified_errors.

(* THE RETRY CONSEQUENCE on the datagram stack (model V.C25.Gram of GramStack serviceTxPkts /
   serviceTxPktsOnce / serviceAllTx / serviceAllTxOnce and of the receive entry points), over
   EVERY history of enqueues and service calls through any entry point and EVERY oracle:
   - every packet is accounted for: sent ++ still queued ++ dropped-by-a-propagating-error is a
     permutation of everything queued (nothing duplicated, nothing vanishes silently);
   - if no send / receive error of the history is a propagating one (only transient destination
     errors, which the extracted table classifies Requeue / Quiet), NOTHING is dropped and nothing
     is raised: sent ++ still queued is a permutation of everything queued -- a transient send
     error never loses a packet, on the full pass and on the single-shot path alike;
   - the single-shot path keeps a transiently failed head packet AT THE HEAD of the deque, and a later
     pass without failures sends everything that is queued;
   - the receive queue only ever grows;
   - on histories that use only the single-shot tx entry points (no propagating send error) the
     ORDER is preserved exactly: sent followed by still queued is the queued sequence itself (hence
     also per destination). *)
Theorem gram_transient_error_never_loses_a_packet :
  (forall ops, Permutation (sent (grun ops) ++ txq (grun ops) ++ lost (grun ops))%list (queued (grun ops))) /\
  (forall ops, forallb no_fatal ops = true ->
     lost (grun ops) = [] /\ raised (grun ops) = 0%nat /\
     Permutation (sent (grun ops) ++ txq (grun ops))%list (queued (grun ops))) /\
  (forall p q s, txq s = p :: q ->
     txq (gstep s (TxOnce STransient)) = (p :: q)%list /\ sent (gstep s (TxOnce STransient)) = sent s /\
     lost (gstep s (TxOnce STransient)) = lost s /\ raised (gstep s (TxOnce STransient)) = raised s) /\
  (forall s, txq (gstep s (TxAll [])) = [] /\ sent (gstep s (TxAll [])) = (sent s ++ txq s)%list) /\
  (forall s o, exists new, rxq (gstep s o) = (rxq s ++ new)%list) /\
  (forall ops, forallb single_shot ops = true ->
     (sent (grun ops) ++ txq (grun ops))%list = queued (grun ops)).
Proof.
  exact (conj grun_accounted (conj grun_transient_never_loses (conj once_transient_keeps
        (conj later_pass_sends_all (conj rx_grows single_shot_keeps_order))))).
Qed.
Print Assumptions gram_transient_error_never_loses_a_packet.

(* THE RETURN CODE OF connect_ex (Client.accept, inherited by ClientTls; code lists EXTRACTED from
   the source).  Every would-block class code of a non-blocking connect -- EINPROGRESS, EALREADY,
   EAGAIN, EWOULDBLOCK, EINTR -- changes NO connection state: same socket, not connected, result
   False; any sequence of them leaves the client as it was; any sequence of them followed by 0 or
   EISCONN ends connected ON THE SAME SOCKET; 0 / EISCONN connect, EINVAL / ECONNREFUSED reopen, and
   every other errno of the platform is left pending. *)
Theorem connect_wouldblock_keeps_the_socket :
  (forall c s, In c CONNECT_WOULDBLOCK -> connect_step s c = (s, false)) /\
  (forall codes s, (forall c, In c codes -> In c CONNECT_WOULDBLOCK) -> connect_run s codes = s) /\
  (forall codes s ok, accepted s = false -> (forall c, In c codes -> In c CONNECT_WOULDBLOCK) ->
     In ok connect_ok_codes ->
     connect_run s (codes ++ [ok])%list = {| sockid := sockid s; accepted := true |}) /\
  (connect_class 0 = CConnected /\ connect_class EISCONN = CConnected /\
   connect_class EINVAL = CReopened /\ connect_class ECONNREFUSED = CReopened /\
   forallb (fun c => match connect_class c with CPending => true | _ => false end)
           (filter (fun c => negb (memz c [0; EISCONN; EINVAL; ECONNREFUSED])) (0 :: all_errnos)) = true).
Proof.
  exact (conj (fun c s => wouldblock_keeps_socket c s) (conj wouldblock_run_keeps
        (conj pending_then_connected connect_classes_as_documented))).
Qed.
Print Assumptions connect_wouldblock_keeps_the_socket.

(* non-vacuity / documented wart: the universes are not empty, and on a TLS site an OSError whose
   errno happens to equal an SSL code is taken for that SSL condition (ENOENT = 2 = WANT_READ) *)
Example c25_universe_sizes :
  (8 <=? Z.of_nat (List.length loss_errors)) && (100 <=? Z.of_nat (List.length other_errnos))
  && (20 <=? Z.of_nat (List.length other_ssl)) = true.
Proof. vm_compute. reflexivity. Qed.
Example tls_int_conflation :
  classify site_IncomerTls_receive_0 (oserr ENOENT) = Quiet /\
  classify site_Incomer_receive_0 (oserr ENOENT) = Raise.
Proof. vm_compute. split; reflexivity. Qed.
