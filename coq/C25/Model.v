(* C25 -- transport error classification.
   Types of the decision tables that props/C25/translate.py EXTRACTS (tie T) from every
   `except socket.error / ssl.SSLError / OSError / Exception` handler of
     ioflo/aio/tcp/clienting.py, ioflo/aio/tcp/serving.py, ioflo/aio/udp/udping.py,
     ioflo/aio/proto/stacking.py
   into coq/gen/C25_Tables.v, and the hand-written (tie H) interpreter of those tables with
   Python's semantics of `in`, `==` and of `except` dispatch.  Definitions only. *)
From Coq Require Import List ZArith Bool String.
Import ListNotations.
Open Scope Z_scope.

(* exception classes that matter for dispatch; all are subclasses of OSError (= socket.error) *)
Inductive excls :=
| COSError          (* OSError / socket.error and its errno-mapped subclasses *)
| CTimeout          (* socket.timeout('timed out'): args[0] is a str, errno is None *)
| CSSLError | CSSLWantRead | CSSLWantWrite | CSSLEOF | CSSLZeroReturn | CSSLSyscall | CSSLCertVerify.

Definition is_ssl (c : excls) : bool :=
  match c with COSError | CTimeout => false | _ => true end.

(* a Python value as far as comparisons with ints are concerned *)
Inductive pyval := VInt (z : Z) | VStr | VNone.

(* a raised exception: class, ex.args[0], ex.errno *)
Record errval := { ecls : excls; arg0 : pyval; eno : pyval }.

(* a member of the tuple a handler compares against: an int constant (errno.X, ssl.SSL_ERROR_X)
   or an exception CLASS object (ssl.SSLEOFError) *)
Inductive member := MInt (name : string) (v : Z) | MClass (name : string).

Inductive subject := SArgs0 | SErrno.          (* ex.args[0]  |  ex.errno *)

Inductive test :=
| TIn (s : subject) (ms : list member)         (* s in (m1, ..., mn) *)
| TEqTuple (s : subject) (ms : list member)    (* s == (m1, ..., mn) *)
| TEq (s : subject) (m : member).              (* s == m *)

(* what the handler does along one path *)
Inductive action :=
| Quiet        (* no exception, no connection state change, "no data" result (None / 0 / False / empty) *)
| Cutoff       (* self.cutoff = True and an empty / zero result, no exception *)
| Requeue      (* datagram tx: packet kept for later, destination marked blocked, no exception *)
| Raise        (* the exception propagates *)
| RaiseClose.  (* self.shutclose() then the exception propagates *)

Inductive decision := Leaf (a : action) | Cond (t : test) (yes no : decision).

Inductive catch := CatchOSError | CatchSSLError | CatchException.

(* one try statement = its except clauses in order *)
Definition trysite := list (catch * decision).

(* ------------------------------------------------------------------ Python semantics *)
Definition subj (s : subject) (e : errval) : pyval :=
  match s with SArgs0 => arg0 e | SErrno => eno e end.

(* v == m : an int equals an int constant with the same value; nothing equals a class object *)
Definition val_eq (v : pyval) (m : member) : bool :=
  match v, m with VInt a, MInt _ b => Z.eqb a b | _, _ => false end.

Definition eval_test (t : test) (e : errval) : bool :=
  match t with
  | TIn s ms => existsb (val_eq (subj s e)) ms
  | TEqTuple _ _ => false            (* an int / str / None never equals a tuple *)
  | TEq s m => val_eq (subj s e) m
  end.

Fixpoint decide (d : decision) (e : errval) : action :=
  match d with
  | Leaf a => a
  | Cond t y n => if eval_test t e then decide y e else decide n e
  end.

Definition catches (c : catch) (x : excls) : bool :=
  match c with
  | CatchOSError => true              (* every class above is an OSError *)
  | CatchSSLError => is_ssl x
  | CatchException => true
  end.

(* no matching clause: the exception propagates *)
Fixpoint classify (t : trysite) (e : errval) : action :=
  match t with
  | [] => Raise
  | (c, d) :: t' => if catches c (ecls e) then decide d e else classify t' e
  end.

(* ------------------------------------------------------------------ error values *)
Definition oserr (n : Z) : errval := {| ecls := COSError; arg0 := VInt n; eno := VInt n |}.
Definition sslerr (c : excls) (code : Z) : errval := {| ecls := c; arg0 := VInt code; eno := VInt code |}.
Definition timeout_err : errval := {| ecls := CTimeout; arg0 := VStr; eno := VNone |}.

Definition memz (x : Z) (l : list Z) : bool := existsb (Z.eqb x) l.

(* every error value e of the list is classified as a *)
Definition all_classified (t : trysite) (a : action) (es : list errval) : bool :=
  forallb (fun e => match classify t e, a with
                    | Quiet, Quiet | Cutoff, Cutoff | Requeue, Requeue | Raise, Raise
                    | RaiseClose, RaiseClose => true
                    | _, _ => false end) es.

Definition action_eqb (a b : action) : bool :=
  match a, b with
  | Quiet, Quiet | Cutoff, Cutoff | Requeue, Requeue | Raise, Raise | RaiseClose, RaiseClose => true
  | _, _ => false
  end.

(* connection state seen by the property: the cutoff flag; effect of an action on it, and whether
   the caller sees an exception *)
Definition cutoff_after (a : action) (cutoff : bool) : bool :=
  match a with Cutoff => true | _ => cutoff end.
Definition propagates (a : action) : bool :=
  match a with Raise | RaiseClose => true | _ => false end.
