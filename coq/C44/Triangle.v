(* triangles: a point whose three orientation signs agree (and are non-zero) is strictly inside *)
From Coq Require Import ZArith List Bool Lia ZifyBool.
Import ListNotations.
Require Import V.Lib.C43_PyPrelude V.gen.Vectoring V.C44.Model V.C44.Proofs V.C44.Invariance V.C44.EdgeList.
Open Scope Z_scope.

Lemma contrib_orient p u v :
  contrib p u v =
  if (snd u <=? snd p) && (snd p <? snd v) && (0 <? orient u v p) then 1
  else if (snd v <=? snd p) && (snd p <? snd u) && (orient u v p <? 0) then -1 else 0.
Proof.
  unfold contrib. rewrite cw_unfold, ccw_unfold. unfold orient.
  destruct (snd u <=? snd p) eqn:A; destruct (snd p <? snd v) eqn:B;
    destruct (snd v <=? snd p) eqn:C; destruct (snd p <? snd u) eqn:D; cbn [andb]; try lia;
    repeat match goal with |- context [if ?c then _ else _] => destruct c eqn:? end; lia.
Qed.

Lemma o_on_seg_orient p u v : orient u v p <> 0 -> o_on_seg p u v = false.
Proof. intros H. unfold o_on_seg. replace (orient u v p =? 0) with false by lia. reflexivity. Qed.

Lemma tri_boundary p a b c :
  o_boundary p [a; b; c] = o_on_seg p a b || (o_on_seg p b c || (o_on_seg p c a || false)).
Proof. reflexivity. Qed.

Lemma tri_wsum p a b c : wsum p [a; b; c] = contrib p a b + (contrib p b c + (contrib p c a + 0)).
Proof. rewrite wsum_edges. reflexivity. Qed.

(* barycentric identity, y component *)
Lemma bary_y a b c p :
  orient b c p * (snd a - snd p) + orient c a p * (snd b - snd p) + orient a b p * (snd c - snd p) = 0.
Proof. unfold orient. ring. Qed.

Lemma orient_sum a b c p : orient a b p + orient b c p + orient c a p = orient a b c.
Proof. unfold orient. ring. Qed.

Lemma tri_inside_ccw a b c p :
  0 < orient a b p -> 0 < orient b c p -> 0 < orient c a p -> insideOnly p [a; b; c] = true /\ wind p [a; b; c] = 1.
Proof.
  intros H1 H2 H3.
  assert (NB : on_side p [a; b; c] = false).
  { rewrite <- sideOnly_spec, sideOnly_o_boundary, tri_boundary, !o_on_seg_orient by lia. reflexivity. }
  assert (W : wsum p [a; b; c] = 1).
  { rewrite tri_wsum, !contrib_orient.
    pose proof (bary_y a b c p) as I.
    remember (orient a b p) as o1 eqn:E1. remember (orient b c p) as o2 eqn:E2. remember (orient c a p) as o3 eqn:E3.
    clear NB. unfold orient in E1, E2, E3.
    replace (0 <? o1) with true by lia. replace (0 <? o2) with true by lia. replace (0 <? o3) with true by lia.
    replace (o1 <? 0) with false by lia. replace (o2 <? 0) with false by lia. replace (o3 <? 0) with false by lia.
    rewrite !andb_true_r, !andb_false_r.
    destruct (snd a <=? snd p) eqn:A; destruct (snd b <=? snd p) eqn:B; destruct (snd c <=? snd p) eqn:C;
      cbn [andb];
      repeat match goal with |- context [?x <? ?y] => destruct (x <? y) eqn:? end; try lia;
      try (exfalso; assert (snd a = snd p /\ snd b = snd p /\ snd c = snd p) as (Ea & Eb & Ec) by nia;
           rewrite Ea, Eb in E1; nia); nia. }
  rewrite insideOnly_spec, wind_spec, NB, W. split; reflexivity.
Qed.

Lemma tri_inside_cw a b c p :
  orient a b p < 0 -> orient b c p < 0 -> orient c a p < 0 -> insideOnly p [a; b; c] = true /\ wind p [a; b; c] = -1.
Proof.
  intros H1 H2 H3.
  assert (NB : on_side p [a; b; c] = false).
  { rewrite <- sideOnly_spec, sideOnly_o_boundary, tri_boundary, !o_on_seg_orient by lia. reflexivity. }
  assert (W : wsum p [a; b; c] = -1).
  { rewrite tri_wsum, !contrib_orient.
    pose proof (bary_y a b c p) as I.
    remember (orient a b p) as o1 eqn:E1. remember (orient b c p) as o2 eqn:E2. remember (orient c a p) as o3 eqn:E3.
    clear NB. unfold orient in E1, E2, E3.
    replace (0 <? o1) with false by lia. replace (0 <? o2) with false by lia. replace (0 <? o3) with false by lia.
    replace (o1 <? 0) with true by lia. replace (o2 <? 0) with true by lia. replace (o3 <? 0) with true by lia.
    rewrite !andb_true_r, !andb_false_r.
    destruct (snd a <=? snd p) eqn:A; destruct (snd b <=? snd p) eqn:B; destruct (snd c <=? snd p) eqn:C;
      cbn [andb];
      repeat match goal with |- context [?x <? ?y] => destruct (x <? y) eqn:? end; try lia;
      try (exfalso; assert (snd a = snd p /\ snd b = snd p /\ snd c = snd p) as (Ea & Eb & Ec) by nia;
           rewrite Ea, Eb in E1; nia); nia. }
  rewrite insideOnly_spec, wind_spec, NB, W. split; reflexivity.
Qed.
