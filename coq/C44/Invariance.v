(* invariance of every predicate under translation of the point and the polygon *)
From Coq Require Import ZArith List Bool Lia ZifyBool.
Import ListNotations.
Require Import V.Lib.C43_PyPrelude V.gen.Vectoring V.C44.Model V.C44.Proofs.
Open Scope Z_scope.

Definition shift (d p : pt) : pt := (fst p + fst d, snd p + snd d).

Lemma sub_shift d p u : sub (shift d p) (shift d u) = sub p u.
Proof. unfold sub, shift. cbn [fst snd]. f_equal; lia. Qed.

Lemma tween2_shift d p u v : tween2 (shift d p) (shift d u) (shift d v) = tween2 p u v.
Proof. unfold tween2. rewrite !sub_shift. reflexivity. Qed.

Lemma contrib_shift d p a b : contrib (shift d p) (shift d a) (shift d b) = contrib p a b.
Proof.
  unfold contrib. rewrite !sub_shift. unfold shift. cbn [fst snd].
  replace (snd a + snd d <=? snd p + snd d) with (snd a <=? snd p) by lia.
  replace (snd p + snd d <? snd b + snd d) with (snd p <? snd b) by lia.
  replace (snd b + snd d <=? snd p + snd d) with (snd b <=? snd p) by lia.
  reflexivity.
Qed.

Lemma pt_eqb_shift d p q : pt_eqb (shift d p) (shift d q) = pt_eqb p q.
Proof. unfold pt_eqb, shift. cbn [fst snd]. lia. Qed.

Lemma in_pts_shift d p vs : py_in_pts (shift d p) (map (shift d) vs) = py_in_pts p vs.
Proof.
  unfold py_in_pts. induction vs as [|x r IH]; cbn [map existsb]; [reflexivity|].
  rewrite pt_eqb_shift, IH. reflexivity.
Qed.

Lemma len_shift d vs : py_len_pts (map (shift d) vs) = py_len_pts vs.
Proof. unfold py_len_pts. rewrite map_length. reflexivity. Qed.

Lemma index_shift d vs i : 0 <= i < py_len_pts vs ->
  py_index_pts (map (shift d) vs) i = shift d (py_index_pts vs i).
Proof.
  unfold py_len_pts, py_index_pts. intros H.
  rewrite (nth_indep (map (shift d) vs) (0, 0) (shift d (0, 0))) by (rewrite map_length; lia).
  apply map_nth.
Qed.

Lemma existsb_from_ext n i f g :
  (forall k, i <= k < i + Z.of_nat n -> f k = g k) -> existsb_from n i f = existsb_from n i g.
Proof.
  revert i. induction n as [|n IH]; intros i H; cbn [existsb_from]; [reflexivity|].
  rewrite (H i) by lia. rewrite (IH (i + 1)); [reflexivity|]. intros k Hk. apply H. lia.
Qed.

Lemma sum_from_ext n i f g :
  (forall k, i <= k < i + Z.of_nat n -> f k = g k) -> sum_from n i f = sum_from n i g.
Proof.
  revert i. induction n as [|n IH]; intros i H; cbn [sum_from]; [reflexivity|].
  rewrite (H i) by lia. rewrite (IH (i + 1)); [reflexivity|]. intros k Hk. apply H. lia.
Qed.

Lemma nxt_range vs i : 0 <= i < py_len_pts vs -> 0 <= nxt vs i < py_len_pts vs.
Proof. intros H. unfold nxt. apply Z.mod_pos_bound. lia. Qed.

Lemma edge_hit_shift d p vs k : 0 <= k < py_len_pts vs ->
  edge_hit (shift d p) (map (shift d) vs) k = edge_hit p vs k.
Proof.
  intros H. unfold edge_hit. unfold nxt at 1. rewrite len_shift. fold (nxt vs k).
  rewrite !index_shift by (try apply nxt_range; assumption). apply tween2_shift.
Qed.

Lemma edge_contrib_shift d p vs k : 0 <= k < py_len_pts vs ->
  edge_contrib (shift d p) (map (shift d) vs) k = edge_contrib p vs k.
Proof.
  intros H. unfold edge_contrib. unfold nxt at 1. rewrite len_shift. fold (nxt vs k).
  rewrite !index_shift by (try apply nxt_range; assumption). apply contrib_shift.
Qed.

Lemma on_side_shift d p vs : on_side (shift d p) (map (shift d) vs) = on_side p vs.
Proof.
  unfold on_side. rewrite in_pts_shift, map_length. f_equal.
  apply existsb_from_ext. intros k Hk. apply edge_hit_shift. unfold py_len_pts. lia.
Qed.

Lemma wsum_shift d p vs : wsum (shift d p) (map (shift d) vs) = wsum p vs.
Proof.
  unfold wsum. rewrite map_length. apply sum_from_ext. intros k Hk.
  apply edge_contrib_shift. unfold py_len_pts. lia.
Qed.

Lemma translation_invariance d p vs s :
  wind (shift d p) (map (shift d) vs) = wind p vs /\
  inside (shift d p) (map (shift d) vs) s = inside p vs s /\
  outside (shift d p) (map (shift d) vs) s = outside p vs s /\
  insideOnly (shift d p) (map (shift d) vs) = insideOnly p vs /\
  outsideOnly (shift d p) (map (shift d) vs) = outsideOnly p vs /\
  sideOnly (shift d p) (map (shift d) vs) = sideOnly p vs.
Proof.
  rewrite !wind_spec, !outside_negb_inside, !insideOnly_def, !outsideOnly_def, !inside_spec, !sideOnly_spec,
          !on_side_shift, !wsum_shift.
  repeat split; reflexivity.
Qed.

(* reversing an edge negates its contribution; the on-segment test is symmetric *)
Lemma contrib_rev p a b : contrib p b a = - contrib p a b.
Proof.
  unfold contrib. rewrite !cw_unfold, !ccw_unfold.
  destruct (snd a <=? snd p) eqn:A; destruct (snd b <=? snd p) eqn:B;
    destruct (snd p <? snd b) eqn:C; destruct (snd p <? snd a) eqn:D; try lia;
    match goal with |- context [if ?c then _ else _] => destruct c eqn:E1 end;
    match goal with |- context [if ?c then _ else _] => destruct c eqn:E2 end; try lia; nia.
Qed.

Lemma tween2_sym p u v : tween2 p u v = tween2 p v u.
Proof.
  apply eq_true_iff_eq. rewrite !tween2_on_segment. unfold on_segment_Z.
  split; intros (n & d & Hd & Hn & Ex & Ey); exists (d - n), d; repeat split; try lia; nia.
Qed.
