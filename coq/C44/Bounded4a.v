(* 4x4 grid: all triangles and quadrilaterals *)
From Coq Require Import ZArith List Bool.
Require Import V.Lib.C43_PyPrelude V.gen.Vectoring V.C44.Model V.C44.BoundedDefs.
Lemma b4_tri : check_all 4 3 = true. Proof. vm_cast_no_check (eq_refl true). Qed.
Lemma b4_quad : check_all 4 4 = true. Proof. vm_cast_no_check (eq_refl true). Qed.
Lemma b5_tri : check_all 5 3 = true. Proof. vm_cast_no_check (eq_refl true). Qed.
