(* C44 -- point-in-polygon.  Tie T: the model IS coq/gen/Vectoring.v (generated from
   ioflo/aid/vectoring.py).  This file holds (definitions only):
     1. specification-level names used to state the theorems (edge_hit, contrib, on_side, wsum, ...)
     2. an INDEPENDENT exact oracle for simple lattice polygons (orientation arithmetic, bounding-box
        on-segment test, segment-intersection simplicity test, even-odd rule along a ray whose
        direction provably misses every lattice vertex of the bounded grid)
     3. the enumerators for the bounded exhaustive theorem. *)
From Coq Require Import ZArith List Bool.
Import ListNotations.
Require Import V.Lib.C43_PyPrelude V.gen.Vectoring.
Open Scope Z_scope.

(* ------------------------------------------------------------------ *)
(* 1. names for the pieces of the generated loops                       *)
(* ------------------------------------------------------------------ *)
Definition nxt (vs : list pt) (i : Z) : Z := (i + 1) mod py_len_pts vs.

(* p lies on edge i (vs[i] -> vs[i+1 mod l]) according to tween2 *)
Definition edge_hit (p : pt) (vs : list pt) (i : Z) : bool :=
  tween2 p (py_index_pts vs i) (py_index_pts vs (nxt vs i)).

(* signed crossing contribution of the directed edge a -> b for the rightward ray from p *)
Definition contrib (p a b : pt) : Z :=
  if snd a <=? snd p
  then (if snd p <? snd b then (if cw (sub p a) (sub b a) then 1 else 0) else 0)
  else (if snd b <=? snd p then (if ccw (sub p a) (sub b a) then -1 else 0) else 0).

Definition edge_contrib (p : pt) (vs : list pt) (i : Z) : Z :=
  contrib p (py_index_pts vs i) (py_index_pts vs (nxt vs i)).

Fixpoint existsb_from (n : nat) (i : Z) (f : Z -> bool) : bool :=
  match n with O => false | S n' => f i || existsb_from n' (i + 1) f end.

Fixpoint sum_from (n : nat) (i : Z) (f : Z -> Z) : Z :=
  match n with O => 0 | S n' => f i + sum_from n' (i + 1) f end.

Definition on_side (p : pt) (vs : list pt) : bool :=
  py_in_pts p vs || existsb_from (length vs) 0 (edge_hit p vs).

Definition wsum (p : pt) (vs : list pt) : Z := sum_from (length vs) 0 (edge_contrib p vs).

(* ------------------------------------------------------------------ *)
(* 2. independent exact oracle                                          *)
(* ------------------------------------------------------------------ *)
(* twice the signed area of triangle a b c *)
Definition orient (a b c : pt) : Z :=
  (fst b - fst a) * (snd c - snd a) - (snd b - snd a) * (fst c - fst a).

(* p on the closed segment a b : collinear and inside the bounding box *)
Definition o_on_seg (p a b : pt) : bool :=
  (orient a b p =? 0) &&
  (Z.min (fst a) (fst b) <=? fst p) && (fst p <=? Z.max (fst a) (fst b)) &&
  (Z.min (snd a) (snd b) <=? snd p) && (snd p <=? Z.max (snd a) (snd b)).

(* closed segments a b and c d have a common point *)
Definition o_seg_meet (a b c d : pt) : bool :=
  let d1 := Z.sgn (orient a b c) in let d2 := Z.sgn (orient a b d) in
  let d3 := Z.sgn (orient c d a) in let d4 := Z.sgn (orient c d b) in
  ((d1 * d2 <? 0) && (d3 * d4 <? 0))
  || o_on_seg c a b || o_on_seg d a b || o_on_seg a c d || o_on_seg b c d.

(* directed edges of the closed polygon, in order *)
Definition o_edges (vs : list pt) : list (pt * pt) :=
  match vs with [] => [] | v0 :: tl => combine vs (tl ++ [v0]) end.

Fixpoint o_nodup (l : list pt) : bool :=
  match l with [] => true | x :: r => negb (existsb (pt_eqb x) r) && o_nodup r end.

Fixpoint o_number {A} (i : Z) (l : list A) : list (Z * A) :=
  match l with [] => [] | x :: r => (i, x) :: o_number (i + 1) r end.

(* edges number i < j of an n-gon intersect only as the polygon's structure requires *)
Definition o_pair_ok (n : Z) (ie jf : Z * (pt * pt)) : bool :=
  let '(i, (a, b)) := ie in let '(j, (c, d)) := jf in
  if j =? i + 1 then              (* consecutive: b = c is the only common point *)
    negb (o_on_seg a c d) && negb (o_on_seg d a b)
  else if (i =? 0) && (j =? n - 1) then   (* last and first: d = a is the only common point *)
    negb (o_on_seg b c d) && negb (o_on_seg c a b)
  else negb (o_seg_meet a b c d).

Fixpoint o_pairs_ok (n : Z) (es : list (Z * (pt * pt))) : bool :=
  match es with
  | [] => true
  | e :: r => forallb (o_pair_ok n e) r && o_pairs_ok n r
  end.

(* simple polygon: >= 3 distinct vertices, edges meet only at shared end points of neighbours *)
Definition o_simple (vs : list pt) : bool :=
  (3 <=? Z.of_nat (length vs)) && o_nodup vs &&
  o_pairs_ok (Z.of_nat (length vs)) (o_number 0 (o_edges vs)).

Definition o_boundary (p : pt) (vs : list pt) : bool :=
  existsb (fun e => o_on_seg p (fst e) (snd e)) (o_edges vs).

(* even-odd rule along the ray p + t*(1,K), t > 0.  Returns None if some vertex lies on the ray's
   supporting line (never the case when all coordinates are in [0,K) and p is not a vertex). *)
Definition o_ray_cross (K : Z) (p : pt) (e : pt * pt) : option bool :=
  let '(a, b) := e in
  let q := (fst p + 1, snd p + K) in
  let sa := orient p q a in let sb := orient p q b in
  if (sa =? 0) || (sb =? 0) then None
  else if sa * sb <? 0
       then let oa := orient a b p in
            let cr := (fst b - fst a) * K - (snd b - snd a) in
            Some (oa * cr <? 0)
       else Some false.

Fixpoint o_parity (K : Z) (p : pt) (es : list (pt * pt)) : option bool :=
  match es with
  | [] => Some false
  | e :: r => match o_ray_cross K p e, o_parity K p r with
              | Some c, Some par => Some (xorb c par)
              | _, _ => None
              end
  end.

Definition o_inside (K : Z) (p : pt) (vs : list pt) : option bool := o_parity K p (o_edges vs).

(* all predicates of the implementation agree with the oracle at point p *)
Definition agree (K : Z) (p : pt) (vs : list pt) : bool :=
  let ob := o_boundary p vs in
  if ob then
    sideOnly p vs && negb (insideOnly p vs) && negb (outsideOnly p vs) &&
    inside p vs true && negb (inside p vs false) &&
    outside p vs true && negb (outside p vs false) && (wind p vs =? 0)
  else match o_inside K p vs with
       | None => false
       | Some oi =>
         negb (sideOnly p vs) && eqb (insideOnly p vs) oi && eqb (outsideOnly p vs) (negb oi) &&
         eqb (inside p vs true) oi && eqb (inside p vs false) oi &&
         eqb (outside p vs true) (negb oi) && eqb (outside p vs false) (negb oi) &&
         eqb (wind p vs =? 0) (negb oi) &&
         (if oi then (Z.abs (wind p vs) =? 1) else true)
       end.

(* ------------------------------------------------------------------ *)
(* 3. enumerators                                                       *)
(* ------------------------------------------------------------------ *)
Definition zrange (n : Z) : list Z := map Z.of_nat (seq 0 (Z.to_nat n)).

Definition grid (B : Z) : list pt :=
  flat_map (fun x => map (fun y => (x, y)) (zrange B)) (zrange B).

Definition in_grid (B : Z) (p : pt) : Prop := 0 <= fst p < B /\ 0 <= snd p < B.

(* all lists of length n over g *)
Fixpoint all_lists {A} (g : list A) (n : nat) : list (list A) :=
  match n with
  | O => [[]]
  | S n' => flat_map (fun x => map (cons x) (all_lists g n')) g
  end.

Definition check_poly (B : Z) (vs : list pt) : bool :=
  if o_simple vs then forallb (fun p => agree B p vs) (grid B) else true.

Definition check_all (B : Z) (n : nat) : bool := forallb (check_poly B) (all_lists (grid B) n).

(* the same, with the first vertex fixed (used to shard the computation) *)
Definition check_all_from (B : Z) (n : nat) (v0 : pt) : bool :=
  forallb (fun r => check_poly B (v0 :: r)) (all_lists (grid B) n).
