(* triangles, converse direction: strictly inside => the three orientation signs agree, non-zero.
   Structured proof: coordinates relative to p; two core lemmas (one vertex at/below the ray level and two
   above; two at/below and one above) applied to the three rotations of (a, b, c). *)
From Coq Require Import ZArith List Bool Lia ZifyBool.
Import ListNotations.
Require Import V.Lib.C43_PyPrelude V.gen.Vectoring V.C44.Model V.C44.Proofs V.C44.Invariance V.C44.EdgeList V.C44.Triangle.
Open Scope Z_scope.

Lemma orient_cross u v p :
  orient u v p = (fst u - fst p) * (snd v - snd p) - (snd u - snd p) * (fst v - fst p).
Proof. unfold orient. ring. Qed.

Lemma on_seg_intro p u v :
  orient u v p = 0 -> (fst u - fst p) * (fst v - fst p) <= 0 -> (snd u - snd p) * (snd v - snd p) <= 0 ->
  o_on_seg p u v = true.
Proof.
  intros H X Y. unfold o_on_seg. rewrite H.
  assert (Z.min (fst u) (fst v) <= fst p <= Z.max (fst u) (fst v)) by nia.
  assert (Z.min (snd u) (snd v) <= snd p <= Z.max (snd u) (snd v)) by nia.
  repeat (apply andb_true_iff; split); lia.
Qed.

(* collinear with a segment whose end levels straddle 0 (not both equal): the abscissas straddle 0 too *)
Lemma straddle_x u1 u2 v1 v2 : u1 * v2 - u2 * v1 = 0 -> u2 * v2 <= 0 -> u2 <> v2 -> u1 * v1 <= 0.
Proof.
  intros H S N.
  assert (E0 : u2 * v1 = u1 * v2) by lia.
  assert (E : (u1 * v1) * (u2 * v2) = (u1 * v2) * (u1 * v2)).
  { replace ((u1 * v1) * (u2 * v2)) with ((u1 * v2) * (u2 * v1)) by ring. rewrite E0. reflexivity. }
  assert (Q : 0 <= (u1 * v2) * (u1 * v2)) by apply Z.square_nonneg.
  destruct (Z.eq_dec (u2 * v2) 0) as [Z0|NZ].
  - assert (u2 = 0 \/ v2 = 0) as [U|V] by nia.
    + subst u2. assert (u1 * v2 = 0) by lia. assert (u1 = 0) by nia. subst. lia.
    + subst v2. assert (u2 * v1 = 0) by lia. assert (v1 = 0) by nia. subst. lia.
  - nia.
Qed.

(* sign rules used below, each a one-line nia *)
Lemma mul_pos_pos x y : 0 < x -> 0 < y -> 0 < x * y. Proof. nia. Qed.
Lemma mul_nn_pos x y : 0 <= x -> 0 < y -> 0 <= x * y. Proof. nia. Qed.
Lemma mul_np_pos x y : x <= 0 -> 0 < y -> x * y <= 0. Proof. nia. Qed.
Lemma mul_neg_pos x y : x < 0 -> 0 < y -> x * y < 0. Proof. nia. Qed.
Lemma mul_pos_np x y : 0 < x -> y <= 0 -> x * y <= 0. Proof. nia. Qed.
Lemma mul_nn_np x y : 0 <= x -> y <= 0 -> x * y <= 0. Proof. nia. Qed.
Lemma mul_np_np x y : x <= 0 -> y <= 0 -> 0 <= x * y. Proof. nia. Qed.
Lemma neg_prod_np x y : x * y < 0 -> y <= 0 -> y < 0 /\ 0 < x.
Proof.
  intros H L. assert (y <> 0) by (intros ->; lia). split; [lia|].
  destruct (Z_lt_le_dec 0 x); [assumption|]. assert (0 <= x * y) by nia. lia.
Qed.
Lemma pos_prod_np x y : 0 < x * y -> y <= 0 -> y < 0 /\ x < 0.
Proof.
  intros H L. assert (y <> 0) by (intros ->; lia). split; [lia|].
  destruct (Z_lt_le_dec x 0); [assumption|]. assert (x * y <= 0) by nia. lia.
Qed.
Lemma prod_pos_r x y : 0 <= x * y -> 0 < y -> 0 <= x. Proof. nia. Qed.
Lemma prod_neg_r x y : x * y <= 0 -> 0 < y -> x <= 0. Proof. nia. Qed.
Lemma prod_zero_l x y : x * y = 0 -> x <> 0 -> y = 0. Proof. nia. Qed.

Section Core.
  Variables a1 a2 b1 b2 c1 c2 : Z.
  Let o1 := a1 * b2 - a2 * b1.
  Let o2 := b1 * c2 - b2 * c1.
  Let o3 := c1 * a2 - c2 * a1.
  Definition nb (o u1 u2 v1 v2 : Z) : Prop := ~ (o = 0 /\ u1 * v1 <= 0 /\ u2 * v2 <= 0).
  Definition same_sign (x y z : Z) : Prop := (0 < x /\ 0 < y /\ 0 < z) \/ (x < 0 /\ y < 0 /\ z < 0).

  Lemma bary : o2 * a2 + o3 * b2 + o1 * c2 = 0.
  Proof. unfold o1, o2, o3. ring. Qed.

  (* a at/below the level of p, b and c above: the only crossings can be a->b (up) and c->a (down) *)
  Lemma core1 : a2 <= 0 -> 0 < b2 -> 0 < c2 ->
    nb o1 a1 a2 b1 b2 -> nb o3 c1 c2 a1 a2 ->
    (0 < o1 /\ 0 <= o3) \/ (o1 <= 0 /\ o3 < 0) -> same_sign o1 o2 o3.
  Proof.
    intros La Hb Hc N1 N3 H. pose proof bary as I.
    destruct H as [[P1 P3]|[P1 P3]].
    - pose proof (mul_pos_pos _ _ P1 Hc). pose proof (mul_nn_pos _ _ P3 Hb).
      assert (T : o2 * a2 < 0) by lia. destruct (neg_prod_np _ _ T La) as [A2 O2].
      assert (o3 <> 0).
      { intros Z0. apply N3. split; [exact Z0|]. split.
        - apply (straddle_x c1 c2 a1 a2); [exact Z0| nia | lia].
        - nia. }
      left. lia.
    - pose proof (mul_np_pos _ _ P1 Hc). pose proof (mul_neg_pos _ _ P3 Hb).
      assert (T : 0 < o2 * a2) by lia. destruct (pos_prod_np _ _ T La) as [A2 O2].
      assert (o1 <> 0).
      { intros Z0. apply N1. split; [exact Z0|]. split.
        - apply (straddle_x a1 a2 b1 b2); [exact Z0| nia | lia].
        - nia. }
      right. lia.
  Qed.

  (* a and b at/below, c above: the only crossings can be b->c (up) and c->a (down) *)
  Lemma core2 : a2 <= 0 -> b2 <= 0 -> 0 < c2 ->
    nb o1 a1 a2 b1 b2 -> nb o2 b1 b2 c1 c2 -> nb o3 c1 c2 a1 a2 ->
    (0 < o2 /\ 0 <= o3) \/ (o2 <= 0 /\ o3 < 0) -> same_sign o1 o2 o3.
  Proof.
    intros La Lb Hc N1 N2 N3 H. pose proof bary as I.
    destruct H as [[P2 P3]|[P2 P3]].
    - assert (o3 <> 0).
      { intros Z0. apply N3. split; [exact Z0|]. split.
        - apply (straddle_x c1 c2 a1 a2); [exact Z0| nia | lia].
        - nia. }
      assert (P3' : 0 < o3) by lia.
      pose proof (mul_pos_np _ _ P2 La). pose proof (mul_pos_np _ _ P3' Lb).
      assert (T : 0 <= o1 * c2) by lia. pose proof (prod_pos_r _ _ T Hc) as O1.
      assert (o1 <> 0).
      { intros Z0. assert (E1 : o1 * c2 = 0) by (rewrite Z0; ring).
        assert (Ea : o2 * a2 = 0) by lia. assert (Eb : o3 * b2 = 0) by lia.
        assert (a2 = 0) by (apply (prod_zero_l o2 a2 Ea); lia).
        assert (b2 = 0) by (apply (prod_zero_l o3 b2 Eb); lia).
        assert (B1 : 0 < b1 * c2) by (unfold o2 in P2; nia).
        assert (A1 : 0 < - (c2 * a1)) by (unfold o3 in P3'; nia).
        assert (0 < b1) by nia. assert (a1 < 0) by nia.
        apply N1. split; [exact Z0|]. split; nia. }
      left. lia.
    - assert (o2 <> 0).
      { intros Z0. apply N2. split; [exact Z0|]. split.
        - apply (straddle_x b1 b2 c1 c2); [exact Z0| nia | lia].
        - nia. }
      assert (P2' : o2 < 0) by lia.
      assert (0 <= o2 * a2) by nia. assert (0 <= o3 * b2) by nia.
      assert (T : o1 * c2 <= 0) by lia. pose proof (prod_neg_r _ _ T Hc) as O1.
      assert (o1 <> 0).
      { intros Z0. assert (E1 : o1 * c2 = 0) by (rewrite Z0; ring).
        assert (Ea : o2 * a2 = 0) by lia. assert (Eb : o3 * b2 = 0) by lia.
        assert (a2 = 0) by (apply (prod_zero_l o2 a2 Ea); lia).
        assert (b2 = 0) by (apply (prod_zero_l o3 b2 Eb); lia).
        assert (B1 : b1 * c2 < 0) by (unfold o2 in P2'; nia).
        assert (A1 : - (c2 * a1) < 0) by (unfold o3 in P3; nia).
        assert (b1 < 0) by nia. assert (0 < a1) by nia.
        apply N1. split; [exact Z0|]. split; nia. }
      right. lia.
  Qed.
End Core.

Lemma nb_of_off_segment p u v :
  o_on_seg p u v = false ->
  nb (orient u v p) (fst u - fst p) (snd u - snd p) (fst v - fst p) (snd v - snd p).
Proof.
  intros F (Z0 & X & Y). rewrite (on_seg_intro p u v Z0 X Y) in F. discriminate.
Qed.

Lemma same_sign_rot x y z : same_sign y z x -> same_sign x y z.
Proof. unfold same_sign. lia. Qed.

Lemma tri_only_if a b c p : insideOnly p [a; b; c] = true ->
  same_sign (orient a b p) (orient b c p) (orient c a p).
Proof.
  intros H. rewrite insideOnly_spec, <- sideOnly_spec, sideOnly_o_boundary, tri_boundary, tri_wsum in H.
  apply andb_true_iff in H. destruct H as [HB HW].
  rewrite negb_true_iff in HB. rewrite !orb_false_iff in HB. destruct HB as (B1 & B2 & B3 & _).
  apply nb_of_off_segment in B1. apply nb_of_off_segment in B2. apply nb_of_off_segment in B3.
  rewrite !contrib_orient in HW. rewrite !orient_cross in *.
  remember (fst a - fst p) as a1 eqn:Ha1. remember (snd a - snd p) as a2 eqn:Ha2.
  remember (fst b - fst p) as b1 eqn:Hb1. remember (snd b - snd p) as b2 eqn:Hb2.
  remember (fst c - fst p) as c1 eqn:Hc1. remember (snd c - snd p) as c2 eqn:Hc2.
  replace (snd a <=? snd p) with (a2 <=? 0) in HW by lia.
  replace (snd b <=? snd p) with (b2 <=? 0) in HW by lia.
  replace (snd c <=? snd p) with (c2 <=? 0) in HW by lia.
  replace (snd p <? snd a) with (negb (a2 <=? 0)) in HW by lia.
  replace (snd p <? snd b) with (negb (b2 <=? 0)) in HW by lia.
  replace (snd p <? snd c) with (negb (c2 <=? 0)) in HW by lia.
  clear Ha1 Ha2 Hb1 Hb2 Hc1 Hc2.
  pose proof (core1 a1 a2 b1 b2 c1 c2) as C1a. pose proof (core1 b1 b2 c1 c2 a1 a2) as C1b.
  pose proof (core1 c1 c2 a1 a2 b1 b2) as C1c.
  pose proof (core2 a1 a2 b1 b2 c1 c2) as C2a. pose proof (core2 b1 b2 c1 c2 a1 a2) as C2b.
  pose proof (core2 c1 c2 a1 a2 b1 b2) as C2c.
  cbv zeta in C1a, C1b, C1c, C2a, C2b, C2c.
  remember (a1 * b2 - a2 * b1) as o1 eqn:E1. remember (b1 * c2 - b2 * c1) as o2 eqn:E2.
  remember (c1 * a2 - c2 * a1) as o3 eqn:E3. clear E1 E2 E3.
  destruct (a2 <=? 0) eqn:La; destruct (b2 <=? 0) eqn:Lb; destruct (c2 <=? 0) eqn:Lc;
    cbn [andb negb] in HW.
  - exfalso. lia.
  - (* a, b low, c high *)
    apply C2a; try assumption; try lia.
    destruct (0 <? o2) eqn:?, (o3 <? 0) eqn:?; cbn in HW; lia.
  - (* c, a low, b high *)
    apply same_sign_rot, same_sign_rot. apply C2c; try assumption; try lia.
    destruct (0 <? o1) eqn:?, (o2 <? 0) eqn:?; cbn in HW; lia.
  - (* a low, b, c high *)
    apply C1a; try assumption; try lia.
    destruct (0 <? o1) eqn:?, (o3 <? 0) eqn:?; cbn in HW; lia.
  - (* b, c low, a high *)
    apply same_sign_rot. apply C2b; try assumption; try lia.
    destruct (0 <? o3) eqn:?, (o1 <? 0) eqn:?; cbn in HW; lia.
  - (* b low, c, a high *)
    apply same_sign_rot. apply C1b; try assumption; try lia.
    destruct (0 <? o2) eqn:?, (o1 <? 0) eqn:?; cbn in HW; lia.
  - (* c low, a, b high *)
    apply same_sign_rot, same_sign_rot. apply C1c; try assumption; try lia.
    destruct (0 <? o3) eqn:?, (o2 <? 0) eqn:?; cbn in HW; lia.
  - exfalso. lia.
Qed.

(* the full triangle theorem *)
Lemma triangle_iff a b c p :
  insideOnly p [a; b; c] = true <-> same_sign (orient a b p) (orient b c p) (orient c a p).
Proof.
  split; [apply tri_only_if|].
  intros [(H1 & H2 & H3)|(H1 & H2 & H3)].
  - apply (tri_inside_ccw a b c p H1 H2 H3).
  - apply (tri_inside_cw a b c p H1 H2 H3).
Qed.
