(* 4x4 grid: all pentagons whose first vertex is in shard 0 (4 of the 16 grid points) *)
From Coq Require Import ZArith List Bool.
Require Import V.Lib.C43_PyPrelude V.gen.Vectoring V.C44.Model V.C44.BoundedDefs.
Lemma b4_pent_0 : forallb (check_all_from 4 4) (shard 4 0 (grid 4)) = true.
Proof. vm_cast_no_check (eq_refl true). Qed.
