(* C44 -- property theorems only, about the GENERATED definitions of coq/gen/Vectoring.v
   (tween2, wind, inside, insideOnly, outside, outsideOnly, sideOnly translated from
   ioflo/aid/vectoring.py over Z*Z). *)
From Coq Require Import ZArith QArith List Bool.
Import ListNotations.
Require Import V.Lib.C43_PyPrelude V.gen.Vectoring V.C44.Model V.C44.Proofs V.C44.ProofsQ.
Require Import V.C44.Invariance V.C44.EdgeList V.C44.Triangle V.C44.Triangle2.

(* ---------- unbounded: every point, every vertex list (simple or not) ---------- *)

(* tween2 is exactly "p lies on the closed segment u v" in rational geometry (u = v included) *)
Theorem tween2_iff_on_segment : forall p u v : pt,
  tween2 p u v = true <->
  exists t : Q, (0 <= t /\ t <= 1 /\
    inject_Z (fst p) == inject_Z (fst u) + t * inject_Z (fst v - fst u) /\
    inject_Z (snd p) == inject_Z (snd u) + t * inject_Z (snd v - snd u))%Q.
Proof. exact tween2_iff_on_segment_Q. Qed.
Print Assumptions tween2_iff_on_segment.

(* sideOnly is exactly "p is a vertex or lies on one of the closed edges vs[i] vs[i+1 mod n]" *)
Theorem sideOnly_iff_on_boundary : forall (p : pt) (vs : list pt),
  sideOnly p vs = true <->
  In p vs \/ exists i, (0 <= i < py_len_pts vs)%Z /\
     on_segment_Q p (py_index_pts vs i) (py_index_pts vs ((i + 1) mod py_len_pts vs)).
Proof. exact sideOnly_boundary. Qed.
Print Assumptions sideOnly_iff_on_boundary.

(* the five predicates are determined by (strictly inside, on boundary) and the side flag;
   exactly one of strictly-inside / on-boundary / strictly-outside holds *)
Theorem predicate_algebra : forall (p : pt) (vs : list pt) (s : bool),
  outside p vs s = negb (inside p vs (negb s)) /\
  insideOnly p vs = inside p vs false /\
  outsideOnly p vs = negb (inside p vs true) /\
  inside p vs s = insideOnly p vs || (s && sideOnly p vs) /\
  outside p vs s = outsideOnly p vs || (s && sideOnly p vs) /\
  ((insideOnly p vs = true /\ sideOnly p vs = false /\ outsideOnly p vs = false) \/
   (insideOnly p vs = false /\ sideOnly p vs = true /\ outsideOnly p vs = false) \/
   (insideOnly p vs = false /\ sideOnly p vs = false /\ outsideOnly p vs = true)).
Proof.
  exact (fun p vs s => conj (outside_negb_inside p vs s) (conj (insideOnly_def p vs)
        (conj (outsideOnly_def p vs) (conj (inside_flag p vs s) (conj (outside_flag p vs s)
        (trichotomy p vs)))))).
Qed.
Print Assumptions predicate_algebra.

(* the winding number is zero exactly for the points that are not strictly inside
   (i.e. strictly outside or on the boundary) *)
Theorem wind_zero_iff_not_insideOnly : forall (p : pt) (vs : list pt),
  (wind p vs =? 0)%Z = negb (insideOnly p vs) /\
  (wind p vs =? 0)%Z = outsideOnly p vs || sideOnly p vs.
Proof.
  intros p vs. split; [apply wind_zero_iff|].
  rewrite wind_zero_iff. destruct (trichotomy p vs) as [(A&B&C)|[(A&B&C)|(A&B&C)]]; rewrite A, B, C; reflexivity.
Qed.
Print Assumptions wind_zero_iff_not_insideOnly.

(* off the boundary the winding number is the sum over the edges of signed crossings, and each
   +1/-1 is a crossing of the open rightward ray from p under the half-open rule, the crossing
   abscissa (a rational) being strictly right of p *)
Theorem crossing_rule_geometric : forall (p : pt) (vs : list pt),
  wind p vs = (if sideOnly p vs then 0 else sum_from (length vs) 0 (edge_contrib p vs))%Z /\
  forall a b : pt,
  (contrib p a b = 1%Z <-> (snd a <= snd p < snd b)%Z /\ (inject_Z (fst p) < x_cross p a b)%Q) /\
  (contrib p a b = (-1)%Z <-> (snd b <= snd p < snd a)%Z /\ (inject_Z (fst p) < x_cross p a b)%Q) /\
  (contrib p a b = 1 \/ contrib p a b = 0 \/ contrib p a b = -1)%Z.
Proof. exact (fun p vs => conj (wind_sum p vs) (crossing_rule p)). Qed.
Print Assumptions crossing_rule_geometric.

(* the on-boundary predicate equals the exact oracle (collinear + inside the bounding box of some
   edge of the closed polygon) for EVERY vertex list and point -- no bound *)
Theorem sideOnly_is_exact_boundary : forall (p : pt) (vs : list pt), sideOnly p vs = o_boundary p vs.
Proof. exact sideOnly_o_boundary. Qed.
Print Assumptions sideOnly_is_exact_boundary.

(* all predicates are invariant under translating point and polygon by any vector d *)
Theorem translation_invariant : forall (d p : pt) (vs : list pt) (s : bool),
  wind (shift d p) (map (shift d) vs) = wind p vs /\
  inside (shift d p) (map (shift d) vs) s = inside p vs s /\
  outside (shift d p) (map (shift d) vs) s = outside p vs s /\
  insideOnly (shift d p) (map (shift d) vs) = insideOnly p vs /\
  outsideOnly (shift d p) (map (shift d) vs) = outsideOnly p vs /\
  sideOnly (shift d p) (map (shift d) vs) = sideOnly p vs.
Proof. exact translation_invariance. Qed.
Print Assumptions translation_invariant.

(* ... under cyclic shift of the vertex list (rot moves the first vertex to the end) *)
Theorem cyclic_shift_invariant : forall (p : pt) (vs : list pt) (s : bool),
  wind p (rot vs) = wind p vs /\ inside p (rot vs) s = inside p vs s /\
  outside p (rot vs) s = outside p vs s /\ insideOnly p (rot vs) = insideOnly p vs /\
  outsideOnly p (rot vs) = outsideOnly p vs /\ sideOnly p (rot vs) = sideOnly p vs.
Proof. exact cyclic_shift_invariance. Qed.
Print Assumptions cyclic_shift_invariant.

(* ... and reversing the orientation negates the winding number and changes no predicate *)
Theorem reversal_negates_wind : forall (p : pt) (vs : list pt) (s : bool),
  wind p (rev vs) = (- wind p vs)%Z /\ inside p (rev vs) s = inside p vs s /\
  outside p (rev vs) s = outside p vs s /\ insideOnly p (rev vs) = insideOnly p vs /\
  outsideOnly p (rev vs) = outsideOnly p vs /\ sideOnly p (rev vs) = sideOnly p vs.
Proof. exact reversal. Qed.
Print Assumptions reversal_negates_wind.

(* triangles, exact and unbounded: for ALL integer triangles (degenerate ones included: then neither
   side holds) and ALL integer points, p is strictly inside iff the three orientation signs of p
   with respect to the directed edges agree and are non-zero; and then wind = +1 (counter-clockwise)
   or -1 (clockwise). *)
Theorem triangle_exact : forall a b c p : pt,
  (insideOnly p [a; b; c] = true <->
     (0 < orient a b p /\ 0 < orient b c p /\ 0 < orient c a p)%Z \/
     (orient a b p < 0 /\ orient b c p < 0 /\ orient c a p < 0)%Z) /\
  ((0 < orient a b p /\ 0 < orient b c p /\ 0 < orient c a p)%Z -> wind p [a; b; c] = 1%Z) /\
  ((orient a b p < 0 /\ orient b c p < 0 /\ orient c a p < 0)%Z -> wind p [a; b; c] = (-1)%Z).
Proof.
  exact (fun a b c p => conj (triangle_iff a b c p)
    (conj (fun H => proj2 (tri_inside_ccw a b c p (proj1 H) (proj1 (proj2 H)) (proj2 (proj2 H))))
          (fun H => proj2 (tri_inside_cw a b c p (proj1 H) (proj1 (proj2 H)) (proj2 (proj2 H)))))).
Qed.
Print Assumptions triangle_exact.

(* non-vacuity *)
Example c44_square :
  let sq := [(0,0); (2,0); (2,2); (0,2)]%Z in
  o_simple sq = true /\ insideOnly (1,1)%Z sq = true /\ sideOnly (2,1)%Z sq = true /\
  outsideOnly (3,1)%Z sq = true /\ wind (1,1)%Z sq = 1%Z /\ wind (1,1)%Z (rev sq) = (-1)%Z /\
  inside (0,0)%Z sq true = true /\ inside (0,0)%Z sq false = false /\ o_inside 4 (1,1)%Z sq = Some true.
Proof. vm_compute. repeat split. Qed.
Example c44_bowtie_not_simple : o_simple [(0,0); (2,2); (2,0); (0,2)]%Z = false.
Proof. vm_compute. reflexivity. Qed.
