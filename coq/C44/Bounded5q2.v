(* 5x5 grid: all quadrilaterals whose first vertex is in shard 2 (5 of the 25 grid points) *)
From Coq Require Import ZArith List Bool.
Require Import V.Lib.C43_PyPrelude V.gen.Vectoring V.C44.Model V.C44.BoundedDefs.
Lemma b5_quad_2 : forallb (check_all_from 5 3) (shard 5 2 (grid 5)) = true.
Proof. vm_cast_no_check (eq_refl true). Qed.
