(* rational-geometry readings of the integer statements of Proofs.v *)
From Coq Require Import ZArith QArith List Bool Lia Lqa.
Import ListNotations.
Require Import V.Lib.C43_PyPrelude V.gen.Vectoring V.C44.Model V.C44.Proofs.
Open Scope Q_scope.

Definition on_segment_Q (p u v : pt) : Prop :=
  exists t : Q, 0 <= t /\ t <= 1 /\
    inject_Z (fst p) == inject_Z (fst u) + t * inject_Z (fst v - fst u) /\
    inject_Z (snd p) == inject_Z (snd u) + t * inject_Z (snd v - snd u).

Lemma coord_eq (a u b : Z) (tn : Z) (td : positive) :
  inject_Z a == inject_Z u + (tn # td) * inject_Z b <-> (Zpos td * (a - u) = tn * b)%Z.
Proof.
  unfold Qeq, Qplus, Qmult, inject_Z. cbn [Qnum Qden].
  rewrite ?Pos2Z.inj_mul, ?Pos.mul_1_r, ?Z.mul_1_r. lia.
Qed.

Lemma on_segment_Z_Q p u v : on_segment_Z p u v <-> on_segment_Q p u v.
Proof.
  split.
  - intros (n & d & Hd & Hn & Ex & Ey).
    exists (n # Z.to_pos d).
    assert (Pd : Zpos (Z.to_pos d) = d) by (apply Z2Pos.id; assumption).
    repeat split.
    + unfold Qle. cbn [Qnum Qden]. lia.
    + unfold Qle. cbn [Qnum Qden]. lia.
    + apply coord_eq. rewrite Pd. assumption.
    + apply coord_eq. rewrite Pd. assumption.
  - intros ([tn td] & H0 & H1 & Ex & Ey).
    exists tn, (Zpos td).
    apply coord_eq in Ex. apply coord_eq in Ey.
    unfold Qle in H0, H1. cbn [Qnum Qden] in H0, H1.
    repeat split; try lia; assumption.
Qed.

Lemma tween2_iff_on_segment_Q p u v : tween2 p u v = true <-> on_segment_Q p u v.
Proof. rewrite tween2_on_segment. apply on_segment_Z_Q. Qed.

(* abscissa at which the line through a and b meets the horizontal through p (snd a <> snd b) *)
Definition x_cross (p a b : pt) : Q :=
  inject_Z (fst a) + inject_Z ((snd p - snd a) * (fst b - fst a)) / inject_Z (snd b - snd a).

Lemma x_cross_up p a b : (snd a < snd b)%Z ->
  ((fst p - fst a) * (snd b - snd a) < (snd p - snd a) * (fst b - fst a))%Z <->
  inject_Z (fst p) < x_cross p a b.
Proof.
  intros H. unfold x_cross.
  set (D := (snd b - snd a)%Z). set (N := ((snd p - snd a) * (fst b - fst a))%Z).
  assert (HD : 0 < inject_Z D) by (change 0 with (inject_Z 0); rewrite <- Zlt_Qlt; lia).
  assert (E : inject_Z N / inject_Z D * inject_Z D == inject_Z N) by (field; lra).
  rewrite Zlt_Qlt, inject_Z_mult. unfold Zminus at 1. rewrite inject_Z_plus, inject_Z_opp.
  fold N. set (q := inject_Z N / inject_Z D) in *.
  split; intros L; nra.
Qed.

Lemma x_cross_down p a b : (snd b < snd a)%Z ->
  ((fst p - fst a) * (snd b - snd a) > (snd p - snd a) * (fst b - fst a))%Z <->
  inject_Z (fst p) < x_cross p a b.
Proof.
  intros H. unfold x_cross.
  set (D := (snd b - snd a)%Z). set (N := ((snd p - snd a) * (fst b - fst a))%Z).
  assert (HD : inject_Z D < 0) by (change 0 with (inject_Z 0); rewrite <- Zlt_Qlt; lia).
  assert (E : inject_Z N / inject_Z D * inject_Z D == inject_Z N) by (field; lra).
  assert (EI : inject_Z ((fst p - fst a) * D) == (inject_Z (fst p) - inject_Z (fst a)) * inject_Z D).
  { rewrite inject_Z_mult. unfold Zminus. rewrite inject_Z_plus, inject_Z_opp. ring. }
  rewrite Z.gt_lt_iff, Zlt_Qlt. fold N. rewrite EI.
  set (q := inject_Z N / inject_Z D) in *.
  split; intros L; nra.
Qed.

(* each +1 / -1 contribution <=> the edge crosses the open rightward ray from p under the
   half-open rule (start level <= py < end level for upward edges, reversed for downward) and the
   crossing abscissa is strictly to the right of p *)
Lemma crossing_rule p a b :
  (contrib p a b = 1%Z <-> (snd a <= snd p < snd b)%Z /\ inject_Z (fst p) < x_cross p a b) /\
  (contrib p a b = (-1)%Z <-> (snd b <= snd p < snd a)%Z /\ inject_Z (fst p) < x_cross p a b) /\
  (contrib p a b = 1 \/ contrib p a b = 0 \/ contrib p a b = -1)%Z.
Proof.
  split; [|split].
  - rewrite contrib_up. split; intros [L H]; (split; [assumption|]).
    + apply x_cross_up; [lia|assumption].
    + apply x_cross_up; [lia|assumption].
  - rewrite contrib_down. split; intros [L H]; (split; [assumption|]).
    + apply x_cross_down; [lia|assumption].
    + apply x_cross_down; [lia|assumption].
  - apply contrib_range.
Qed.

Lemma sideOnly_boundary p vs :
  sideOnly p vs = true <->
  In p vs \/ exists i, (0 <= i < py_len_pts vs)%Z /\
                       on_segment_Q p (py_index_pts vs i) (py_index_pts vs ((i + 1) mod py_len_pts vs)).
Proof.
  rewrite sideOnly_spec, on_side_iff. split; (intros [H|(i & Hi & H)]; [left; assumption|right]);
    exists i; (split; [assumption|]); apply tween2_iff_on_segment_Q; assumption.
Qed.

Lemma wind_sum p vs :
  wind p vs = if sideOnly p vs then 0%Z else sum_from (length vs) 0 (edge_contrib p vs).
Proof. rewrite wind_spec, sideOnly_spec. reflexivity. Qed.
