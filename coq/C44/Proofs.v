From Coq Require Import ZArith List Bool Lia ZifyBool.
Import ListNotations.
Require Import V.Lib.C43_PyPrelude V.gen.Vectoring V.C44.Model.
Open Scope Z_scope.

(* ------------------------------------------------------------------ *)
(* the generated loops, in closed form                                   *)
(* ------------------------------------------------------------------ *)
Lemma for_from_spec {R : Type} (hit : Z -> bool) (c : Z -> Z) (r : R) (body : Z -> Z -> loop_res Z R) :
  (forall i w, body i w = if hit i then LRet r else LCont (w + c i)) ->
  forall n i w, py_for_from n i body w =
                if existsb_from n i hit then LRet r else LCont (w + sum_from n i c).
Proof.
  intros Hb. induction n as [|n IH]; intros i w; cbn [py_for_from existsb_from sum_from].
  - f_equal. lia.
  - rewrite Hb. destruct (hit i); cbn [orb]; [reflexivity|].
    rewrite IH. destruct (existsb_from n (i + 1) hit); [reflexivity|]. f_equal. lia.
Qed.

Lemma for_from_unit {R : Type} (hit : Z -> bool) (r : R) (body : Z -> unit -> loop_res unit R) :
  (forall i w, body i w = if hit i then LRet r else LCont tt) ->
  forall n i w, py_for_from n i body w = if existsb_from n i hit then LRet r else LCont tt.
Proof.
  intros Hb. induction n as [|n IH]; intros i w; cbn [py_for_from existsb_from].
  - destruct w; reflexivity.
  - rewrite Hb. destruct (hit i); cbn [orb]; [reflexivity|]. apply IH.
Qed.

Lemma len_nat vs : Z.to_nat (py_len_pts vs) = length vs.
Proof. unfold py_len_pts. apply Nat2Z.id. Qed.

Lemma pair_eta (q : pt) : q = (fst q, snd q).
Proof. destruct q; reflexivity. Qed.

(* one iteration of the wind / inside loop body *)
Lemma body_shape (R : Type) (r : R) p vs i w :
  (let j := (i + 1) mod py_len_pts vs in
   if tween2 p (py_index_pts vs i) (py_index_pts vs j) then @LRet Z R r
   else let '(x, y) := py_index_pts vs i in
        let '(u, v) := py_index_pts vs j in
        if y <=? snd p
        then if Z_gtb v (snd p)
             then if cw (sub p (py_index_pts vs i)) (sub (py_index_pts vs j) (py_index_pts vs i))
                  then let w0 := w + 1 in LCont w0 else LCont w
             else LCont w
        else if v <=? snd p
             then if ccw (sub p (py_index_pts vs i)) (sub (py_index_pts vs j) (py_index_pts vs i))
                  then let w0 := w - 1 in LCont w0 else LCont w
             else LCont w)
  = if edge_hit p vs i then LRet r else LCont (w + edge_contrib p vs i).
Proof.
  unfold edge_hit, edge_contrib, contrib, nxt, Z_gtb. cbv zeta.
  destruct (tween2 p (py_index_pts vs i) (py_index_pts vs ((i + 1) mod py_len_pts vs))); [reflexivity|].
  set (a := py_index_pts vs i). set (b := py_index_pts vs ((i + 1) mod py_len_pts vs)).
  rewrite (pair_eta a) at 1. rewrite (pair_eta b) at 1.
  destruct (snd a <=? snd p); [destruct (snd p <? snd b)|destruct (snd b <=? snd p)];
    try (f_equal; lia).
  - destruct (cw (sub p a) (sub b a)); f_equal; lia.
  - destruct (ccw (sub p a) (sub b a)); f_equal; lia.
Qed.

Lemma wind_spec p vs : wind p vs = if on_side p vs then 0 else wsum p vs.
Proof.
  unfold wind, on_side, wsum. destruct (py_in_pts p vs); cbn [orb]; [reflexivity|].
  destruct p as [px py]. unfold py_for_range. rewrite len_nat.
  rewrite (for_from_spec (edge_hit (px, py) vs) (edge_contrib (px, py) vs) 0).
  - destruct (existsb_from (length vs) 0 (edge_hit (px, py) vs)); [reflexivity|]. lia.
  - intros i w. apply (body_shape Z 0 (px, py) vs i w).
Qed.

Lemma inside_spec p vs side :
  inside p vs side = if on_side p vs then side else negb (wsum p vs =? 0).
Proof.
  unfold inside, on_side, wsum. destruct (py_in_pts p vs); cbn [orb]; [reflexivity|].
  destruct p as [px py]. unfold py_for_range. rewrite len_nat.
  rewrite (for_from_spec (edge_hit (px, py) vs) (edge_contrib (px, py) vs) side).
  - destruct (existsb_from (length vs) 0 (edge_hit (px, py) vs)); [reflexivity|].
    rewrite Z.add_0_l. destruct (sum_from (length vs) 0 (edge_contrib (px, py) vs) =? 0); reflexivity.
  - intros i w. apply (body_shape bool side (px, py) vs i w).
Qed.

Lemma sideOnly_spec p vs : sideOnly p vs = on_side p vs.
Proof.
  unfold sideOnly, on_side. destruct (py_in_pts p vs); cbn [orb]; [reflexivity|].
  destruct p as [px py]. unfold py_for_range. rewrite len_nat.
  rewrite (for_from_unit (edge_hit (px, py) vs) true).
  - destruct (existsb_from (length vs) 0 (edge_hit (px, py) vs)); reflexivity.
  - intros i w. reflexivity.
Qed.

(* ------------------------------------------------------------------ *)
(* predicate algebra, for every polygon (simple or not) and every point   *)
(* ------------------------------------------------------------------ *)
Lemma outside_negb_inside p vs s : outside p vs s = negb (inside p vs (negb s)).
Proof. unfold outside. destruct (inside p vs (negb s)); reflexivity. Qed.

Lemma insideOnly_def p vs : insideOnly p vs = inside p vs false.
Proof. reflexivity. Qed.

Lemma outsideOnly_def p vs : outsideOnly p vs = negb (inside p vs true).
Proof. unfold outsideOnly. rewrite outside_negb_inside. reflexivity. Qed.

Lemma insideOnly_spec p vs : insideOnly p vs = negb (on_side p vs) && negb (wsum p vs =? 0).
Proof. rewrite insideOnly_def, inside_spec. destruct (on_side p vs); reflexivity. Qed.

Lemma outsideOnly_spec p vs : outsideOnly p vs = negb (on_side p vs) && (wsum p vs =? 0).
Proof.
  rewrite outsideOnly_def, inside_spec. destruct (on_side p vs); cbn; [reflexivity|].
  apply negb_involutive.
Qed.

(* exactly one of strictly-inside / on-boundary / strictly-outside *)
Lemma trichotomy p vs :
  (insideOnly p vs = true /\ sideOnly p vs = false /\ outsideOnly p vs = false) \/
  (insideOnly p vs = false /\ sideOnly p vs = true /\ outsideOnly p vs = false) \/
  (insideOnly p vs = false /\ sideOnly p vs = false /\ outsideOnly p vs = true).
Proof.
  rewrite insideOnly_spec, outsideOnly_spec, sideOnly_spec.
  destruct (on_side p vs), (wsum p vs =? 0); cbn; tauto.
Qed.

Lemma inside_flag p vs s : inside p vs s = insideOnly p vs || (s && sideOnly p vs).
Proof.
  rewrite insideOnly_spec, sideOnly_spec, inside_spec.
  destruct (on_side p vs), s, (wsum p vs =? 0); reflexivity.
Qed.

Lemma outside_flag p vs s : outside p vs s = outsideOnly p vs || (s && sideOnly p vs).
Proof.
  rewrite outside_negb_inside, outsideOnly_spec, sideOnly_spec, inside_spec.
  destruct (on_side p vs), s, (wsum p vs =? 0); reflexivity.
Qed.

Lemma wind_zero_iff p vs : (wind p vs =? 0) = negb (insideOnly p vs).
Proof.
  rewrite wind_spec, insideOnly_spec. destruct (on_side p vs); cbn; [reflexivity|].
  symmetry. apply negb_involutive.
Qed.

(* ------------------------------------------------------------------ *)
(* tween2 = exact "on the closed segment"                                *)
(* ------------------------------------------------------------------ *)
Definition on_segment_Z (p u v : pt) : Prop :=
  exists n d : Z, 0 < d /\ 0 <= n <= d /\
    d * (fst p - fst u) = n * (fst v - fst u) /\ d * (snd p - snd u) = n * (snd v - snd u).

Lemma tween2_unfold p u v :
  let ax := fst p - fst u in let ay := snd p - snd u in
  let bx := fst v - fst u in let by_ := snd v - snd u in
  tween2 p u v =
  if bx * bx + by_ * by_ =? 0 then (ax =? bx) && (ay =? by_)
  else if ax * bx + ay * by_ <? 0 then false
  else if bx * bx + by_ * by_ <? ax * bx + ay * by_ then false
  else if negb (ax * by_ - ay * bx =? 0) then false else true.
Proof.
  cbv zeta. unfold tween2, sub, dot, mag2, trip, pt_eqb, Z_gtb, Z_neb. cbn [fst snd].
  rewrite !Z.add_0_l.
  destruct ((fst v - fst u) * (fst v - fst u) + (snd v - snd u) * (snd v - snd u) =? 0); [|reflexivity].
  destruct ((fst p - fst u =? fst v - fst u) && (snd p - snd u =? snd v - snd u)); reflexivity.
Qed.

Lemma tween2_on_segment p u v : tween2 p u v = true <-> on_segment_Z p u v.
Proof.
  rewrite tween2_unfold. cbv zeta. unfold on_segment_Z.
  set (ax := fst p - fst u). set (ay := snd p - snd u).
  set (bx := fst v - fst u). set (by_ := snd v - snd u).
  split.
  - destruct (bx * bx + by_ * by_ =? 0) eqn:D.
    + intros H. exists 0, 1.
      assert (bx = 0) by nia. assert (by_ = 0) by nia. lia.
    + destruct (ax * bx + ay * by_ <? 0) eqn:L; [discriminate|].
      destruct (bx * bx + by_ * by_ <? ax * bx + ay * by_) eqn:G; [discriminate|].
      destruct (ax * by_ - ay * bx =? 0) eqn:T; [|discriminate]. intros _.
      exists (ax * bx + ay * by_), (bx * bx + by_ * by_).
      assert (T' : ax * by_ - ay * bx = 0) by lia.
      assert (E1 : (bx * bx + by_ * by_) * ax - (ax * bx + ay * by_) * bx = by_ * (ax * by_ - ay * bx)) by ring.
      assert (E2 : (bx * bx + by_ * by_) * ay - (ax * bx + ay * by_) * by_ = - bx * (ax * by_ - ay * bx)) by ring.
      rewrite T' in E1, E2.
      assert (0 <= bx * bx) by apply Z.square_nonneg.
      assert (0 <= by_ * by_) by apply Z.square_nonneg.
      lia.
  - intros (n & d & Hd & Hn & Ex & Ey).
    assert (S1 : d * (ax * bx + ay * by_) = n * (bx * bx + by_ * by_)).
    { replace (d * (ax * bx + ay * by_)) with ((d * ax) * bx + (d * ay) * by_) by ring.
      rewrite Ex, Ey. ring. }
    assert (S2 : d * (ax * by_ - ay * bx) = 0).
    { replace (d * (ax * by_ - ay * bx)) with ((d * ax) * by_ - (d * ay) * bx) by ring.
      rewrite Ex, Ey. ring. }
    assert (Q0 : 0 <= bx * bx) by apply Z.square_nonneg.
    assert (Q1 : 0 <= by_ * by_) by apply Z.square_nonneg.
    destruct (bx * bx + by_ * by_ =? 0) eqn:D.
    + assert (bx = 0) by nia. assert (by_ = 0) by nia. subst bx by_.
      assert (ax = 0) by nia. assert (ay = 0) by nia. lia.
    + assert (T0 : ax * by_ - ay * bx = 0) by nia.
      assert (P : 0 < bx * bx + by_ * by_) by lia.
      assert (N0 : 0 <= ax * bx + ay * by_) by nia.
      assert (N1 : ax * bx + ay * by_ <= bx * bx + by_ * by_) by nia.
      destruct (ax * bx + ay * by_ <? 0) eqn:L; [lia|].
      destruct (bx * bx + by_ * by_ <? ax * bx + ay * by_) eqn:G; [lia|].
      destruct (ax * by_ - ay * bx =? 0) eqn:T; [reflexivity|lia].
Qed.

(* ------------------------------------------------------------------ *)
(* boundary                                                            *)
(* ------------------------------------------------------------------ *)
Lemma pt_eqb_eq a b : pt_eqb a b = true <-> a = b.
Proof.
  unfold pt_eqb. destruct a, b; cbn [fst snd]. split.
  - intros H. apply andb_true_iff in H. destruct H. f_equal; lia.
  - intros H. inversion H. subst. apply andb_true_iff. split; lia.
Qed.

Lemma py_in_pts_In p vs : py_in_pts p vs = true <-> In p vs.
Proof.
  unfold py_in_pts. rewrite existsb_exists. split.
  - intros (x & Hx & E). apply pt_eqb_eq in E. subst. assumption.
  - intros H. exists p. split; [assumption|]. apply pt_eqb_eq. reflexivity.
Qed.

Lemma existsb_from_iff n i f :
  existsb_from n i f = true <-> exists k, i <= k < i + Z.of_nat n /\ f k = true.
Proof.
  revert i. induction n as [|n IH]; intros i; cbn [existsb_from].
  - split; [discriminate|]. intros (k & Hk & _). lia.
  - rewrite orb_true_iff, IH. split.
    + intros [H|(k & Hk & H)]; [exists i|exists k]; split; try assumption; lia.
    + intros (k & Hk & H). destruct (Z.eq_dec k i) as [->|N]; [left; assumption|].
      right. exists k. split; [lia|assumption].
Qed.

Lemma on_side_iff p vs :
  on_side p vs = true <->
  In p vs \/ exists i, 0 <= i < py_len_pts vs /\
                       tween2 p (py_index_pts vs i) (py_index_pts vs ((i + 1) mod py_len_pts vs)) = true.
Proof.
  unfold on_side. rewrite orb_true_iff, py_in_pts_In, existsb_from_iff. unfold edge_hit, nxt, py_len_pts.
  split; (intros [H|(k & Hk & H)]; [left; assumption|right; exists k; split; [lia|assumption]]).
Qed.

(* ------------------------------------------------------------------ *)
(* crossing rule                                                        *)
(* ------------------------------------------------------------------ *)
Lemma cw_unfold p a b :
  cw (sub p a) (sub b a) = ((fst p - fst a) * (snd b - snd a) - (snd p - snd a) * (fst b - fst a) <? 0).
Proof. reflexivity. Qed.

Lemma ccw_unfold p a b :
  ccw (sub p a) (sub b a) = (0 <? (fst p - fst a) * (snd b - snd a) - (snd p - snd a) * (fst b - fst a)).
Proof. reflexivity. Qed.

Lemma contrib_up p a b :
  contrib p a b = 1 <->
  snd a <= snd p < snd b /\ (fst p - fst a) * (snd b - snd a) < (snd p - snd a) * (fst b - fst a).
Proof.
  unfold contrib. rewrite cw_unfold, ccw_unfold.
  destruct (snd a <=? snd p) eqn:A; [destruct (snd p <? snd b) eqn:B|destruct (snd b <=? snd p) eqn:B].
  - destruct (_ <? 0) eqn:C; lia.
  - lia.
  - destruct (0 <? _) eqn:C; lia.
  - lia.
Qed.

Lemma contrib_down p a b :
  contrib p a b = -1 <->
  snd b <= snd p < snd a /\ (fst p - fst a) * (snd b - snd a) > (snd p - snd a) * (fst b - fst a).
Proof.
  unfold contrib. rewrite cw_unfold, ccw_unfold.
  destruct (snd a <=? snd p) eqn:A; [destruct (snd p <? snd b) eqn:B|destruct (snd b <=? snd p) eqn:B].
  - destruct (_ <? 0) eqn:C; lia.
  - lia.
  - destruct (0 <? _) eqn:C; lia.
  - lia.
Qed.

Lemma contrib_range p a b : contrib p a b = 1 \/ contrib p a b = 0 \/ contrib p a b = -1.
Proof.
  unfold contrib.
  destruct (snd a <=? snd p); [destruct (snd p <? snd b)|destruct (snd b <=? snd p)];
    try destruct (cw _ _); try destruct (ccw _ _); lia.
Qed.
