(* list view of the generated index loops: the loop over i in range(len vs) with edge
   (vs[i], vs[(i+1) % len]) is a fold over the edge list  combine vs (tl vs ++ [hd vs]);
   invariance under cyclic shift and reversal follows from list reasoning *)
From Coq Require Import ZArith List Bool Lia ZifyBool.
Import ListNotations.
Require Import V.Lib.C43_PyPrelude V.gen.Vectoring V.C44.Model V.C44.Proofs V.C44.Invariance.
Open Scope Z_scope.

Fixpoint zsum (l : list Z) : Z := match l with [] => 0 | x :: r => x + zsum r end.

Lemma zsum_app a b : zsum (a ++ b) = zsum a + zsum b.
Proof. induction a as [|x a IH]; cbn [zsum app]; lia. Qed.

Lemma zsum_rev a : zsum (rev a) = zsum a.
Proof. induction a as [|x a IH]; cbn [zsum rev]; [reflexivity|]. rewrite zsum_app. cbn [zsum]. lia. Qed.

(* a loop over indices i .. i+len-1 reading nth (k-i) is a map over the list *)
Lemma sum_from_nth {A} (g : A -> Z) (d : A) l i :
  sum_from (length l) i (fun k => g (nth (Z.to_nat (k - i)) l d)) = zsum (map g l).
Proof.
  revert i. induction l as [|x l IH]; intros i; cbn [length sum_from map zsum]; [reflexivity|].
  replace (Z.to_nat (i - i)) with O by lia. cbn [nth]. f_equal.
  rewrite <- (IH (i + 1)). apply sum_from_ext. intros k Hk.
  replace (Z.to_nat (k - i)) with (S (Z.to_nat (k - (i + 1)))) by lia. reflexivity.
Qed.

Lemma existsb_from_nth {A} (g : A -> bool) (d : A) l i :
  existsb_from (length l) i (fun k => g (nth (Z.to_nat (k - i)) l d)) = existsb g l.
Proof.
  revert i. induction l as [|x l IH]; intros i; cbn [length existsb_from existsb]; [reflexivity|].
  replace (Z.to_nat (i - i)) with O by lia. cbn [nth]. f_equal.
  rewrite <- (IH (i + 1)). apply existsb_from_ext. intros k Hk.
  replace (Z.to_nat (k - i)) with (S (Z.to_nat (k - (i + 1)))) by lia. reflexivity.
Qed.

Lemma o_edges_length vs : length (o_edges vs) = length vs.
Proof.
  destruct vs as [|v0 tl]; [reflexivity|]. unfold o_edges.
  rewrite combine_length, app_length. cbn [length]. lia.
Qed.

(* the k-th edge of the list is the edge the loop visits at index k *)
Lemma o_edges_nth vs k : 0 <= k < py_len_pts vs ->
  nth (Z.to_nat k) (o_edges vs) ((0, 0), (0, 0)) = (py_index_pts vs k, py_index_pts vs (nxt vs k)).
Proof.
  unfold py_len_pts, py_index_pts, nxt, py_len_pts. intros H.
  destruct vs as [|v0 tl]; [exfalso; simpl in H; lia|]. unfold o_edges.
  rewrite combine_nth by (rewrite app_length; simpl; rewrite Nat.add_1_r; reflexivity). f_equal.
  cbn [length] in *. rewrite Nat2Z.inj_succ in *.
  destruct (Z.eq_dec (k + 1) (Z.succ (Z.of_nat (length tl)))) as [E|NE].
  - rewrite E, Z.mod_same by lia. cbn [Z.to_nat nth].
    rewrite app_nth2 by lia. replace (Z.to_nat k - length tl)%nat with O by lia. reflexivity.
  - rewrite Z.mod_small by lia. rewrite app_nth1 by lia.
    replace (Z.to_nat (k + 1)) with (S (Z.to_nat k)) by lia. reflexivity.
Qed.

Lemma wsum_edges p vs : wsum p vs = zsum (map (fun e => contrib p (fst e) (snd e)) (o_edges vs)).
Proof.
  unfold wsum. rewrite <- (sum_from_nth (fun e => contrib p (fst e) (snd e)) ((0, 0), (0, 0)) (o_edges vs) 0).
  rewrite o_edges_length. apply sum_from_ext. intros k Hk. unfold edge_contrib.
  rewrite Z.sub_0_r, o_edges_nth by (unfold py_len_pts; lia). reflexivity.
Qed.

Lemma on_side_edges p vs :
  on_side p vs = py_in_pts p vs || existsb (fun e => tween2 p (fst e) (snd e)) (o_edges vs).
Proof.
  unfold on_side. f_equal.
  rewrite <- (existsb_from_nth (fun e => tween2 p (fst e) (snd e)) ((0, 0), (0, 0)) (o_edges vs) 0).
  rewrite o_edges_length. apply existsb_from_ext. intros k Hk. unfold edge_hit.
  rewrite Z.sub_0_r, o_edges_nth by (unfold py_len_pts; lia). reflexivity.
Qed.

(* ---------------- cyclic shift ---------------- *)
Definition rot {A} (l : list A) : list A := match l with [] => [] | x :: r => r ++ [x] end.

Lemma combine_snoc {A B} (l1 : list A) (l2 : list B) a b :
  length l1 = length l2 -> combine (l1 ++ [a]) (l2 ++ [b]) = combine l1 l2 ++ [(a, b)].
Proof.
  revert l2. induction l1 as [|x l1 IH]; intros [|y l2] H; cbn in H; try discriminate; cbn; [reflexivity|].
  f_equal. apply IH. lia.
Qed.

Lemma o_edges_rot vs : o_edges (rot vs) = rot (o_edges vs).
Proof.
  destruct vs as [|v0 [|v1 tl]]; [reflexivity|reflexivity|].
  change (o_edges (rot (v0 :: v1 :: tl))) with (combine ((v1 :: tl) ++ [v0]) ((tl ++ [v0]) ++ [v1])).
  change (rot (o_edges (v0 :: v1 :: tl))) with (combine (v1 :: tl) (tl ++ [v0]) ++ [(v0, v1)]).
  apply combine_snoc. rewrite app_length. simpl. rewrite Nat.add_1_r. reflexivity.
Qed.

Lemma zsum_rot l : zsum (rot l) = zsum l.
Proof. destruct l as [|x r]; [reflexivity|]. cbn [rot]. rewrite zsum_app. cbn [zsum]. lia. Qed.

Lemma map_rot {A B} (f : A -> B) l : map f (rot l) = rot (map f l).
Proof. destruct l as [|x r]; [reflexivity|]. cbn [rot map]. rewrite map_app. reflexivity. Qed.

Lemma existsb_rot {A} (f : A -> bool) l : existsb f (rot l) = existsb f l.
Proof.
  destruct l as [|x r]; [reflexivity|]. cbn [rot existsb]. rewrite existsb_app. cbn [existsb].
  destruct (f x), (existsb f r); reflexivity.
Qed.

Lemma wsum_rot p vs : wsum p (rot vs) = wsum p vs.
Proof. rewrite !wsum_edges, o_edges_rot, map_rot, zsum_rot. reflexivity. Qed.

Lemma on_side_rot p vs : on_side p (rot vs) = on_side p vs.
Proof.
  rewrite !on_side_edges, o_edges_rot, existsb_rot. f_equal.
  unfold py_in_pts. apply existsb_rot.
Qed.

Lemma cyclic_shift_invariance p vs s :
  wind p (rot vs) = wind p vs /\ inside p (rot vs) s = inside p vs s /\
  outside p (rot vs) s = outside p vs s /\ insideOnly p (rot vs) = insideOnly p vs /\
  outsideOnly p (rot vs) = outsideOnly p vs /\ sideOnly p (rot vs) = sideOnly p vs.
Proof.
  rewrite !wind_spec, !outside_negb_inside, !insideOnly_def, !outsideOnly_def, !inside_spec, !sideOnly_spec,
          !on_side_rot, !wsum_rot.
  repeat split; reflexivity.
Qed.

(* ---------------- reversal ---------------- *)
Definition swap {A B} (e : A * B) : B * A := (snd e, fst e).

Lemma swap_combine {A B} (a : list A) (b : list B) : map swap (combine a b) = combine b a.
Proof.
  revert b. induction a as [|x a IH]; intros [|y b]; cbn; try reflexivity. f_equal. apply IH.
Qed.

Lemma rev_combine {A B} (a : list A) (b : list B) :
  length a = length b -> rev (combine a b) = combine (rev a) (rev b).
Proof.
  revert b. induction a as [|x a IH]; intros [|y b] H; cbn in H; try discriminate; [reflexivity|].
  cbn [combine rev]. rewrite IH by lia. symmetry. apply combine_snoc. rewrite !rev_length. lia.
Qed.

Lemma existsb_rev' {A} (f : A -> bool) l : existsb f (rev l) = existsb f l.
Proof.
  induction l as [|x l IH]; [reflexivity|]. cbn [rev existsb]. rewrite existsb_app, IH. cbn [existsb].
  destruct (f x), (existsb f l); reflexivity.
Qed.

Lemma o_edges_rev vs : o_edges (rev vs) = rot (rev (map swap (o_edges vs))).
Proof.
  destruct vs as [|v0 t]; [reflexivity|].
  change (o_edges (v0 :: t)) with (combine (v0 :: t) (t ++ [v0])).
  rewrite swap_combine, rev_combine by (rewrite app_length; simpl; rewrite Nat.add_1_r; reflexivity).
  rewrite rev_app_distr. cbn [rev app].
  change (combine (v0 :: rev t) (rev t ++ [v0])) with (o_edges (v0 :: rev t)).
  rewrite <- o_edges_rot. reflexivity.
Qed.

Lemma zsum_map_opp {A} (g : A -> Z) l : zsum (map (fun e => - g e) l) = - zsum (map g l).
Proof. induction l as [|x l IH]; cbn [map zsum]; lia. Qed.

Lemma wsum_rev p vs : wsum p (rev vs) = - wsum p vs.
Proof.
  rewrite !wsum_edges, o_edges_rev, map_rot, zsum_rot, map_rev, zsum_rev, map_map.
  rewrite <- zsum_map_opp. f_equal. apply map_ext. intros [a b]. cbn [swap fst snd]. apply contrib_rev.
Qed.

Lemma on_side_rev p vs : on_side p (rev vs) = on_side p vs.
Proof.
  rewrite !on_side_edges, o_edges_rev, existsb_rot, existsb_rev'. f_equal.
  - unfold py_in_pts. apply existsb_rev'.
  - induction (o_edges vs) as [|[a b] l IH]; [reflexivity|]. cbn [map existsb swap fst snd].
    rewrite IH, (tween2_sym p b a). reflexivity.
Qed.

Lemma reversal p vs s :
  wind p (rev vs) = - wind p vs /\ inside p (rev vs) s = inside p vs s /\
  outside p (rev vs) s = outside p vs s /\ insideOnly p (rev vs) = insideOnly p vs /\
  outsideOnly p (rev vs) = outsideOnly p vs /\ sideOnly p (rev vs) = sideOnly p vs.
Proof.
  rewrite !wind_spec, !outside_negb_inside, !insideOnly_def, !outsideOnly_def, !inside_spec, !sideOnly_spec,
          !on_side_rev, !wsum_rev.
  replace (- wsum p vs =? 0) with (wsum p vs =? 0) by lia.
  repeat split; try reflexivity. destruct (on_side p vs); reflexivity.
Qed.

(* ---------------- the boundary predicate IS the exact oracle, for every vertex list ---------------- *)
Lemma tween2_o_on_seg p a b : tween2 p a b = o_on_seg p a b.
Proof.
  apply eq_true_iff_eq. split.
  - rewrite tween2_on_segment. intros (n & d & Hd & Hn & Ex & Ey).
    unfold o_on_seg, orient.
    assert (T : (fst b - fst a) * (snd p - snd a) - (snd b - snd a) * (fst p - fst a) = 0).
    { assert (d * ((fst b - fst a) * (snd p - snd a) - (snd b - snd a) * (fst p - fst a)) = 0).
      { replace (d * ((fst b - fst a) * (snd p - snd a) - (snd b - snd a) * (fst p - fst a)))
          with ((fst b - fst a) * (d * (snd p - snd a)) - (snd b - snd a) * (d * (fst p - fst a))) by ring.
        rewrite Ex, Ey. ring. }
      nia. }
    rewrite T.
    assert (X : Z.min (fst a) (fst b) <= fst p <= Z.max (fst a) (fst b)) by nia.
    assert (Y : Z.min (snd a) (snd b) <= snd p <= Z.max (snd a) (snd b)) by nia.
    repeat (apply andb_true_iff; split); lia.
  - unfold o_on_seg, orient. intros H.
    repeat (apply andb_true_iff in H; destruct H as [H ?]).
    rewrite tween2_unfold. cbv zeta.
    set (ax := fst p - fst a) in *. set (ay := snd p - snd a) in *.
    set (bx := fst b - fst a) in *. set (by_ := snd b - snd a) in *.
    assert (T : bx * ay - by_ * ax = 0) by lia.
    assert (BX : (0 <= ax <= bx) \/ (bx <= ax <= 0)) by lia.
    assert (BY : (0 <= ay <= by_) \/ (by_ <= ay <= 0)) by lia.
    destruct (bx * bx + by_ * by_ =? 0) eqn:D.
    + assert (bx = 0) by nia. assert (by_ = 0) by nia. lia.
    + assert (0 <= ax * bx) by nia. assert (0 <= ay * by_) by nia.
      assert (ax * bx <= bx * bx) by nia. assert (ay * by_ <= by_ * by_) by nia.
      destruct (ax * bx + ay * by_ <? 0) eqn:L; [lia|].
      destruct (bx * bx + by_ * by_ <? ax * bx + ay * by_) eqn:G; [lia|].
      destruct (ax * by_ - ay * bx =? 0) eqn:E; [reflexivity|lia].
Qed.

Lemma tween2_start p b : tween2 p p b = true.
Proof. apply tween2_on_segment. exists 0, 1. lia. Qed.

Lemma combine_has_fst {A B} (a : list A) (b : list B) x :
  In x a -> (length a <= length b)%nat -> exists y, In (x, y) (combine a b).
Proof.
  revert b. induction a as [|z a IH]; intros [|y b] H L; cbn in *; try tauto; try lia.
  destruct H as [->|H].
  - exists y. left. reflexivity.
  - destruct (IH b H) as (y' & Hy); [lia|]. exists y'. right. assumption.
Qed.

Lemma vertex_on_edge p vs :
  py_in_pts p vs = true -> existsb (fun e => tween2 p (fst e) (snd e)) (o_edges vs) = true.
Proof.
  rewrite py_in_pts_In. intros H. destruct vs as [|v0 t]; [contradiction|].
  destruct (combine_has_fst (v0 :: t) (t ++ [v0]) p H) as (y & Hy).
  { rewrite app_length. simpl. rewrite Nat.add_1_r. apply le_n. }
  apply existsb_exists. exists (p, y). split; [exact Hy|]. apply tween2_start.
Qed.

Lemma sideOnly_o_boundary p vs : sideOnly p vs = o_boundary p vs.
Proof.
  rewrite sideOnly_spec, on_side_edges. unfold o_boundary.
  assert (E : existsb (fun e => tween2 p (fst e) (snd e)) (o_edges vs) =
              existsb (fun e => o_on_seg p (fst e) (snd e)) (o_edges vs)).
  { induction (o_edges vs) as [|e l IH]; [reflexivity|]. cbn [existsb]. rewrite IH, tween2_o_on_seg. reflexivity. }
  rewrite <- E. destruct (py_in_pts p vs) eqn:I; [|reflexivity].
  rewrite (vertex_on_edge p vs I). reflexivity.
Qed.
