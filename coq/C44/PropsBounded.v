(* C44 -- the bounded exhaustive property theorem (separate file: its proof is a large kernel VM
   computation, which coqchk -- having no VM -- cannot re-check within the thorough-tier time limit;
   it is checked by coqc's kernel on every rebuild). *)
From Coq Require Import ZArith QArith List Bool.
Import ListNotations.
Require Import V.Lib.C43_PyPrelude V.gen.Vectoring V.C44.Model V.C44.Bounded.

(* ---------- bounded, exhaustive (the bound is part of the statement) ---------- *)
(* For EVERY simple polygon with at most 5 vertices on the 4x4 integer grid (resp. at most 4
   vertices on the 5x5 grid) and EVERY grid point, all predicates equal the independent exact
   oracle of Model.v (on-boundary by collinearity + bounding box; strictly-inside by the even-odd
   rule along a ray of slope K that meets no lattice vertex of the grid; simplicity by exact
   segment-intersection tests); inside points have winding number +1 or -1. *)
Theorem small_polygons_exact : forall (vs : list pt) (p : pt),
  ((length vs <= 5)%nat -> Forall (in_grid 4) vs -> in_grid 4 p -> o_simple vs = true ->
     agree 4 p vs = true) /\
  ((length vs <= 4)%nat -> Forall (in_grid 5) vs -> in_grid 5 p -> o_simple vs = true ->
     agree 5 p vs = true).
Proof. exact (fun vs p => conj (small_polygons_4x4 vs p) (small_polygons_5x5 vs p)). Qed.
Print Assumptions small_polygons_exact.


Example c44_counts : length (filter o_simple (all_lists (grid 4) 3)) = 3096%nat.
Proof. vm_compute. reflexivity. Qed.
