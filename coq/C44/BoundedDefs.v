(* sharding of the bounded exhaustive check (definitions + completeness of the enumerators) *)
From Coq Require Import ZArith List Bool Lia.
Import ListNotations.
Require Import V.Lib.C43_PyPrelude V.gen.Vectoring V.C44.Model.
Open Scope Z_scope.

Definition shard {A} (size k : nat) (l : list A) : list A := firstn size (skipn (size * k) l).

Lemma zrange_In n x : 0 <= x < n -> In x (zrange n).
Proof.
  intros H. unfold zrange. apply in_map_iff. exists (Z.to_nat x). split; [lia|].
  apply in_seq. lia.
Qed.

Lemma grid_In B p : in_grid B p -> In p (grid B).
Proof.
  intros [Hx Hy]. unfold grid. apply in_flat_map. exists (fst p). split.
  - apply zrange_In; assumption.
  - apply in_map_iff. exists (snd p). split; [destruct p; reflexivity|apply zrange_In; assumption].
Qed.

Lemma all_lists_In {A} (g : list A) l : Forall (fun x => In x g) l -> In l (all_lists g (length l)).
Proof.
  induction 1 as [|x l Hx Hl IH]; cbn [all_lists length].
  - left; reflexivity.
  - apply in_flat_map. exists x. split; [assumption|]. apply in_map. assumption.
Qed.

Lemma check_poly_agree B vs p :
  check_poly B vs = true -> o_simple vs = true -> in_grid B p -> agree B p vs = true.
Proof.
  unfold check_poly. intros H S G. rewrite S in H. rewrite forallb_forall in H.
  apply H. apply grid_In. assumption.
Qed.

Lemma check_all_use B n vs p :
  check_all B n = true -> length vs = n -> Forall (in_grid B) vs ->
  o_simple vs = true -> in_grid B p -> agree B p vs = true.
Proof.
  intros H L F S G. apply check_poly_agree; try assumption.
  unfold check_all in H. rewrite forallb_forall in H. apply H. subst n. apply all_lists_In.
  eapply Forall_impl; [|exact F]. intros a. apply grid_In.
Qed.

Lemma check_all_from_use B n v0 r p :
  forallb (check_all_from B n) (grid B) = true -> length r = n -> Forall (in_grid B) (v0 :: r) ->
  o_simple (v0 :: r) = true -> in_grid B p -> agree B p (v0 :: r) = true.
Proof.
  intros H L F S G. apply check_poly_agree; try assumption.
  rewrite forallb_forall in H. inversion F as [|x l Fx Fl]; subst.
  specialize (H v0 (grid_In _ _ Fx)). unfold check_all_from in H. rewrite forallb_forall in H.
  apply (H r). apply all_lists_In. eapply Forall_impl; [|exact Fl]. intros a. apply grid_In.
Qed.
