(* the bounded exhaustive theorem, assembled from the shards *)
From Coq Require Import ZArith List Bool Lia.
Import ListNotations.
Require Import V.Lib.C43_PyPrelude V.gen.Vectoring V.C44.Model V.C44.BoundedDefs.
Require Import V.C44.Bounded4a V.C44.Bounded4p0 V.C44.Bounded4p1 V.C44.Bounded4p2 V.C44.Bounded4p3.
Require Import V.C44.Bounded5q0 V.C44.Bounded5q1 V.C44.Bounded5q2 V.C44.Bounded5q3 V.C44.Bounded5q4.
Open Scope Z_scope.

(* never let tactics unfold the exhaustive computations *)
Opaque check_all check_all_from check_poly agree.

Lemma b4_pent : forallb (check_all_from 4 4) (grid 4) = true.
Proof.
  replace (grid 4) with (shard 4 0 (grid 4) ++ shard 4 1 (grid 4) ++ shard 4 2 (grid 4) ++ shard 4 3 (grid 4))
    by (vm_compute; reflexivity).
  rewrite !forallb_app, b4_pent_0, b4_pent_1, b4_pent_2, b4_pent_3. reflexivity.
Qed.

Lemma b5_quad : forallb (check_all_from 5 3) (grid 5) = true.
Proof.
  replace (grid 5) with (shard 5 0 (grid 5) ++ shard 5 1 (grid 5) ++ shard 5 2 (grid 5) ++
                         shard 5 3 (grid 5) ++ shard 5 4 (grid 5))
    by (vm_compute; reflexivity).
  rewrite !forallb_app, b5_quad_0, b5_quad_1, b5_quad_2, b5_quad_3, b5_quad_4. reflexivity.
Qed.

Lemma o_simple_len vs : o_simple vs = true -> (3 <= length vs)%nat.
Proof.
  unfold o_simple. intros H. apply andb_true_iff in H. destruct H as [H _].
  apply andb_true_iff in H. destruct H as [H _]. lia.
Qed.

Lemma small_polygons_4x4 vs p :
  (length vs <= 5)%nat -> Forall (in_grid 4) vs -> in_grid 4 p -> o_simple vs = true ->
  agree 4 p vs = true.
Proof.
  intros L F G S. pose proof (o_simple_len vs S) as L3.
  destruct vs as [|v0 r]; [cbn in L3; lia|].
  cbn [length] in L, L3.
  destruct (Nat.eq_dec (length r) 2) as [E|N2].
  - assert (E3 : length (v0 :: r) = 3%nat) by (cbn [length]; lia).
    exact (check_all_use 4 3 (v0 :: r) p b4_tri E3 F S G).
  - destruct (Nat.eq_dec (length r) 3) as [E|N3].
    + assert (E4 : length (v0 :: r) = 4%nat) by (cbn [length]; lia).
      exact (check_all_use 4 4 (v0 :: r) p b4_quad E4 F S G).
    + assert (E5 : length r = 4%nat) by lia.
      exact (check_all_from_use 4 4 v0 r p b4_pent E5 F S G).
Qed.

Lemma small_polygons_5x5 vs p :
  (length vs <= 4)%nat -> Forall (in_grid 5) vs -> in_grid 5 p -> o_simple vs = true ->
  agree 5 p vs = true.
Proof.
  intros L F G S. pose proof (o_simple_len vs S) as L3.
  destruct vs as [|v0 r]; [cbn in L3; lia|].
  cbn [length] in L, L3.
  destruct (Nat.eq_dec (length r) 2) as [E|N2].
  - assert (E3 : length (v0 :: r) = 3%nat) by (cbn [length]; lia).
    exact (check_all_use 5 3 (v0 :: r) p b5_tri E3 F S G).
  - assert (E4 : length r = 3%nat) by lia.
    exact (check_all_from_use 5 3 v0 r p b5_quad E4 F S G).
Qed.
