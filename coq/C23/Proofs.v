(* C23 -- lemmas.  The disk invariant [D] is preserved by every primitive and every composite operation,
   crashed or not; a crashed state is frozen, so [D] of the final state is [D] at the crash point. *)
From Coq Require Import List ZArith Bool Lia.
Import ListNotations.
Require Import V.C23.Model.
Open Scope Z_scope.

(* ---------- lists ---------- *)
Lemma view_app a b : view (a ++ b) = view a ++ view b.
Proof. unfold view. apply flat_map_app. Qed.

Lemma ids_app a b : ids (a ++ b) = ids a ++ ids b.
Proof. unfold ids. apply flat_map_app. Qed.

Lemma ids_mkrecs szs : forall n, ids (mkrecs n szs) = seq n (length szs).
Proof. induction szs as [|z r IH]; intros n; cbn; [reflexivity|]. rewrite IH. reflexivity. Qed.

Lemma split_last (fs : list (option content)) : fs <> [] -> fs = removelast fs ++ [last fs None].
Proof. intros H. apply app_removelast_last. exact H. Qed.

Lemma view_split fs : fs <> [] -> view fs = view (removelast fs) ++ oids (last fs None).
Proof.
  intros H. rewrite (split_last fs H) at 1. rewrite view_app. cbn. rewrite app_nil_r. reflexivity.
Qed.

Lemma view_set_main fs m : view (set_main fs m) = view (removelast fs) ++ oids m.
Proof. unfold set_main. rewrite view_app. cbn. rewrite app_nil_r. reflexivity. Qed.

Lemma set_main_ne fs m : set_main fs m <> [].
Proof. unfold set_main. destruct (removelast fs); discriminate. Qed.

Lemma last_set_main fs m : last (set_main fs m) None = m.
Proof. unfold set_main. apply last_last. Qed.

Lemma view_touch fs : forall j, view (touch fs j) = view fs.
Proof.
  induction fs as [|f r IH]; intros j; [destruct j; reflexivity|].
  destruct j; cbn; [reflexivity|]. unfold view in *. cbn. rewrite IH. reflexivity.
Qed.

Lemma touch_ne fs j : fs <> [] -> touch fs j <> [].
Proof. destruct fs; [congruence|]. destruct j; cbn; discriminate. Qed.

(* ---------- the disk invariant ---------- *)
Definition D (s : st) : Prop :=
  view (files s) ++ ids (bufc s) = seq (dropped s) (next s - dropped s) /\
  (dropped s <= flushed s)%nat /\ (flushed s + length (ids (bufc s)) <= next s)%nat /\
  files s <> [].

Lemma D_ext s s' : files s' = files s -> hbuf s' = hbuf s -> next s' = next s -> flushed s' = flushed s ->
  dropped s' = dropped s -> D s -> D s'.
Proof. unfold D, bufc. intros -> -> -> -> ->. tauto. Qed.

Lemma D_prim f s : (forall s, D s -> D (f s)) -> D s -> D (prim f s).
Proof.
  intros Hf H. unfold prim. destruct (crashed s); [exact H|].
  destruct (fuel s) as [[|n]|].
  - eapply D_ext; [..|exact H]; reflexivity.
  - apply Hf. eapply D_ext; [..|exact H]; reflexivity.
  - apply Hf, H.
Qed.

Lemma D_write_recs szs s : D s -> D (f_write_recs szs s).
Proof.
  unfold f_write_recs. destruct (hbuf s) as [b|] eqn:E; [|auto].
  unfold D, bufc. cbn -[ids view seq Nat.sub]. rewrite E. cbn -[ids view seq Nat.sub]. intros [H1 [H2 [H3 H4]]].
  rewrite ids_app, ids_mkrecs, app_length, seq_length. repeat split; try lia; [|exact H4].
  rewrite app_assoc, H1. replace (next s + length szs - dropped s)%nat with ((next s - dropped s) + length szs)%nat by lia.
  rewrite seq_app. f_equal. f_equal. lia.
Qed.

Lemma D_write_hdr s : D s -> D (f_write_hdr s).
Proof.
  unfold f_write_hdr. destruct (hbuf s) as [b|] eqn:E; [|auto].
  unfold D, bufc. cbn -[ids view seq Nat.sub]. rewrite E. cbn -[ids view seq Nat.sub]. rewrite ids_app. cbn. rewrite app_nil_r. tauto.
Qed.

Lemma D_flush_like s hb : hb = Some [] \/ hb = None -> D s ->
  match hbuf s with
  | Some b => D (set_ghost (set_disk s (set_main (files s) (Some (ocontent (mainf s) ++ b))) hb)
                           (next s) (next s) (dropped s) (events s))
  | None => True
  end.
Proof.
  intros Hhb. destruct (hbuf s) as [b|] eqn:E; [|auto].
  unfold D, bufc. cbn -[ids view seq Nat.sub]. rewrite E. cbn -[ids view seq Nat.sub]. intros [H1 [H2 [H3 H4]]].
  assert (B : ids (ocontent hb) = []) by (destruct Hhb; subst; reflexivity).
  rewrite B, app_nil_r. cbn. repeat split; try lia; [|apply set_main_ne].
  rewrite view_set_main. unfold oids. cbn. rewrite ids_app, app_assoc.
  unfold mainf. fold (oids (last (files s) None)). rewrite <- view_split by exact H4. exact H1.
Qed.

Lemma D_flush s : D s -> D (f_flush s).
Proof.
  intros H. unfold f_flush. pose proof (D_flush_like s (Some []) (or_introl eq_refl) H) as G.
  destruct (hbuf s); [exact G|exact H].
Qed.

Lemma D_close s : D s -> D (f_close s).
Proof.
  intros H. unfold f_close. pose proof (D_flush_like s None (or_intror eq_refl) H) as G.
  destruct (hbuf s); [exact G|exact H].
Qed.

Lemma D_open_append s : D s -> D (f_open_append s).
Proof.
  unfold f_open_append. destruct (hbuf s) as [b|] eqn:E; [auto|].
  unfold D, bufc. cbn -[ids view seq Nat.sub]. rewrite E. cbn -[ids view seq Nat.sub]. intros [H1 [H2 [H3 H4]]].
  repeat split; try lia; [|apply set_main_ne].
  rewrite view_set_main. unfold mainf. change (oids (Some (ocontent (last (files s) None)))) with (oids (last (files s) None)).
  rewrite <- view_split by exact H4. exact H1.
Qed.

Lemma D_trial j s : D s -> D (f_trial j s).
Proof.
  unfold D, f_trial, bufc. cbn. intros [H1 [H2 [H3 H4]]]. rewrite view_touch.
  repeat split; try assumption. apply touch_ne, H4.
Qed.

Lemma D_vars s t fi a fs cs : D s -> D (set_vars s t fi a fs cs).
Proof. apply D_ext; reflexivity. Qed.

Lemma D_log_close s : D s -> D (log_close s).
Proof. intros H. unfold log_close. apply D_prim; [apply D_close|]. apply D_prim; [apply D_flush|exact H]. Qed.

Lemma D_trials n : forall s, D s -> D (trials n s).
Proof. induction n as [|n IH]; intros s H; cbn; [exact H|]. apply IH. apply D_prim; [apply D_trial|exact H]. Qed.

Lemma D_reopen k s : D s -> D (log_reopen k s).
Proof.
  intros H. unfold log_reopen. apply D_trials. apply D_prim; [apply D_open_append|].
  apply D_vars. apply D_log_close, H.
Qed.

Lemma D_prepare s : D s -> D (log_prepare s).
Proof. intros H. unfold log_prepare. destruct (first s); [apply D_prim; [apply D_write_hdr|exact H]|exact H]. Qed.

(* ---------- the rename chain ---------- *)
Definition same_disk (s s' : st) : Prop :=
  files s' = files s /\ hbuf s' = hbuf s /\ next s' = next s /\ flushed s' = flushed s /\
  dropped s' = dropped s /\ events s' = events s /\ since s' = since s.

Lemma same_disk_refl s : same_disk s s.
Proof. repeat split. Qed.
Lemma same_disk_trans a b c0 : same_disk a b -> same_disk b c0 -> same_disk a c0.
Proof. unfold same_disk. intros [A1 [A2 [A3 [A4 [A5 [A6 A7]]]]]] [B1 [B2 [B3 [B4 [B5 [B6 B7]]]]]]. repeat split; congruence. Qed.

Lemma gate_spec s s' b : rename_gate s = (s', b) ->
  same_disk s s' /\ (b = false -> crashed s' = true \/ fault s' = true) /\
  (b = true -> crashed s' = false /\ crashed s = false /\ fault s' = fault s) /\
  (crashed s = true -> s' = s).
Proof.
  unfold rename_gate. destruct (crashed s) eqn:C.
  { intros E. inversion E; subst. split; [apply same_disk_refl|]. split; [auto|]. split; [discriminate|auto]. }
  assert (G : forall fu', (let s1 := set_fuel s fu' false (fault s) in
              match rfail s1 with
              | Some O => (set_rfail s1 None true, false)
              | Some (S n) => (set_rfail s1 (Some n) (fault s1), true)
              | None => (s1, true)
              end) = (s', b) ->
            same_disk s s' /\ (b = false -> crashed s' = true \/ fault s' = true) /\
            (b = true -> crashed s' = false /\ false = false /\ fault s' = fault s) /\ (false = true -> s' = s)).
  { intros fu' E. cbv zeta in E. destruct (rfail (set_fuel s fu' false (fault s))) as [[|n]|];
      inversion E; subst; (split; [repeat split|]); (split; [auto; try discriminate|]); (split; [auto; try discriminate|discriminate]). }
  destruct (fuel s) as [[|n]|].
  - intros E. inversion E; subst. split; [repeat split|]. split; [auto|]. split; [discriminate|discriminate].
  - apply G.
  - apply G.
Qed.

Lemma chain_spec rest : forall a0 s s' l', chain a0 rest s = (s', l') ->
  (view l' = view (a0 :: rest) \/ view l' = view rest) /\ l' <> [] /\
  files s' = files s /\ hbuf s' = hbuf s /\ next s' = next s /\ flushed s' = flushed s /\
  dropped s' = dropped s /\ events s' = events s /\
  (crashed s' = false -> fault s' = false -> rest <> [] -> last l' None = None).
Proof.
  induction rest as [|a1 rest IH]; intros a0 s s' l' E; cbn [chain] in E.
  - inversion E; subst. repeat split; auto; try discriminate; try (intros; congruence).
  - destruct (rename_gate s) as [sg b] eqn:EG. destruct (gate_spec _ _ _ EG) as [[F1 [F2 [F3 [F4 [F5 [F6 F7]]]]]] [Gf [Gt _]]].
    destruct b.
    + destruct a1 as [c0|].
      * destruct (chain None rest sg) as [s'' r'] eqn:EC. inversion E; subst.
        destruct (IH _ _ _ _ EC) as [V [N [H1 [H2 [H3 [H4 [H5 [H6 L]]]]]]]].
        repeat split; try congruence; try discriminate.
        -- right. unfold view in *. cbn. destruct V as [V|V]; rewrite V; reflexivity.
        -- intros Cr Fa _. destruct rest as [|a2 rest'].
           ++ cbn in EC. inversion EC; subst. reflexivity.
           ++ specialize (L Cr Fa). destruct r' as [|x r'']; [congruence|]. cbn. apply L. discriminate.
      * inversion E; subst. repeat split; auto; try discriminate; try (cbn; intros; congruence).
    + inversion E; subst. repeat split; auto; try discriminate.
      intros Cr Fa _. destruct (Gf eq_refl); congruence.
Qed.

Lemma seq_split_app (l1 l2 : list nat) d n : l1 ++ l2 = seq d n ->
  l2 = seq (d + length l1) (n - length l1) /\ (length l1 <= n)%nat.
Proof.
  intros E. assert (Len : (length l1 + length l2 = n)%nat).
  { rewrite <- app_length, E, seq_length. reflexivity. }
  split; [|lia].
  replace n with (length l1 + (n - length l1))%nat in E by lia. rewrite seq_app in E.
  apply app_inv_head_iff with (l := seq d (length l1)).
  assert (L1 : l1 = seq d (length l1)).
  { apply (f_equal (firstn (length l1))) in E. rewrite firstn_app, firstn_all, Nat.sub_diag in E. cbn in E.
    rewrite app_nil_r in E. rewrite firstn_app, seq_length in E. rewrite Nat.sub_diag in E. cbn in E.
    rewrite app_nil_r in E. rewrite firstn_all2 in E by (rewrite seq_length; lia). exact E. }
  rewrite <- L1 at 1. exact E.
Qed.

(* ---------- second invariant: number of paths; a closed handle means everything is flushed ---------- *)
Definition E (c : cfg) (s : st) : Prop :=
  length (files s) = S (keep c) /\ (hbuf s = None -> flushed s = next s).

Lemma length_set_main fs m : fs <> [] -> length (set_main fs m) = length fs.
Proof.
  intros H. unfold set_main. rewrite app_length. cbn. rewrite (split_last fs H) at 2.
  rewrite app_length. cbn. reflexivity.
Qed.

Lemma length_touch fs : forall j, length (touch fs j) = length fs.
Proof. induction fs; intros [|j]; cbn; auto. Qed.

Lemma E_ne c s : E c s -> files s <> [].
Proof. intros [H _] X. rewrite X in H. discriminate H. Qed.

Lemma E_ext c s s' : files s' = files s -> hbuf s' = hbuf s -> next s' = next s -> flushed s' = flushed s ->
  E c s -> E c s'.
Proof. unfold E. intros -> -> -> ->. tauto. Qed.

Lemma E_prim c f s : (forall s, E c s -> E c (f s)) -> E c s -> E c (prim f s).
Proof.
  intros Hf H. unfold prim. destruct (crashed s); [exact H|].
  destruct (fuel s) as [[|n]|].
  - eapply E_ext; [..|exact H]; reflexivity.
  - apply Hf. eapply E_ext; [..|exact H]; reflexivity.
  - apply Hf, H.
Qed.

Lemma E_write_recs c szs s : E c s -> E c (f_write_recs szs s).
Proof. unfold f_write_recs. destruct (hbuf s) eqn:X; [|auto]. unfold E. cbn. intros [A B]. split; [exact A|discriminate]. Qed.
Lemma E_write_hdr c s : E c s -> E c (f_write_hdr s).
Proof. unfold f_write_hdr. destruct (hbuf s) eqn:X; [|auto]. unfold E. cbn. intros [A B]. split; [exact A|discriminate]. Qed.
Lemma E_flush c s : E c s -> E c (f_flush s).
Proof.
  intros H. pose proof (E_ne c s H) as N. revert H. unfold f_flush. destruct (hbuf s) eqn:X; [|auto]. unfold E. cbn.
  intros [A B]. rewrite length_set_main by exact N. split; [exact A|discriminate].
Qed.
Lemma E_close c s : E c s -> E c (f_close s).
Proof.
  intros H. pose proof (E_ne c s H) as N. revert H. unfold f_close. destruct (hbuf s) eqn:X; [|auto]. unfold E. cbn.
  intros [A B]. rewrite length_set_main by exact N. split; [exact A|reflexivity].
Qed.
Lemma E_open_append c s : E c s -> E c (f_open_append s).
Proof.
  intros H. pose proof (E_ne c s H) as N. revert H. unfold f_open_append. destruct (hbuf s) eqn:X; [auto|]. unfold E. cbn.
  intros [A B]. rewrite length_set_main by exact N. split; [exact A|discriminate].
Qed.
Lemma E_create_trunc c s : E c s -> E c (f_create_trunc s).
Proof.
  intros H. pose proof (E_ne c s H) as N. revert H. unfold f_create_trunc, E. cbn.
  intros [A B]. rewrite length_set_main by exact N. split; [exact A|discriminate].
Qed.
Lemma E_trial c j s : E c s -> E c (f_trial j s).
Proof. unfold E, f_trial. cbn. rewrite length_touch. tauto. Qed.
Lemma E_vars c s t fi a fs cs : E c s -> E c (set_vars s t fi a fs cs).
Proof. apply E_ext; reflexivity. Qed.
Lemma E_log_close c s : E c s -> E c (log_close s).
Proof. intros H. unfold log_close. apply E_prim; [apply E_close|]. apply E_prim; [apply E_flush|exact H]. Qed.
Lemma E_trials c n : forall s, E c s -> E c (trials n s).
Proof. induction n as [|n IH]; intros s H; cbn; [exact H|]. apply IH. apply E_prim; [apply E_trial|exact H]. Qed.
Lemma E_reopen c k s : E c s -> E c (log_reopen k s).
Proof.
  intros H. unfold log_reopen. apply E_trials. apply E_prim; [apply E_open_append|].
  apply E_vars. apply E_log_close, H.
Qed.
Lemma E_prepare c s : E c s -> E c (log_prepare s).
Proof. intros H. unfold log_prepare. destruct (first s); [apply E_prim; [apply E_write_hdr|exact H]|exact H]. Qed.

Lemma chain_length rest : forall a0 s s' l', chain a0 rest s = (s', l') -> length l' = S (length rest).
Proof.
  induction rest as [|a1 rest IH]; intros a0 s s' l' E0; cbn [chain] in E0; [inversion E0; reflexivity|].
  destruct (rename_gate s) as [sg b]. destruct b; [|inversion E0; reflexivity].
  destruct a1 as [c0|]; [|inversion E0; reflexivity].
  destruct (chain None rest sg) as [s'' r'] eqn:EC. inversion E0; subst. cbn. rewrite (IH _ _ _ _ EC). reflexivity.
Qed.

(* closing leaves no handle (unless the process died on the way) *)
Lemma close_no_handle s : crashed (prim f_close s) = false -> hbuf (prim f_close s) = None.
Proof.
  unfold prim. destruct (crashed s) eqn:C; [congruence|].
  assert (G : forall x, hbuf (f_close x) = None).
  { intros x. unfold f_close. destruct (hbuf x) eqn:X; [reflexivity|exact X]. }
  destruct (fuel s) as [[|n]|]; cbn; [discriminate| |]; intros _; apply G.
Qed.

Definition DE (c : cfg) (s : st) : Prop := D s /\ E c s.

Lemma DE_create_trunc c s : DE c s -> mainf s = None -> hbuf s = None -> DE c (prim f_create_trunc s).
Proof.
  intros [HD HE] M Hb.
  assert (G : forall x, files x = files s -> hbuf x = hbuf s -> next x = next s -> flushed x = flushed s ->
                        dropped x = dropped s -> DE c (f_create_trunc x)).
  { intros x F1 F2 F3 F4 F5. split; [|apply E_create_trunc; eapply E_ext; [..|exact HE]; assumption].
    destruct HD as [H1 [H2 [H3 H4]]]. unfold D, bufc, f_create_trunc. cbn -[ids view seq Nat.sub].
    rewrite F1, F3, F4, F5. cbn -[view seq Nat.sub]. rewrite app_nil_r. repeat split; try lia; [|apply set_main_ne].
    rewrite view_set_main. cbn -[view seq Nat.sub]. rewrite app_nil_r. unfold bufc in H1. rewrite Hb in H1. cbn -[view seq Nat.sub] in H1. rewrite app_nil_r in H1.
    rewrite <- H1. rewrite (view_split (files s) H4). unfold mainf in M. rewrite M. cbn -[view]. rewrite app_nil_r. reflexivity. }
  unfold prim. destruct (crashed s); [split; assumption|].
  destruct (fuel s) as [[|n]|].
  - split; [eapply D_ext; [..|exact HD]|eapply E_ext; [..|exact HE]]; reflexivity.
  - apply G; reflexivity.
  - apply G; reflexivity.
Qed.

Lemma DE_cycle c size s : DE c s -> DE c (log_cycle c size s).
Proof.
  intros H. unfold log_cycle. destruct (keep c) as [|k] eqn:K; [exact H|].
  set (s1 := prim f_flush s).
  assert (H1 : DE c s1). { destruct H. split; [apply D_prim; [apply D_flush|assumption]|apply E_prim; [apply E_flush|assumption]]. }
  destruct (crashed s1); [exact H1|].
  destruct ((0 <? size) && (csize (hsz c) (ocontent (mainf s1)) <? size)); [exact H1|].
  set (s2 := prim f_close (prim f_flush s1)).
  assert (H2 : DE c s2).
  { destruct H1. split; [apply D_prim; [apply D_close|apply D_prim; [apply D_flush|assumption]]
                        |apply E_prim; [apply E_close|apply E_prim; [apply E_flush|assumption]]]. }
  destruct (crashed s2) eqn:C2; [exact H2|].
  assert (Hb : hbuf s2 = None) by (apply close_no_handle; exact C2).
  destruct (chain_files (files s2) (set_fuel s2 (fuel s2) false false)) as [s3 fs] eqn:EC.
  destruct H2 as [[D1 [D2 [D3 D4]]] [E1 E2]].
  destruct (files s2) as [|a0 rest] eqn:F2; [congruence|]. cbn [chain_files] in EC.
  destruct (chain_spec _ _ _ _ _ EC) as [V [N [G1 [G2 [G3 [G4 [G5 [G6 L]]]]]]]].
  pose proof (chain_length _ _ _ _ _ EC) as Len.
  cbn in G1, G2, G3, G4, G5, G6.
  unfold bufc in D1, D3. rewrite Hb in D1, D3. cbn -[view seq Nat.sub] in D1, D3. rewrite app_nil_r in D1.
  specialize (E2 Hb).
  set (s4 := set_since (set_ghost (set_disk s3 fs (hbuf s3)) (next s3) (flushed s3)
               (dropped s3 + (length (view (a0 :: rest)) - length (view fs)))
               ((csize (hsz c) (ocontent (mainf s1)), size) :: events s3))
               (match last fs None with None => next s3 | Some _ => since s3 end)).
  assert (H4 : DE c s4).
  { split.
    - unfold D, bufc, s4. cbn -[view seq Nat.sub]. rewrite G2, Hb, G3, G4, G5. cbn -[view seq Nat.sub].
      rewrite app_nil_r. destruct V as [V|V].
      + rewrite V, Nat.sub_diag, Nat.add_0_r. repeat split; try assumption; lia.
      + assert (VV : view (a0 :: rest) = oids a0 ++ view rest) by reflexivity.
        rewrite VV in D1. destruct (seq_split_app _ _ _ _ D1) as [S1 S2].
        rewrite V, VV, app_length, Nat.add_sub. rewrite S1. repeat split; try assumption; try lia.
        f_equal. lia.
    - unfold E, s4. cbn. rewrite G2, G3, G4, Len. cbn in E1. split; [exact E1|intros _; exact E2]. }
  destruct (crashed s4) eqn:C4; [exact H4|].
  destruct (fault s4) eqn:Fa.
  - destruct H4. split; [apply D_reopen|apply E_reopen]; assumption.
  - assert (M : mainf s4 = None).
    { unfold mainf, s4. cbn. apply L; [exact C4|exact Fa|].
      intros X. subst rest. cbn in E1. congruence. }
    assert (DEa : forall ofl ab off, DE c (set_abort s4 ofl ab off)).
    { intros. destruct H4 as [A B]. split; [eapply D_ext; [..|exact A]|eapply E_ext; [..|exact B]]; reflexivity. }
    assert (G : forall ofl, DE c (log_reopen 0 (prim f_write_hdr (prim f_create_trunc
                        (set_abort s4 ofl (aborted s4) (offered s4)))))).
    { intros ofl.
      assert (H5 : DE c (prim f_create_trunc (set_abort s4 ofl (aborted s4) (offered s4)))).
      { apply DE_create_trunc; [apply DEa|exact M|]. unfold s4. cbn. rewrite G2. exact Hb. }
      destruct H5 as [H5 H6].
      split; [apply D_reopen; apply D_prim; [apply D_write_hdr|exact H5]
             |apply E_reopen; apply E_prim; [apply E_write_hdr|exact H6]]. }
    destruct (ofail s4) as [[|n]|]; [apply DEa|apply G|apply G].
Qed.

Lemma DE_vars c s t fi a fs cs : DE c s -> DE c (set_vars s t fi a fs cs).
Proof. intros [A B]. split; [apply D_vars|apply E_vars]; assumption. Qed.

Lemma DE_set_abort c s ofl ab off : DE c s -> DE c (set_abort s ofl ab off).
Proof. intros [A B]. split; [eapply D_ext; [..|exact A]|eapply E_ext; [..|exact B]]; reflexivity. Qed.

Lemma DE_logger_rest c s1 : DE c s1 -> DE c (logger_rest c s1).
Proof.
  intros H1. unfold logger_rest.
  set (s2 := if flushP c <=? now s1 - flushStamp s1 then set_flushStamp (prim f_flush s1) (now s1) else s1).
  assert (H2 : DE c s2).
  { unfold s2. destruct (flushP c <=? now s1 - flushStamp s1); [|exact H1]. apply DE_vars.
    destruct H1. split; [apply D_prim; [apply D_flush|assumption]|apply E_prim; [apply E_flush|assumption]]. }
  destruct (keep c); [exact H2|].
  destruct (cycleP c <=? now s2 - cycleStamp s2); [|exact H2]. apply DE_vars. apply DE_cycle. exact H2.
Qed.

Lemma DE_logger_log c szs s : DE c s -> DE c (logger_log c szs s).
Proof.
  intros H. unfold logger_log.
  set (s0 := set_abort s (ofail s) (aborted s) (offered s + length szs)).
  assert (H0 : DE c s0) by (apply DE_set_abort; exact H).
  set (s1 := match szs with [] => s0 | _ => prim (f_write_recs szs) s0 end).
  assert (H1 : DE c s1).
  { unfold s1. destruct szs; [exact H0|]. destruct H0. split; [apply D_prim; [apply D_write_recs|assumption]|apply E_prim; [apply E_write_recs|assumption]]. }
  destruct (aborted s1); [exact H1|apply DE_logger_rest; exact H1].
Qed.

Lemma DE_step c s o : DE c s -> DE c (step c s o).
Proof.
  intros H. unfold step. destruct (aborted s); [exact H|]. destruct o.
  - apply DE_vars, H.
  - apply DE_vars. apply DE_logger_log. destruct H. split; [apply D_prepare, D_reopen|apply E_prepare, E_reopen]; assumption.
  - destruct (active s); [apply DE_logger_log|]; exact H.
  - destruct (active s); [|exact H]. cbv zeta.
    destruct (aborted (logger_log c szs s)); [apply DE_logger_log, H|]. apply DE_vars.
    assert (G : DE c (if negb (Nat.eqb (keep c) 0) && reuse c then log_cycle c (fsize c) (logger_log c szs s) else logger_log c szs s)).
    { destruct (negb (Nat.eqb (keep c) 0) && reuse c); [apply DE_cycle|]; apply DE_logger_log, H. }
    destruct G. split; [apply D_log_close|apply E_log_close]; assumption.
Qed.

Lemma DE_runfrom c ops : forall s, DE c s -> DE c (runfrom c s ops).
Proof. induction ops as [|o ops IH]; intros s H; cbn; [exact H|]. apply IH, DE_step, H. Qed.

Lemma view_repeat_none n : view (repeat None n) = [].
Proof. induction n; cbn; auto. Qed.

Lemma DE_init_empty c t0 fu : DE c (init c t0 (empty_disk c) O O fu).
Proof.
  split.
  - unfold D, bufc, empty_disk. cbn -[view repeat]. rewrite view_repeat_none. cbn. repeat split; try lia. discriminate.
  - unfold E, empty_disk. cbn -[repeat]. rewrite repeat_length. auto.
Qed.

(* ---------- the theorems ---------- *)
Lemma retained_l c t0 fu ops : let s := run c t0 fu ops in
  view (files s) ++ ids (bufc s) = seq (dropped s) (next s - dropped s).
Proof. cbv zeta. apply (DE_runfrom c ops _ (DE_init_empty c t0 fu)). Qed.

Lemma app_eq_len_tail {A} (l1 : list A) : forall r1 l2 r2, l1 ++ l2 = r1 ++ r2 -> length l2 = length r2 -> l1 = r1.
Proof.
  induction l1 as [|x l1 IH]; intros r1 l2 r2 E L.
  - destruct r1 as [|y r1]; [reflexivity|]. cbn in E. apply (f_equal (@length A)) in E. cbn in E. rewrite app_length in E. lia.
  - destruct r1 as [|y r1].
    + cbn in E. apply (f_equal (@length A)) in E. cbn in E. rewrite app_length in E. lia.
    + cbn in E. inversion E. f_equal. eapply IH; eauto.
Qed.

Lemma survivors_of_D s pre : D s -> is_prefix pre (bufc s) ->
  exists b, (flushed s <= b <= next s)%nat /\ (dropped s <= b)%nat /\
            view (survivors s pre) = seq (dropped s) (b - dropped s).
Proof.
  intros [H1 [H2 [H3 H4]]] [q Hq]. unfold survivors. unfold bufc in *.
  destruct (hbuf s) as [b0|] eqn:Hb; cbn [ocontent] in *.
  - subst b0. rewrite ids_app in H1, H3. rewrite app_length in H3.
    exists (next s - length (ids q))%nat.
    assert (Len : (length (view (files s)) + (length (ids pre) + length (ids q)) = next s - dropped s)%nat).
    { rewrite <- !app_length, H1, seq_length. reflexivity. }
    split; [lia|]. split; [lia|].
    rewrite view_set_main. unfold oids. cbn. rewrite ids_app, app_assoc.
    unfold mainf. fold (oids (last (files s) None)). rewrite <- view_split by exact H4.
    rewrite app_assoc in H1.
    replace (next s - dropped s)%nat with ((next s - length (ids q) - dropped s) + length (ids q))%nat in H1 by lia.
    rewrite seq_app in H1. apply app_eq_len_tail in H1; [exact H1|].
    rewrite seq_length. reflexivity.
  - destruct pre; [|destruct q; discriminate Hq]. cbn in H1. rewrite app_nil_r in H1.
    exists (next s). cbn in H3. repeat split; try lia. exact H1.
Qed.

Lemma crash_l c t0 fu ops pre : let s := run c t0 fu ops in
  is_prefix pre (bufc s) ->
  exists b, (flushed s <= b <= next s)%nat /\ (dropped s <= b)%nat /\
            view (survivors s pre) = seq (dropped s) (b - dropped s).
Proof. cbv zeta. intros P. apply survivors_of_D; [|exact P]. apply (DE_runfrom c ops _ (DE_init_empty c t0 fu)). Qed.

(* the same from any consistent disk (reuse: a later Logger process on the directory left by an earlier one) *)
Lemma crash_from_l c s ops pre : D s -> E c s -> let s' := runfrom c s ops in
  is_prefix pre (bufc s') ->
  exists b, (flushed s' <= b <= next s')%nat /\ (dropped s' <= b)%nat /\
            view (survivors s' pre) = seq (dropped s') (b - dropped s').
Proof. intros HD HE. cbv zeta. intros P. apply survivors_of_D; [|exact P]. apply (DE_runfrom c ops s). split; assumption. Qed.

(* ---------- rotation only at the threshold ---------- *)
Definition Th (c : cfg) (s : st) : Prop :=
  forall sz thr, In (sz, thr) (events s) -> thr = fsize c /\ (thr <= 0 \/ thr <= sz).

Lemma ev_prim f s : (forall x, events (f x) = events x) -> events (prim f s) = events s.
Proof.
  intros Hf. unfold prim. destruct (crashed s); [reflexivity|].
  destruct (fuel s) as [[|n]|]; [reflexivity| |]; rewrite Hf; reflexivity.
Qed.
Lemma ev_write_recs szs x : events (f_write_recs szs x) = events x.
Proof. unfold f_write_recs. destruct (hbuf x); reflexivity. Qed.
Lemma ev_write_hdr x : events (f_write_hdr x) = events x.
Proof. unfold f_write_hdr. destruct (hbuf x); reflexivity. Qed.
Lemma ev_flush x : events (f_flush x) = events x.
Proof. unfold f_flush. destruct (hbuf x); reflexivity. Qed.
Lemma ev_close x : events (f_close x) = events x.
Proof. unfold f_close. destruct (hbuf x); reflexivity. Qed.
Lemma ev_open_append x : events (f_open_append x) = events x.
Proof. unfold f_open_append. destruct (hbuf x); reflexivity. Qed.
Lemma ev_create_trunc x : events (f_create_trunc x) = events x.
Proof. reflexivity. Qed.
Lemma ev_trial j x : events (f_trial j x) = events x.
Proof. reflexivity. Qed.
Lemma ev_log_close s : events (log_close s) = events s.
Proof. unfold log_close. rewrite !ev_prim; auto using ev_close, ev_flush. Qed.
Lemma ev_trials n : forall s, events (trials n s) = events s.
Proof. induction n; intros s; cbn; [reflexivity|]. rewrite IHn, ev_prim; auto using ev_trial. Qed.
Lemma ev_reopen k s : events (log_reopen k s) = events s.
Proof.
  unfold log_reopen. rewrite ev_trials, ev_prim by (apply ev_open_append).
  change (events (set_vars ?x _ _ _ _ _)) with (events x). apply ev_log_close.
Qed.
Lemma ev_prepare s : events (log_prepare s) = events s.
Proof. unfold log_prepare. destruct (first s); [apply ev_prim, ev_write_hdr|reflexivity]. Qed.

Lemma Th_cycle c s : Th c s -> Th c (log_cycle c (fsize c) s).
Proof.
  intros H. unfold log_cycle. destruct (keep c); [exact H|].
  set (s1 := prim f_flush s).
  assert (H1 : Th c s1). { unfold Th, s1. rewrite ev_prim by apply ev_flush. exact H. }
  destruct (crashed s1); [exact H1|].
  destruct ((0 <? fsize c) && (csize (hsz c) (ocontent (mainf s1)) <? fsize c)) eqn:G; [exact H1|].
  set (s2 := prim f_close (prim f_flush s1)).
  assert (H2 : events s2 = events s1). { unfold s2. rewrite !ev_prim; auto using ev_close, ev_flush. }
  destruct (crashed s2); [unfold Th; rewrite H2; exact H1|].
  destruct (chain_files (files s2) (set_fuel s2 (fuel s2) false false)) as [s3 fs] eqn:EC.
  assert (H3 : events s3 = events s2).
  { unfold chain_files in EC. destruct (files s2) as [|a0 rest]; [inversion EC; reflexivity|].
    apply chain_spec in EC. cbn in EC. tauto. }
  match goal with |- Th c (if crashed ?x then _ else _) => set (s4 := x) end.
  assert (H4 : Th c s4).
  { unfold Th, s4. cbn. intros sz thr [X|X].
    - inversion X; subst. split; [reflexivity|].
      apply andb_false_iff in G. destruct G as [G|G]; [left; apply Z.ltb_ge in G; lia|right; apply Z.ltb_ge in G; lia].
    - apply H1. rewrite <- H2, <- H3. exact X. }
  destruct (crashed s4); [exact H4|].
  destruct (fault s4); [unfold Th; rewrite ev_reopen; exact H4|].
  destruct (ofail s4) as [[|n9]|]; [exact H4| |]; unfold Th; rewrite ev_reopen;
    rewrite !ev_prim; auto using ev_write_hdr, ev_create_trunc.
Qed.

Lemma Th_logger_rest c s1 : Th c s1 -> Th c (logger_rest c s1).
Proof.
  intros H1. unfold logger_rest.
  set (s2 := if flushP c <=? now s1 - flushStamp s1 then set_flushStamp (prim f_flush s1) (now s1) else s1).
  assert (H2 : Th c s2).
  { unfold s2. destruct (flushP c <=? now s1 - flushStamp s1); [|exact H1]. unfold Th.
    change (events (set_flushStamp ?x _)) with (events x). rewrite ev_prim by apply ev_flush. exact H1. }
  destruct (keep c); [exact H2|].
  destruct (cycleP c <=? now s2 - cycleStamp s2); [|exact H2]. unfold Th.
  change (events (set_cycleStamp ?x _)) with (events x). apply Th_cycle. exact H2.
Qed.

Lemma Th_logger_log c szs s : Th c s -> Th c (logger_log c szs s).
Proof.
  intros H. unfold logger_log.
  set (s0 := set_abort s (ofail s) (aborted s) (offered s + length szs)).
  set (s1 := match szs with [] => s0 | _ => prim (f_write_recs szs) s0 end).
  assert (H1 : Th c s1). { unfold s1, Th. destruct szs; [exact H|]. rewrite ev_prim by apply ev_write_recs. exact H. }
  destruct (aborted s1); [exact H1|apply Th_logger_rest; exact H1].
Qed.

Lemma Th_step c s o : Th c s -> Th c (step c s o).
Proof.
  intros H. unfold step. destruct (aborted s); [exact H|]. destruct o.
  - exact H.
  - unfold Th. cbv zeta. change (events (set_vars ?x _ _ _ _ _)) with (events x). apply Th_logger_log.
    unfold Th. rewrite ev_prepare, ev_reopen. exact H.
  - destruct (active s); [apply Th_logger_log|]; exact H.
  - destruct (active s); [|exact H]. cbv zeta.
    destruct (aborted (logger_log c szs s)); [apply Th_logger_log, H|].
    unfold Th. change (events (set_active ?x _)) with (events x).
    rewrite ev_log_close.
    destruct (negb (Nat.eqb (keep c) 0) && reuse c); [apply Th_cycle|]; apply Th_logger_log, H.
Qed.

Lemma Th_runfrom c ops : forall s, Th c s -> Th c (runfrom c s ops).
Proof. induction ops as [|o ops IH]; intros s H; cbn; [exact H|]. apply IH, Th_step, H. Qed.

Lemma threshold_l c t0 fu ops : Th c (run c t0 fu ops).
Proof. unfold run. apply Th_runfrom. intros sz thr X. destruct X. Qed.

(* ---------- without rotation nothing is ever dropped ---------- *)
Lemma no_rotation_no_loss_l c t0 fu ops : keep c = O -> dropped (run c t0 fu ops) = O.
Proof.
  intros K. unfold run.
  assert (G : forall s, dropped s = O -> dropped (runfrom c s ops) = O).
  { induction ops as [|o ops IH]; intros s H; cbn; [exact H|]. apply IH.
    assert (P : forall f x, (forall y, dropped (f y) = dropped y) -> dropped (prim f x) = dropped x).
    { intros f x Hf. unfold prim. destruct (crashed x); [reflexivity|]. destruct (fuel x) as [[|n]|]; [reflexivity| |]; rewrite Hf; reflexivity. }
    assert (Pw : forall szs y, dropped (f_write_recs szs y) = dropped y) by (intros; unfold f_write_recs; destruct (hbuf y); reflexivity).
    assert (Ph : forall y, dropped (f_write_hdr y) = dropped y) by (intros; unfold f_write_hdr; destruct (hbuf y); reflexivity).
    assert (Pf : forall y, dropped (f_flush y) = dropped y) by (intros; unfold f_flush; destruct (hbuf y); reflexivity).
    assert (Pc : forall y, dropped (f_close y) = dropped y) by (intros; unfold f_close; destruct (hbuf y); reflexivity).
    assert (Po : forall y, dropped (f_open_append y) = dropped y) by (intros; unfold f_open_append; destruct (hbuf y); reflexivity).
    assert (LL : forall szs x, dropped (logger_log c szs x) = dropped x).
    { intros szs x. unfold logger_log. cbv zeta.
      set (x0 := set_abort x (ofail x) (aborted x) (offered x + length szs)).
      set (x1 := match szs with [] => x0 | _ :: _ => prim (f_write_recs szs) x0 end).
      assert (W : dropped x1 = dropped x).
      { unfold x1. destruct szs; [reflexivity|]. rewrite P by apply Pw. reflexivity. }
      destruct (aborted x1); [exact W|]. unfold logger_rest. rewrite K.
      destruct (flushP c <=? _); [|exact W].
      change (dropped (set_flushStamp ?y _)) with (dropped y). rewrite P by exact Pf. exact W. }
    assert (LC : forall x, dropped (log_close x) = dropped x).
    { intros x. unfold log_close. rewrite !P; auto. }
    unfold step. destruct (aborted s); [exact H|]. destruct o.
    - exact H.
    - cbv zeta. change (dropped (set_vars ?y _ _ _ _ _)) with (dropped y). rewrite LL. unfold log_prepare, log_reopen. rewrite K. cbn [trials].
      destruct (first _); rewrite ?P; auto; change (dropped (set_vars ?y _ _ _ _ _)) with (dropped y); rewrite LC; exact H.
    - destruct (active s); [rewrite LL|]; exact H.
    - destruct (active s); [|exact H]. cbv zeta. destruct (aborted (logger_log c szs s)); [rewrite LL; exact H|].
      change (dropped (set_active ?y _)) with (dropped y). rewrite LC, K. cbn. rewrite LL. exact H. }
  apply G. reflexivity.
Qed.
