(* C23 -- property theorems only.  Each closed by [exact]; Print Assumptions beneath.
   run c t0 fu ops = a fresh Logger process (configuration c: keep, cyclePeriod, fileSize, flushPeriod,
   reuse) on an empty log directory at time t0 after the history ops of ticks and START/RUN/STOP controls, each
   control writing an arbitrary list of records; fu = crash fuel: Some n = the process dies at the n-th
   primitive file operation (write, flush, close, open, trial open, every single rename of the rotation chain,
   create/truncate), None = it survives.  A dead process is frozen, so the final state IS the crash state.
   Record ids are 0,1,2,... in write order; view = all ids in the retained files read oldest to newest.   *)
From Coq Require Import List ZArith Bool.
Import ListNotations.
Require Import V.C23.Model V.C23.Proofs V.C23.Multi V.C23.Newest V.C23.Surface.
Open Scope Z_scope.

(* Retained files read oldest to newest, followed by what is still buffered, hold exactly the records
   dropped .. next-1: one contiguous stretch of the stream, in order, each exactly once -- in every state,
   including every crash state (also in the middle of the rename chain). *)
Theorem retained_contiguous : forall c t0 fu ops, let s := run c t0 fu ops in
  view (files s) ++ ids (bufc s) = seq (dropped s) (next s - dropped s).
Proof. exact retained_l. Qed.
Print Assumptions retained_contiguous.

(* If the process dies at any primitive operation, whatever prefix of the Python buffer had been spilled:
   the surviving files hold the contiguous stretch dropped .. b-1 with b >= flushed, i.e. every record
   written before the most recent completed flush is in the files (unless rotated out beyond keep). *)
Theorem crash_keeps_flushed : forall c t0 fu ops pre, let s := run c t0 fu ops in
  is_prefix pre (bufc s) ->
  exists b, (flushed s <= b <= next s)%nat /\ (dropped s <= b)%nat /\
            view (survivors s pre) = seq (dropped s) (b - dropped s).
Proof. exact crash_l. Qed.
Print Assumptions crash_keeps_flushed.

(* the same for a Logger process started on any consistent directory (reuse: the directory left by earlier
   processes), for every history and crash point *)
Theorem crash_keeps_flushed_from : forall c s ops pre, D s -> E c s -> let s' := runfrom c s ops in
  is_prefix pre (bufc s') ->
  exists b, (flushed s' <= b <= next s')%nat /\ (dropped s' <= b)%nat /\
            view (survivors s' pre) = seq (dropped s') (b - dropped s').
Proof. exact crash_from_l. Qed.
Print Assumptions crash_keeps_flushed_from.

(* every rotation (timer or STOP path) was decided against the configured threshold: the main file had
   reached fileSize, or fileSize is 0 *)
Theorem rotate_only_at_threshold : forall c t0 fu ops sz thr,
  In (sz, thr) (events (run c t0 fu ops)) -> thr = fsize c /\ (thr <= 0 \/ thr <= sz).
Proof. exact threshold_l. Qed.
Print Assumptions rotate_only_at_threshold.

(* without rotation (keep = 0) no record is ever dropped *)
Theorem no_rotation_no_loss : forall c t0 fu ops, keep c = O -> dropped (run c t0 fu ops) = O.
Proof. exact no_rotation_no_loss_l. Qed.
Print Assumptions no_rotation_no_loss.

(* The newest file holds every record since the last rotation: main ++ buffer hold exactly the records
   since .. next-1, where [since] is the stream position at which the current main file was created (first open,
   or the rotation that renamed its predecessor away) -- in every state incl. every crash state. *)
Theorem newest_holds_all_since_rotation : forall c t0 fu ops, let s := run c t0 fu ops in
  oids (mainf s) ++ ids (bufc s) = seq (since s) (next s - since s) /\ (since s <= next s)%nat.
Proof. exact newest_l. Qed.
Print Assumptions newest_holds_all_since_rotation.

(* ... and the rotated copies, oldest first, hold exactly dropped .. since-1 *)
Theorem rotated_copies_hold_the_rest : forall c t0 fu ops, let s := run c t0 fu ops in
  view (removelast (files s)) = seq (dropped s) (since s - dropped s) /\ (dropped s <= since s)%nat.
Proof. exact olds_l. Qed.
Print Assumptions rotated_copies_hold_the_rest.

(* ---- fault model: an os.rename of a rotation raises OSError (runf c t0 fu rf ops: the (n+1)-th rename call of
   the process fails for rf = Some n; the loop breaks at the failure, Log.cycle reopens the main file) ---- *)

(* a failed rename loses no retained record and keeps the retained files (+ buffer) one contiguous stretch of
   the stream dropped..next-1, in order, each record once -- for every history, failing rename and crash point *)
Theorem failed_rename_loses_nothing : forall c t0 fu rf ops, let s := runf c t0 fu rf ops in
  view (files s) ++ ids (bufc s) = seq (dropped s) (next s - dropped s).
Proof. exact runf_retained_l. Qed.
Print Assumptions failed_rename_loses_nothing.

Theorem crash_keeps_flushed_with_failed_rename : forall c t0 fu rf ops pre, let s := runf c t0 fu rf ops in
  is_prefix pre (bufc s) ->
  exists b, (flushed s <= b <= next s)%nat /\ (dropped s <= b)%nat /\
            view (survivors s pre) = seq (dropped s) (b - dropped s).
Proof. exact runf_crash_l. Qed.
Print Assumptions crash_keeps_flushed_with_failed_rename.

(* the newest file still holds every record since the last COMPLETED rotation *)
Theorem newest_holds_all_with_failed_rename : forall c t0 fu rf ops, let s := runf c t0 fu rf ops in
  oids (mainf s) ++ ids (bufc s) = seq (since s) (next s - since s) /\ (since s <= next s)%nat.
Proof. exact runf_newest_l. Qed.
Print Assumptions newest_holds_all_with_failed_rename.

(* the rotation loop itself: when a rename fails the chain stops there -- the only records that can be gone are
   those of the oldest copy (already legitimately overwritten), nothing else is overwritten, and the main file
   is exactly what it was (so it still starts with its header and keeps growing) *)
Theorem failed_rename_stops_the_chain : forall a0 rest s s' l',
  chain a0 rest s = (s', l') -> fault s = false -> fault s' = true ->
  (view l' = view (a0 :: rest) \/ view l' = view rest) /\ last l' None = last (a0 :: rest) None /\
  length l' = length (a0 :: rest).
Proof. exact failed_chain_l. Qed.
Print Assumptions failed_rename_stops_the_chain.

(* ---- fault model, second fault: the creation of the new main file in a rotation (ocfn(path,'w+')) raises IOError
   once (oracle ofl); Log.file is then None and the next write raises AttributeError out of the runner: the logger
   is ABORTED (flag [aborted]).  offered = records handed to the log by the logger runs, next = records accepted.
   No record is lost silently: for every history, rename failure, open failure and crash point, either the process
   died, or the failure surfaced (aborted), or EVERY record handed to the log was accepted; and the accepted
   records dropped..next-1 are all in the retained files / buffer (dropped = rotated out beyond keep). *)
Theorem no_record_lost_silently : forall c t0 fu rf ofl ops, let s := runfo c t0 fu rf ofl ops in
  (crashed s = true \/ aborted s = true \/ next s = offered s) /\
  view (files s) ++ ids (bufc s) = seq (dropped s) (next s - dropped s).
Proof. exact no_silent_loss_l. Qed.
Print Assumptions no_record_lost_silently.

(* ---- several Logs per Logger (mrun c n ...: n logs, every logger operation visits all of them phase by phase,
   the crash fuel is handed from log to log: a crash point is any primitive operation of any log) ---- *)

(* the crash statement holds for EVERY log of the logger: its surviving files hold dropped..b-1 with b at least
   the number of records written to THAT log before ITS most recent completed flush *)
Theorem crash_keeps_flushed_every_log : forall c n t0 fu ops s pre,
  In s (lgs (mrun c n t0 fu ops)) -> is_prefix pre (bufc s) ->
  exists b, (flushed s <= b <= next s)%nat /\ (dropped s <= b)%nat /\
            view (survivors s pre) = seq (dropped s) (b - dropped s).
Proof. exact mcrash_l. Qed.
Print Assumptions crash_keeps_flushed_every_log.

Theorem crash_keeps_flushed_every_log_from : forall c m ops s pre, MDE c m ->
  In s (lgs (mrunfrom c m ops)) -> is_prefix pre (bufc s) ->
  exists b, (flushed s <= b <= next s)%nat /\ (dropped s <= b)%nat /\
            view (survivors s pre) = seq (dropped s) (b - dropped s).
Proof. exact mcrash_from_l. Qed.
Print Assumptions crash_keeps_flushed_every_log_from.

(* a completed Logger.flush() (the process survived it) has flushed every log: for each log everything written
   to it so far counts as flushed and nothing is left in its buffer -- whatever rule the log has and however
   long ago its last record was written *)
Theorem logger_flush_flushes_every_log : forall c m, Forall (E c) (lgs m) ->
  gcr (mphase (fun _ => prim f_flush) m) = false ->
  Forall (fun s => flushed s = next s /\ ids (bufc s) = []) (lgs (mphase (fun _ => prim f_flush) m)).
Proof. exact mflush_all_l. Qed.
Print Assumptions logger_flush_flushes_every_log.

(* non-vacuity: testCycle's schedule (keep 2, cycle 0.5 s, threshold 10 bytes): three retained files *)
Definition c_ex : cfg := {| keep := 2; cycleP := 4; fsize := 10; flushP := 24; reuse := false; hsz := 23 |}.
Definition ops_ex : list op :=
  Start [6] :: flat_map (fun _ => [Tick 1; Run [8]]) (seq 0 16) ++ [Tick 1; Stop [9]].
Example c23_nonvacuous :
  map oids (files (run c_ex 0 None ops_ex)) = [[9; 10; 11; 12]; [13; 14; 15; 16]; [17]]%nat /\
  dropped (run c_ex 0 None ops_ex) = 9%nat.
Proof. vm_compute. split; reflexivity. Qed.

(* a crash in the middle of the rename chain: main already moved, oldest copy already overwritten *)
Example c23_crash_in_chain :
  let s := run c_ex 0 (Some 43%nat) ops_ex in
  crashed s = true /\ map oids (files s) = [[5; 6; 7; 8]; []; [9; 10; 11; 12]]%nat /\ dropped s = 5%nat.
Proof. vm_compute. repeat split; reflexivity. Qed.

(* two logs (a once-like log: one record at START; an always-like log): after the flush timer fired at tick 8
   the once-like log's single record is durable although it was written at stamp 0 *)
Definition c_ex2 : cfg := {| keep := 0; cycleP := 0; fsize := 0; flushP := 8; reuse := false; hsz := 15 |}.
Example c23_two_logs :
  let m := mrun c_ex2 2 0 None (MStart [[6]; [6]] :: flat_map (fun _ => [MTick 1; MRun [[]; [8]]]) (seq 0 9)) in
  map (fun s => (map oids (files s), flushed s)) (lgs m) =
  [([[0]], 1); ([[0; 1; 2; 3; 4; 5; 6; 7; 8]], 9)]%nat.
Proof. vm_compute. reflexivity. Qed.

(* keep 2: the 1st rename of the 2nd rotation (copy 1 -> copy 2) fails: nothing moves, main keeps growing (records 5..8
   and 9..12 end up in one file); later rotations work again; one rotation less than c23_nonvacuous, so fewer dropped *)
Example c23_failed_rename :
  let s := runf c_ex 0 None (Some 2%nat) ops_ex in
  map oids (files s) = [[5; 6; 7; 8; 9; 10; 11; 12]; [13; 14; 15; 16]; [17]]%nat /\ dropped s = 5%nat.
Proof. vm_compute. split; reflexivity. Qed.

(* the 2nd creation of the new main file fails: the next run aborts loudly; records 0..8 accepted and retained *)
Example c23_failed_open :
  let s := runfo c_ex 0 None None (Some 1%nat) ops_ex in
  aborted s = true /\ next s = 9%nat /\ offered s = 10%nat /\ map oids (files s) = [[0; 1; 2; 3; 4]; [5; 6; 7; 8]; []]%nat.
Proof. vm_compute. repeat split; reflexivity. Qed.
