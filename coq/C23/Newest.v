(* C23 -- the newest file holds every record since the last rotation:
   ids of main ++ buffer = since .. next-1, where [since] is the stream position at which the current main file
   was created (by the first open, or by the rotation that renamed its predecessor away). *)
From Coq Require Import List ZArith Bool Lia.
Import ListNotations.
Require Import V.C23.Model V.C23.Proofs V.C23.Multi.
Open Scope Z_scope.

Definition Nw (s : st) : Prop :=
  oids (mainf s) ++ ids (bufc s) = seq (since s) (next s - since s) /\ (since s <= next s)%nat.

Lemma Nw_ext s s' : files s' = files s -> hbuf s' = hbuf s -> next s' = next s -> since s' = since s ->
  Nw s -> Nw s'.
Proof. unfold Nw, mainf, bufc. intros -> -> -> ->. tauto. Qed.

Lemma Nw_prim f s : (forall s, Nw s -> Nw (f s)) -> Nw s -> Nw (prim f s).
Proof.
  intros Hf H. unfold prim. destruct (crashed s); [exact H|].
  destruct (fuel s) as [[|n]|].
  - eapply Nw_ext; [..|exact H]; reflexivity.
  - apply Hf. eapply Nw_ext; [..|exact H]; reflexivity.
  - apply Hf, H.
Qed.

Lemma Nw_write_recs szs s : Nw s -> Nw (f_write_recs szs s).
Proof.
  unfold f_write_recs. destruct (hbuf s) as [b|] eqn:E; [|auto].
  unfold Nw, bufc, mainf. cbn -[ids oids seq Nat.sub]. rewrite E. cbn -[ids oids seq Nat.sub]. intros [H1 H2].
  split; [|lia]. rewrite ids_app, ids_mkrecs, app_assoc, H1.
  replace (next s + length szs - since s)%nat with ((next s - since s) + length szs)%nat by lia.
  rewrite seq_app. f_equal. f_equal. lia.
Qed.

Lemma Nw_write_hdr s : Nw s -> Nw (f_write_hdr s).
Proof.
  unfold f_write_hdr. destruct (hbuf s) as [b|] eqn:E; [|auto].
  unfold Nw, bufc, mainf. cbn -[ids oids seq Nat.sub]. rewrite E. cbn -[ids oids seq Nat.sub].
  rewrite ids_app. cbn -[oids seq Nat.sub]. rewrite app_nil_r. tauto.
Qed.

Lemma Nw_intro s m b n sn : mainf s = m -> bufc s = b -> next s = n -> since s = sn ->
  oids m ++ ids b = seq sn (n - sn) -> (sn <= n)%nat -> Nw s.
Proof. unfold Nw. intros <- <- <- <-. auto. Qed.

Lemma Nw_flush_like s hb : hb = Some [] \/ hb = None -> Nw s ->
  match hbuf s with
  | Some b => Nw (set_ghost (set_disk s (set_main (files s) (Some (ocontent (mainf s) ++ b))) hb)
                            (next s) (next s) (dropped s) (events s))
  | None => True
  end.
Proof.
  intros Hhb [H1 H2]. destruct (hbuf s) as [b|] eqn:E; [|auto].
  apply (Nw_intro _ (Some (ocontent (mainf s) ++ b)) (ocontent hb) (next s) (since s));
    [unfold mainf; cbn [files set_ghost set_disk]; apply last_set_main|reflexivity|reflexivity|reflexivity| |exact H2].
  assert (B : ids (ocontent hb) = []) by (destruct Hhb; subst; reflexivity).
  rewrite B, app_nil_r. unfold oids. cbn [ocontent]. rewrite ids_app.
  unfold bufc in H1. rewrite E in H1. exact H1.
Qed.

Lemma Nw_flush s : Nw s -> Nw (f_flush s).
Proof.
  intros H. unfold f_flush. pose proof (Nw_flush_like s (Some []) (or_introl eq_refl) H) as G.
  destruct (hbuf s); [exact G|exact H].
Qed.
Lemma Nw_close s : Nw s -> Nw (f_close s).
Proof.
  intros H. unfold f_close. pose proof (Nw_flush_like s None (or_intror eq_refl) H) as G.
  destruct (hbuf s); [exact G|exact H].
Qed.

Lemma Nw_open_append s : Nw s -> Nw (f_open_append s).
Proof.
  unfold f_open_append. destruct (hbuf s) as [b|] eqn:E; [auto|]. intros [H1 H2].
  unfold bufc in H1. rewrite E in H1. cbn [ocontent ids flat_map] in H1. rewrite app_nil_r in H1.
  destruct (mainf s) as [m|] eqn:M.
  - apply (Nw_intro _ (Some m) [] (next s) (since s));
      [unfold mainf; cbn [files set_since set_disk]; apply last_set_main|reflexivity|reflexivity|reflexivity| |exact H2].
    cbn [ids flat_map]. rewrite app_nil_r. exact H1.
  - apply (Nw_intro _ (Some []) [] (next s) (next s));
      [unfold mainf; cbn [files set_since set_disk]; apply last_set_main|reflexivity|reflexivity|reflexivity| |lia].
    rewrite Nat.sub_diag. reflexivity.
Qed.

Lemma Nw_create_trunc s : Nw (f_create_trunc s).
Proof.
  unfold f_create_trunc.
  apply (Nw_intro _ (Some []) [] (next s) (next s));
    [unfold mainf; cbn [files set_since set_disk]; apply last_set_main|reflexivity|reflexivity|reflexivity| |lia].
  rewrite Nat.sub_diag. reflexivity.
Qed.

Lemma last_touch fs : forall j, oids (last (touch fs j) None) = oids (last fs None).
Proof.
  induction fs as [|f r IH]; intros j; [destruct j; reflexivity|].
  destruct j.
  - cbn [touch]. destruct r; [reflexivity|reflexivity].
  - cbn [touch]. destruct r as [|g r'].
    + destruct j; reflexivity.
    + specialize (IH j). destruct j; cbn [touch] in *; cbn [last] in *; exact IH.
Qed.

Lemma Nw_trial j s : Nw s -> Nw (f_trial j s).
Proof.
  intros [H1 H2]. unfold f_trial.
  apply (Nw_intro _ (last (touch (files s) j) None) (bufc s) (next s) (since s)); try reflexivity; [|exact H2].
  rewrite last_touch. exact H1.
Qed.

Lemma Nw_vars s t fi a fs cs : Nw s -> Nw (set_vars s t fi a fs cs).
Proof. apply Nw_ext; reflexivity. Qed.
Lemma Nw_log_close s : Nw s -> Nw (log_close s).
Proof. intros H. unfold log_close. apply Nw_prim; [apply Nw_close|]. apply Nw_prim; [apply Nw_flush|exact H]. Qed.
Lemma Nw_trials n : forall s, Nw s -> Nw (trials n s).
Proof. induction n as [|n IH]; intros s H; cbn; [exact H|]. apply IH. apply Nw_prim; [apply Nw_trial|exact H]. Qed.
Lemma Nw_reopen k s : Nw s -> Nw (log_reopen k s).
Proof.
  intros H. unfold log_reopen. apply Nw_trials. apply Nw_prim; [apply Nw_open_append|].
  apply Nw_vars. apply Nw_log_close, H.
Qed.
Lemma Nw_prepare s : Nw s -> Nw (log_prepare s).
Proof. intros H. unfold log_prepare. destruct (first s); [apply Nw_prim; [apply Nw_write_hdr|exact H]|exact H]. Qed.

(* the rename chain either renames main away or leaves it alone *)
Lemma chain_last2 rest : forall a0 s s' l', chain a0 rest s = (s', l') ->
  (last l' None = None \/ last l' None = last (a0 :: rest) None) /\ since s' = since s /\
  (fault s = false -> fault s' = true -> last l' None = last (a0 :: rest) None).
Proof.
  induction rest as [|a1 rest IH]; intros a0 s s' l' E; cbn [chain] in E.
  - inversion E; subst. split; [right; reflexivity|]. split; reflexivity.
  - destruct (rename_gate s) as [sg b] eqn:EG.
    destruct (gate_spec _ _ _ EG) as [[_ [_ [_ [_ [_ [_ F7]]]]]] [_ [Gt _]]].
    destruct b; [|inversion E; subst; split; [right; reflexivity|split; [exact F7|reflexivity]]].
    destruct (Gt eq_refl) as [_ [_ Gfa]].
    destruct a1 as [c0|]; [|inversion E; subst; split; [right; reflexivity|split; [exact F7|reflexivity]]].
    destruct (chain None rest sg) as [s'' r'] eqn:EC. inversion E; subst.
    destruct (IH _ _ _ _ EC) as [L [S Lf]]. 
    destruct rest as [|a2 rest'].
    + cbn in EC. inversion EC; subst. split; [left; reflexivity|]. split; [congruence|].
      intros F0 F1. congruence.
    + assert (NE : r' <> []).
      { apply chain_length in EC. destruct r'; [discriminate EC|discriminate]. }
      destruct r' as [|x r'']; [congruence|].
      change (last (Some c0 :: x :: r'') None) with (last (x :: r'') None).
      change (last (a0 :: Some c0 :: a2 :: rest') None) with (last (a2 :: rest') None).
      change (last (None :: a2 :: rest') None) with (last (a2 :: rest') None) in L, Lf.
      split; [exact L|]. split; [congruence|]. intros F0 F1. apply Lf; [congruence|exact F1].
Qed.

Lemma Nw_cycle c size s : Nw s -> Nw (log_cycle c size s).
Proof.
  intros H. unfold log_cycle. destruct (keep c) as [|k]; [exact H|].
  set (s1 := prim f_flush s).
  assert (H1 : Nw s1) by (apply Nw_prim; [apply Nw_flush|exact H]).
  destruct (crashed s1); [exact H1|].
  destruct ((0 <? size) && (csize (hsz c) (ocontent (mainf s1)) <? size)); [exact H1|].
  set (s2 := prim f_close (prim f_flush s1)).
  assert (H2 : Nw s2) by (apply Nw_prim; [apply Nw_close|apply Nw_prim; [apply Nw_flush|exact H1]]).
  destruct (crashed s2) eqn:C2; [exact H2|].
  assert (Hb : hbuf s2 = None) by (apply close_no_handle; exact C2).
  destruct (chain_files (files s2) (set_fuel s2 (fuel s2) false false)) as [s3 fs] eqn:EC.
  match goal with |- Nw (if crashed ?x then _ else _) => set (s4 := x) end.
  assert (H4 : Nw s4).
  { unfold chain_files in EC. destruct (files s2) as [|a0 rest] eqn:F2.
    - inversion EC; subst. unfold Nw, s4, bufc, mainf. cbn. rewrite Hb. cbn. rewrite Nat.sub_diag. split; [reflexivity|lia].
    - destruct (chain_spec _ _ _ _ _ EC) as [_ [_ [G1 [G2 [G3 _]]]]].
      destruct (chain_last2 _ _ _ _ _ EC) as [L [S _]]. cbn in G1, G2, G3, S.
      unfold Nw, s4, bufc. unfold mainf at 1. cbn -[oids seq Nat.sub]. rewrite G2, Hb, G3. cbn -[oids seq Nat.sub].
      destruct H2 as [N1 N2]. unfold bufc in N1. rewrite Hb in N1. cbn -[oids seq Nat.sub] in N1.
      destruct (last fs None) as [m|] eqn:LF.
      + destruct L as [L|L]; [discriminate L|]. rewrite S. split; [|exact N2].
        unfold mainf in N1. rewrite F2 in N1. rewrite <- L in N1. exact N1.
      + cbn. rewrite Nat.sub_diag. split; [reflexivity|lia]. }
  destruct (crashed s4); [exact H4|].
  destruct (fault s4); [apply Nw_reopen; exact H4|].
  assert (G : forall x, Nw x -> Nw (log_reopen 0 (prim f_write_hdr (prim f_create_trunc x)))).
  { intros x Hx. apply Nw_reopen. apply Nw_prim; [apply Nw_write_hdr|].
    unfold prim. destruct (crashed x); [exact Hx|]. destruct (fuel x) as [[|n]|].
    - eapply Nw_ext; [..|exact Hx]; reflexivity.
    - apply Nw_create_trunc.
    - apply Nw_create_trunc. }
  assert (A : forall ofl ab off, Nw (set_abort s4 ofl ab off)) by (intros; eapply Nw_ext; [..|exact H4]; reflexivity).
  destruct (ofail s4) as [[|n9]|]; [apply A|apply G, A|apply G, A].
Qed.

Lemma Nw_logger_rest c s1 : Nw s1 -> Nw (logger_rest c s1).
Proof.
  intros H1. unfold logger_rest.
  set (s2 := if flushP c <=? now s1 - flushStamp s1 then set_flushStamp (prim f_flush s1) (now s1) else s1).
  assert (H2 : Nw s2).
  { unfold s2. destruct (flushP c <=? now s1 - flushStamp s1); [|exact H1]. apply Nw_vars.
    apply Nw_prim; [apply Nw_flush|exact H1]. }
  destruct (keep c); [exact H2|].
  destruct (cycleP c <=? now s2 - cycleStamp s2); [|exact H2]. apply Nw_vars. apply Nw_cycle. exact H2.
Qed.

Lemma Nw_logger_log c szs s : Nw s -> Nw (logger_log c szs s).
Proof.
  intros H. unfold logger_log.
  set (s0 := set_abort s (ofail s) (aborted s) (offered s + length szs)).
  assert (H0 : Nw s0) by (eapply Nw_ext; [..|exact H]; reflexivity).
  set (s1 := match szs with [] => s0 | _ => prim (f_write_recs szs) s0 end).
  assert (H1 : Nw s1). { unfold s1. destruct szs; [exact H0|]. apply Nw_prim; [apply Nw_write_recs|exact H0]. }
  destruct (aborted s1); [exact H1|apply Nw_logger_rest; exact H1].
Qed.

Lemma Nw_step c s o : Nw s -> Nw (step c s o).
Proof.
  intros H. unfold step. destruct (aborted s); [exact H|]. destruct o.
  - apply Nw_vars, H.
  - apply Nw_vars. apply Nw_logger_log. apply Nw_prepare, Nw_reopen, H.
  - destruct (active s); [apply Nw_logger_log|]; exact H.
  - destruct (active s); [|exact H]. cbv zeta.
    destruct (aborted (logger_log c szs s)); [apply Nw_logger_log, H|].
    apply Nw_vars. apply Nw_log_close.
    destruct (negb (Nat.eqb (keep c) 0) && reuse c); [apply Nw_cycle|]; apply Nw_logger_log, H.
Qed.

Lemma Nw_runfrom c ops : forall s, Nw s -> Nw (runfrom c s ops).
Proof. induction ops as [|o ops IH]; intros s H; cbn; [exact H|]. apply IH, Nw_step, H. Qed.

Lemma last_repeat_none n : last (repeat (@None content) n) None = None.
Proof. induction n as [|n IH]; [reflexivity|]. cbn [repeat]. destruct n; [reflexivity|]. exact IH. Qed.

Lemma newest_l c t0 fu ops : let s := run c t0 fu ops in
  oids (mainf s) ++ ids (bufc s) = seq (since s) (next s - since s) /\ (since s <= next s)%nat.
Proof.
  cbv zeta. apply Nw_runfrom. unfold Nw, init, bufc, mainf, empty_disk. cbn -[repeat oids seq Nat.sub].
  rewrite last_repeat_none. cbn. split; [reflexivity|lia].
Qed.

(* and the older files hold exactly dropped .. since-1 *)
Lemma olds_l c t0 fu ops : let s := run c t0 fu ops in
  view (removelast (files s)) = seq (dropped s) (since s - dropped s) /\ (dropped s <= since s)%nat.
Proof.
  cbv zeta. set (s := run c t0 fu ops).
  destruct (newest_l c t0 fu ops) as [N1 N2]. fold s in N1, N2.
  pose proof (DE_runfrom c ops _ (DE_init_empty c t0 fu)) as [[D1 [D2 [D3 D4]]] _]. fold (run c t0 fu ops) in D1, D2, D3, D4. fold s in D1, D2, D3, D4.
  rewrite (view_split _ D4) in D1. unfold mainf in N1. rewrite <- app_assoc, N1 in D1.
  assert (Len : (length (view (removelast (files s))) + (next s - since s) = next s - dropped s)%nat).
  { rewrite <- (seq_length (next s - since s) (since s)), <- app_length, D1, seq_length. reflexivity. }
  assert (LE : (dropped s <= since s)%nat) by lia. split; [|exact LE].
  replace (next s - dropped s)%nat with ((since s - dropped s) + (next s - since s))%nat in D1 by lia.
  rewrite seq_app in D1. replace (dropped s + (since s - dropped s))%nat with (since s) in D1 by lia.
  apply app_eq_len_tail in D1; [exact D1|reflexivity].
Qed.

(* ---------- with a rename-failure oracle ---------- *)
Lemma DE_set_rfail c s rf fa : DE c s -> DE c (set_rfail s rf fa).
Proof. intros [A B]. split; [eapply D_ext; [..|exact A]|eapply E_ext; [..|exact B]]; reflexivity. Qed.

Lemma runf_retained_l c t0 fu rf ops : let s := runf c t0 fu rf ops in
  view (files s) ++ ids (bufc s) = seq (dropped s) (next s - dropped s).
Proof. cbv zeta. apply (DE_runfrom c ops _ (DE_set_rfail c _ rf false (DE_init_empty c t0 fu))). Qed.

Lemma runf_crash_l c t0 fu rf ops pre : let s := runf c t0 fu rf ops in
  is_prefix pre (bufc s) ->
  exists b, (flushed s <= b <= next s)%nat /\ (dropped s <= b)%nat /\
            view (survivors s pre) = seq (dropped s) (b - dropped s).
Proof.
  cbv zeta. intros P. apply survivors_of_D; [|exact P].
  apply (DE_runfrom c ops _ (DE_set_rfail c _ rf false (DE_init_empty c t0 fu))).
Qed.

Lemma runf_newest_l c t0 fu rf ops : let s := runf c t0 fu rf ops in
  oids (mainf s) ++ ids (bufc s) = seq (since s) (next s - since s) /\ (since s <= next s)%nat.
Proof.
  cbv zeta. apply Nw_runfrom. eapply Nw_ext; [reflexivity|reflexivity|reflexivity|reflexivity|].
  unfold Nw, init, bufc, mainf, empty_disk. cbn -[repeat oids seq Nat.sub].
  rewrite last_repeat_none. cbn. split; [reflexivity|lia].
Qed.

(* a failing rename stops the chain: only the oldest copy's records can be gone, in stream order nothing is
   overwritten, and the main file (header included) is exactly what it was *)
Lemma failed_chain_l a0 rest s s' l' : chain a0 rest s = (s', l') -> fault s = false -> fault s' = true ->
  (view l' = view (a0 :: rest) \/ view l' = view rest) /\ last l' None = last (a0 :: rest) None /\
  length l' = length (a0 :: rest).
Proof.
  intros E F0 F1. destruct (chain_spec _ _ _ _ _ E) as [V _].
  destruct (chain_last2 _ _ _ _ _ E) as [_ [_ L]]. split; [exact V|]. split; [apply L; assumption|].
  apply chain_length in E. exact E.
Qed.
