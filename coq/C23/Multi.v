(* C23 -- several Logs per Logger: the per-log disk invariant is preserved by every phase of every logger
   operation, whatever the crash fuel handed from log to log. *)
From Coq Require Import List ZArith Bool Lia.
Import ListNotations.
Require Import V.C23.Model V.C23.Proofs.
Open Scope Z_scope.

Lemma DE_set_fuel c s fu cr fa : DE c s -> DE c (set_fuel s fu cr fa).
Proof. intros [A B]. split; [eapply D_ext; [..|exact A]|eapply E_ext; [..|exact B]]; reflexivity. Qed.

Lemma mapthread_DE c f : (forall i s, DE c s -> DE c (f i s)) ->
  forall ls i fu cr, Forall (DE c) ls -> Forall (DE c) (fst (fst (mapthread f i ls fu cr))).
Proof.
  intros Hf ls. induction ls as [|s r IH]; intros i fu cr H; cbn; [constructor|].
  inversion H; subst.
  destruct (mapthread f (S i) r (fuel (f i (set_fuel s fu cr (fault s)))) (crashed (f i (set_fuel s fu cr (fault s)))))
    as [[r' fu'] cr'] eqn:EM.
  cbn. constructor.
  - apply Hf. apply DE_set_fuel. assumption.
  - specialize (IH (S i) (fuel (f i (set_fuel s fu cr (fault s)))) (crashed (f i (set_fuel s fu cr (fault s)))) H3).
    rewrite EM in IH. exact IH.
Qed.

Definition MDE (c : cfg) (m : mst) : Prop := Forall (DE c) (lgs m).

Lemma mphase_DE c f m : (forall i s, DE c s -> DE c (f i s)) -> MDE c m -> MDE c (mphase f m).
Proof.
  intros Hf H. unfold MDE, mphase.
  pose proof (mapthread_DE c f Hf (lgs m) O (gfu m) (gcr m) H) as G.
  destruct (mapthread f 0 (lgs m) (gfu m) (gcr m)) as [[l' fu] cr]. exact G.
Qed.

Lemma DE_prim c f s : (forall s, D s -> D (f s)) -> (forall s, E c s -> E c (f s)) -> DE c s -> DE c (prim f s).
Proof. intros H1 H2 [A B]. split; [apply D_prim|apply E_prim]; assumption. Qed.

Lemma DE_write_i c szss i s : DE c s -> DE c (write_i szss i s).
Proof.
  intros H. unfold write_i. destruct (nth i szss []); [exact H|].
  apply DE_prim; [apply D_write_recs|apply E_write_recs|exact H].
Qed.

Lemma DE_flush c s : DE c s -> DE c (prim f_flush s).
Proof. apply DE_prim; [apply D_flush|apply E_flush]. Qed.

Lemma MDE_logger_log c szss m : MDE c m -> MDE c (mlogger_log c szss m).
Proof.
  intros H. unfold mlogger_log.
  set (m1 := mphase (write_i szss) m).
  assert (H1 : MDE c m1) by (apply mphase_DE; [intros; apply DE_write_i; assumption|exact H]).
  set (m2 := if flushP c <=? gnow m1 - gflush m1 then _ else m1).
  assert (H2 : MDE c m2).
  { unfold m2. destruct (flushP c <=? gnow m1 - gflush m1); [|exact H1].
    unfold MDE. cbn. apply mphase_DE; [intros; apply DE_flush; assumption|exact H1]. }
  destruct (keep c); [exact H2|].
  destruct (cycleP c <=? gnow m2 - gcycle m2); [|exact H2].
  unfold MDE. cbn. apply mphase_DE; [intros; apply DE_cycle; assumption|exact H2].
Qed.

Lemma DE_reopen c k s : DE c s -> DE c (log_reopen k s).
Proof. intros [A B]. split; [apply D_reopen|apply E_reopen]; assumption. Qed.
Lemma DE_prepare c s : DE c s -> DE c (log_prepare s).
Proof. intros [A B]. split; [apply D_prepare|apply E_prepare]; assumption. Qed.
Lemma DE_log_close c s : DE c s -> DE c (log_close s).
Proof. intros [A B]. split; [apply D_log_close|apply E_log_close]; assumption. Qed.

Lemma MDE_step c m o : MDE c m -> MDE c (mstep c m o).
Proof.
  intros H. destruct o; cbn [mstep].
  - exact H.
  - unfold MDE. cbn. apply MDE_logger_log.
    apply mphase_DE; [intros; apply DE_prepare; assumption|].
    apply mphase_DE; [intros; apply DE_reopen; assumption|exact H].
  - destruct (gactive m); [apply MDE_logger_log|]; exact H.
  - destruct (gactive m); [|exact H]. unfold MDE. cbn.
    apply mphase_DE; [intros; apply DE_log_close; assumption|].
    destruct (negb (Nat.eqb (keep c) 0) && reuse c).
    + apply mphase_DE; [intros; apply DE_cycle; assumption|]. apply MDE_logger_log, H.
    + apply MDE_logger_log, H.
Qed.

Lemma MDE_runfrom c ops : forall m, MDE c m -> MDE c (mrunfrom c m ops).
Proof. induction ops as [|o ops IH]; intros m H; cbn; [exact H|]. apply IH, MDE_step, H. Qed.

Lemma MDE_init_empty c n t0 fu : MDE c (minit c t0 (repeat (empty_disk c, O, O) n) fu).
Proof.
  unfold MDE, minit. cbn [lgs]. induction n; cbn; constructor; [|exact IHn].
  apply (DE_init_empty c t0 None).
Qed.

Lemma mcrash_l c n t0 fu ops s pre : In s (lgs (mrun c n t0 fu ops)) -> is_prefix pre (bufc s) ->
  exists b, (flushed s <= b <= next s)%nat /\ (dropped s <= b)%nat /\
            view (survivors s pre) = seq (dropped s) (b - dropped s).
Proof.
  intros Hin P. apply survivors_of_D; [|exact P].
  pose proof (MDE_runfrom c ops _ (MDE_init_empty c n t0 fu)) as G.
  unfold MDE in G. rewrite Forall_forall in G. apply (G s Hin).
Qed.

Lemma mcrash_from_l c m ops s pre : MDE c m -> In s (lgs (mrunfrom c m ops)) -> is_prefix pre (bufc s) ->
  exists b, (flushed s <= b <= next s)%nat /\ (dropped s <= b)%nat /\
            view (survivors s pre) = seq (dropped s) (b - dropped s).
Proof.
  intros H Hin P. apply survivors_of_D; [|exact P].
  pose proof (MDE_runfrom c ops _ H) as G. unfold MDE in G. rewrite Forall_forall in G. apply (G s Hin).
Qed.

(* ---------- a completed Logger.flush() has flushed EVERY log ---------- *)
Lemma prim_crashed f s : crashed s = true -> prim f s = s.
Proof. intros C. unfold prim. rewrite C. reflexivity. Qed.

Lemma flush_prim_done c s : E c s -> crashed (prim f_flush s) = false ->
  flushed (prim f_flush s) = next (prim f_flush s) /\ ids (bufc (prim f_flush s)) = [].
Proof.
  intros [_ HE] C. unfold prim in *. destruct (crashed s) eqn:Cs; [congruence|].
  assert (G : forall x, hbuf x = hbuf s -> flushed x = flushed s -> next x = next s ->
                        flushed (f_flush x) = next (f_flush x) /\ ids (bufc (f_flush x)) = []).
  { intros x X1 X2 X3. unfold f_flush, bufc. destruct (hbuf x) eqn:Hx; cbn; [auto|].
    rewrite Hx. cbn. split; [|reflexivity]. rewrite X2, X3. apply HE. congruence. }
  destruct (fuel s) as [[|n]|]; [cbn in C; discriminate| |]; apply G; reflexivity.
Qed.

Lemma mapthread_flush_done c : forall ls i fu cr, Forall (E c) ls ->
  snd (mapthread (fun _ => prim f_flush) i ls fu cr) = false ->
  Forall (fun s => flushed s = next s /\ ids (bufc s) = []) (fst (fst (mapthread (fun _ => prim f_flush) i ls fu cr))).
Proof.
  induction ls as [|s r IH]; intros i fu cr H C; cbn in *; [constructor|].
  inversion H; subst.
  set (s' := prim f_flush (set_fuel s fu cr (fault s))) in *.
  destruct (mapthread (fun _ => prim f_flush) (S i) r (fuel s') (crashed s')) as [[r' fu'] cr'] eqn:EM.
  cbn in *. subst cr'.
  assert (Cs : crashed s' = false).
  { destruct (crashed s') eqn:X; [|reflexivity]. exfalso.
    (* a dead process stays dead through the remaining logs *)
    assert (Mono : forall l j fu0, snd (mapthread (fun _ => prim f_flush) j l fu0 true) = true).
    { induction l as [|y l IHl]; intros j fu0; cbn [mapthread]; [reflexivity|].
      rewrite prim_crashed by reflexivity. cbv zeta.
      change (fuel (set_fuel y fu0 true (fault y))) with fu0.
      change (crashed (set_fuel y fu0 true (fault y))) with true.
      specialize (IHl (S j) fu0).
      destruct (mapthread (fun _ => prim f_flush) (S j) l fu0 true) as [[? ?] ?]. exact IHl. }
    specialize (Mono r (S i) (fuel s')). rewrite EM in Mono. cbn in Mono. discriminate Mono. }
  constructor.
  - apply (flush_prim_done c); [eapply E_ext; [..|exact H2]; reflexivity|exact Cs].
  - specialize (IH (S i) (fuel s') (crashed s') H3). rewrite EM in IH. apply IH. reflexivity.
Qed.

Lemma mflush_all_l c m : Forall (E c) (lgs m) ->
  gcr (mphase (fun _ => prim f_flush) m) = false ->
  Forall (fun s => flushed s = next s /\ ids (bufc s) = []) (lgs (mphase (fun _ => prim f_flush) m)).
Proof.
  intros H C. unfold mphase in *.
  pose proof (mapthread_flush_done c (lgs m) O (gfu m) (gcr m) H) as G.
  destruct (mapthread (fun _ => prim f_flush) 0 (lgs m) (gfu m) (gcr m)) as [[l' fu] cr]. cbn in *. apply G. exact C.
Qed.
