(* C23 -- no record is lost silently: unless the process died (crashed) or the failure surfaced (aborted: an
   exception left the runner), every record handed to the log has been accepted (next = offered); accepted
   records are retained or rotated out beyond keep (invariant D). *)
From Coq Require Import List ZArith Bool Lia.
Import ListNotations.
Require Import V.C23.Model V.C23.Proofs V.C23.Newest.
Open Scope Z_scope.

Definition K (s : st) : Prop := crashed s = true \/ aborted s = true \/ next s = offered s.

(* s' is a later state in which nothing was offered or accepted *)
Definition R (s s' : st) : Prop :=
  (crashed s = true -> crashed s' = true) /\ (aborted s = true -> aborted s' = true) /\
  (crashed s' = false -> aborted s' = false -> next s' = next s /\ offered s' = offered s).

Lemma R_refl s : R s s.
Proof. repeat split; auto. Qed.

Lemma R_trans a b c0 : R a b -> R b c0 -> R a c0.
Proof.
  intros [A1 [A2 A3]] [B1 [B2 B3]]. split; [auto|split; [auto|]].
  intros C A. destruct (B3 C A) as [X Y].
  assert (Cb : crashed b = false) by (destruct (crashed b) eqn:Q; [rewrite B1 in C by reflexivity; discriminate|reflexivity]).
  assert (Ab : aborted b = false) by (destruct (aborted b) eqn:Q; [rewrite B2 in A by reflexivity; discriminate|reflexivity]).
  destruct (A3 Cb Ab). split; congruence.
Qed.

Lemma K_R s s' : R s s' -> K s -> K s'.
Proof.
  intros [R1 [R2 R3]] [H|[H|H]]; [left; auto|right; left; auto|].
  destruct (crashed s') eqn:C; [left; exact C|]. destruct (aborted s') eqn:A; [right; left; exact A|].
  right; right. destruct (R3 eq_refl eq_refl). congruence.
Qed.

Definition keeps (f : st -> st) : Prop :=
  forall x, next (f x) = next x /\ offered (f x) = offered x /\ aborted (f x) = aborted x /\ crashed (f x) = crashed x.

Lemma R_same s s' : next s' = next s -> offered s' = offered s -> aborted s' = aborted s -> crashed s' = crashed s -> R s s'.
Proof. intros A B C0 D0. repeat split; intros; congruence. Qed.

Lemma R_prim f s : keeps f -> R s (prim f s).
Proof.
  intros Hf. unfold prim. destruct (crashed s) eqn:C; [apply R_refl|].
  destruct (fuel s) as [[|n]|].
  - repeat split; cbn; auto; try discriminate.
  - destruct (Hf (set_fuel s (Some n) false (fault s))) as [A [B [C0 D0]]]. apply R_same; cbn in *; congruence.
  - destruct (Hf s) as [A [B [C0 D0]]]. apply R_same; congruence.
Qed.

Lemma keeps_write_hdr : keeps f_write_hdr.
Proof. intros x. unfold f_write_hdr. destruct (hbuf x); repeat split. Qed.
Lemma keeps_flush : keeps f_flush.
Proof. intros x. unfold f_flush. destruct (hbuf x); repeat split. Qed.
Lemma keeps_close : keeps f_close.
Proof. intros x. unfold f_close. destruct (hbuf x); repeat split. Qed.
Lemma keeps_open_append : keeps f_open_append.
Proof. intros x. unfold f_open_append. destruct (hbuf x); repeat split. Qed.
Lemma keeps_create_trunc : keeps f_create_trunc.
Proof. intros x. repeat split. Qed.
Lemma keeps_trial j : keeps (f_trial j).
Proof. intros x. repeat split. Qed.

Lemma R_log_close s : R s (log_close s).
Proof. unfold log_close. eapply R_trans; [apply R_prim, keeps_flush|apply R_prim, keeps_close]. Qed.
Lemma R_trials n : forall s, R s (trials n s).
Proof. induction n as [|n IH]; intros s; cbn; [apply R_refl|]. eapply R_trans; [apply R_prim, keeps_trial|apply IH]. Qed.
Lemma R_reopen k s : R s (log_reopen k s).
Proof.
  unfold log_reopen. eapply R_trans; [apply R_log_close|].
  eapply R_trans; [|apply R_trials]. eapply R_trans; [|apply R_prim, keeps_open_append].
  apply R_same; reflexivity.
Qed.
Lemma R_prepare s : R s (log_prepare s).
Proof. unfold log_prepare. destruct (first s); [apply R_prim, keeps_write_hdr|apply R_refl]. Qed.

Lemma gate_flags s s' b : rename_gate s = (s', b) ->
  next s' = next s /\ offered s' = offered s /\ aborted s' = aborted s /\ (crashed s = true -> crashed s' = true).
Proof.
  unfold rename_gate. destruct (crashed s) eqn:C; [intros E; inversion E; subst; auto|].
  assert (G : forall fu', (let s1 := set_fuel s fu' false (fault s) in
              match rfail s1 with
              | Some O => (set_rfail s1 None true, false)
              | Some (S n) => (set_rfail s1 (Some n) (fault s1), true)
              | None => (s1, true)
              end) = (s', b) ->
            next s' = next s /\ offered s' = offered s /\ aborted s' = aborted s /\ (false = true -> crashed s' = true)).
  { intros fu' E. cbv zeta in E. destruct (rfail (set_fuel s fu' false (fault s))) as [[|n]|]; inversion E; subst; repeat split; discriminate. }
  destruct (fuel s) as [[|n]|]; [intros E; inversion E; subst; repeat split; discriminate| |]; apply G.
Qed.

Lemma chain_flags rest : forall a0 s s' l', chain a0 rest s = (s', l') ->
  next s' = next s /\ offered s' = offered s /\ aborted s' = aborted s /\ (crashed s = true -> crashed s' = true).
Proof.
  induction rest as [|a1 rest IH]; intros a0 s s' l' E; cbn [chain] in E; [inversion E; subst; auto|].
  destruct (rename_gate s) as [sg b] eqn:EG. destruct (gate_flags _ _ _ EG) as [A [B [C0 D0]]].
  destruct b; [|inversion E; subst; auto].
  destruct a1 as [c0|]; [|inversion E; subst; cbn; auto].
  destruct (chain None rest sg) as [s'' r'] eqn:EC. inversion E; subst.
  destruct (IH _ _ _ _ EC) as [A' [B' [C' D']]]. repeat split; try congruence. auto.
Qed.

Lemma R_cycle c size s : R s (log_cycle c size s).
Proof.
  unfold log_cycle. destruct (keep c); [apply R_refl|].
  set (s1 := prim f_flush s). assert (H1 : R s s1) by (apply R_prim, keeps_flush).
  destruct (crashed s1); [exact H1|].
  destruct ((0 <? size) && (csize (hsz c) (ocontent (mainf s1)) <? size)); [exact H1|].
  set (s2 := prim f_close (prim f_flush s1)).
  assert (H2 : R s s2).
  { eapply R_trans; [exact H1|]. eapply R_trans; [apply R_prim, keeps_flush|apply R_prim, keeps_close]. }
  destruct (crashed s2) eqn:C2; [exact H2|].
  destruct (chain_files (files s2) (set_fuel s2 (fuel s2) false false)) as [s3 fs] eqn:EC.
  match goal with |- R s (if crashed ?x then _ else _) => set (s4 := x) end.
  assert (H4 : R s s4).
  { eapply R_trans; [exact H2|]. unfold chain_files in EC. destruct (files s2) as [|a0 rest].
    - inversion EC; subst. repeat split; unfold s4; cbn; intros; try congruence.
    - destruct (chain_flags _ _ _ _ _ EC) as [A [B [C0 D0]]]. cbn in A, B, C0, D0.
      repeat split; unfold s4; cbn; intros; try congruence. }
  destruct (crashed s4); [exact H4|].
  destruct (fault s4); [eapply R_trans; [exact H4|apply R_reopen]|].
  assert (G : forall ofl, R s (log_reopen 0 (prim f_write_hdr (prim f_create_trunc (set_abort s4 ofl (aborted s4) (offered s4)))))).
  { intros ofl. eapply R_trans; [exact H4|]. eapply R_trans; [|apply R_reopen].
    eapply R_trans; [|apply R_prim, keeps_write_hdr]. eapply R_trans; [|apply R_prim, keeps_create_trunc].
    apply R_same; reflexivity. }
  destruct (ofail s4) as [[|n9]|]; [|apply G|apply G].
  eapply R_trans; [exact H4|apply R_same; reflexivity].
Qed.

Lemma R_logger_rest c s : R s (logger_rest c s).
Proof.
  unfold logger_rest.
  set (s2 := if flushP c <=? now s - flushStamp s then set_flushStamp (prim f_flush s) (now s) else s).
  assert (H2 : R s s2).
  { unfold s2. destruct (flushP c <=? now s - flushStamp s); [|apply R_refl].
    eapply R_trans; [apply R_prim, keeps_flush|apply R_same; reflexivity]. }
  destruct (keep c); [exact H2|].
  destruct (cycleP c <=? now s2 - cycleStamp s2); [|exact H2].
  eapply R_trans; [exact H2|]. eapply R_trans; [apply R_cycle|apply R_same; reflexivity].
Qed.

Lemma K_logger_log c szs s : K s -> K (logger_log c szs s).
Proof.
  intros H. unfold logger_log.
  set (s0 := set_abort s (ofail s) (aborted s) (offered s + length szs)).
  set (s1 := match szs with [] => s0 | _ => prim (f_write_recs szs) s0 end).
  assert (H1 : K s1).
  { unfold s1. destruct szs as [|z szs'].
    - unfold K, s0. cbn. destruct H as [H|[H|H]]; auto. right; right. lia.
    - remember (z :: szs') as szs. unfold prim. destruct (crashed s0) eqn:C; [left; exact C|].
      assert (G : forall x, crashed x = false -> aborted x = aborted s -> next x = next s ->
                  offered x = (offered s + length szs)%nat -> hbuf x = hbuf s -> K (f_write_recs szs x)).
      { intros x Cx Ax Nx Ox Hx. unfold f_write_recs. destruct (hbuf x); [|right; left; reflexivity].
        unfold K. cbn. destruct H as [H|[H|H]]; [unfold s0 in C; cbn in C; congruence|right; left; congruence|].
        right; right. lia. }
      destruct (fuel s0) as [[|n]|]; [left; reflexivity| |]; apply G; try reflexivity; exact C. }
  destruct (aborted s1); [exact H1|]. eapply K_R; [apply R_logger_rest|exact H1].
Qed.

Lemma K_step c s o : K s -> K (step c s o).
Proof.
  intros H. unfold step. destruct (aborted s) eqn:A; [exact H|]. destruct o.
  - exact H.
  - assert (G : K (logger_log c szs (log_prepare (log_reopen (keep c) s)))).
    { apply K_logger_log. eapply K_R; [|exact H]. eapply R_trans; [apply R_reopen|apply R_prepare]. }
    exact G.
  - destruct (active s); [apply K_logger_log|]; exact H.
  - destruct (active s); [|exact H]. cbv zeta.
    destruct (aborted (logger_log c szs s)) eqn:A1; [apply K_logger_log, H|].
    assert (G : K (log_close (if negb (Nat.eqb (keep c) 0) && reuse c then log_cycle c (fsize c) (logger_log c szs s) else logger_log c szs s))).
    { eapply K_R; [|apply K_logger_log, H]. destruct (negb (Nat.eqb (keep c) 0) && reuse c).
      - eapply R_trans; [apply R_cycle|apply R_log_close].
      - apply R_log_close. }
    exact G.
Qed.

Lemma K_runfrom c ops : forall s, K s -> K (runfrom c s ops).
Proof. induction ops as [|o ops IH]; intros s H; cbn; [exact H|]. apply IH, K_step, H. Qed.

Lemma no_silent_loss_l c t0 fu rf ofl ops : let s := runfo c t0 fu rf ofl ops in
  (crashed s = true \/ aborted s = true \/ next s = offered s) /\
  view (files s) ++ ids (bufc s) = seq (dropped s) (next s - dropped s).
Proof.
  cbv zeta. split.
  - apply K_runfrom. right; right. reflexivity.
  - apply (DE_runfrom c ops). apply DE_set_abort. apply DE_set_rfail. apply DE_init_empty.
Qed.
