(* C23 -- log rotation and flushing (ioflo/base/logging.py: Log.reopen/close/flush/cycle/prepare header,
   Logger.log flush and cycle timers, Logger runner START/RUN/STOP incl. the STOP-path cycle when keep and
   reuse; ioflo/aid/filing.py: ocfn).   Hand model (tie H).  Definitions only.

   item   = H (the two header lines) | R id size      ids are assigned 0,1,2,... in write order: the
            record stream of the property IS the sequence of ids
   disk   = files : list (option content), OLDEST FIRST: paths[keep], ..., paths[1], paths[0] (main, last)
            None = the path does not exist.  Contents are what the OS holds (survive process death).
   handle = hbuf : option content  -- Some buf = the Log's file object is open on main and buf is still in
            the Python-level buffer (lost by os._exit, may have been spilled partially)
   crash  = a fuel counter decremented by every primitive file operation (write, flush+fsync, close,
            open/create, trial open, each rename of the chain, truncate/create): when it hits zero the process
            is dead and every later primitive is a no-op.  fuel None = no crash.
   time   = Z in units of 1/8 s.
   ghosts = next (records written), flushed (records written before the most recent completed flush),
            dropped (records rotated out beyond keep), events (main size, threshold) of every rotation. *)
From Coq Require Import List ZArith Bool.
Import ListNotations.
Open Scope Z_scope.

Inductive item := H | R (id : nat) (sz : Z).
Definition content := list item.

Record cfg := { keep : nat; cycleP : Z; fsize : Z; flushP : Z; reuse : bool; hsz : Z }.

Record st := {
  now : Z;
  files : list (option content);
  hbuf : option content;
  first : bool;                  (* Log.first *)
  active : bool;                 (* Logger.status <> STOPPED *)
  flushStamp : Z; cycleStamp : Z;
  next : nat; flushed : nat; dropped : nat;
  since : nat;                   (* ghost: id of the first record of the current main file *)
  events : list (Z * Z);
  fuel : option nat; crashed : bool; fault : bool;
  rfail : option nat;            (* oracle: Some n = the (n+1)-th os.rename call from now raises OSError *)
  ofail : option nat;            (* oracle: Some n = the (n+1)-th ocfn(path,'w+') of a rotation raises IOError *)
  aborted : bool;                (* a write hit Log.file = None: AttributeError out of the runner, logger ABORTED *)
  offered : nat                  (* ghost: records handed to the log by the logger runs so far *)
}.

(* ---- record update helpers ---- *)
Definition set_disk (s : st) (fs : list (option content)) (hb : option content) : st :=
  {| now := now s; files := fs; hbuf := hb; first := first s; active := active s;
     flushStamp := flushStamp s; cycleStamp := cycleStamp s; next := next s; flushed := flushed s;
     dropped := dropped s; since := since s; events := events s; fuel := fuel s; crashed := crashed s; fault := fault s; rfail := rfail s;
     ofail := ofail s; aborted := aborted s; offered := offered s |}.
Definition set_ghost (s : st) (n f d : nat) (ev : list (Z * Z)) : st :=
  {| now := now s; files := files s; hbuf := hbuf s; first := first s; active := active s;
     flushStamp := flushStamp s; cycleStamp := cycleStamp s; next := n; flushed := f;
     dropped := d; since := since s; events := ev; fuel := fuel s; crashed := crashed s; fault := fault s; rfail := rfail s;
     ofail := ofail s; aborted := aborted s; offered := offered s |}.
Definition set_vars (s : st) (t : Z) (fi a : bool) (fs cs : Z) : st :=
  {| now := t; files := files s; hbuf := hbuf s; first := fi; active := a;
     flushStamp := fs; cycleStamp := cs; next := next s; flushed := flushed s;
     dropped := dropped s; since := since s; events := events s; fuel := fuel s; crashed := crashed s; fault := fault s; rfail := rfail s;
     ofail := ofail s; aborted := aborted s; offered := offered s |}.
Definition set_fuel (s : st) (fu : option nat) (cr fa : bool) : st :=
  {| now := now s; files := files s; hbuf := hbuf s; first := first s; active := active s;
     flushStamp := flushStamp s; cycleStamp := cycleStamp s; next := next s; flushed := flushed s;
     dropped := dropped s; since := since s; events := events s; fuel := fu; crashed := cr; fault := fa; rfail := rfail s;
     ofail := ofail s; aborted := aborted s; offered := offered s |}.

Definition set_since (s : st) (n : nat) : st :=
  {| now := now s; files := files s; hbuf := hbuf s; first := first s; active := active s;
     flushStamp := flushStamp s; cycleStamp := cycleStamp s; next := next s; flushed := flushed s;
     dropped := dropped s; since := n; events := events s; fuel := fuel s; crashed := crashed s; fault := fault s; rfail := rfail s;
     ofail := ofail s; aborted := aborted s; offered := offered s |}.

Definition set_rfail (s : st) (rf : option nat) (fa : bool) : st :=
  {| now := now s; files := files s; hbuf := hbuf s; first := first s; active := active s;
     flushStamp := flushStamp s; cycleStamp := cycleStamp s; next := next s; flushed := flushed s;
     dropped := dropped s; since := since s; events := events s; fuel := fuel s; crashed := crashed s;
     fault := fa; rfail := rf; ofail := ofail s; aborted := aborted s; offered := offered s |}.

Definition set_abort (s : st) (ofl : option nat) (ab : bool) (off : nat) : st :=
  {| now := now s; files := files s; hbuf := hbuf s; first := first s; active := active s;
     flushStamp := flushStamp s; cycleStamp := cycleStamp s; next := next s; flushed := flushed s;
     dropped := dropped s; since := since s; events := events s; fuel := fuel s; crashed := crashed s;
     fault := fault s; rfail := rfail s; ofail := ofl; aborted := ab; offered := off |}.

(* ---- content ---- *)
Definition ids (c : content) : list nat :=
  flat_map (fun i => match i with R n _ => [n] | H => [] end) c.
Definition ocontent (f : option content) : content := match f with Some c => c | None => [] end.
Definition oids (f : option content) : list nat := ids (ocontent f).
Definition isz (hs : Z) (i : item) : Z := match i with H => hs | R _ z => z end.
Definition csize (hs : Z) (c : content) : Z := fold_right (fun i a => isz hs i + a) 0 c.

Definition mainf (s : st) : option content := last (files s) None.
Definition set_main (fs : list (option content)) (m : option content) : list (option content) :=
  removelast fs ++ [m].

(* all record ids on disk, oldest file first *)
Definition view (fs : list (option content)) : list nat := flat_map oids fs.

(* ---- primitives: one file-system or file-object operation each ---- *)
Definition prim (f : st -> st) (s : st) : st :=
  if crashed s then s else
  match fuel s with
  | Some O => set_fuel s (Some O) true (fault s)
  | Some (S n) => f (set_fuel s (Some n) false (fault s))
  | None => f s
  end.

(* file.write(items): into the Python buffer; ids are assigned here *)
Fixpoint mkrecs (n : nat) (szs : list Z) : content :=
  match szs with [] => [] | z :: r => R n z :: mkrecs (S n) r end.

Definition f_write_recs (szs : list Z) (s : st) : st :=
  match hbuf s with
  | Some b => set_ghost (set_disk s (files s) (Some (b ++ mkrecs (next s) szs)))
                        (next s + length szs)%nat (flushed s) (dropped s) (events s)
  | None => set_abort s (ofail s) true (offered s)
      (* Log.file is None (closed, or the new main file could not be created): AttributeError, NOT caught by
         Log.log's `except ValueError`: it leaves the runner, the logger is ABORTED -- the failure surfaces *)
  end.
Definition f_write_hdr (s : st) : st :=
  match hbuf s with
  | Some b => set_disk s (files s) (Some (b ++ [H]))
  | None => s
  end.
(* file.flush(); os.fsync(): buffer handed to the OS *)
Definition f_flush (s : st) : st :=
  match hbuf s with
  | Some b => set_ghost (set_disk s (set_main (files s) (Some (ocontent (mainf s) ++ b))) (Some []))
                        (next s) (next s) (dropped s) (events s)
  | None => s
  end.
(* file.close(): flushes what is left, then releases the handle *)
Definition f_close (s : st) : st :=
  match hbuf s with
  | Some b => set_ghost (set_disk s (set_main (files s) (Some (ocontent (mainf s) ++ b))) None)
                        (next s) (next s) (dropped s) (events s)
  | None => s
  end.
(* ocfn(path, 'a+'): create if missing, open for append *)
Definition f_open_append (s : st) : st :=
  match hbuf s with
  | Some _ => s
  | None => set_since (set_disk s (set_main (files s) (Some (ocontent (mainf s)))) (Some []))
                      (match mainf s with None => next s | Some _ => since s end)
  end.
(* ocfn(path, 'w+') after the renames: O_EXCL create, or truncate an existing file *)
Definition f_create_trunc (s : st) : st :=
  set_since (set_disk s (set_main (files s) (Some [])) (Some [])) (next s).
(* ocfn(paths[k], 'r'); close: creates a missing rotate copy, never truncates.
   j = position in the oldest-first list *)
Fixpoint touch (fs : list (option content)) (j : nat) : list (option content) :=
  match fs, j with
  | [], _ => []
  | f :: r, O => Some (ocontent f) :: r
  | f :: r, S j' => f :: touch r j'
  end.
Definition f_trial (j : nat) (s : st) : st := set_disk s (touch (files s) j) (hbuf s).

(* Log.reopen(keep): close; [first := False if the file exists]; open append; trial-open the copies *)
Definition exists_main (s : st) : bool := match mainf s with Some _ => true | None => false end.

Fixpoint trials (n : nat) (s : st) : st :=      (* paths[1..keep] = positions keep-1 .. 0 *)
  match n with
  | O => s
  | S n' => trials n' (prim (f_trial n') s)
  end.

Definition log_close (s : st) : st := prim f_close (prim f_flush s).

Definition log_reopen (k : nat) (s : st) : st :=
  let s1 := log_close s in
  let s2 := set_vars s1 (now s1) (if exists_main s1 then false else first s1) (active s1)
                     (flushStamp s1) (cycleStamp s1) in
  trials k (prim f_open_append s2).

(* one os.rename call is attempted: the process may be dead / die here (crash fuel), or the call raises an
   injected OSError (oracle rfail); returns (state, proceed?) *)
Definition rename_gate (s : st) : st * bool :=
  if crashed s then (s, false) else
  match fuel s with
  | Some O => (set_fuel s (Some O) true (fault s), false)
  | fu =>
      let s1 := set_fuel s (match fu with Some (S n) => Some n | _ => fu end) false (fault s) in
      match rfail s1 with
      | Some O => (set_rfail s1 None true, false)
      | Some (S n) => (set_rfail s1 (Some n) (fault s1), true)
      | None => (s1, true)
      end
  end.

(* the rename chain os.rename(paths[k], paths[k+1]) for k = keep-1 .. 0 on the oldest-first list:
   a0 (oldest) is replaced by a1, a1 by a2, ...; an OSError (injected, or a missing source) sets [fault]: the
   loop BREAKS there -- nothing further is renamed, nothing is overwritten *)
Fixpoint chain (a0 : option content) (rest : list (option content)) (s : st)
  : st * list (option content) :=
  match rest with
  | [] => (s, [a0])
  | a1 :: rest' =>
      match rename_gate s with
      | (s', false) => (s', a0 :: rest)
      | (s', true) =>
          match a1 with
          | None => (set_rfail s' (rfail s') true, a0 :: rest)
          | Some c => let '(s'', r') := chain None rest' s' in (s'', Some c :: r')
          end
      end
  end.
Definition chain_files (fs : list (option content)) (s : st) : st * list (option content) :=
  match fs with [] => (s, []) | a0 :: rest => chain a0 rest s end.

Definition nrecs (f : option content) : nat := length (oids f).

(* Log.cycle(size) *)
Definition log_cycle (c : cfg) (size : Z) (s : st) : st :=
  match keep c with
  | O => s
  | S _ =>
      let s1 := prim f_flush s in
      if crashed s1 then s1 else
      if (0 <? size) && (csize (hsz c) (ocontent (mainf s1)) <? size) then s1 else
      let s2 := prim f_close (prim f_flush s1) in
      if crashed s2 then s2 else
      let '(s3, fs) := chain_files (files s2) (set_fuel s2 (fuel s2) (crashed s2) false) in
      let s4 := set_since (set_ghost (set_disk s3 fs (hbuf s3)) (next s3) (flushed s3)
                          (dropped s3 + (length (view (files s2)) - length (view fs)))%nat
                          ((csize (hsz c) (ocontent (mainf s1)), size) :: events s3))
                          (match last fs None with None => next s3 | Some _ => since s3 end) in
      if crashed s4 then s4 else
      if fault s4 then log_reopen O s4 else
      match ofail s4 with
      | Some O => set_abort s4 None (aborted s4) (offered s4)   (* IOError: self.file = None; return False *)
      | ofl => log_reopen O (prim f_write_hdr (prim f_create_trunc
                 (set_abort s4 (match ofl with Some (S n) => Some n | _ => ofl end) (aborted s4) (offered s4))))
      end
  end.

(* ---- Logger ---------------------------------------------------------------- *)
Definition set_flushStamp (s : st) (t : Z) : st :=
  set_vars s (now s) (first s) (active s) t (cycleStamp s).
Definition set_cycleStamp (s : st) (t : Z) : st :=
  set_vars s (now s) (first s) (active s) (flushStamp s) t.
Definition set_active (s : st) (a : bool) : st :=
  set_vars s (now s) (first s) a (flushStamp s) (cycleStamp s).

(* Logger.log: every log's action (here: write the run's records), then the flush and cycle timers *)
Definition logger_rest (c : cfg) (s1 : st) : st :=
  let s2 := if flushP c <=? now s1 - flushStamp s1
            then set_flushStamp (prim f_flush s1) (now s1) else s1 in
  match keep c with
  | O => s2
  | S _ => if cycleP c <=? now s2 - cycleStamp s2
           then set_cycleStamp (log_cycle c (fsize c) s2) (now s2) else s2
  end.
Definition logger_log (c : cfg) (szs : list Z) (s : st) : st :=
  let s0 := set_abort s (ofail s) (aborted s) (offered s + length szs)%nat in
  let s1 := match szs with [] => s0 | _ => prim (f_write_recs szs) s0 end in
  if aborted s1 then s1 else logger_rest c s1.

(* Log.prepare: the header goes into a file this Log object created *)
Definition log_prepare (s : st) : st := if first s then prim f_write_hdr s else s.

Inductive op :=
| Tick (d : Z)                 (* store.advanceStamp(d/8) *)
| Start (szs : list Z)         (* runner.send(START); szs = sizes of the records this run logs *)
| Run (szs : list Z)
| Stop (szs : list Z).

Definition step (c : cfg) (s : st) (o : op) : st :=
  if aborted s then s else       (* the runner generator is dead *)
  match o with
  | Tick d => set_vars s (now s + d) (first s) (active s) (flushStamp s) (cycleStamp s)
  | Start szs =>
      (* Log.prepare writes the header iff Log.stamp is None and Log.first; the first run of the log's action
         sets Log.stamp, so after the first START no header is ever written by prepare again: first := false *)
      let s' := logger_log c szs (log_prepare (log_reopen (keep c) s)) in
      set_vars s' (now s') false true (flushStamp s') (cycleStamp s')
  | Run szs => if active s then logger_log c szs s else s
  | Stop szs =>
      if active s then
        let s1 := logger_log c szs s in
        if aborted s1 then s1 else
        let s2 := if (negb (Nat.eqb (keep c) O)) && reuse c then log_cycle c (fsize c) s1 else s1 in
        set_active (log_close s2) false
      else s
  end.

(* a fresh Logger process on a disk d0 that already holds the records dropped0 .. next0-1 *)
Definition init (c : cfg) (t0 : Z) (d0 : list (option content)) (n0 dr0 : nat) (fu : option nat) : st :=
  {| now := t0; files := d0; hbuf := None; first := true; active := false;
     flushStamp := 0; cycleStamp := 0; next := n0; flushed := n0; dropped := dr0;
     since := (n0 - length (oids (last d0 None)))%nat; events := [];
     fuel := fu; crashed := false; fault := false; rfail := None;
     ofail := None; aborted := false; offered := n0 |}.

Definition empty_disk (c : cfg) : list (option content) := repeat None (S (keep c)).

Definition runfrom (c : cfg) (s : st) (ops : list op) : st := fold_left (step c) ops s.
Definition run (c : cfg) (t0 : Z) (fu : option nat) (ops : list op) : st :=
  runfrom c (init c t0 (empty_disk c) O O fu) ops.

(* the same with a rename-failure oracle: the (n+1)-th os.rename call of the process raises OSError *)
Definition runf (c : cfg) (t0 : Z) (fu rf : option nat) (ops : list op) : st :=
  runfrom c (set_rfail (init c t0 (empty_disk c) O O fu) rf false) ops.

(* ... and an oracle for the creation of the new main file: the (m+1)-th ocfn(path,'w+') raises IOError *)
Definition runfo (c : cfg) (t0 : Z) (fu rf ofl : option nat) (ops : list op) : st :=
  runfrom c (set_abort (set_rfail (init c t0 (empty_disk c) O O fu) rf false) ofl false O) ops.

(* ---- vocabulary of the property statements ----------------------------------- *)
(* what survives the death of the process: the disk, where main may also have received any prefix of the
   Python buffer *)
Definition survivors (s : st) (pre : content) : list (option content) :=
  match hbuf s with
  | Some _ => set_main (files s) (Some (ocontent (mainf s) ++ pre))
  | None => files s
  end.
Definition is_prefix (p b : content) : Prop := exists q, b = p ++ q.
Definition bufc (s : st) : content := ocontent (hbuf s).

(* ==== several Logs per Logger ====================================================================
   Logger.reopen/prepare/log/flush/cycle/close each loop over self.logs, so one logger operation is a sequence
   of PHASES, each phase visiting the logs in order.  Every log keeps its own disk state (an [st]); the
   logger's variables (store stamp, status, flushStamp, cycleStamp) and the crash fuel are global and the
   fuel is threaded through the logs in visiting order, so a crash point is again ANY primitive file
   operation of ANY log.  (The per-log copies of now/active/flushStamp/cycleStamp in [st] are unused here.) *)
Record mst := {
  lgs : list st;
  gnow : Z; gactive : bool; gflush : Z; gcycle : Z;
  gfu : option nat; gcr : bool
}.

Fixpoint mapthread (f : nat -> st -> st) (i : nat) (ls : list st) (fu : option nat) (cr : bool)
  : list st * option nat * bool :=
  match ls with
  | [] => ([], fu, cr)
  | s :: r =>
      let s' := f i (set_fuel s fu cr (fault s)) in
      let '(r', fu', cr') := mapthread f (S i) r (fuel s') (crashed s') in
      (s' :: r', fu', cr')
  end.

Definition mphase (f : nat -> st -> st) (m : mst) : mst :=
  let '(l', fu, cr) := mapthread f O (lgs m) (gfu m) (gcr m) in
  {| lgs := l'; gnow := gnow m; gactive := gactive m; gflush := gflush m; gcycle := gcycle m;
     gfu := fu; gcr := cr |}.

Definition mset (m : mst) (t : Z) (a : bool) (fs cs : Z) : mst :=
  {| lgs := lgs m; gnow := t; gactive := a; gflush := fs; gcycle := cs; gfu := gfu m; gcr := gcr m |}.

Definition write_i (szss : list (list Z)) (i : nat) (s : st) : st :=
  match nth i szss [] with [] => s | szs => prim (f_write_recs szs) s end.

(* Logger.log: every log's action; Logger.flush() of EVERY log on the flush timer; Logger.cycle() on the
   cycle timer *)
Definition mlogger_log (c : cfg) (szss : list (list Z)) (m : mst) : mst :=
  let m1 := mphase (write_i szss) m in
  let m2 := if flushP c <=? gnow m1 - gflush m1
            then mset (mphase (fun _ => prim f_flush) m1) (gnow m1) (gactive m1) (gnow m1) (gcycle m1)
            else m1 in
  match keep c with
  | O => m2
  | S _ => if cycleP c <=? gnow m2 - gcycle m2
           then mset (mphase (fun _ => log_cycle c (fsize c)) m2) (gnow m2) (gactive m2) (gflush m2) (gnow m2)
           else m2
  end.

Inductive mop :=
| MTick (d : Z)
| MStart (szss : list (list Z))      (* per log: sizes of the records this run writes to it *)
| MRun (szss : list (list Z))
| MStop (szss : list (list Z)).

Definition mstep (c : cfg) (m : mst) (o : mop) : mst :=
  match o with
  | MTick d => mset m (gnow m + d) (gactive m) (gflush m) (gcycle m)
  | MStart szss =>
      let m1 := mphase (fun _ => log_prepare) (mphase (fun _ => log_reopen (keep c)) m) in
      let m2 := mlogger_log c szss m1 in
      mset m2 (gnow m2) true (gflush m2) (gcycle m2)
  | MRun szss => if gactive m then mlogger_log c szss m else m
  | MStop szss =>
      if gactive m then
        let m1 := mlogger_log c szss m in
        let m2 := if (negb (Nat.eqb (keep c) O)) && reuse c
                  then mphase (fun _ => log_cycle c (fsize c)) m1 else m1 in
        let m3 := mphase (fun _ => log_close) m2 in
        mset m3 (gnow m3) false (gflush m3) (gcycle m3)
      else m
  end.

(* a fresh Logger process with one Log per element of ds = (disk, next, dropped) *)
Definition minit (c : cfg) (t0 : Z) (ds : list (list (option content) * nat * nat)) (fu : option nat) : mst :=
  {| lgs := map (fun d => init c t0 (fst (fst d)) (snd (fst d)) (snd d) None) ds;
     gnow := t0; gactive := false; gflush := 0; gcycle := 0; gfu := fu; gcr := false |}.

Definition mrunfrom (c : cfg) (m : mst) (ops : list mop) : mst := fold_left (mstep c) ops m.
Definition mrun (c : cfg) (nlogs : nat) (t0 : Z) (fu : option nat) (ops : list mop) : mst :=
  mrunfrom c (minit c t0 (repeat (empty_disk c, O, O) nlogs) fu) ops.
(* the next process on the directory left by m *)
Definition mnext (c : cfg) (m : mst) : mst :=
  minit c (gnow m) (map (fun s => (files s, next s, dropped s)) (lgs m)) None.
