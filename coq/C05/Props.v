(* C05 -- a running framer's active frames are exactly its active frame's outline.
   Property theorems only (proofs: V.Kernel.ActInv, V.Kernel.RunInv). *)
From Coq Require Import List ZArith Bool Arith.
Import ListNotations.
Require Import V.Kernel.Model V.Kernel.GenInd V.Kernel.Basics V.Kernel.ActInv V.Kernel.RunInv.

(* Invariant: every framer's (active, actives) is (None, []) -- not entered --, or
   (Some f, outline f) -- the chain from the top of f's hierarchy down to f and on through each
   frame's primary child to a leaf --, or (Some f, head m): that chain cut at the main frame m
   of a running conditional auxiliary.
   It holds initially and is preserved by EVERY runner send (start, run, stop, abort, ready;
   scheduler or fiat), for every program whose auxiliary/fiat relation is acyclic, every state,
   every time type, with or without an exception injected at any action. *)
Theorem actives_inv_initial : forall (O : TimeOps) (P : prog O) nv ca, Inv O P (init_world P nv ca).
Proof. exact Inv_init. Qed.
Print Assumptions actives_inv_initial.

Theorem actives_inv_after_every_run : forall (O : TimeOps) (P : prog O), acyclic O P ->
  forall a c w, Inv O P w -> Inv O P (fst (o_send (top P) a c w)).
Proof. exact send_inv. Qed.
Print Assumptions actives_inv_after_every_run.

(* ... at every auxiliary depth, for every framer-level operation (enterAll, exitAll, segue, recur, send) *)
Theorem actives_inv_all_operations : forall (O : TimeOps) (P : prog O), acyclic O P ->
  forall n, ops_inv O P (lvl P n).
Proof. exact lvl_inv. Qed.
Print Assumptions actives_inv_all_operations.

(* ... hence in the final state of every scheduler run of any length, however it ends *)
Theorem actives_inv_whole_run : forall (O : TimeOps) (P : prog O), acyclic O P ->
  forall nv ca n, Inv O P (sw (fst (run P nv ca n))).
Proof. exact run_inv. Qed.
Print Assumptions actives_inv_whole_run.

(* a framer stopped or aborted while started/running ends with no active frames *)
Theorem stopped_or_aborted_has_no_active_frames : forall (O : TimeOps) (P : prog O) n a c w w' r,
  framer_send P (lvl P n) a c w = (w', Some r) -> (c = CStop \/ c = CAbort) ->
  (st (gett w a) = Running \/ st (gett w a) = Started) -> a < length (tss w) ->
  active (gett w' a) = None /\ actives (gett w' a) = [] /\ (r = Stopped \/ r = Aborted).
Proof. exact send_stop_abort_clears. Qed.
Print Assumptions stopped_or_aborted_has_no_active_frames.

(* an operation of framer a never touches the active outline (nor any other core state) of a framer
   that is not reachable from a through auxiliaries / fiat targets / done targets *)
Theorem operations_have_a_footprint : forall (O : TimeOps) (P : prog O) n,
  ops_R O (footprint O P) (lvl P n).
Proof. exact footprint_ops. Qed.
Print Assumptions operations_have_a_footprint.

(* the outline: ancestors top-down (ending at a frame with no over, when the forest is acyclic),
   then the frame, then the primary-child chain *)
Theorem outline_top_has_no_over : forall (O : TimeOps) (P : prog O) t n f,
  length (ups P t n f) < n -> fr_over (getf P t (last (ups P t n f) f)) = None.
Proof. exact ups_top. Qed.
Print Assumptions outline_top_has_no_over.

Theorem outline_follows_primary_children : forall (O : TimeOps) (P : prog O) t n f i a b,
  nth_error (f :: downs P t n f) i = Some a -> nth_error (f :: downs P t n f) (S i) = Some b ->
  hd_error (fr_unders (getf P t a)) = Some b.
Proof. exact downs_chain. Qed.
Print Assumptions outline_follows_primary_children.
