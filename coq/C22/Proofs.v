(* C22 -- lemmas.  Invariants are proved per step and lifted to all histories by induction. *)
From Coq Require Import List ZArith Bool Lia.
Import ListNotations.
Require Import V.C22.Model.
Open Scope Z_scope.

(* ---------- generic ---------- *)
Lemma runfrom_app c s a b : runfrom c s (a ++ b) = runfrom c (runfrom c s a) b.
Proof. unfold runfrom. apply fold_left_app. Qed.

Lemma runfrom_inv c (P : st -> Prop) :
  (forall s o, P s -> P (step c s o)) -> forall ops s, P s -> P (runfrom c s ops).
Proof.
  intros Hs ops. induction ops as [|o ops IH]; intros s H; cbn; [exact H|].
  apply IH. apply Hs. exact H.
Qed.


Lemma world_log c s o : is_world o = true ->
  lstamp (step c s o) = lstamp s /\ first (step c s o) = first s /\
  pfields (step c s o) = pfields s /\ lasts (step c s o) = lasts s /\
  file (step c s o) = file s /\ active (step c s o) = active s.
Proof. destruct o; cbn; intros H; try discriminate H; repeat split; reflexivity. Qed.

Lemma filter_app_rec a b : filter is_rec (a ++ b) = filter is_rec a ++ filter is_rec b.
Proof. apply filter_app. Qed.

Lemma recs_putline f l : f <> None -> recs (putline f l) = recs f ++ filter is_rec l.
Proof. destruct f as [x|]; [|congruence]. intros _. cbn. apply filter_app. Qed.

Lemma allrec_filter l : forallb is_rec l = true -> filter is_rec l = l.
Proof.
  induction l as [|x l IH]; cbn; [reflexivity|]. destruct (is_rec x); cbn; [|discriminate].
  intros H. rewrite IH by exact H. reflexivity.
Qed.

Ltac fin := cbn; repeat split; cbn; try assumption; try reflexivity; try congruence.

(* what an action does to the file: appends record lines only; keeps the rest of the log state *)
Lemma action_shape c s :
  exists rs, file (action c s) = putline (file s) rs /\ forallb is_rec rs = true /\
             first (action c s) = first s /\ pfields (action c s) = pfields s /\
             active (action c s) = active s /\ now (action c s) = now s /\ hdr (action c s) = hdr s.
Proof.
  assert (Hn : exists rs, file s = putline (file s) rs /\ forallb is_rec rs = true).
  { exists []. split; [|reflexivity]. destruct (file s); cbn; [rewrite app_nil_r|]; reflexivity. }
  destruct Hn as [rs0 [Hn1 Hn2]].
  unfold action. destruct (crule c).
  - exists rs0. fin.
  - destruct (lstamp s).
    + exists rs0. fin.
    + eexists; fin.
  - eexists; fin.
  - destruct (lstamp s).
    + destruct (existsb _ _).
      * eexists; fin.
      * exists rs0. fin.
    + eexists; fin.
  - destruct (lstamp s).
    + destruct (cells_eqb _ _).
      * exists rs0. fin.
      * eexists; fin.
    + eexists; fin.
  - unfold log_streak. destruct (clog c) as [|lg lgs].
    { exists rs0; fin. }
    destruct (pfields s) as [|fs pf'] eqn:Hpf.
    { exists rs0; fin. }
    cbv zeta. destruct (streak_field (shares s) lg fs) as [k|].
    2:{ exists rs0; fin. }
    destruct (lookup k _) as [[z|l|m|a b]|].
    + eexists; fin.
    + exists (streak_recs (now s) l). fin.
      unfold streak_recs. induction l; cbn; auto.
    + exists (mstreak_recs (now s) m). fin.
      unfold mstreak_recs. induction m; cbn; auto.
    + eexists; fin.
    + exists rs0; fin.
  - unfold log_deck. destruct (clog c) as [|lg ?]; [exists rs0; fin|].
    destruct (pfields s) as [|fs ?] eqn:Hpf; [exists rs0; fin|].
    eexists; fin.
    unfold deck_recs. induction (sdeck _) as [|e d IH]; cbn; [reflexivity|].
    destruct e; cbn; exact IH.
Qed.

(* ---------- START: reopen + prepare ---------- *)
Lemma start_prep c s :
  let p := prepare c (reopen s) in
  lstamp p = lstamp s /\ shares p = shares s /\ now p = now s /\ active p = active s /\
  file p <> None /\ recs (file p) = recs (file s) /\
  (file p = Some (content (file s)) \/
   (file s = None /\ first s = true /\ lstamp s = None /\
    file p = Some [Hdr (crule c) (hdr_cols (clog c) (pfields p))])).
Proof.
  cbn. unfold prepare, reopen; cbn. repeat split.
  - destruct (lstamp s); [destruct (file s); discriminate|].
    destruct (file s); cbn; [discriminate|]. destruct (first s); discriminate.
  - destruct (lstamp s); [destruct (file s); reflexivity|].
    destruct (file s); cbn; [reflexivity|]. destruct (first s); reflexivity.
  - destruct (lstamp s); [left; destruct (file s); reflexivity|].
    destruct (file s); cbn; [left; reflexivity|]. destruct (first s); [right|left]; fin.
Qed.

(* an open (active) logger has a file *)
Definition open_ok (s : st) : Prop := active s = true -> file s <> None.

Lemma putline_some f l : f <> None -> putline f l <> None.
Proof. destruct f; cbn; congruence. Qed.

Lemma file_mono c s o : file s <> None -> file (step c s o) <> None.
Proof.
  intros H. destruct o; cbn; try exact H.
  - destruct (active s); [|exact H].
    destruct (action_shape c s) as [rs [E _]]. rewrite E. apply putline_some, H.
  - destruct (action_shape c (prepare c (reopen s))) as [rs [E _]]. rewrite E.
    apply putline_some. apply (start_prep c s).
  - destruct (active s); [|exact H]. cbn.
    destruct (action_shape c s) as [rs [E _]]. rewrite E. apply putline_some, H.
Qed.

Lemma open_ok_step c s o : open_ok s -> open_ok (step c s o).
Proof.
  unfold open_ok. intros H. destruct o; cbn; try exact H.
  - destruct (active s) eqn:A; [|intro X; congruence]. intros _.
    destruct (action_shape c s) as [rs [E _]]. rewrite E. apply putline_some, H. reflexivity.
  - intros _. destruct (action_shape c (prepare c (reopen s))) as [rs [E _]]. rewrite E.
    apply putline_some. apply (start_prep c s).
  - destruct (active s) eqn:A; cbn; [discriminate|intro X; congruence].
Qed.

Lemma open_ok_run c t0 ss f0 ops : open_ok (run c t0 ss f0 ops).
Proof. unfold run. apply runfrom_inv; [apply open_ok_step|]. unfold open_ok; cbn; discriminate. Qed.

Lemma open_ok_runfrom c s ops : open_ok s -> open_ok (runfrom c s ops).
Proof. apply runfrom_inv. apply open_ok_step. Qed.

(* ---------- never ---------- *)
Lemma never_step c s o : crule c = Never -> recs (file (step c s o)) = recs (file s).
Proof.
  intros R. destruct o; cbn; try reflexivity.
  - destruct (active s); [|reflexivity]. unfold action; rewrite R; reflexivity.
  - unfold action; rewrite R. cbn. apply (start_prep c s).
  - destruct (active s); [|reflexivity]. unfold action; rewrite R; reflexivity.
Qed.

Lemma never_nothing_l c t0 ss f0 ops : crule c = Never -> recs (file (run c t0 ss f0 ops)) = recs f0.
Proof.
  intros R. unfold run.
  apply (runfrom_inv c (fun s => recs (file s) = recs f0)); [|reflexivity].
  intros s o H. rewrite never_step; assumption.
Qed.

(* ---------- header ---------- *)
Definition hdr_inv_new (c : cfg) (s : st) : Prop :=
  (file s = None /\ first s = true /\ lstamp s = None /\ active s = false) \/
  (exists h rs, file s = Some (Hdr (crule c) h :: rs) /\ forallb is_rec rs = true).

Lemma forallb_app_rec a b : forallb is_rec a = true -> forallb is_rec b = true -> forallb is_rec (a ++ b) = true.
Proof. intros. rewrite forallb_app. rewrite H, H0. reflexivity. Qed.

Lemma hdr_inv_new_action c s : 
  (exists h rs, file s = Some (Hdr (crule c) h :: rs) /\ forallb is_rec rs = true) ->
  (exists h rs, file (action c s) = Some (Hdr (crule c) h :: rs) /\ forallb is_rec rs = true).
Proof.
  intros [h [rs [E A]]]. destruct (action_shape c s) as [rs' [E' [A' _]]].
  exists h, (rs ++ rs'). rewrite E', E. cbn. split; [reflexivity|]. apply forallb_app_rec; assumption.
Qed.

Lemma hdr_inv_new_step c s o : hdr_inv_new c s -> hdr_inv_new c (step c s o).
Proof.
  intros H. destruct o; try exact H.
  - cbn. destruct (active s) eqn:A; [|exact H]. destruct H as [[_ [_ [_ H]]]|H]; [congruence|].
    right. apply hdr_inv_new_action, H.
  - right. cbn [step]. 
    assert (G : exists h rs, file (action c (prepare c (reopen s))) = Some (Hdr (crule c) h :: rs) /\ forallb is_rec rs = true).
    { apply hdr_inv_new_action.
      destruct (start_prep c s) as [_ [_ [_ [_ [_ [_ Hf]]]]]].
      destruct H as [[F [Fi [L Ac]]]|[h [rs [E A]]]].
      - destruct Hf as [Hf|[_ [_ [_ Hf]]]].
        + exfalso. revert Hf. unfold prepare, reopen; cbn. rewrite F, Fi, L. cbn. discriminate.
        + eexists; exists []. split; [exact Hf|reflexivity].
      - destruct Hf as [Hf|[Hf _]]; [|congruence]. rewrite E in Hf. cbn in Hf.
        exists h, rs. split; assumption. }
    destruct G as [h [rs [E A]]]. exists h, rs. split; assumption.
  - cbn. destruct (active s) eqn:A; [|exact H]. destruct H as [[_ [_ [_ H]]]|H]; [congruence|].
    right. cbn. apply hdr_inv_new_action, H.
Qed.

Lemma header_new_l c t0 ss ops : hdr_inv_new c (run c t0 ss None ops).
Proof. unfold run. apply runfrom_inv; [apply hdr_inv_new_step|]. left. cbn. auto. Qed.

Definition hdr_inv_old (old : list line) (s : st) : Prop :=
  exists rs, file s = Some (old ++ rs) /\ forallb is_rec rs = true.

Lemma hdr_inv_old_action c old s : hdr_inv_old old s -> hdr_inv_old old (action c s).
Proof.
  intros [rs [E A]]. destruct (action_shape c s) as [rs' [E' [A' _]]].
  exists (rs ++ rs'). rewrite E', E. cbn. rewrite app_assoc. split; [reflexivity|]. apply forallb_app_rec; assumption.
Qed.

Lemma hdr_inv_old_step c old s o : hdr_inv_old old s -> hdr_inv_old old (step c s o).
Proof.
  intros H. destruct o; try exact H.
  - cbn. destruct (active s); [|exact H]. apply hdr_inv_old_action, H.
  - cbn [step]. 
    assert (G : hdr_inv_old old (action c (prepare c (reopen s)))).
    { apply hdr_inv_old_action. destruct H as [rs [E A]].
      destruct (start_prep c s) as [_ [_ [_ [_ [_ [_ Hf]]]]]].
      destruct Hf as [Hf|[Hf _]]; [|congruence]. rewrite E in Hf. exists rs. split; assumption. }
    destruct G as [rs [E A]]. exists rs. split; assumption.
  - cbn. destruct (active s); [|exact H]. cbn. apply hdr_inv_old_action, H.
Qed.

Lemma header_old_l c t0 ss old ops : hdr_inv_old old (run c t0 ss (Some old) ops).
Proof. unfold run. apply runfrom_inv; [apply hdr_inv_old_step|]. exists []. cbn. rewrite app_nil_r. auto. Qed.

(* ---------- histories without START keep a fresh log untouched ---------- *)
Definition fresh (f0 : option (list line)) (s : st) : Prop :=
  lstamp s = None /\ file s = f0 /\ active s = false.

Lemma runfrom_inv_r c (Q : op -> bool) (P : st -> Prop) :
  (forall s o, Q o = true -> P s -> P (step c s o)) ->
  forall ops s, forallb Q ops = true -> P s -> P (runfrom c s ops).
Proof.
  intros Hs ops. induction ops as [|o ops IH]; intros s HQ H; cbn; [exact H|].
  cbn in HQ. apply andb_true_iff in HQ. destruct HQ as [Ho HQ].
  apply IH; [exact HQ|]. apply Hs; assumption.
Qed.

Lemma fresh_nostart c f0 ops s :
  forallb (fun o => negb (is_start o)) ops = true -> fresh f0 s -> fresh f0 (runfrom c s ops).
Proof.
  apply runfrom_inv_r. intros s' o Ho [L [F A]]. unfold fresh.
  destruct o; cbn; try (repeat split; assumption); try discriminate Ho; rewrite A; repeat split; assumption.
Qed.

(* the first START of a fresh log writes one record *)
Lemma first_log c s : lstamp s = None -> crule c <> Never -> crule c <> Streak -> crule c <> Deck ->
  action c s = dolog c s.
Proof. intros L N S D. unfold action. rewrite L. destruct (crule c); congruence. Qed.

Lemma lstamp_set_log s t f : lstamp (set_log s t f) = t. Proof. reflexivity. Qed.
Lemma file_set_log s t f : file (set_log s t f) = f. Proof. reflexivity. Qed.
Lemma lstamp_set_active s b : lstamp (set_active s b) = lstamp s. Proof. reflexivity. Qed.
Lemma file_set_active s b : file (set_active s b) = file s. Proof. reflexivity. Qed.

(* ---------- once ---------- *)
Lemma once_after c s o : crule c = Once -> lstamp s <> None ->
  lstamp (step c s o) <> None /\ recs (file (step c s o)) = recs (file s).
Proof.
  intros R L. 
  assert (A : forall s', lstamp s' <> None -> action c s' = s').
  { intros s' L'. unfold action. rewrite R. destruct (lstamp s'); congruence. }
  destruct o; cbn [step]; try (split; [exact L|reflexivity]).
  - destruct (active s); [|split; [exact L|reflexivity]]. rewrite A by exact L. split; [exact L|reflexivity].
  - destruct (start_prep c s) as [E1 [_ [_ [_ [_ [E2 _]]]]]].
    rewrite A by (rewrite E1; exact L). rewrite lstamp_set_active, file_set_active, E1, E2. split; [exact L|reflexivity].
  - destruct (active s); [|split; [exact L|reflexivity]]. rewrite A by exact L. split; [exact L|reflexivity].
Qed.

Lemma once_one_record_l c t0 ss f0 pre post : crule c = Once ->
  forallb (fun o => negb (is_start o)) pre = true ->
  let s1 := run c t0 ss f0 pre in
  recs (file (runfrom c s1 (Start :: post))) =
  recs f0 ++ [Rec (now s1) (cells (shares s1) (clog c) (pfields (prepare c (reopen s1))))].
Proof.
  intros R Hpre s1.
  assert (F : fresh f0 s1). { unfold s1, run. apply fresh_nostart; [exact Hpre|]. repeat split. }
  destruct F as [L [F A]].
  cbn [runfrom fold_left].
  set (s2 := step c s1 Start).
  assert (H2 : lstamp s2 <> None /\ recs (file s2) = recs f0 ++ [Rec (now s1) (cells (shares s1) (clog c) (pfields (prepare c (reopen s1))))]).
  { unfold s2. cbn [step]. pose proof (start_prep c s1) as SP. cbv zeta in SP.
    destruct SP as [E1 [E2 [E3 [_ [E5 [E6 _]]]]]].
    rewrite first_log by (rewrite ?E1, ?R; congruence).
    rewrite lstamp_set_active, file_set_active. unfold dolog. rewrite lstamp_set_log, file_set_log.
    split; [discriminate|]. rewrite recs_putline by exact E5. rewrite E6, F, E2, E3. reflexivity. }
  change (fold_left (step c) post s2) with (runfrom c s2 post).
  destruct H2 as [H2 H3]. rewrite <- H3.
  apply (runfrom_inv c (fun s => lstamp s <> None /\ recs (file s) = recs (file s2))); [|split; [exact H2|reflexivity]].
  intros s o [La Ra]. destruct (once_after c s o R La) as [Lb Rb]. split; [exact Lb|congruence].
Qed.

(* ---------- always ---------- *)
Lemma always_step_l c s r : crule c = Always -> active s = true -> file s <> None -> (r = Run \/ r = Stop) ->
  recs (file (step c s r)) = recs (file s) ++ [Rec (now s) (cells (shares s) (clog c) (pfields s))].
Proof.
  intros R A F [E|E]; subst r; cbn; rewrite A; unfold action; rewrite R; cbn;
    rewrite recs_putline by exact F; reflexivity.
Qed.

Lemma always_count_from c : crule c = Always -> forall ops s, ctl_ok (active s) ops = true -> open_ok s ->
  length (recs (file (runfrom c s ops))) = (length (recs (file s)) + nruns ops)%nat.
Proof.
  intros R ops. induction ops as [|o ops IH]; intros s C O; cbn [runfrom fold_left nruns]; [lia|].
  change (fold_left (step c) ops (step c s o)) with (runfrom c (step c s o) ops).
  assert (O' := open_ok_step c s o O).
  destruct o; cbn [ctl_ok] in C;
    try (rewrite IH; [cbn; lia| cbn; exact C | exact O']; fail).
  - (* Run *) apply andb_true_iff in C. destruct C as [A C]. pose proof C as C'. rewrite A in C'.
    rewrite IH; [| cbn; rewrite A; unfold action; rewrite R; cbn; rewrite A; exact C' | exact O'].
    rewrite always_step_l; auto. rewrite app_length. cbn. lia.
  - (* Start *)
    rewrite IH; [| cbn; exact C | exact O'].
    cbn [step is_world]. pose proof (start_prep c s) as SP. cbv zeta in SP.
    destruct SP as [_ [_ [_ [_ [E5 [E6 _]]]]]].
    unfold action. rewrite R. rewrite file_set_active. unfold dolog. rewrite file_set_log.
    rewrite recs_putline by exact E5. rewrite app_length, E6. cbn. lia.
  - (* Stop *) apply andb_true_iff in C. destruct C as [A C].
    rewrite IH; [| cbn; rewrite A; cbn; exact C | exact O'].
    rewrite always_step_l; auto. rewrite app_length. cbn. lia.
Qed.

Lemma always_count_l c t0 ss f0 ops : crule c = Always -> ctl_ok false ops = true ->
  length (recs (file (run c t0 ss f0 ops))) = (length (recs f0) + nruns ops)%nat.
Proof.
  intros R C. unfold run. rewrite always_count_from; auto. unfold open_ok; cbn; discriminate.
Qed.

(* ---------- shares ---------- *)
Lemma length_upd {A} (l : list A) i f : length (upd l i f) = length l.
Proof. revert i. induction l; destruct i; cbn; auto. Qed.

Lemma getsh_upd_same ss i f : (i < length ss)%nat -> getsh (upd ss i f) i = f (getsh ss i).
Proof.
  unfold getsh. revert i. induction ss as [|x ss IH]; intros i H; cbn in *; [lia|].
  destruct i; cbn; [reflexivity|]. apply IH. lia.
Qed.

Lemma getsh_upd_other ss i j f : i <> j -> getsh (upd ss j f) i = getsh ss i.
Proof.
  unfold getsh. revert i j. induction ss as [|x ss IH]; intros i j H; cbn; [destruct j; reflexivity|].
  destruct j; destruct i; cbn; try reflexivity; try congruence. apply IH. congruence.
Qed.

Lemma upd_out {A} (l : list A) i f : (length l <= i)%nat -> upd l i f = l.
Proof. revert i. induction l; intros i H; cbn in *; [destruct i; reflexivity|]. destruct i; [lia|]. rewrite IHl by lia. reflexivity. Qed.

Lemma sstamp_getsh_upd ss i j f : (forall sh, sstamp (f sh) = sstamp sh) ->
  sstamp (getsh (upd ss j f) i) = sstamp (getsh ss i).
Proof.
  intros H. destruct (Nat.eq_dec i j) as [E|E].
  - subst. destruct (Nat.lt_ge_cases j (length ss)).
    + rewrite getsh_upd_same by assumption. apply H.
    + rewrite upd_out by assumption. reflexivity.
  - rewrite getsh_upd_other by assumption. reflexivity.
Qed.

Lemma getsh_out ss i : (length ss <= i)%nat -> getsh ss i = empty_share.
Proof. intros. unfold getsh. apply nth_overflow. assumption. Qed.

(* ---------- update ---------- *)
(* the logger-ran-this-tick flag after a history *)
Fixpoint ran_after (ran : bool) (ops : list op) : bool :=
  match ops with
  | [] => ran
  | Tick :: r => ran_after false r
  | Run :: r | Start :: r | Stop :: r => ran_after true r
  | _ :: r => ran_after ran r
  end.

Lemma sched_ok_app c a : forall ran b, sched_ok c ran (a ++ b) = sched_ok c ran a && sched_ok c (ran_after ran a) b.
Proof.
  induction a as [|o a IH]; intros ran b; cbn; [reflexivity|].
  destruct o; cbn; rewrite ?IH; try reflexivity. rewrite andb_assoc. reflexivity.
Qed.

(* the last record is never later than now, and is at now only if the logger ran this tick *)
Definition tl_inv (s : st) (ran : bool) : Prop :=
  forall tl, lstamp s = Some tl -> tl <= now s /\ (tl = now s -> ran = true).

Lemma action_lstamp c s : lstamp (action c s) = lstamp s \/ lstamp (action c s) = Some (now s).
Proof.
  unfold action. destruct (crule c); cbn; auto.
  - destruct (lstamp s) eqn:E; cbn; auto.
  - destruct (lstamp s) eqn:E; cbn; auto. destruct (existsb _ _); cbn; auto.
  - destruct (lstamp s) eqn:E; cbn; auto. destruct (cells_eqb _ _); cbn; auto.
  - unfold log_streak. destruct (clog c); cbn; auto. destruct (pfields s); cbn; auto.
    destruct (streak_field _ _ _); cbn; auto. destruct (lookup _ _) as [[?|?|?|? ?]|]; cbn; auto.
  - unfold log_deck. destruct (clog c); cbn; auto. destruct (pfields s); cbn; auto.
Qed.

Lemma tl_inv_step c s ran o : tl_inv s ran -> tl_inv (step c s o) (ran_after ran [o]).
Proof.
  unfold tl_inv. intros H. destruct o; cbn [ran_after]; try exact H.
  - cbn. intros tl E. destruct (H tl E). split; lia.
  - cbn [step]. destruct (active s).
    + destruct (action_shape c s) as [_ [_ [_ [_ [_ [_ [N _]]]]]]]. rewrite N.
      destruct (action_lstamp c s) as [E|E]; rewrite E; intros tl E'.
      * destruct (H tl E'). split; auto.
      * inversion E'. split; [lia|auto].
    + intros tl E. destruct (H tl E). split; auto.
  - cbn [step]. pose proof (start_prep c s) as SP. cbv zeta in SP. destruct SP as [E1 [_ [E3 _]]].
    destruct (action_shape c (prepare c (reopen s))) as [_ [_ [_ [_ [_ [_ [N _]]]]]]].
    change (now (set_active ?x true)) with (now x). rewrite lstamp_set_active, N, E3.
    destruct (action_lstamp c (prepare c (reopen s))) as [E|E]; rewrite E, ?E1, ?E3; intros tl E'.
    * destruct (H tl E'). split; auto.
    * inversion E'. split; [lia|auto].
  - cbn [step]. destruct (active s).
    + destruct (action_shape c s) as [_ [_ [_ [_ [_ [_ [N _]]]]]]].
      change (now (set_active ?x false)) with (now x). rewrite lstamp_set_active, N.
      destruct (action_lstamp c s) as [E|E]; rewrite E; intros tl E'.
      * destruct (H tl E'). split; auto.
      * inversion E'. split; [lia|auto].
    + intros tl E. destruct (H tl E). split; auto.
Qed.

Lemma ran_after_app a : forall ran b, ran_after ran (a ++ b) = ran_after (ran_after ran a) b.
Proof. induction a as [|o a IH]; intros; cbn; [reflexivity|]. destruct o; apply IH. Qed.

Lemma tl_inv_run c ops : forall s ran, tl_inv s ran -> tl_inv (runfrom c s ops) (ran_after ran ops).
Proof.
  induction ops as [|o ops IH]; intros s ran H; [exact H|].
  change (o :: ops) with ([o] ++ ops). rewrite runfrom_app, ran_after_app. apply IH.
  apply (tl_inv_step c s ran o H).
Qed.

Lemma is_loggee_in c i : is_loggee c i = true -> exists lg, In lg (clog c) /\ snd (fst lg) = i.
Proof.
  unfold is_loggee. rewrite existsb_exists. intros [lg [H E]]. exists lg. split; [exact H|].
  apply Nat.eqb_eq. exact E.
Qed.

(* through world ops after the write: the log is untouched, share i stays stamped >= n *)
Definition after_write (i : nat) (n : Z) (L : option Z) (A : bool) (f : option (list line)) (len : nat) (s : st) : Prop :=
  lstamp s = L /\ active s = A /\ file s = f /\ n <= now s /\ length (shares s) = len /\
  exists t, sstamp (getsh (shares s) i) = Some t /\ n <= t.

Lemma after_write_step c i n L A f len s o : (i < len)%nat -> is_world o = true ->
  after_write i n L A f len s -> after_write i n L A f len (step c s o).
Proof.
  intros Hi W [H1 [H2 [H3 [H4 [H5 [t [H6 H7]]]]]]]. unfold after_write.
  destruct o; try discriminate W; cbn -[getsh upd]; rewrite ?length_upd; repeat split; try assumption; try lia.
  - exists t. auto.
  - destruct (Nat.eq_dec i s0) as [E|E].
    + subst s0. rewrite getsh_upd_same by lia. cbn. exists (now s). split; [reflexivity|lia].
    + rewrite getsh_upd_other by assumption. exists t; auto.
  - exists t. split; [|assumption]. rewrite sstamp_getsh_upd; [assumption|reflexivity].
  - exists t. split; [|assumption]. rewrite sstamp_getsh_upd; [assumption|reflexivity].
  - exists t. split; [|assumption]. rewrite sstamp_getsh_upd; [assumption|reflexivity].
  - exists t. split; [|assumption]. rewrite sstamp_getsh_upd; [assumption|reflexivity].
Qed.

Lemma length_shares_world c s o : crule c = Update -> length (shares (step c s o)) = length (shares s).
Proof.
  intros R.
  assert (A : forall s', shares (action c s') = shares s').
  { intros s'. unfold action. rewrite R. destruct (lstamp s'); [destruct (existsb _ _)|]; reflexivity. }
  destruct o; cbn; rewrite ?length_upd; try reflexivity.
  - destruct (active s); [rewrite A|]; reflexivity.
  - rewrite A. reflexivity.
  - destruct (active s); cbn; [rewrite A|]; reflexivity.
Qed.

Lemma update_logs_l c t0 ss f0 pre i kvs mid r :
  crule c = Update -> is_loggee c i = true -> (i < length ss)%nat ->
  sched_ok c false (pre ++ [Write i kvs]) = true ->
  forallb is_world mid = true -> (r = Run \/ r = Stop) ->
  let s := run c t0 ss f0 (pre ++ Write i kvs :: mid) in
  active s = true ->
  recs (file (step c s r)) = recs (file s) ++ [Rec (now s) (cells (shares s) (clog c) (pfields s))].
Proof.
  intros R Lg Hi Sch W Hr s Act.
  set (sp := run c t0 ss f0 pre).
  assert (Hlen : length (shares sp) = length ss).
  { unfold sp, run. apply (runfrom_inv c (fun s => length (shares s) = length ss)); [|reflexivity].
    intros s' o H. rewrite length_shares_world; assumption. }
  assert (T : tl_inv sp (ran_after false pre)).
  { unfold sp, run. apply tl_inv_run. intros tl E. discriminate E. }
  rewrite sched_ok_app in Sch. apply andb_true_iff in Sch. destruct Sch as [_ Sch].
  cbn in Sch. rewrite Lg in Sch. rewrite andb_true_r in Sch.
  assert (Rn : ran_after false pre = false).
  { destruct (ran_after false pre); [discriminate Sch|reflexivity]. }
  rewrite Rn in T.
  assert (AW : after_write i (now sp) (lstamp sp) (active s) (file s) (length ss) s).
  { assert (G : after_write i (now sp) (lstamp sp) (active (step c sp (Write i kvs))) (file (step c sp (Write i kvs))) (length ss) s).
    { unfold s, run. change (pre ++ Write i kvs :: mid) with (pre ++ [Write i kvs] ++ mid).
      rewrite !runfrom_app. fold (run c t0 ss f0 pre). fold sp.
      apply (runfrom_inv_r c is_world); [|exact W|].
      - intros s' o Wo H. apply after_write_step; assumption.
      - unfold after_write. cbn -[getsh upd]. rewrite length_upd. repeat split; try lia.
        exists (now sp). rewrite getsh_upd_same by lia. cbn. split; [reflexivity|lia]. }
    destruct G as [G1 [_ [_ [G4 [G5 G6]]]]]. unfold after_write. repeat split; try assumption; reflexivity. }
  destruct AW as [H1 [_ [_ [H4 [_ [t [H6 H7]]]]]]].
  assert (F : file s <> None). { apply (open_ok_run c t0 ss f0 _ Act). }
  assert (D : action c s = dolog c s).
  { unfold action. rewrite R, H1. destruct (lstamp sp) as [tl|] eqn:E; [|reflexivity].
    assert (X : existsb (stamped_after (shares s) tl) (clog c) = true).
    { apply existsb_exists. destruct (is_loggee_in c i Lg) as [lg [Hin Hlg]]. exists lg. split; [exact Hin|].
      unfold stamped_after. rewrite Hlg, H6. apply Z.ltb_lt.
      destruct (T tl E) as [Ta Tb].
      destruct (Z.eq_dec tl (now sp)) as [Q|Q]; [specialize (Tb Q); discriminate Tb|lia]. }
    rewrite X. reflexivity. }
  destruct Hr as [Hr|Hr]; subst r; cbn [step]; rewrite Act, D; rewrite ?file_set_active;
    unfold dolog; rewrite file_set_log, recs_putline by exact F; reflexivity.
Qed.

(* the same under the exact condition: the loggee is not written in the tick of this log's last record *)
Lemma update_logs_sharp_l c t0 ss f0 pre i kvs mid r :
  crule c = Update -> is_loggee c i = true -> (i < length ss)%nat ->
  lstamp (run c t0 ss f0 pre) <> Some (now (run c t0 ss f0 pre)) ->
  forallb is_world mid = true -> (r = Run \/ r = Stop) ->
  let s := run c t0 ss f0 (pre ++ Write i kvs :: mid) in
  active s = true ->
  recs (file (step c s r)) = recs (file s) ++ [Rec (now s) (cells (shares s) (clog c) (pfields s))].
Proof.
  intros R Lg Hi Sch W Hr s Act.
  set (sp := run c t0 ss f0 pre).
  assert (Hlen : length (shares sp) = length ss).
  { unfold sp, run. apply (runfrom_inv c (fun s => length (shares s) = length ss)); [|reflexivity].
    intros s' o H. rewrite length_shares_world; assumption. }
  assert (T : tl_inv sp (ran_after false pre)).
  { unfold sp, run. apply tl_inv_run. intros tl E. discriminate E. }
  fold sp in Sch.
  assert (AW : after_write i (now sp) (lstamp sp) (active s) (file s) (length ss) s).
  { assert (G : after_write i (now sp) (lstamp sp) (active (step c sp (Write i kvs))) (file (step c sp (Write i kvs))) (length ss) s).
    { unfold s, run. change (pre ++ Write i kvs :: mid) with (pre ++ [Write i kvs] ++ mid).
      rewrite !runfrom_app. fold (run c t0 ss f0 pre). fold sp.
      apply (runfrom_inv_r c is_world); [|exact W|].
      - intros s' o Wo H. apply after_write_step; assumption.
      - unfold after_write. cbn -[getsh upd]. rewrite length_upd. repeat split; try lia.
        exists (now sp). rewrite getsh_upd_same by lia. cbn. split; [reflexivity|lia]. }
    destruct G as [G1 [_ [_ [G4 [G5 G6]]]]]. unfold after_write. repeat split; try assumption; reflexivity. }
  destruct AW as [H1 [_ [_ [H4 [_ [t [H6 H7]]]]]]].
  assert (F : file s <> None). { apply (open_ok_run c t0 ss f0 _ Act). }
  assert (D : action c s = dolog c s).
  { unfold action. rewrite R, H1. destruct (lstamp sp) as [tl|] eqn:E; [|reflexivity].
    assert (X : existsb (stamped_after (shares s) tl) (clog c) = true).
    { apply existsb_exists. destruct (is_loggee_in c i Lg) as [lg [Hin Hlg]]. exists lg. split; [exact Hin|].
      unfold stamped_after. rewrite Hlg, H6. apply Z.ltb_lt.
      destruct (T tl E) as [Ta Tb].
      destruct (Z.eq_dec tl (now sp)) as [Q|Q]; [exfalso; apply Sch; congruence|lia]. }
    rewrite X. reflexivity. }
  destruct Hr as [Hr|Hr]; subst r; cbn [step]; rewrite Act, D; rewrite ?file_set_active;
    unfold dolog; rewrite file_set_log, recs_putline by exact F; reflexivity.
Qed.


(* no share is stamped later than now *)
Definition st_le (s : st) : Prop := forall i t, sstamp (getsh (shares s) i) = Some t -> t <= now s.

Lemma update_action_shares c s : crule c = Update -> shares (action c s) = shares s.
Proof. intros R. unfold action. rewrite R. destruct (lstamp s); [destruct (existsb _ _)|]; reflexivity. Qed.

Lemma st_le_step c s o : crule c = Update -> st_le s -> st_le (step c s o).
Proof.
  intros R H. unfold st_le in *. destruct o; cbn -[getsh upd]; try exact H.
  - intros i t E. specialize (H i t E). lia.
  - intros i t. destruct (Nat.eq_dec i s0) as [Q|Q].
    + subst. destruct (Nat.lt_ge_cases s0 (length (shares s))).
      * rewrite getsh_upd_same by assumption. cbn. intros E. inversion E. lia.
      * rewrite upd_out by assumption. apply H.
    + rewrite getsh_upd_other by assumption. apply H.
  - intros i t. rewrite sstamp_getsh_upd by reflexivity. apply H.
  - intros i t. rewrite sstamp_getsh_upd by reflexivity. apply H.
  - intros i t. rewrite sstamp_getsh_upd by reflexivity. apply H.
  - intros i t. rewrite sstamp_getsh_upd by reflexivity. apply H.
  - destruct (active s); [|exact H]. rewrite update_action_shares by exact R.
    destruct (action_shape c s) as [_ [_ [_ [_ [_ [_ [N _]]]]]]]. rewrite N. exact H.
  - change (shares (set_active ?x true)) with (shares x). change (now (set_active ?x true)) with (now x).
    rewrite update_action_shares by exact R.
    destruct (action_shape c (prepare c (reopen s))) as [_ [_ [_ [_ [_ [_ [N _]]]]]]]. rewrite N. exact H.
  - destruct (active s); [|exact H].
    change (shares (set_active ?x false)) with (shares x). change (now (set_active ?x false)) with (now x).
    rewrite update_action_shares by exact R.
    destruct (action_shape c s) as [_ [_ [_ [_ [_ [_ [N _]]]]]]]. rewrite N. exact H.
Qed.

Lemma st_le_init c t0 ss f0 : stamps_le t0 ss -> st_le (init c t0 ss f0).
Proof.
  intros H i t. cbn -[getsh]. unfold getsh. intros E.
  destruct (Nat.lt_ge_cases i (length ss)) as [L|L].
  - apply (H (nth i ss empty_share) t); [apply nth_In; exact L|exact E].
  - rewrite nth_overflow in E by exact L. discriminate E.
Qed.

(* after an effective logger run of rule update no loggee is stamped after the last record *)
Definition settled (c : cfg) (s : st) : Prop :=
  exists tl, lstamp s = Some tl /\ forall lg, In lg (clog c) -> stamped_after (shares s) tl lg = false.

Lemma settled_action c s : crule c = Update -> st_le s -> settled c (action c s).
Proof.
  intros R H.
  assert (D : settled c (dolog c s)).
  { exists (now s). split; [reflexivity|]. intros lg _. unfold stamped_after. cbn -[getsh].
    destruct (sstamp (getsh (shares s) (snd (fst lg)))) eqn:E; [|reflexivity].
    apply Z.ltb_ge. apply (H _ _ E). }
  unfold action. rewrite R. destruct (lstamp s) as [tl|] eqn:E; [|exact D].
  destruct (existsb _ _) eqn:X; [exact D|].
  exists tl. split; [exact E|]. intros lg Hin.
  destruct (stamped_after (shares s) tl lg) eqn:Y; [|reflexivity].
  assert (existsb (stamped_after (shares s) tl) (clog c) = true) by (apply existsb_exists; eauto). congruence.
Qed.


Lemma settled_quiet c s o : quiet c o = true -> settled c s ->
  settled c (step c s o) /\ active (step c s o) = active s /\ file (step c s o) = file s.
Proof.
  unfold quiet. intros Q [tl [L H]]. apply andb_true_iff in Q. destruct Q as [W Q].
  destruct (world_log c s o W) as [E1 [_ [_ [_ [E5 E6]]]]]. split; [|split; assumption].
  exists tl. split; [congruence|]. intros lg Hin. specialize (H lg Hin). unfold stamped_after in *.
  destruct o; try discriminate W; cbn -[getsh upd]; try exact H;
    try (rewrite sstamp_getsh_upd by reflexivity; exact H).
  cbn in Q. rewrite getsh_upd_other; [exact H|].
  intros X. unfold is_loggee in Q. apply negb_true_iff in Q.
  assert (existsb (fun lg0 => Nat.eqb (snd (fst lg0)) s0) (clog c) = true).
  { apply existsb_exists. exists lg. split; [exact Hin|]. apply Nat.eqb_eq. exact X. }
  congruence.
Qed.

Lemma update_no_spurious_l c t0 ss f0 pre r1 mid r2 :
  crule c = Update -> stamps_le t0 ss ->
  (r1 = Start \/ r1 = Run) -> forallb (quiet c) mid = true -> (r2 = Run \/ r2 = Stop) ->
  active (run c t0 ss f0 (pre ++ [r1])) = true ->
  let s := run c t0 ss f0 (pre ++ r1 :: mid) in
  recs (file (step c s r2)) = recs (file s).
Proof.
  intros R St H1 Q H2 Act s.
  set (sp := run c t0 ss f0 pre).
  assert (Le : st_le sp).
  { unfold sp, run. apply runfrom_inv; [intros; apply st_le_step; assumption|apply st_le_init; exact St]. }
  set (s1 := step c sp r1).
  assert (E1 : run c t0 ss f0 (pre ++ [r1]) = s1).
  { unfold run. rewrite runfrom_app. reflexivity. }
  rewrite E1 in Act.
  assert (S1 : settled c s1).
  { unfold s1 in *. destruct H1 as [H1|H1]; subst r1; cbn [step] in *.
    - destruct (settled_action c (prepare c (reopen sp)) R) as [tl [La Lb]].
      + intros i t. pose proof (start_prep c sp) as SP. cbv zeta in SP. destruct SP as [_ [P2 [P3 _]]].
        rewrite P2, P3. apply Le.
      + exists tl. split; [exact La|exact Lb].
    - destruct (active sp) eqn:Asp; [|congruence]. apply settled_action; assumption. }
  assert (G : settled c s /\ active s = true /\ True).
  { unfold s, run. change (pre ++ r1 :: mid) with (pre ++ [r1] ++ mid). rewrite !runfrom_app.
    fold (run c t0 ss f0 pre). fold sp. change (runfrom c sp [r1]) with s1.
    apply (runfrom_inv_r c (quiet c)); [|exact Q|auto].
    intros s' o Qo [Sa [Sb _]]. destruct (settled_quiet c s' o Qo Sa) as [Ta [Tb _]]. split; [exact Ta|]. split; [congruence|exact I]. }
  destruct G as [[tl [L Hn]] [A _]].
  assert (D : action c s = s).
  { unfold action. rewrite R, L.
    assert (X : existsb (stamped_after (shares s) tl) (clog c) = false).
    { destruct (existsb _ _) eqn:X; [|reflexivity]. apply existsb_exists in X. destruct X as [lg [Hin Y]].
      rewrite Hn in Y by exact Hin. discriminate Y. }
    rewrite X. reflexivity. }
  destruct H2 as [H2|H2]; subst r2; cbn [step]; rewrite A, D; reflexivity.
Qed.

(* the faithful model refutes the unrestricted statement: a write after the logger in the same tick *)
Definition wit_c : cfg := {| crule := Update; clog := [(0, O, [])] |}.
Definition wit_ss : list share := [{| sdata := [(0, VZ 1)]; sstamp := Some 0; sdeck := [] |}].
Definition wit_ops : list op := [Start; Write O [(0, VZ 7)]; Tick; Run; Tick; Run; Stop].

Lemma update_refuted_l :
  let s := run wit_c 0 wit_ss None [Start; Write O [(0, VZ 7)]; Tick] in
  is_loggee wit_c O = true /\ active s = true /\
  recs (file (step wit_c s Run)) = recs (file s) /\
  file (run wit_c 0 wit_ss None wit_ops) = Some [Hdr Update [(0, None)]; Rec 0 [Some (VZ 1)]].
Proof. vm_compute. repeat split. Qed.

(* ---------- change ---------- *)
Lemma lzz_eqb_eq a : forall b, lzz_eqb a b = true <-> a = b.
Proof.
  induction a as [|[k v] a IH]; destruct b as [|[k' v'] b]; cbn; try (split; [discriminate|congruence]); [tauto|].
  rewrite !andb_true_iff, !Z.eqb_eq, IH. split; [intros [[-> ->] ->]; reflexivity|intros E; inversion E; auto].
Qed.

Lemma val_eqb_eq a b : val_eqb a b = true <-> a = b.
Proof.
  destruct a, b; cbn; try (split; [discriminate|congruence]).
  - rewrite Z.eqb_eq. split; congruence.
  - destruct (list_eq_dec Z.eq_dec l l0); split; congruence.
  - rewrite lzz_eqb_eq. split; congruence.
  - rewrite andb_true_iff, !Z.eqb_eq. split; [intros [-> ->]; reflexivity|intros E; inversion E; auto].
Qed.

Lemma cells_eqb_eq a : forall b, cells_eqb a b = true <-> a = b.
Proof.
  induction a as [|x a IH]; destruct b as [|y b]; cbn; try (split; [discriminate|congruence]); [tauto|].
  rewrite andb_true_iff, IH.
  assert (O : oval_eqb x y = true <-> x = y).
  { destruct x, y; cbn; try (split; [discriminate|congruence]); [|tauto].
    rewrite val_eqb_eq. split; congruence. }
  rewrite O. split; [intros [-> ->]; reflexivity|intros E; inversion E; auto].
Qed.

(* lasts = the cells of the last record written *)
Definition ch_inv (s : st) : Prop :=
  file s <> None /\ lstamp s <> None /\ exists X t, recs (file s) = X ++ [Rec t (lasts s)].

Lemma ch_inv_action c s : crule c = Change -> ch_inv s -> ch_inv (action c s) /\
  recs (file (action c s)) = recs (file s) ++
    (if cells_eqb (cells (shares s) (clog c) (pfields s)) (lasts s) then []
     else [Rec (now s) (cells (shares s) (clog c) (pfields s))]).
Proof.
  intros R [F [L [X [t E]]]]. unfold action. rewrite R. destruct (lstamp s) eqn:EL; [|congruence].
  destruct (cells_eqb _ _).
  - split; [|rewrite app_nil_r; reflexivity]. repeat split; try assumption; try congruence. exists X, t. exact E.
  - unfold dolog. cbn [now shares pfields file set_lasts]. rewrite file_set_log.
    rewrite recs_putline by exact F. split; [|reflexivity].
    split; [apply putline_some; exact F|]. split; [rewrite lstamp_set_log; discriminate|].
    exists (recs (file s)), (now s). rewrite file_set_log, recs_putline by exact F. reflexivity.
Qed.

Lemma ch_inv_step c s o : crule c = Change -> is_start o = false -> ch_inv s -> ch_inv (step c s o).
Proof.
  intros R N H. destruct o; try discriminate N; try exact H; cbn [step].
  - destruct (active s); [|exact H]. apply ch_inv_action; assumption.
  - destruct (active s); [|exact H]. destruct (ch_inv_action c s R H) as [[A [B C]] _].
    repeat split; assumption.
Qed.

Lemma change_l c t0 ss f0 pre body r : crule c = Change ->
  forallb (fun o => negb (is_start o)) pre = true ->
  forallb (fun o => negb (is_start o)) body = true ->
  (r = Run \/ r = Stop) ->
  let s := run c t0 ss f0 (pre ++ Start :: body) in
  active s = true ->
  exists X t last, recs (file s) = X ++ [Rec t last] /\
    recs (file (step c s r)) = recs (file s) ++
      (if cells_eqb (cells (shares s) (clog c) (pfields s)) last then []
       else [Rec (now s) (cells (shares s) (clog c) (pfields s))]).
Proof.
  intros R Hpre Hbody Hr s Act.
  set (s1 := run c t0 ss f0 pre).
  assert (F : fresh f0 s1). { unfold s1, run. apply fresh_nostart; [exact Hpre|]. repeat split. }
  destruct F as [L [F A]].
  assert (C2 : ch_inv (step c s1 Start)).
  { cbn [step]. pose proof (start_prep c s1) as SP. cbv zeta in SP.
    destruct SP as [E1 [E2 [E3 [_ [E5 [E6 _]]]]]].
    rewrite first_log by (rewrite ?E1, ?R; congruence).
    unfold ch_inv. rewrite file_set_active, lstamp_set_active. unfold dolog.
    rewrite file_set_log, lstamp_set_log. split; [apply putline_some; exact E5|]. split; [discriminate|].
    exists (recs (file (prepare c (reopen s1)))), (now (prepare c (reopen s1))).
    rewrite recs_putline by exact E5. cbn [filter is_rec].
    change (lasts (set_active (set_log ?p ?a ?b) true)) with (lasts p).
    assert (LP : lasts (prepare c (reopen s1)) =
                 cells (shares (prepare c (reopen s1))) (clog c) (pfields (prepare c (reopen s1)))).
    { unfold prepare. rewrite R. reflexivity. }
    rewrite LP. reflexivity. }
  assert (C : ch_inv s).
  { unfold s, run. change (pre ++ Start :: body) with (pre ++ [Start] ++ body). rewrite !runfrom_app.
    fold (run c t0 ss f0 pre). fold s1.
    apply (runfrom_inv_r c (fun o => negb (is_start o))); [|exact Hbody|exact C2].
    intros s' o N H. apply ch_inv_step; [exact R|apply negb_true_iff; exact N|exact H]. }
  destruct (ch_inv_action c s R C) as [_ E].
  destruct C as [_ [_ [X [t EX]]]]. exists X, t, (lasts s). split; [exact EX|].
  destruct Hr; subst r; cbn [step]; rewrite Act; rewrite ?file_set_active; exact E.
Qed.

(* ---------- streak / deck: one logger run drains the queue in FIFO order ---------- *)
Lemma lookup_set1_same k v d : lookup k (set1 k v d) = Some v.
Proof.
  induction d as [|[k' v'] d IH]; cbn; [rewrite Z.eqb_refl; reflexivity|].
  destruct (Z.eqb k k') eqn:E; cbn; rewrite E; [reflexivity|exact IH].
Qed.

Lemma streak_recs_filter t l : filter is_rec (streak_recs t l) = streak_recs t l.
Proof. unfold streak_recs. induction l; cbn; congruence. Qed.

Lemma deck_recs_filter t fs d : filter is_rec (deck_recs t fs d) = deck_recs t fs d.
Proof. unfold deck_recs. induction d as [|e d IH]; cbn; [reflexivity|]. destruct e; cbn; congruence. Qed.

Lemma streak_run_l c s lg lgs k fs pf q r :
  crule c = Streak -> clog c = lg :: lgs -> pfields s = (k :: fs) :: pf ->
  lookup k (sdata (getsh (shares s) (snd (fst lg)))) = Some (VL q) ->
  active s = true -> file s <> None -> (r = Run \/ r = Stop) ->
  recs (file (step c s r)) = recs (file s) ++ map (fun x => Rec (now s) [Some (VZ x)]) q /\
  lookup k (sdata (getsh (shares (step c s r)) (snd (fst lg)))) = Some (VL []).
Proof.
  intros R C P Lk A F Hr.
  assert (In_range : (snd (fst lg) < length (shares s))%nat).
  { destruct (Nat.lt_ge_cases (snd (fst lg)) (length (shares s))) as [H|H]; [exact H|].
    rewrite getsh_out in Lk by exact H. discriminate Lk. }
  assert (SF : streak_field (shares s) lg (k :: fs) = Some k).
  { unfold streak_field. destruct (sdata (getsh (shares s) (snd (fst lg)))) as [|[k0 v0] d]; [discriminate Lk|reflexivity]. }
  assert (D : action c s = set_log (set_shares s (upd (shares s) (snd (fst lg))
                 (fun sh => {| sdata := set1 k (VL []) (sdata sh); sstamp := sstamp sh; sdeck := sdeck sh |})))
                 (Some (now s)) (putline (file s) (streak_recs (now s) q))).
  { unfold action. rewrite R. unfold log_streak. rewrite C, P. cbv zeta. rewrite SF, Lk. reflexivity. }
  assert (G : recs (file (action c s)) = recs (file s) ++ map (fun x => Rec (now s) [Some (VZ x)]) q /\
              lookup k (sdata (getsh (shares (action c s)) (snd (fst lg)))) = Some (VL [])).
  { rewrite D. rewrite file_set_log. rewrite recs_putline by exact F. rewrite streak_recs_filter.
    split; [reflexivity|]. cbn -[getsh upd]. rewrite getsh_upd_same by exact In_range. cbn.
    apply lookup_set1_same. }
  destruct Hr; subst r; cbn [step]; rewrite A; exact G.
Qed.

Lemma deck_run_l c s lg lgs fs pf r :
  crule c = Deck -> clog c = lg :: lgs -> pfields s = fs :: pf ->
  active s = true -> file s <> None -> (r = Run \/ r = Stop) ->
  recs (file (step c s r)) = recs (file s) ++ deck_recs (now s) fs (sdeck (getsh (shares s) (snd (fst lg)))) /\
  sdeck (getsh (shares (step c s r)) (snd (fst lg))) = [].
Proof.
  intros R C P A F Hr.
  assert (G : recs (file (action c s)) = recs (file s) ++ deck_recs (now s) fs (sdeck (getsh (shares s) (snd (fst lg)))) /\
              sdeck (getsh (shares (action c s)) (snd (fst lg))) = []).
  { unfold action. rewrite R. unfold log_deck. rewrite C, P. cbv zeta. rewrite file_set_log.
    rewrite recs_putline by exact F. rewrite deck_recs_filter. split; [reflexivity|].
    cbn -[getsh upd]. destruct (Nat.lt_ge_cases (snd (fst lg)) (length (shares s))) as [H|H].
    - rewrite getsh_upd_same by exact H. reflexivity.
    - rewrite upd_out by exact H. rewrite getsh_out by exact H. reflexivity. }
  destruct Hr; subst r; cbn [step]; rewrite A; exact G.
Qed.

(* every mapping entry yields exactly one record, in deck order; others are skipped *)
Lemma deck_recs_cells t fs d :
  map rec_cells (deck_recs t fs d) =
  flat_map (fun e => match e with DMap m => [map (fun k => lookupz k m) fs] | DOther _ => [] end) d.
Proof. unfold deck_recs. induction d as [|e d IH]; cbn; [reflexivity|]. destruct e; cbn; congruence. Qed.
