(* C22 -- property theorems only.  Each closed by [exact]; Print Assumptions beneath.
   run c t0 ss f0 ops = state of a fresh Logger with one Log (rule + loggees c) on a store at time t0
   holding shares ss, log file f0 (None = new file), after the history ops of share writes
   (Tick/Write/Chg/Push/Append) and logger controls (Start/Run/Stop).  All theorems quantify over every
   configuration, initial store and history.                                                     *)
From Coq Require Import List ZArith Bool.
Import ListNotations.
Require Import V.C22.Model V.C22.Proofs V.C22.History.
Open Scope Z_scope.

(* 'never' writes no record, whatever the history. *)
Theorem never_nothing : forall c t0 ss f0 ops, crule c = Never ->
  recs (file (run c t0 ss f0 ops)) = recs f0.
Proof. exact never_nothing_l. Qed.
Print Assumptions never_nothing.

(* every new log file starts with exactly one header (of this rule) followed by records only --
   also across STOP/START restarts *)
Theorem header_once_per_new_file : forall c t0 ss ops,
  (file (run c t0 ss None ops) = None /\ first (run c t0 ss None ops) = true /\
   lstamp (run c t0 ss None ops) = None /\ active (run c t0 ss None ops) = false) \/
  (exists h rs, file (run c t0 ss None ops) = Some (Hdr (crule c) h :: rs) /\ forallb is_rec rs = true).
Proof. exact header_new_l. Qed.
Print Assumptions header_once_per_new_file.

(* ... and a pre-existing file is only ever appended to, with records, never a second header *)
Theorem no_header_into_existing_file : forall c t0 ss old ops,
  exists rs, file (run c t0 ss (Some old) ops) = Some (old ++ rs) /\ forallb is_rec rs = true.
Proof. exact header_old_l. Qed.
Print Assumptions no_header_into_existing_file.

(* 'once': exactly one record, written by the first START with the values of that moment,
   whatever follows (runs, writes, stops, restarts) *)
Theorem once_one_record : forall c t0 ss f0 pre post, crule c = Once ->
  forallb (fun o => negb (is_start o)) pre = true ->
  let s1 := run c t0 ss f0 pre in
  recs (file (runfrom c s1 (Start :: post))) =
  recs f0 ++ [Rec (now s1) (cells (shares s1) (clog c) (pfields (prepare c (reopen s1))))].
Proof. exact once_one_record_l. Qed.
Print Assumptions once_one_record.

(* 'always': one record per logger run (START, RUN, STOP), for every control sequence the Skedder
   can produce; each is a snapshot of the loggees at that run *)
Theorem always_one_per_run : forall c t0 ss f0 ops, crule c = Always -> ctl_ok false ops = true ->
  length (recs (file (run c t0 ss f0 ops))) = (length (recs f0) + nruns ops)%nat.
Proof. exact always_count_l. Qed.
Print Assumptions always_one_per_run.

Theorem always_record_is_snapshot : forall c s r, crule c = Always -> active s = true -> file s <> None ->
  (r = Run \/ r = Stop) ->
  recs (file (step c s r)) = recs (file s) ++ [Rec (now s) (cells (shares s) (clog c) (pfields s))].
Proof. exact always_step_l. Qed.
Print Assumptions always_record_is_snapshot.

(* 'update': an update (Write) of a loggee is reflected by a record at the next logger run -- provided no
   loggee is written after the logger already ran in the same tick (sched_ok).  Full statement (without
   sched_ok) is FALSE of the code: see update_same_tick_refuted (known finding
   update-after-logger-same-tick). *)
Theorem update_logs_every_update : forall c t0 ss f0 pre i kvs mid r,
  crule c = Update -> is_loggee c i = true -> (i < length ss)%nat ->
  sched_ok c false (pre ++ [Write i kvs]) = true ->
  forallb is_world mid = true -> (r = Run \/ r = Stop) ->
  let s := run c t0 ss f0 (pre ++ Write i kvs :: mid) in
  active s = true ->
  recs (file (step c s r)) = recs (file s) ++ [Rec (now s) (cells (shares s) (clog c) (pfields s))].
Proof. exact update_logs_l. Qed.
Print Assumptions update_logs_every_update.

(* the same under the EXACT condition of the known finding: the loggee is not written in the very tick in
   which this log wrote its last record (Log.stamp <> store.stamp at the write).  In particular an update made
   after the logger in a tick where the logger wrote NOTHING is recorded by the next run. *)
Theorem update_logs_every_update_sharp : forall c t0 ss f0 pre i kvs mid r,
  crule c = Update -> is_loggee c i = true -> (i < length ss)%nat ->
  lstamp (run c t0 ss f0 pre) <> Some (now (run c t0 ss f0 pre)) ->
  forallb is_world mid = true -> (r = Run \/ r = Stop) ->
  let s := run c t0 ss f0 (pre ++ Write i kvs :: mid) in
  active s = true ->
  recs (file (step c s r)) = recs (file s) ++ [Rec (now s) (cells (shares s) (clog c) (pfields s))].
Proof. exact update_logs_sharp_l. Qed.
Print Assumptions update_logs_every_update_sharp.

(* 'update' writes nothing at a run when no loggee was updated since the previous logger run *)
Theorem update_no_spurious_record : forall c t0 ss f0 pre r1 mid r2,
  crule c = Update -> stamps_le t0 ss ->
  (r1 = Start \/ r1 = Run) -> forallb (quiet c) mid = true -> (r2 = Run \/ r2 = Stop) ->
  active (run c t0 ss f0 (pre ++ [r1])) = true ->
  let s := run c t0 ss f0 (pre ++ r1 :: mid) in
  recs (file (step c s r2)) = recs (file s).
Proof. exact update_no_spurious_l. Qed.
Print Assumptions update_no_spurious_record.

(* refutation of the unrestricted 'update' statement on the faithful model: START (logs at tick 0), then
   the loggee is updated to 7 in the same tick, TICK, RUN: no record; the 7 is never logged *)
Theorem update_same_tick_refuted :
  let s := run wit_c 0 wit_ss None [Start; Write O [(0, VZ 7)]; Tick] in
  is_loggee wit_c O = true /\ active s = true /\
  recs (file (step wit_c s Run)) = recs (file s) /\
  file (run wit_c 0 wit_ss None wit_ops) = Some [Hdr Update [(0, None)]; Rec 0 [Some (VZ 1)]].
Proof. exact update_refuted_l. Qed.
Print Assumptions update_same_tick_refuted.

(* 'change': within a session (one START) every later run writes a record iff the logged fields differ
   from the last record, and the record holds the current values *)
Theorem change_iff_differs_from_last_logged : forall c t0 ss f0 pre body r, crule c = Change ->
  forallb (fun o => negb (is_start o)) pre = true ->
  forallb (fun o => negb (is_start o)) body = true ->
  (r = Run \/ r = Stop) ->
  let s := run c t0 ss f0 (pre ++ Start :: body) in
  active s = true ->
  exists X t last, recs (file s) = X ++ [Rec t last] /\
    recs (file (step c s r)) = recs (file s) ++
      (if cells_eqb (cells (shares s) (clog c) (pfields s)) last then []
       else [Rec (now s) (cells (shares s) (clog c) (pfields s))]).
Proof. exact change_l. Qed.
Print Assumptions change_iff_differs_from_last_logged.

Theorem cells_eqb_is_equality : forall a b, cells_eqb a b = true <-> a = b.
Proof. exact cells_eqb_eq. Qed.
Print Assumptions cells_eqb_is_equality.

(* 'streak': a logger run logs every queued element exactly once, in FIFO order, and empties the queue *)
Theorem streak_fifo_drains : forall c s lg lgs k fs pf q r,
  crule c = Streak -> clog c = lg :: lgs -> pfields s = (k :: fs) :: pf ->
  lookup k (sdata (getsh (shares s) (snd (fst lg)))) = Some (VL q) ->
  active s = true -> file s <> None -> (r = Run \/ r = Stop) ->
  recs (file (step c s r)) = recs (file s) ++ map (fun x => Rec (now s) [Some (VZ x)]) q /\
  lookup k (sdata (getsh (shares (step c s r)) (snd (fst lg)))) = Some (VL []).
Proof. exact streak_run_l. Qed.
Print Assumptions streak_fifo_drains.

(* 'streak' on a dict / OrderedDict value: a logger run logs every queued (key, value) item exactly once IN
   INSERTION ORDER (FIFO: popitem() takes the newest, appendleft() restores the order) and empties the mapping *)
Theorem streak_mapping_fifo_drains : forall c s lg lgs k fs pf m r,
  crule c = Streak -> clog c = lg :: lgs -> pfields s = (k :: fs) :: pf ->
  lookup k (sdata (getsh (shares s) (snd (fst lg)))) = Some (VM m) ->
  active s = true -> file s <> None -> (r = Run \/ r = Stop) ->
  recs (file (step c s r)) = recs (file s) ++ map (fun kv => Rec (now s) [Some (VP (fst kv) (snd kv))]) m /\
  lookup k (sdata (getsh (shares (step c s r)) (snd (fst lg)))) = Some (VM []).
Proof. exact streak_mapping_run_l. Qed.
Print Assumptions streak_mapping_fifo_drains.

(* 'deck': a logger run logs every queued mapping exactly once in FIFO order (non-mappings are skipped,
   as coded) and empties the deck *)
Theorem deck_fifo_drains : forall c s lg lgs fs pf r,
  crule c = Deck -> clog c = lg :: lgs -> pfields s = fs :: pf ->
  active s = true -> file s <> None -> (r = Run \/ r = Stop) ->
  recs (file (step c s r)) = recs (file s) ++ deck_recs (now s) fs (sdeck (getsh (shares s) (snd (fst lg)))) /\
  sdeck (getsh (shares (step c s r)) (snd (fst lg))) = [].
Proof. exact deck_run_l. Qed.
Print Assumptions deck_fifo_drains.

Theorem deck_records_in_order : forall t fs d,
  map rec_cells (deck_recs t fs d) =
  flat_map (fun e => match e with DMap m => [map (fun k => lookupz k m) fs] | DOther _ => [] end) d.
Proof. exact deck_recs_cells. Qed.
Print Assumptions deck_records_in_order.

(* ---- history-level theorems ------------------------------------------------------------------ *)

(* 'deck' over ANY history of pushes, writes and logger controls: the cells of all records written so far
   followed by the cells of what is still queued are exactly the cells of everything ever queued (initial deck
   ++ every push, in order; non-mappings skipped): each queued mapping is logged exactly once, FIFO, across
   runs, nothing is lost or duplicated *)
Theorem deck_conservation : forall c t0 ss f0 tag i fs0 lgs ops,
  crule c = Deck -> clog c = (tag, i, fs0) :: lgs -> fs0 <> [] -> (i < length ss)%nat ->
  let s := run c t0 ss f0 ops in
  map rec_cells (recs (file s)) ++ entry_cells fs0 (sdeck (getsh (shares s) i)) =
  map rec_cells (recs f0) ++ entry_cells fs0 (sdeck (getsh ss i) ++ pushed i ops).
Proof. exact deck_conservation_l. Qed.
Print Assumptions deck_conservation.

(* 'streak' over ANY history of appends and logger controls (the streak share's fields are not overwritten by
   Write/Chg): elements logged so far ++ elements still queued = initial queue ++ everything appended *)
Theorem streak_conservation : forall c t0 ss f0 tag i k fs0 lgs q0 ops,
  crule c = Streak -> clog c = (tag, i, k :: fs0) :: lgs ->
  lookup k (sdata (getsh ss i)) = Some (VL q0) ->
  forallb (fun o => negb (touches i o)) ops = true ->
  let s := run c t0 ss f0 ops in
  flat_map rec_vals (recs (file s)) ++ queue k i s = flat_map rec_vals (recs f0) ++ q0 ++ appended i k ops.
Proof. exact streak_conservation_l. Qed.
Print Assumptions streak_conservation.

(* 'always', closed form: a new file is exactly the header followed by one snapshot per effective logger run *)
Theorem always_closed_form : forall c t0 ss ops, crule c = Always ->
  file (run c t0 ss None ops) = None \/
  exists h, file (run c t0 ss None ops) = Some (Hdr Always h :: snaps c (init c t0 ss None) ops).
Proof. exact always_closed_form_l. Qed.
Print Assumptions always_closed_form.

(* 'change' over whole histories with any number of STOP/START sessions: a RUN/STOP of a started logger writes a
   record iff the logged cells differ from the cells SEEN BY THE MOST RECENT LOGGER RUN, START INCLUDED
   (last_seen) ... *)
Theorem change_over_whole_histories : forall c t0 ss f0 ops r, crule c = Change -> (r = Run \/ r = Stop) ->
  let s := run c t0 ss f0 ops in
  active s = true ->
  exists seen, last_seen c (init c t0 ss f0) ops None = Some seen /\
    recs (file (step c s r)) = recs (file s) ++
      (if cells_eqb (cells (shares s) (clog c) (pfields s)) seen then []
       else [Rec (now s) (cells (shares s) (clog c) (pfields s))]).
Proof. exact change_whole_l. Qed.
Print Assumptions change_over_whole_histories.

(* ... because a restart START re-bases: prepare() sets lasts to the current cells, so START itself never
   writes a record (only the very first START of a Log does) -- a change made while the logger was stopped is
   never logged *)
Theorem change_restart_rebases : forall c t0 ss f0 ops, crule c = Change ->
  let s := run c t0 ss f0 ops in
  lstamp s <> None ->
  recs (file (step c s Start)) = recs (file s) /\
  lasts (step c s Start) = cells (shares s) (clog c) (pfields (step c s Start)).
Proof. exact change_restart_l. Qed.
Print Assumptions change_restart_rebases.

(* non-vacuity *)
Example c22_update_nonvacuous :
  recs (file (run wit_c 0 wit_ss None [Start; Tick; Write O [(0, VZ 7)]; Run; Tick; Run; Stop])) =
  [Rec 0 [Some (VZ 1)]; Rec 1 [Some (VZ 7)]].
Proof. vm_compute. reflexivity. Qed.

Example c22_change_nonvacuous :
  recs (file (run {| crule := Change; clog := [(0, O, [])] |} 0 wit_ss None
              [Start; Tick; Write O [(0, VZ 1)]; Run; Tick; Chg O [(0, VZ 2)]; Run; Tick; Run; Stop])) =
  [Rec 0 [Some (VZ 1)]; Rec 2 [Some (VZ 2)]].
Proof. vm_compute. reflexivity. Qed.

Example c22_deck_nonvacuous :
  recs (file (run {| crule := Deck; clog := [(0, O, [0; 1])] |} 0 wit_ss None
              [Start; Push O (DMap [(1, 5)]); Push O (DOther (OInt 3)); Push O (DMap [(0, 6); (1, 7)]); Tick; Run; Stop])) =
  [Rec 1 [None; Some (VZ 5)]; Rec 1 [Some (VZ 6); Some (VZ 7)]].
Proof. vm_compute. reflexivity. Qed.

(* falsy entries: None, 0, '', [] are not mappings -> consumed and skipped, what is queued behind them is still
   logged in the same run and the deck is left empty; the empty mapping {} IS a mapping -> a record of bare tabs *)
Example c22_deck_falsy_entries :
  let s := run {| crule := Deck; clog := [(0, O, [0; 1])] |} 0 wit_ss None
              [Push O (DMap [(0, 1)]); Push O (DOther ONone); Push O (DMap [(0, 2)]); Push O (DOther (OInt 0));
               Push O (DOther (OStr [])); Push O (DMap []); Push O (DOther (OList [])); Push O (DMap [(1, 3)]); Start] in
  (recs (file s), sdeck (getsh (shares s) O)) =
  ([Rec 0 [Some (VZ 1); None]; Rec 0 [Some (VZ 2); None]; Rec 0 [None; None]; Rec 0 [None; Some (VZ 3)]], []).
Proof. vm_compute. reflexivity. Qed.

Example c22_streak_mapping_nonvacuous :
  recs (file (run {| crule := Streak; clog := [(0, O, [0])] |} 0
              [{| sdata := [(0, VM [])]; sstamp := Some 0; sdeck := [] |}] None
              [Start; Put O 0 5 1; Put O 0 3 2; Put O 0 4 3; Tick; Run; Put O 0 9 4; Tick; Stop])) =
  [Rec 1 [Some (VP 5 1)]; Rec 1 [Some (VP 3 2)]; Rec 1 [Some (VP 4 3)]; Rec 2 [Some (VP 9 4)]].
Proof. vm_compute. reflexivity. Qed.

(* the logger runs in tick 1 and writes nothing; the loggee is updated later in tick 1; the next run records it *)
Example c22_update_after_silent_run :
  recs (file (run wit_c 0 wit_ss None [Start; Tick; Run; Write O [(0, VZ 7)]; Tick; Run; Stop])) =
  [Rec 0 [Some (VZ 1)]; Rec 2 [Some (VZ 7)]].
Proof. vm_compute. reflexivity. Qed.
