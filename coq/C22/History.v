(* C22 -- history-level theorems: conservation for deck and streak, closed form for always. *)
From Coq Require Import List ZArith Bool Lia.
Import ListNotations.
Require Import V.C22.Model V.C22.Proofs.
Open Scope Z_scope.

Lemma entry_cells_app fs a b : entry_cells fs (a ++ b) = entry_cells fs a ++ entry_cells fs b.
Proof. unfold entry_cells. apply flat_map_app. Qed.

Lemma pushed_cons i o ops : pushed i (o :: ops) = pushed i [o] ++ pushed i ops.
Proof. unfold pushed. cbn. rewrite app_nil_r. reflexivity. Qed.

Lemma appended_cons i k o ops : appended i k (o :: ops) = appended i k [o] ++ appended i k ops.
Proof. unfold appended. cbn. rewrite app_nil_r. reflexivity. Qed.

(* ---------- deck ---------- *)
Definition dk_inv (fs0 : list key) (n : nat) (s : st) : Prop :=
  open_ok s /\ (exists pf, pfields s = fs0 :: pf) /\ length (shares s) = n.

Lemma prep_default_keeps ss lg lgs fs0 pf : fs0 <> [] ->
  exists pf', prep_default ss (lg :: lgs) (fs0 :: pf) = fs0 :: pf'.
Proof. intros H. cbn. destruct fs0; [congruence|]. eexists. reflexivity. Qed.

Lemma deck_action c s lg lgs fs0 pf : crule c = Deck -> clog c = lg :: lgs -> pfields s = fs0 :: pf ->
  file s <> None ->
  let i := snd (fst lg) in
  map rec_cells (recs (file (action c s))) = map rec_cells (recs (file s)) ++ entry_cells fs0 (sdeck (getsh (shares s) i)) /\
  sdeck (getsh (shares (action c s)) i) = [] /\ length (shares (action c s)) = length (shares s) /\
  pfields (action c s) = pfields s.
Proof.
  intros R C P F i. unfold action. rewrite R. unfold log_deck. rewrite C, P. cbv zeta.
  rewrite file_set_log, recs_putline by exact F. rewrite deck_recs_filter, map_app, deck_recs_cells.
  split; [reflexivity|]. cbn -[getsh upd]. rewrite length_upd. split; [|split; [reflexivity|exact P]].
  fold i. destruct (Nat.lt_ge_cases i (length (shares s))) as [H|H].
  - rewrite getsh_upd_same by exact H. reflexivity.
  - rewrite upd_out by exact H. rewrite getsh_out by exact H. reflexivity.
Qed.

Lemma deck_step c tag i fs0 lgs n s o : crule c = Deck -> clog c = (tag, i, fs0) :: lgs -> fs0 <> [] ->
  (i < n)%nat -> dk_inv fs0 n s ->
  dk_inv fs0 n (step c s o) /\
  map rec_cells (recs (file (step c s o))) ++ entry_cells fs0 (sdeck (getsh (shares (step c s o)) i)) =
  map rec_cells (recs (file s)) ++ entry_cells fs0 (sdeck (getsh (shares s) i) ++ pushed i [o]).
Proof.
  intros R C Hfs Hi [O [[pf P] L]].
  assert (O' := open_ok_step c s o O).
  assert (W : forall s', file s' = file s -> pfields s' = pfields s -> length (shares s') = n ->
              open_ok s' -> sdeck (getsh (shares s') i) = sdeck (getsh (shares s) i) ++ pushed i [o] ->
              dk_inv fs0 n s' /\
              map rec_cells (recs (file s')) ++ entry_cells fs0 (sdeck (getsh (shares s') i)) =
              map rec_cells (recs (file s)) ++ entry_cells fs0 (sdeck (getsh (shares s) i) ++ pushed i [o])).
  { intros s' E1 E2 E3 E4 E5. split; [split; [exact E4|split; [exists pf; congruence|exact E3]]|]. rewrite E1, E5. reflexivity. }
  assert (SD : forall j (f : share -> share), (forall sh, sdeck (f sh) = sdeck sh) ->
               sdeck (getsh (upd (shares s) j f) i) = sdeck (getsh (shares s) i)).
  { intros j f Hf. destruct (Nat.eq_dec i j) as [Q|Q].
    - subst j. rewrite getsh_upd_same by lia. apply Hf.
    - rewrite getsh_upd_other by exact Q. reflexivity. }
  assert (ACT : forall s0, file s0 <> None -> pfields s0 = fs0 :: pf -> 
              map rec_cells (recs (file (action c s0))) ++ entry_cells fs0 (sdeck (getsh (shares (action c s0)) i)) =
              map rec_cells (recs (file s0)) ++ entry_cells fs0 (sdeck (getsh (shares s0) i)) /\
              length (shares (action c s0)) = length (shares s0) /\ pfields (action c s0) = pfields s0).
  { intros s0 F0 P0. destruct (deck_action c s0 (tag, i, fs0) lgs fs0 pf R C P0 F0) as [A1 [A2 [A3 A4]]].
    cbn in A1, A2. rewrite A1, A2. cbn. rewrite app_nil_r. auto. }
  destruct o.
  - apply W; try reflexivity; try assumption. cbn. rewrite app_nil_r. reflexivity.
  - apply W; try reflexivity; try assumption; cbn -[getsh upd]; [rewrite length_upd; exact L|].
    rewrite app_nil_r. apply SD. reflexivity.
  - apply W; try reflexivity; try assumption; cbn -[getsh upd]; [rewrite length_upd; exact L|].
    rewrite app_nil_r. apply SD. reflexivity.
  - apply W; try reflexivity; try assumption; cbn -[getsh upd]; [rewrite length_upd; exact L|].
    destruct (Nat.eqb s0 i) eqn:Q.
    + apply Nat.eqb_eq in Q. subst s0. rewrite getsh_upd_same by lia. reflexivity.
    + apply Nat.eqb_neq in Q. rewrite getsh_upd_other by congruence. rewrite app_nil_r. reflexivity.
  - apply W; try reflexivity; try assumption; cbn -[getsh upd]; [rewrite length_upd; exact L|].
    rewrite app_nil_r. apply SD. reflexivity.
  - apply W; try reflexivity; try assumption; cbn -[getsh upd]; [rewrite length_upd; exact L|].
    rewrite app_nil_r. apply SD. reflexivity.
  - (* Run *) cbn [step pushed flat_map]. cbn [step] in O'. rewrite app_nil_r. destruct (active s) eqn:A.
    + destruct (ACT s (O A) P) as [A1 [A2 A3]]. split; [|exact A1].
      split; [exact O'|]. split; [exists pf; congruence|]. congruence.
    + split; [|reflexivity]. split; [exact O|]. split; [exists pf; exact P|exact L].
  - (* Start *) cbn [step pushed flat_map]. rewrite app_nil_r.
    pose proof (start_prep c s) as SP. cbv zeta in SP. destruct SP as [_ [E2 [_ [_ [E5 [E6 _]]]]]].
    assert (PP : exists pf', pfields (prepare c (reopen s)) = fs0 :: pf').
    { unfold prepare. rewrite R. cbn. rewrite C, P. destruct fs0; [congruence|]. eexists. reflexivity. }
    destruct PP as [pf' PP].
    assert (ACT' : map rec_cells (recs (file (action c (prepare c (reopen s))))) ++
                   entry_cells fs0 (sdeck (getsh (shares (action c (prepare c (reopen s)))) i)) =
                   map rec_cells (recs (file (prepare c (reopen s)))) ++
                   entry_cells fs0 (sdeck (getsh (shares (prepare c (reopen s))) i)) /\
                   length (shares (action c (prepare c (reopen s)))) = length (shares (prepare c (reopen s))) /\
                   pfields (action c (prepare c (reopen s))) = pfields (prepare c (reopen s))).
    { destruct (deck_action c (prepare c (reopen s)) (tag, i, fs0) lgs fs0 pf' R C PP E5) as [A1 [A2 [A3 A4]]].
      cbn in A1, A2. rewrite A1, A2. cbn. rewrite app_nil_r. auto. }
    destruct ACT' as [A1 [A2 A3]].
    change (file (set_active ?x true)) with (file x). change (shares (set_active ?x true)) with (shares x).
    split.
    + split; [exact O'|]. split; [exists pf'; change (pfields (set_active ?x true)) with (pfields x); congruence|].
      change (shares (set_active ?x true)) with (shares x). rewrite A2, E2. exact L.
    + rewrite A1, E6, E2. reflexivity.
  - (* Stop *) cbn [step pushed flat_map]. cbn [step] in O'. rewrite app_nil_r. destruct (active s) eqn:A.
    + destruct (ACT s (O A) P) as [A1 [A2 A3]].
      change (file (set_active ?x false)) with (file x). change (shares (set_active ?x false)) with (shares x).
      split; [|exact A1]. split; [exact O'|].
      split; [exists pf; change (pfields (set_active ?x false)) with (pfields x); congruence|].
      change (shares (set_active ?x false)) with (shares x). congruence.
    + split; [|reflexivity]. split; [exact O|]. split; [exists pf; exact P|exact L].
Qed.

Lemma deck_conservation_from c tag i fs0 lgs n : crule c = Deck -> clog c = (tag, i, fs0) :: lgs -> fs0 <> [] ->
  (i < n)%nat -> forall ops s, dk_inv fs0 n s ->
  map rec_cells (recs (file (runfrom c s ops))) ++ entry_cells fs0 (sdeck (getsh (shares (runfrom c s ops)) i)) =
  map rec_cells (recs (file s)) ++ entry_cells fs0 (sdeck (getsh (shares s) i) ++ pushed i ops).
Proof.
  intros R C Hfs Hi ops. induction ops as [|o ops IH]; intros s H.
  - cbn. rewrite app_nil_r. reflexivity.
  - cbn [runfrom fold_left]. change (fold_left (step c) ops (step c s o)) with (runfrom c (step c s o) ops).
    destruct (deck_step c tag i fs0 lgs n s o R C Hfs Hi H) as [H' E].
    rewrite IH by exact H'. rewrite pushed_cons. rewrite !entry_cells_app in *. rewrite app_assoc, E.
    rewrite <- !app_assoc. reflexivity.
Qed.

Lemma deck_conservation_l c t0 ss f0 tag i fs0 lgs ops :
  crule c = Deck -> clog c = (tag, i, fs0) :: lgs -> fs0 <> [] -> (i < length ss)%nat ->
  let s := run c t0 ss f0 ops in
  map rec_cells (recs (file s)) ++ entry_cells fs0 (sdeck (getsh (shares s) i)) =
  map rec_cells (recs f0) ++ entry_cells fs0 (sdeck (getsh ss i) ++ pushed i ops).
Proof.
  intros R C Hfs Hi. cbv zeta. unfold run.
  rewrite (deck_conservation_from c tag i fs0 lgs (length ss) R C Hfs Hi); [reflexivity|].
  split; [unfold open_ok; cbn; discriminate|]. split; [|reflexivity].
  cbn. rewrite C. cbn. eexists. reflexivity.
Qed.

(* ---------- streak ---------- *)
Definition queue (k : key) (i : nat) (s : st) : list Z :=
  match lookup k (sdata (getsh (shares s) i)) with Some (VL q) => q | _ => [] end.
Definition is_queue (k : key) (i : nat) (ss : list share) : Prop :=
  exists q, lookup k (sdata (getsh ss i)) = Some (VL q).

Lemma lookup_set1_other k k' v d : k <> k' -> lookup k (set1 k' v d) = lookup k d.
Proof.
  intros N. induction d as [|[k0 v0] d IH]; cbn.
  - destruct (Z.eqb k k') eqn:E; [apply Z.eqb_eq in E; congruence|reflexivity].
  - destruct (Z.eqb k' k0) eqn:E; cbn.
    + apply Z.eqb_eq in E. subst k0. destruct (Z.eqb k k') eqn:E'; [apply Z.eqb_eq in E'; congruence|reflexivity].
    + destruct (Z.eqb k k0); [reflexivity|exact IH].
Qed.

Lemma vals_streak t q : flat_map rec_vals (map (fun x => Rec t [Some (VZ x)]) q) = q.
Proof. induction q; cbn; congruence. Qed.

Lemma streak_action c s lg lgs k fs pf q :
  crule c = Streak -> clog c = lg :: lgs -> pfields s = (k :: fs) :: pf ->
  lookup k (sdata (getsh (shares s) (snd (fst lg)))) = Some (VL q) -> file s <> None ->
  recs (file (action c s)) = recs (file s) ++ map (fun x => Rec (now s) [Some (VZ x)]) q /\
  lookup k (sdata (getsh (shares (action c s)) (snd (fst lg)))) = Some (VL []) /\
  length (shares (action c s)) = length (shares s) /\ pfields (action c s) = pfields s.
Proof.
  intros R C P Lk F.
  assert (In_range : (snd (fst lg) < length (shares s))%nat).
  { destruct (Nat.lt_ge_cases (snd (fst lg)) (length (shares s))) as [H|H]; [exact H|].
    rewrite getsh_out in Lk by exact H. discriminate Lk. }
  assert (SF : streak_field (shares s) lg (k :: fs) = Some k).
  { unfold streak_field. destruct (sdata (getsh (shares s) (snd (fst lg)))) as [|[k0 v0] d]; [discriminate Lk|reflexivity]. }
  unfold action. rewrite R. unfold log_streak. rewrite C, P. cbv zeta. rewrite SF, Lk.
  rewrite file_set_log. rewrite recs_putline by exact F. rewrite streak_recs_filter.
  split; [reflexivity|]. cbn -[getsh upd]. rewrite getsh_upd_same by exact In_range. cbn -[getsh upd].
  rewrite length_upd. split; [apply lookup_set1_same|]. split; [reflexivity|exact P].
Qed.

Definition sk_inv (k : key) (i n : nat) (s : st) : Prop :=
  open_ok s /\ (exists fs pf, pfields s = (k :: fs) :: pf) /\ length (shares s) = n /\ is_queue k i (shares s).

Lemma streak_step c tag i k fs0 lgs n s o : crule c = Streak -> clog c = (tag, i, k :: fs0) :: lgs ->
  (i < n)%nat -> touches i o = false -> sk_inv k i n s ->
  sk_inv k i n (step c s o) /\
  flat_map rec_vals (recs (file (step c s o))) ++ queue k i (step c s o) =
  flat_map rec_vals (recs (file s)) ++ queue k i s ++ appended i k [o].
Proof.
  intros R C Hi T [O [[fs [pf P]] [L [q Q]]]].
  assert (O' := open_ok_step c s o O).
  assert (Qs : queue k i s = q) by (unfold queue; rewrite Q; reflexivity).
  assert (W : forall s' q', file s' = file s -> pfields s' = pfields s -> length (shares s') = n ->
              open_ok s' -> lookup k (sdata (getsh (shares s') i)) = Some (VL q') ->
              q' = q ++ appended i k [o] ->
              sk_inv k i n s' /\
              flat_map rec_vals (recs (file s')) ++ queue k i s' =
              flat_map rec_vals (recs (file s)) ++ queue k i s ++ appended i k [o]).
  { intros s' q' E1 E2 E3 E4 E5 E6. split.
    - split; [exact E4|]. split; [exists fs, pf; congruence|]. split; [exact E3|exists q'; exact E5].
    - unfold queue at 1. rewrite E5, E1, Qs, E6. reflexivity. }
  assert (SD : forall j (f : share -> share), (forall sh, sdata (f sh) = sdata sh) ->
               sdata (getsh (upd (shares s) j f) i) = sdata (getsh (shares s) i)).
  { intros j f Hf. destruct (Nat.eq_dec i j) as [E|E].
    - subst j. rewrite getsh_upd_same by lia. apply Hf.
    - rewrite getsh_upd_other by exact E. reflexivity. }
  assert (ACT : forall s0 fs1 pf1 q0, file s0 <> None -> pfields s0 = (k :: fs1) :: pf1 ->
              lookup k (sdata (getsh (shares s0) i)) = Some (VL q0) ->
              flat_map rec_vals (recs (file (action c s0))) ++ queue k i (action c s0) =
              flat_map rec_vals (recs (file s0)) ++ q0 /\
              length (shares (action c s0)) = length (shares s0) /\ pfields (action c s0) = pfields s0 /\
              is_queue k i (shares (action c s0))).
  { intros s0 fs1 pf1 q0 F0 P0 Q0.
    destruct (streak_action c s0 (tag, i, k :: fs0) lgs k fs1 pf1 q0 R C P0 Q0 F0) as [A1 [A2 [A3 A4]]].
    cbn [fst snd] in A2. unfold queue. rewrite A2, A1, flat_map_app, vals_streak, app_nil_r.
    repeat split; try assumption. exists []. exact A2. }
  destruct o; try discriminate T.
  - apply (W _ q); try reflexivity; try assumption. cbn. rewrite app_nil_r. reflexivity.
  - cbn in T. apply Nat.eqb_neq in T. apply (W _ q); try reflexivity; try assumption; cbn -[getsh upd].
    + rewrite length_upd. exact L.
    + rewrite getsh_upd_other by congruence. exact Q.
    + rewrite app_nil_r. reflexivity.
  - cbn in T. apply Nat.eqb_neq in T. apply (W _ q); try reflexivity; try assumption; cbn -[getsh upd].
    + rewrite length_upd. exact L.
    + rewrite getsh_upd_other by congruence. exact Q.
    + rewrite app_nil_r. reflexivity.
  - apply (W _ q); try reflexivity; try assumption; cbn -[getsh upd].
    + rewrite length_upd. exact L.
    + rewrite SD by reflexivity. exact Q.
    + rewrite app_nil_r. reflexivity.
  - (* Append *)
    destruct (Nat.eqb s0 i && Z.eqb k0 k) eqn:B.
    + apply andb_true_iff in B. destruct B as [B1 B2]. apply Nat.eqb_eq in B1. apply Z.eqb_eq in B2. subst s0 k0.
      apply (W _ (q ++ [x])); try reflexivity; try assumption; cbn -[getsh upd].
      * rewrite length_upd. exact L.
      * rewrite getsh_upd_same by lia. cbn. unfold app_val. rewrite Q. apply lookup_set1_same.
      * rewrite Nat.eqb_refl, Z.eqb_refl. reflexivity.
    + apply (W _ q); try reflexivity; try assumption; cbn -[getsh upd].
      * rewrite length_upd. exact L.
      * destruct (Nat.eq_dec i s0) as [E|E].
        -- subst s0. rewrite getsh_upd_same by lia. cbn. rewrite Nat.eqb_refl in B. cbn in B.
           apply Z.eqb_neq in B. unfold app_val. destruct (lookup k0 (sdata (getsh (shares s) i))) as [[z|l|m|a b]|]; try exact Q.
           rewrite lookup_set1_other by congruence. exact Q.
        -- rewrite getsh_upd_other by exact E. exact Q.
      * rewrite B. rewrite app_nil_r. reflexivity.
  - (* Put *) apply (W _ q); try reflexivity; try assumption; cbn -[getsh upd].
    + rewrite length_upd. exact L.
    + destruct (Nat.eq_dec i s0) as [E|E].
      * subst s0. rewrite getsh_upd_same by lia. cbn. unfold put_val.
        destruct (Z.eq_dec k0 k) as [K|K].
        -- subst k0. rewrite Q. exact Q.
        -- destruct (lookup k0 (sdata (getsh (shares s) i))) as [[z|l|m|a b]|]; try exact Q.
           rewrite lookup_set1_other by congruence. exact Q.
      * rewrite getsh_upd_other by exact E. exact Q.
    + rewrite app_nil_r. reflexivity.
  - (* Run *) cbn [step appended flat_map]. cbn [step] in O'. rewrite !app_nil_r. destruct (active s) eqn:A.
    + destruct (ACT s fs pf q (O A) P Q) as [A1 [A2 [A3 A4]]]. split.
      * split; [exact O'|]. split; [exists fs, pf; congruence|]. split; [congruence|exact A4].
      * rewrite A1, Qs. reflexivity.
    + split; [|reflexivity]. split; [exact O|]. split; [exists fs, pf; exact P|]. split; [exact L|exists q; exact Q].
  - (* Start *) cbn [step appended flat_map]. rewrite !app_nil_r.
    pose proof (start_prep c s) as SP. cbv zeta in SP. destruct SP as [_ [E2 [_ [_ [E5 [E6 _]]]]]].
    assert (PP : exists pf', pfields (prepare c (reopen s)) = [k] :: pf').
    { unfold prepare. rewrite R. cbn. rewrite C, P. cbn. eexists. reflexivity. }
    destruct PP as [pf' PP].
    assert (Q' : lookup k (sdata (getsh (shares (prepare c (reopen s))) i)) = Some (VL q)) by (rewrite E2; exact Q).
    destruct (ACT (prepare c (reopen s)) [] pf' q E5 PP Q') as [A1 [A2 [A3 A4]]].
    change (file (set_active ?x true)) with (file x).
    change (queue k i (set_active ?x true)) with (queue k i x). split.
    + split; [exact O'|]. split; [exists [], pf'; change (pfields (set_active ?x true)) with (pfields x); congruence|].
      change (shares (set_active ?x true)) with (shares x). split; [rewrite A2, E2; exact L|exact A4].
    + rewrite A1, E6, Qs. reflexivity.
  - (* Stop *) cbn [step appended flat_map]. cbn [step] in O'. rewrite !app_nil_r. destruct (active s) eqn:A.
    + destruct (ACT s fs pf q (O A) P Q) as [A1 [A2 [A3 A4]]].
      change (file (set_active ?x false)) with (file x).
      change (queue k i (set_active ?x false)) with (queue k i x). split.
      * split; [exact O'|]. split; [exists fs, pf; change (pfields (set_active ?x false)) with (pfields x); congruence|].
        change (shares (set_active ?x false)) with (shares x). split; [congruence|exact A4].
      * rewrite A1, Qs. reflexivity.
    + split; [|reflexivity]. split; [exact O|]. split; [exists fs, pf; exact P|]. split; [exact L|exists q; exact Q].
Qed.

Lemma streak_conservation_from c tag i k fs0 lgs n : crule c = Streak -> clog c = (tag, i, k :: fs0) :: lgs ->
  (i < n)%nat -> forall ops s, forallb (fun o => negb (touches i o)) ops = true -> sk_inv k i n s ->
  flat_map rec_vals (recs (file (runfrom c s ops))) ++ queue k i (runfrom c s ops) =
  flat_map rec_vals (recs (file s)) ++ queue k i s ++ appended i k ops.
Proof.
  intros R C Hi ops. induction ops as [|o ops IH]; intros s T H.
  - cbn. rewrite app_nil_r. reflexivity.
  - cbn in T. apply andb_true_iff in T. destruct T as [T1 T2]. apply negb_true_iff in T1.
    cbn [runfrom fold_left]. change (fold_left (step c) ops (step c s o)) with (runfrom c (step c s o) ops).
    destruct (streak_step c tag i k fs0 lgs n s o R C Hi T1 H) as [H' E].
    rewrite IH by assumption. rewrite (appended_cons i k o ops). rewrite app_assoc, E.
    rewrite <- !app_assoc. reflexivity.
Qed.

Lemma streak_conservation_l c t0 ss f0 tag i k fs0 lgs q0 ops :
  crule c = Streak -> clog c = (tag, i, k :: fs0) :: lgs ->
  lookup k (sdata (getsh ss i)) = Some (VL q0) ->
  forallb (fun o => negb (touches i o)) ops = true ->
  let s := run c t0 ss f0 ops in
  flat_map rec_vals (recs (file s)) ++ queue k i s = flat_map rec_vals (recs f0) ++ q0 ++ appended i k ops.
Proof.
  intros R C Q T. cbv zeta. unfold run.
  assert (Hi : (i < length ss)%nat).
  { destruct (Nat.lt_ge_cases i (length ss)) as [H|H]; [exact H|]. rewrite getsh_out in Q by exact H. discriminate Q. }
  rewrite (streak_conservation_from c tag i k fs0 lgs (length ss) R C Hi ops); [| exact T |].
  - unfold queue at 1. cbn -[getsh]. rewrite Q. reflexivity.
  - split; [unfold open_ok; cbn; discriminate|]. split; [cbn; rewrite C; cbn; eauto|]. split; [reflexivity|exists q0; exact Q].
Qed.

(* ---------- always: closed form ---------- *)
Lemma always_closed_from c : crule c = Always -> forall ops s, open_ok s ->
  recs (file (runfrom c s ops)) = recs (file s) ++ snaps c s ops.
Proof.
  intros R ops. induction ops as [|o ops IH]; intros s O; cbn [runfrom fold_left snaps]; [rewrite app_nil_r; reflexivity|].
  change (fold_left (step c) ops (step c s o)) with (runfrom c (step c s o) ops).
  rewrite IH by (apply open_ok_step; exact O). rewrite app_assoc. f_equal.
  destruct o; cbn [step]; try (rewrite app_nil_r; reflexivity).
  - destruct (active s) eqn:A; [|rewrite app_nil_r; reflexivity].
    unfold action. rewrite R. unfold dolog. rewrite file_set_log, recs_putline by (apply O; exact A). reflexivity.
  - pose proof (start_prep c s) as SP. cbv zeta in SP. destruct SP as [_ [E2 [E3 [_ [E5 [E6 _]]]]]].
    unfold action. rewrite R. rewrite file_set_active. unfold dolog. rewrite file_set_log, recs_putline by exact E5.
    rewrite E6, E2, E3. reflexivity.
  - destruct (active s) eqn:A; [|rewrite app_nil_r; reflexivity]. rewrite file_set_active.
    unfold action. rewrite R. unfold dolog. rewrite file_set_log, recs_putline by (apply O; exact A). reflexivity.
Qed.

Lemma always_closed_form_l c t0 ss ops : crule c = Always ->
  file (run c t0 ss None ops) = None \/
  exists h, file (run c t0 ss None ops) = Some (Hdr Always h :: snaps c (init c t0 ss None) ops).
Proof.
  intros R. destruct (header_new_l c t0 ss ops) as [[F _]|[h [rs [F A]]]]; [left; exact F|]. right.
  exists h. rewrite F, R. f_equal. f_equal.
  pose proof (always_closed_from c R ops (init c t0 ss None)) as G.
  unfold run in F. rewrite F in G. cbn in G. rewrite allrec_filter in G by exact A. apply G.
  unfold open_ok; cbn; discriminate.
Qed.

(* ---------- change over whole histories (any number of STOP/START sessions) ---------- *)
Lemma cells_eqb_refl a : cells_eqb a a = true.
Proof. apply cells_eqb_eq. reflexivity. Qed.

Definition cg_inv (s : st) (acc : option (list (option val))) : Prop :=
  (lstamp s = None -> acc = None /\ active s = false) /\ (lstamp s <> None -> acc = Some (lasts s)).

Lemma change_action_some c s : crule c = Change -> lstamp s <> None ->
  lasts (action c s) = cells (shares s) (clog c) (pfields s) /\ lstamp (action c s) <> None /\
  file (action c s) = putline (file s)
    (if cells_eqb (cells (shares s) (clog c) (pfields s)) (lasts s) then []
     else [Rec (now s) (cells (shares s) (clog c) (pfields s))]).
Proof.
  intros R L. unfold action. rewrite R. destruct (lstamp s) eqn:E; [|congruence].
  destruct (cells_eqb _ _) eqn:Q.
  - apply cells_eqb_eq in Q. repeat split; [congruence|congruence|].
    destruct (file s); cbn; [rewrite app_nil_r|]; reflexivity.
  - repeat split. cbn. discriminate.
Qed.

Lemma change_step_inv c s o acc : crule c = Change -> cg_inv s acc ->
  cg_inv (step c s o)
    (match o with
     | Start => Some (cells (shares s) (clog c) (pfields (prepare c (reopen s))))
     | Run | Stop => if active s then Some (cells (shares s) (clog c) (pfields s)) else acc
     | _ => acc
     end).
Proof.
  intros R [I1 I2].
  destruct o; try (split; [exact I1|exact I2]).
  - (* Run *) cbn [step]. destruct (active s) eqn:A; [|split; [intros X; destruct (I1 X); split; [assumption|exact A]|exact I2]].
    assert (L : lstamp s <> None). { intros X. destruct (I1 X). congruence. }
    destruct (change_action_some c s R L) as [A1 [A2 _]]. unfold cg_inv. split; [congruence|]. intros _. congruence.
  - (* Start *) cbn [step]. unfold cg_inv.
    pose proof (start_prep c s) as SP. cbv zeta in SP. destruct SP as [E1 [E2 _]].
    assert (LP : lasts (prepare c (reopen s)) =
                 cells (shares (prepare c (reopen s))) (clog c) (pfields (prepare c (reopen s)))).
    { unfold prepare. rewrite R. reflexivity. }
    change (lstamp (set_active ?x true)) with (lstamp x). change (lasts (set_active ?x true)) with (lasts x).
    change (active (set_active ?x true)) with true.
    destruct (lstamp s) eqn:EL.
    + assert (L : lstamp (prepare c (reopen s)) <> None) by (rewrite E1; discriminate).
      destruct (change_action_some c _ R L) as [A1 [A2 _]]. split; [congruence|]. intros _. rewrite A1, E2. reflexivity.
    + rewrite first_log by (rewrite ?E1, ?R; congruence). unfold dolog. rewrite lstamp_set_log.
      change (lasts (set_log ?x _ _)) with (lasts x). split; [discriminate|]. intros _. rewrite LP, E2. reflexivity.
  - (* Stop *) cbn [step]. destruct (active s) eqn:A; [|split; [intros X; destruct (I1 X); split; [assumption|exact A]|exact I2]].
    assert (L : lstamp s <> None). { intros X. destruct (I1 X). congruence. }
    destruct (change_action_some c s R L) as [A1 [A2 _]]. unfold cg_inv.
    change (lstamp (set_active ?x false)) with (lstamp x). change (lasts (set_active ?x false)) with (lasts x).
    split; [congruence|]. intros _. congruence.
Qed.

Lemma change_last_seen c : crule c = Change -> forall ops s acc, cg_inv s acc ->
  cg_inv (runfrom c s ops) (last_seen c s ops acc).
Proof.
  intros R ops. induction ops as [|o ops IH]; intros s acc H; [exact H|].
  cbn [runfrom fold_left last_seen]. apply IH. apply change_step_inv; assumption.
Qed.

Lemma change_whole_l c t0 ss f0 ops r : crule c = Change -> (r = Run \/ r = Stop) ->
  let s := run c t0 ss f0 ops in
  active s = true ->
  exists seen, last_seen c (init c t0 ss f0) ops None = Some seen /\
    recs (file (step c s r)) = recs (file s) ++
      (if cells_eqb (cells (shares s) (clog c) (pfields s)) seen then []
       else [Rec (now s) (cells (shares s) (clog c) (pfields s))]).
Proof.
  intros R Hr s A.
  assert (I : cg_inv s (last_seen c (init c t0 ss f0) ops None)).
  { unfold s, run. apply change_last_seen; [exact R|]. split; [intros _; split; reflexivity|cbn; congruence]. }
  destruct I as [I1 I2].
  assert (L : lstamp s <> None). { intros X. destruct (I1 X). congruence. }
  exists (lasts s). split; [apply I2, L|].
  assert (F : file s <> None) by (apply (open_ok_run c t0 ss f0 ops); exact A).
  destruct (change_action_some c s R L) as [_ [_ A3]].
  assert (G : recs (file (action c s)) = recs (file s) ++
      (if cells_eqb (cells (shares s) (clog c) (pfields s)) (lasts s) then []
       else [Rec (now s) (cells (shares s) (clog c) (pfields s))])).
  { rewrite A3, recs_putline by exact F. destruct (cells_eqb _ _); reflexivity. }
  destruct Hr; subst r; cbn [step]; rewrite A; rewrite ?file_set_active; exact G.
Qed.

(* a restart START never writes a record: prepare() re-bases lasts to the current cells first *)
Lemma change_restart_l c t0 ss f0 ops : crule c = Change ->
  let s := run c t0 ss f0 ops in
  lstamp s <> None ->
  recs (file (step c s Start)) = recs (file s) /\
  lasts (step c s Start) = cells (shares s) (clog c) (pfields (step c s Start)).
Proof.
  intros R s L. cbn [step].
  pose proof (start_prep c s) as SP. cbv zeta in SP. destruct SP as [E1 [E2 [_ [_ [E5 [E6 _]]]]]].
  assert (LP : lasts (prepare c (reopen s)) =
               cells (shares (prepare c (reopen s))) (clog c) (pfields (prepare c (reopen s)))).
  { unfold prepare. rewrite R. reflexivity. }
  assert (L' : lstamp (prepare c (reopen s)) <> None) by (rewrite E1; exact L).
  destruct (change_action_some c _ R L') as [A1 [_ A3]].
  rewrite file_set_active. change (lasts (set_active ?x true)) with (lasts x).
  change (pfields (set_active ?x true)) with (pfields x).
  split.
  - rewrite A3, LP, cells_eqb_refl. rewrite recs_putline by exact E5. cbn. rewrite app_nil_r. exact E6.
  - rewrite A1, E2. f_equal.
    destruct (action_shape c (prepare c (reopen s))) as [_ [_ [_ [_ [X _]]]]]. symmetry. exact X.
Qed.

(* ---------- streak on a mapping (dict) value: one run drains it in insertion (FIFO) order ---------- *)
Lemma mstreak_recs_filter t m : filter is_rec (mstreak_recs t m) = mstreak_recs t m.
Proof. unfold mstreak_recs. induction m; cbn; congruence. Qed.

Lemma streak_mapping_run_l c s lg lgs k fs pf m r :
  crule c = Streak -> clog c = lg :: lgs -> pfields s = (k :: fs) :: pf ->
  lookup k (sdata (getsh (shares s) (snd (fst lg)))) = Some (VM m) ->
  active s = true -> file s <> None -> (r = Run \/ r = Stop) ->
  recs (file (step c s r)) = recs (file s) ++ map (fun kv => Rec (now s) [Some (VP (fst kv) (snd kv))]) m /\
  lookup k (sdata (getsh (shares (step c s r)) (snd (fst lg)))) = Some (VM []).
Proof.
  intros R C P Lk A F Hr.
  assert (In_range : (snd (fst lg) < length (shares s))%nat).
  { destruct (Nat.lt_ge_cases (snd (fst lg)) (length (shares s))) as [H|H]; [exact H|].
    rewrite getsh_out in Lk by exact H. discriminate Lk. }
  assert (SF : streak_field (shares s) lg (k :: fs) = Some k).
  { unfold streak_field. destruct (sdata (getsh (shares s) (snd (fst lg)))) as [|[k0 v0] d]; [discriminate Lk|reflexivity]. }
  assert (G : recs (file (action c s)) = recs (file s) ++ map (fun kv => Rec (now s) [Some (VP (fst kv) (snd kv))]) m /\
              lookup k (sdata (getsh (shares (action c s)) (snd (fst lg)))) = Some (VM [])).
  { unfold action. rewrite R. unfold log_streak. rewrite C, P. cbv zeta. rewrite SF, Lk.
    rewrite file_set_log. rewrite recs_putline by exact F. rewrite mstreak_recs_filter.
    split; [reflexivity|]. cbn -[getsh upd]. rewrite getsh_upd_same by exact In_range. cbn.
    apply lookup_set1_same. }
  destruct Hr; subst r; cbn [step]; rewrite A; exact G.
Qed.
