(* C22 -- log rules (ioflo/base/logging.py: Log.once/always/update/change/streak/deck/never,
   Log.prepare/buildHeader/log/logStreak/logDeck, Log.reopen (the [first] flag),
   Logger.makeRunner START/RUN/STOP with one Log).   Hand model (tie H).  Definitions only.

   time     = Z ticks (the harness uses store.stamp = tick * 0.125, exact in binary64)
   keys/tags= Z (interned by the harness: field f<k>, tag t<n>)
   value    = VZ int | VL list-of-int (list / deque drained by rule streak) | VM ordered mapping int->int
              (dict / OrderedDict drained by rule streak, logged as (key, value) items = VP)
   share    = data (insertion-ordered fields), stamp (None = never stamped), deck
   deck entry = DMap ordered mapping int->int (incl. the EMPTY mapping {}, which is falsy but IS a mapping:
              logDeck writes a record of bare tabs for it) | DOther o, any entry that is not a Mapping:
              ONone (a literal None: Share.push / Deck.push accept it), OInt (incl. 0), OStr code points
              (incl. ''), OList (incl. []).  logDeck pulls `while loggee.deck` (the LENGTH of the deque, never
              the truth value of an entry), so every DOther entry is consumed and skipped, falsy or not.
   file     = list of lines: Hdr rule columns | Rec time cells   (cell None = bare tab, the
              field is not in the loggee / deck entry)
   Not modelled: field deletion, binary kind, console output,
   list values aliased by [change]'s lasts (the harness never gives rule change a list field).  *)
From Coq Require Import List ZArith Bool.
Import ListNotations.
Open Scope Z_scope.

Inductive val := VZ (z : Z) | VL (l : list Z) | VM (m : list (Z * Z)) | VP (k v : Z).
Definition key := Z.
Definition data := list (key * val).
Inductive other := ONone | OInt (z : Z) | OStr (s : list Z) | OList (l : list Z).
Inductive dentry := DMap (m : list (key * Z)) | DOther (o : other).

Record share := { sdata : data; sstamp : option Z; sdeck : list dentry }.

Inductive rule := Never | Once | Always | Update | Change | Streak | Deck.

(* one loggee: tag, index of the share in the store, field selection given to addLoggee *)
Definition loggee := (Z * nat * list key)%type.
Record cfg := { crule : rule; clog : list loggee }.

Inductive line :=
| Hdr (r : rule) (cols : list (Z * option key))
| Rec (t : Z) (cells : list (option val)).

Inductive op :=
| Tick                                    (* store.advanceStamp(dt)            *)
| Write (s : nat) (kvs : data)            (* share.update(kvs): fields + stamp *)
| Chg (s : nat) (kvs : data)              (* share.change(kvs): fields only    *)
| Push (s : nat) (e : dentry)             (* share.push(e)                     *)
| Append (s : nat) (k : key) (x : Z)      (* share[k].append(x)                *)
| Put (s : nat) (k : key) (mk mv : Z)     (* share[k][mk] = mv (dict item)     *)
| Run | Start | Stop.                     (* logger.runner.send(RUN|START|STOP) *)

Record st := {
  now : Z;
  shares : list share;
  lstamp : option Z;            (* Log.stamp *)
  first : bool;                 (* Log.first *)
  pfields : list (list key);    (* Log.fields values, parallel to clog *)
  lasts : list (option val);    (* Log.lasts flattened in cell order *)
  hdr : list (Z * option key);  (* columns of Log.header *)
  file : option (list line);    (* None = the file does not exist *)
  active : bool                 (* Logger.status <> STOPPED *)
}.

(* ---- shares ---------------------------------------------------------------- *)
Fixpoint lookup (k : key) (d : data) : option val :=
  match d with
  | [] => None
  | (k', v) :: d' => if Z.eqb k k' then Some v else lookup k d'
  end.

Fixpoint set1 (k : key) (v : val) (d : data) : data :=
  match d with
  | [] => [(k, v)]
  | (k', v') :: d' => if Z.eqb k k' then (k', v) :: d' else (k', v') :: set1 k v d'
  end.

Definition setall (kvs d : data) : data := fold_left (fun d kv => set1 (fst kv) (snd kv) d) kvs d.

Definition empty_share : share := {| sdata := []; sstamp := None; sdeck := [] |}.
Definition getsh (ss : list share) (i : nat) : share := nth i ss empty_share.

Fixpoint upd {A} (l : list A) (i : nat) (f : A -> A) : list A :=
  match l, i with
  | [], _ => []
  | x :: l', O => f x :: l'
  | x :: l', S i' => x :: upd l' i' f
  end.

Definition app_val (k : key) (x : Z) (d : data) : data :=
  match lookup k d with
  | Some (VL l) => set1 k (VL (l ++ [x])) d
  | _ => d
  end.

(* dict item assignment: an existing key keeps its position, a new key goes last *)
Fixpoint setz (k v : Z) (m : list (Z * Z)) : list (Z * Z) :=
  match m with
  | [] => [(k, v)]
  | (k', v') :: m' => if Z.eqb k k' then (k', v) :: m' else (k', v') :: setz k v m'
  end.
Definition put_val (k : key) (mk mv : Z) (d : data) : data :=
  match lookup k d with
  | Some (VM m) => set1 k (VM (setz mk mv m)) d
  | _ => d
  end.

(* ---- one log line of Log.log: every prepared field of every loggee ----------- *)
Definition cells_of (ss : list share) (lg : loggee) (fs : list key) : list (option val) :=
  map (fun k => lookup k (sdata (getsh ss (snd (fst lg))))) fs.

Fixpoint cells (ss : list share) (lgs : list loggee) (pf : list (list key)) : list (option val) :=
  match lgs, pf with
  | lg :: lgs', fs :: pf' => cells_of ss lg fs ++ cells ss lgs' pf'
  | _, _ => []
  end.

Definition putline (f : option (list line)) (l : list line) : option (list line) :=
  match f with Some c => Some (c ++ l) | None => None end.


(* record update helpers *)
Definition set_log (s : st) (t : option Z) (f : option (list line)) : st :=
  {| now := now s; shares := shares s; lstamp := t; first := first s;
     pfields := pfields s; lasts := lasts s; hdr := hdr s; file := f; active := active s |}.
Definition set_shares (s : st) (ss : list share) : st :=
  {| now := now s; shares := ss; lstamp := lstamp s; first := first s;
     pfields := pfields s; lasts := lasts s; hdr := hdr s; file := file s; active := active s |}.
Definition set_lasts (s : st) (l : list (option val)) : st :=
  {| now := now s; shares := shares s; lstamp := lstamp s; first := first s;
     pfields := pfields s; lasts := l; hdr := hdr s; file := file s; active := active s |}.
Definition set_active (s : st) (b : bool) : st :=
  {| now := now s; shares := shares s; lstamp := lstamp s; first := first s;
     pfields := pfields s; lasts := lasts s; hdr := hdr s; file := file s; active := b |}.
Definition set_now (s : st) (t : Z) : st :=
  {| now := t; shares := shares s; lstamp := lstamp s; first := first s;
     pfields := pfields s; lasts := lasts s; hdr := hdr s; file := file s; active := active s |}.

(* Log.log: stamp := store.stamp; one record *)
Definition dolog (c : cfg) (s : st) : st :=
  set_log s (Some (now s)) (putline (file s) [Rec (now s) (cells (shares s) (clog c) (pfields s))]).

Fixpoint lzz_eqb (a b : list (Z * Z)) : bool :=
  match a, b with
  | [], [] => true
  | (k, v) :: a', (k', v') :: b' => Z.eqb k k' && Z.eqb v v' && lzz_eqb a' b'
  | _, _ => false
  end.
Definition val_eqb (a b : val) : bool :=
  match a, b with
  | VZ x, VZ y => Z.eqb x y
  | VL x, VL y => if list_eq_dec Z.eq_dec x y then true else false
  | VM x, VM y => lzz_eqb x y
  | VP a b, VP a' b' => Z.eqb a a' && Z.eqb b b'
  | _, _ => false
  end.
Definition oval_eqb (a b : option val) : bool :=
  match a, b with
  | None, None => true
  | Some x, Some y => val_eqb x y
  | _, _ => false
  end.
Fixpoint cells_eqb (a b : list (option val)) : bool :=
  match a, b with
  | [], [] => true
  | x :: a', y :: b' => oval_eqb x y && cells_eqb a' b'
  | _, _ => false
  end.

(* Log.update: some loggee stamped strictly later than the last record *)
Definition stamped_after (ss : list share) (tl : Z) (lg : loggee) : bool :=
  match sstamp (getsh ss (snd (fst lg))) with
  | Some t => Z.ltb tl t
  | None => false
  end.

(* Log.logStreak: first loggee only; its first prepared field, else the share's first field *)
Definition streak_field (ss : list share) (lg : loggee) (fs : list key) : option key :=
  match sdata (getsh ss (snd (fst lg))) with
  | [] => None
  | (k0, _) :: _ => match fs with [] => Some k0 | k :: _ => Some k end
  end.

Definition streak_recs (t : Z) (l : list Z) : list line := map (fun x => Rec t [Some (VZ x)]) l.

Definition mstreak_recs (t : Z) (m : list (Z * Z)) : list line :=
  map (fun kv => Rec t [Some (VP (fst kv) (snd kv))]) m.

Definition log_streak (c : cfg) (s : st) : st :=
  match clog c, pfields s with
  | lg :: _, fs :: _ =>
      let i := snd (fst lg) in
      match streak_field (shares s) lg fs with
      | Some k =>
          match lookup k (sdata (getsh (shares s) i)) with
          | Some (VL l) =>
              set_log (set_shares s (upd (shares s) i
                         (fun sh => {| sdata := set1 k (VL []) (sdata sh);
                                       sstamp := sstamp sh; sdeck := sdeck sh |})))
                      (Some (now s)) (putline (file s) (streak_recs (now s) l))
          | Some (VM m) =>      (* popitem() takes the newest item, appendleft() restores insertion order: FIFO *)
              set_log (set_shares s (upd (shares s) i
                         (fun sh => {| sdata := set1 k (VM []) (sdata sh);
                                       sstamp := sstamp sh; sdeck := sdeck sh |})))
                      (Some (now s)) (putline (file s) (mstreak_recs (now s) m))
          | Some v => set_log s (Some (now s)) (putline (file s) [Rec (now s) [Some v]])
          | None => set_log s (Some (now s)) (file s)
          end
      | None => set_log s (Some (now s)) (file s)
      end
  | _, _ => set_log s (Some (now s)) (file s)
  end.

(* Log.logDeck: first loggee only; pull every entry; entries that are not mappings are skipped *)
Fixpoint lookupz (k : key) (m : list (key * Z)) : option val :=
  match m with
  | [] => None
  | (k', v) :: m' => if Z.eqb k k' then Some (VZ v) else lookupz k m'
  end.

Definition deck_rec (t : Z) (fs : list key) (e : dentry) : list line :=
  match e with
  | DMap m => [Rec t (map (fun k => lookupz k m) fs)]
  | DOther _ => []
  end.

Definition deck_recs (t : Z) (fs : list key) (d : list dentry) : list line :=
  flat_map (deck_rec t fs) d.

Definition log_deck (c : cfg) (s : st) : st :=
  match clog c, pfields s with
  | lg :: _, fs :: _ =>
      let i := snd (fst lg) in
      let d := sdeck (getsh (shares s) i) in
      set_log (set_shares s (upd (shares s) i
                 (fun sh => {| sdata := sdata sh; sstamp := sstamp sh; sdeck := [] |})))
              (Some (now s)) (putline (file s) (deck_recs (now s) fs d))
  | _, _ => set_log s (Some (now s)) (file s)
  end.

(* Log.__call__ -> the rule's action *)
Definition action (c : cfg) (s : st) : st :=
  match crule c with
  | Never => s
  | Once => match lstamp s with None => dolog c s | Some _ => s end
  | Always => dolog c s
  | Update =>
      match lstamp s with
      | None => dolog c s
      | Some tl => if existsb (stamped_after (shares s) tl) (clog c) then dolog c s else s
      end
  | Change =>
      match lstamp s with
      | None => dolog c s
      | Some _ =>
          let cs := cells (shares s) (clog c) (pfields s) in
          if cells_eqb cs (lasts s) then s else dolog c (set_lasts s cs)
      end
  | Streak => log_streak c s
  | Deck => log_deck c s
  end.

(* ---- Log.prepare ------------------------------------------------------------ *)
Definition keys_of (ss : list share) (lg : loggee) : list key :=
  map fst (sdata (getsh ss (snd (fst lg)))).

(* default field selection: a loggee whose field list is (still) empty gets all fields *)
Fixpoint prep_default (ss : list share) (lgs : list loggee) (pf : list (list key)) : list (list key) :=
  match lgs, pf with
  | lg :: lgs', fs :: pf' =>
      (match fs with [] => keys_of ss lg | _ => fs end) :: prep_default ss lgs' pf'
  | _, _ => pf
  end.

(* rule streak: only the first loggee is touched: one field *)
Definition prep_streak (ss : list share) (lgs : list loggee) (pf : list (list key)) : list (list key) :=
  match lgs, pf with
  | lg :: _, fs :: pf' =>
      (match fs with [] => firstn 1 (keys_of ss lg) | k :: _ => [k] end) :: pf'
  | _, _ => pf
  end.

Definition hdr_cols1 (lg : loggee) (fs : list key) : list (Z * option key) :=
  let tag := fst (fst lg) in
  match fs with
  | _ :: _ :: _ => map (fun k => (tag, Some k)) fs
  | _ => [(tag, None)]
  end.

Fixpoint hdr_cols (lgs : list loggee) (pf : list (list key)) : list (Z * option key) :=
  match lgs, pf with
  | lg :: lgs', fs :: pf' => hdr_cols1 lg fs ++ hdr_cols lgs' pf'
  | _, _ => []
  end.

Definition prepare (c : cfg) (s : st) : st :=
  let pf := match crule c with
            | Streak => prep_streak (shares s) (clog c) (pfields s)
            | _ => prep_default (shares s) (clog c) (pfields s)
            end in
  let ls := match crule c with
            | Change => cells (shares s) (clog c) pf
            | _ => lasts s
            end in
  let h := hdr_cols (clog c) pf in
  let f := match lstamp s with
           | None => if first s then putline (file s) [Hdr (crule c) h] else file s
           | Some _ => file s
           end in
  {| now := now s; shares := shares s; lstamp := lstamp s; first := first s;
     pfields := pf; lasts := ls; hdr := h; file := f; active := active s |}.

(* Log.reopen: an existing file clears [first]; ocfn(path,'a+') creates a missing file *)
Definition reopen (s : st) : st :=
  {| now := now s; shares := shares s; lstamp := lstamp s;
     first := match file s with Some _ => false | None => first s end;
     pfields := pfields s; lasts := lasts s; hdr := hdr s;
     file := match file s with Some f => Some f | None => Some [] end; active := active s |}.

(* ---- history ---------------------------------------------------------------- *)
Definition wr (kvs : data) (t : option Z) (sh : share) : share :=
  {| sdata := setall kvs (sdata sh); sstamp := t; sdeck := sdeck sh |}.

Definition step (c : cfg) (s : st) (o : op) : st :=
  match o with
  | Tick => set_now s (now s + 1)
  | Write i kvs => set_shares s (upd (shares s) i (wr kvs (Some (now s))))
  | Chg i kvs => set_shares s (upd (shares s) i (fun sh => wr kvs (sstamp sh) sh))
  | Push i e => set_shares s (upd (shares s) i
                  (fun sh => {| sdata := sdata sh; sstamp := sstamp sh; sdeck := sdeck sh ++ [e] |}))
  | Put i k mk mv => set_shares s (upd (shares s) i
                  (fun sh => {| sdata := put_val k mk mv (sdata sh); sstamp := sstamp sh; sdeck := sdeck sh |}))
  | Append i k x => set_shares s (upd (shares s) i
                  (fun sh => {| sdata := app_val k x (sdata sh); sstamp := sstamp sh; sdeck := sdeck sh |}))
  | Start => set_active (action c (prepare c (reopen s))) true
  | Run => if active s then action c s else s
  | Stop => if active s then set_active (action c s) false else s
  end.

(* fresh Logger + Log on a store at time t0 with shares ss; f0 = pre-existing log file *)
Definition init (c : cfg) (t0 : Z) (ss : list share) (f0 : option (list line)) : st :=
  {| now := t0; shares := ss; lstamp := None; first := true;
     pfields := map (fun lg => snd lg) (clog c); lasts := []; hdr := [];
     file := f0; active := false |}.

Definition runfrom (c : cfg) (s : st) (ops : list op) : st := fold_left (step c) ops s.
Definition run (c : cfg) (t0 : Z) (ss : list share) (f0 : option (list line)) (ops : list op) : st :=
  runfrom c (init c t0 ss f0) ops.

(* observation helpers *)
Definition is_rec (l : line) : bool := match l with Rec _ _ => true | Hdr _ _ => false end.
Definition recs (f : option (list line)) : list line :=
  match f with Some l => filter is_rec l | None => [] end.
Definition content (f : option (list line)) : list line := match f with Some l => l | None => [] end.

(* controls the Skedder can produce: RUN/STOP only reach a started logger; the model makes
   RUN/STOP of a stopped logger a no-op (the real generator would raise on its closed file) *)
Fixpoint ctl_ok (a : bool) (ops : list op) : bool :=
  match ops with
  | [] => true
  | Start :: r => ctl_ok true r
  | Stop :: r => a && ctl_ok false r
  | Run :: r => a && ctl_ok a r
  | _ :: r => ctl_ok a r
  end.

(* ---- vocabulary of the property statements ------------------------------------ *)
Definition is_world (o : op) : bool := match o with Run | Start | Stop => false | _ => true end.
Definition is_start (o : op) : bool := match o with Start => true | _ => false end.
Definition is_loggee (c : cfg) (i : nat) : bool := existsb (fun lg => Nat.eqb (snd (fst lg)) i) (clog c).
Definition loggee_write (c : cfg) (o : op) : bool :=
  match o with Write i _ => is_loggee c i | _ => false end.
(* a world op that does not update a loggee *)
Definition quiet (c : cfg) (o : op) : bool := is_world o && negb (loggee_write c o).
(* number of logger runs in a history *)
Fixpoint nruns (ops : list op) : nat :=
  match ops with [] => O | o :: r => (if is_world o then O else 1%nat) + nruns r end.
(* no write to a loggee after the logger has run in the same tick (ran = logger already ran this tick) *)
Fixpoint sched_ok (c : cfg) (ran : bool) (ops : list op) : bool :=
  match ops with
  | [] => true
  | Tick :: r => sched_ok c false r
  | Write i kvs :: r => negb (ran && is_loggee c i) && sched_ok c ran r
  | Run :: r | Start :: r | Stop :: r => sched_ok c true r
  | _ :: r => sched_ok c ran r
  end.
(* no share is stamped in the future *)
Definition stamps_le (t0 : Z) (ss : list share) : Prop :=
  forall sh t, In sh ss -> sstamp sh = Some t -> t <= t0.
(* elements pushed on the deck of share i / appended to field k of share i by a history *)
Definition pushed (i : nat) (ops : list op) : list dentry :=
  flat_map (fun o => match o with Push j e => if Nat.eqb j i then [e] else [] | _ => [] end) ops.
Definition appended (i : nat) (k : key) (ops : list op) : list Z :=
  flat_map (fun o => match o with Append j k' x => if Nat.eqb j i && Z.eqb k' k then [x] else [] | _ => [] end) ops.
Definition rec_cells (l : line) : list (option val) := match l with Rec _ cs => cs | Hdr _ _ => [] end.

(* ---- history-level vocabulary --------------------------------------------------- *)
(* the cells rule deck writes for the entries of a deck (non-mappings are skipped) *)
Definition entry_cells (fs : list key) (d : list dentry) : list (list (option val)) :=
  flat_map (fun e => match e with DMap m => [map (fun k => lookupz k m) fs] | DOther _ => [] end) d.
(* the element logged by a streak record *)
Definition rec_vals (l : line) : list Z := match l with Rec _ [Some (VZ x)] => [x] | _ => [] end.
Definition touches (i : nat) (o : op) : bool :=
  match o with Write j _ | Chg j _ => Nat.eqb j i | _ => false end.
(* one snapshot per effective logger run: what rule always must have written over a history *)
Fixpoint snaps (c : cfg) (s : st) (ops : list op) : list line :=
  match ops with
  | [] => []
  | o :: r =>
      (match o with
       | Start => [Rec (now s) (cells (shares s) (clog c) (pfields (prepare c (reopen s))))]
       | Run | Stop => if active s then [Rec (now s) (cells (shares s) (clog c) (pfields s))] else []
       | _ => []
       end) ++ snaps c (step c s o) r
  end.
(* the cells seen by the most recent effective logger run (START included): what rule change compares with *)
Fixpoint last_seen (c : cfg) (s : st) (ops : list op) (acc : option (list (option val)))
  : option (list (option val)) :=
  match ops with
  | [] => acc
  | o :: r =>
      last_seen c (step c s o) r
        (match o with
         | Start => Some (cells (shares s) (clog c) (pfields (prepare c (reopen s))))
         | Run | Stop => if active s then Some (cells (shares s) (clog c) (pfields s)) else acc
         | _ => acc
         end)
  end.
