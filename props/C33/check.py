"""
C33 -- server-sent events parse the same for any split and any CR / LF / CRLF mix.

Tie H: coq/Lib/C29_Http.v (sse_step / sse_line over next_line EAll) is a hand model of
httping.parseLine(eols=(CRLF, LF, CR)) + httping.EventSource.parseEvents (FIXED behaviour,
fixes/C33-parseline-earliest-eol.patch).
  theorems       : coq/C33/Props.v (all streams, all splits, all per-line ending choices)
  correspondence : the real EventSource generator is driven piece by piece; its events, leid,
                   retry, the locals of the suspended generator (event being assembled) and the
                   unconsumed bytes are compared with the model inside Coq (vm_compute).
"""
import itertools
import os
import sys

sys.path.insert(0, os.path.join(os.path.dirname(os.path.abspath(__file__)), "..", "C29"))
import httpharn as H  # noqa: E402

LEVEL = "proof"
EOLS = {"cr": b"\r", "lf": b"\n", "crlf": b"\r\n"}

FIELD_LINES = ["data: x", "data:y", "data:  two", "data", "data:", "id: 7", "id:", "id", "event: tick",
               "event:tock", "retry: 250", "retry:30", "retry: 1_0", "retry: x9", "retry: -5", ": note",
               ":", "foo: bar", "nocolon", " data: sp", "data : z", "da", "d"]


def fix_eols(lines, ks):
    """make the rendering unambiguous (the SSE grammar reads CR LF as ONE ending): no bare CR
    directly before an empty line ending in LF, no bare CR as the very last byte"""
    ks = list(ks)
    for i, k in enumerate(ks):
        if k == "cr":
            if i + 1 == len(lines):
                ks[i] = "crlf"
            elif lines[i + 1] == b"" and ks[i + 1] == "lf":
                ks[i + 1] = "crlf"
    return ks


def render(lines, ks):
    return b"".join(l + EOLS[k] for l, k in zip(lines, ks))


def gen_lines(rng, n, rich=False):
    out = []
    for _ in range(n):
        r = rng.random()
        if r < 0.25:
            out.append(b"")
        elif r < 0.6 or not rich:
            out.append(rng.choice(FIELD_LINES).encode())
        else:
            fld = rng.choice(["data", "data", "id", "event", "retry", "", "x"])
            val = "".join(rng.choice("ab :0159é€\t") for _ in range(rng.randint(0, 6)))
            sep = rng.choice([": ", ":", ":  "])
            out.append((fld + sep + val).encode("utf-8"))
    return out


def spec_events(lines):
    """the SSE field rules (W3C EventSource, 'interpreting an event stream') on logical lines:
    returns (events [(id, name, data)], last id, retry) -- independent of ioflo, for the search"""
    evs, leid, retry, name, parts = [], None, None, "", []
    for raw in lines:
        line = raw.decode("utf-8")
        if line == "":
            data = "\n".join(parts)
            if data:
                evs.append((leid, name, data))
            name, parts = "", []
            continue
        if line.startswith(":"):
            continue
        field, sep, value = line.partition(":")
        if value.startswith(" "):
            value = value[1:]
        if field == "event":
            name = value
        elif field == "data":
            parts.append(value)
        elif field == "id":
            leid = value
        elif field == "retry":
            try:
                retry = int(value)
            except ValueError:
                pass
    return evs, leid, retry, None


def run(ctx):
    ctx.rule = ("event streams = logical lines (fields, comments, blanks, unicode values) x a CR/LF/CRLF "
                "choice per line, fed to the real EventSource under (a) every split into <= 3 pieces "
                "(short streams, exhaustive), (b) every ending mix of <= 5-line streams, (c) random long "
                "streams with random endings and random splits, (d) a malformed stream (bare CR/LF/colon "
                "soup, over-long lines with a lowered MAX_LINE_SIZE); compared with the Coq model on events, "
                "leid, retry, the event being assembled and the unconsumed bytes.  non-trivial = split into "
                ">= 2 pieces or >= 2 ending kinds; distinct by (pieces)")
    ctx.assumptions = [
        "streams are valid UTF-8 (decode errors are outside the model); retry values are ASCII",
        "EventSource(dictable=False); .closed handling (dispatch on close) is not modelled",
        "MAX_LINE_SIZE is lowered in the harness process only to reach the LineTooLong path",
    ]
    res = ctx.coq_build("C33/Props.v")

    cases, metas = [], []
    groups = []   # (lines, ks, [pieces lists]) for the property-level search
    pool, dpool = H.LitPool("obs"), H.LitPool("dat")

    def add(pieces, kind, maxline=None, nk=1, shared=False):
        flat, view = H.sse_impl(pieces, maxline)
        ctx.case({"pieces": [p.decode("latin-1") for p in pieces], "obs": view},
                 nontrivial=len(pieces) >= 2 or nk >= 2, kind=kind)
        if shared:   # many splits of one stream: name the stream and the observation once
            expr = "sse_case_cuts %d %s %s" % (maxline if maxline is not None else 65536,
                                               dpool.ref(b"".join(pieces)), H.zl([len(p) for p in pieces[:-1]]))
            cases.append((expr, pool.ref(flat)))
        else:
            cases.append((H.sse_model_expr(pieces, maxline if maxline is not None else 65536), H.zl(flat)))
        metas.append((pieces, view, maxline))

    rng = ctx.rng
    # (a) exhaustive splits of short streams
    shorts = [
        ([b"data: x", b"data: y", b""], ["crlf", "crlf", "crlf"]),
        ([b"data: x", b"", b"data:y", b""], ["cr", "cr", "lf", "crlf"]),
        ([b"id: 7", b"data: a", b"", b""], ["lf", "cr", "crlf", "lf"]),
        ([b": c", b"retry: 25", b"data", b""], ["crlf", "cr", "cr", "crlf"]),
        ([b"event:e", b"data:  q", b"", b"d"], ["cr", "crlf", "cr", "lf"]),
    ]
    for _ in range(ctx.n(3, 25)):
        ls = gen_lines(rng, rng.randint(2, 4))
        shorts.append((ls, [rng.choice(list(EOLS)) for _ in ls]))
    for lines, ks in shorts:
        ks = fix_eols(lines, ks)
        data = render(lines, ks)[:ctx.n(24, 34)]
        sp = H.splits_upto3(data)
        groups.append((lines, ks, sp))
        for pieces in sp:
            add(pieces, "exhaustive-split", nk=len(set(ks)), shared=True)
    # (b) every ending mix
    mixes = [[b"data: x", b"data: y", b"", b"id: 1", b""], [b"data", b"", b"", b"retry: 5", b"data:z"]]
    for _ in range(ctx.n(1, 10)):
        mixes.append(gen_lines(rng, 5))
    for lines in mixes:
        for ks0 in itertools.product(list(EOLS), repeat=len(lines)):
            ks = fix_eols(lines, ks0)
            if tuple(ks) != ks0:
                continue
            data = render(lines, ks)
            sp = [[data], H.random_split(rng, data, 4)]
            groups.append((lines, ks, sp))
            for pieces in sp:
                add(pieces, "all-eol-mixes", nk=len(set(ks)))
    # (c) random long
    for _ in range(ctx.n(800, 6000)):
        lines = gen_lines(rng, rng.randint(3, 14), rich=True)
        ks = fix_eols(lines, [rng.choice(list(EOLS)) for _ in lines])
        data = render(lines, ks)
        sp = [H.random_split(rng, data, 6)]
        if rng.random() < 0.3:   # a stream that ends in a bare CR: last line is held back
            sp.append(H.random_split(rng, data + b"data: t\r", 4))
        groups.append((lines, ks, sp[:1]))
        for pieces in sp:
            add(pieces, "random", nk=len(set(ks)))
    # (d) malformed soup and over-long lines
    for _ in range(ctx.n(400, 3000)):
        s = "".join(rng.choice("\r\r\n\n: :dataidretryevn019é") for _ in range(rng.randint(0, 30)))
        add(H.random_split(rng, s.encode("utf-8"), 4), "soup")
    for _ in range(ctx.n(100, 800)):
        lines = [bytes(rng.choice(b"ab:") for _ in range(rng.randint(0, 14))) for _ in range(rng.randint(1, 4))]
        ks = [rng.choice(list(EOLS)) for _ in lines]
        add(H.random_split(rng, render(lines, ks), 4), "line-limit", maxline=rng.randint(0, 9))

    bad = ctx.coq_cases(H.HEADER + dpool.defs() + pool.defs(), "beq", cases, name="c33", shard=700)
    for i in bad[:5]:
        pieces, view, maxline = metas[i]
        ctx.tie_broken("correspondence", "C33 model vs EventSource.parseEvents",
                       "pieces=%r maxline=%r impl=%r" % (pieces, maxline, view))
    ctx.extra["mismatches"] = len(bad)
    ctx.exhaustive = False

    def search():
        """the implementation alone against the property's executable statement"""
        best = None

        def consider(cand):
            nonlocal best
            size = sum(len(p) for p in cand["pieces"])
            if best is None or size < best[0]:
                best = (size, cand)

        for lines, ks, sp in groups:
            data = render(lines, ks)
            if not any(b"".join(p) == data for p in sp):
                data = b"".join(sp[0])
            whole = H.sse_events_only([data])
            for pieces in sp:
                got = H.sse_events_only(pieces)
                if got != whole:
                    consider({"key": "sse-split-dependent", "pieces": [p.decode("latin-1") for p in pieces],
                              "observed_split": got, "observed_whole": whole,
                              "expected": "same events, leid, retry for every split",
                              "contradicts": "C33.Props.sse_split_independent"})
            if b"".join(sp[0]) == render(lines, ks):
                spec = spec_events(lines)
                spec = ([tuple(e) for e in spec[0]],) + spec[1:]
                if (([tuple(e) for e in whole[0]],) + whole[1:]) != spec:
                    consider({"key": "sse-field-rules", "pieces": [data.decode("latin-1")],
                              "lines": [l.decode("latin-1") for l in lines], "endings": ks,
                              "observed": whole, "expected_by_field_rules": spec,
                              "contradicts": "C33.Props.sse_parse_is_fold_of_lines (sse_line = the field rules)"})
                lf = H.sse_events_only([render(lines, ["lf"] * len(lines))])
                if whole != lf:
                    consider({"key": "sse-eol-dependent", "pieces": [data.decode("latin-1")],
                              "lines": [l.decode("latin-1") for l in lines], "endings": ks,
                              "observed": whole, "observed_all_LF": lf,
                              "expected": "same events, leid, retry for every CR/LF/CRLF choice",
                              "contradicts": "C33.Props.sse_eol_recoding_invariant"})
        return best[1] if best else None

    ctx.settle(search)
