"""
C24 -- stream transports deliver queued bytes exactly once and in order.

Tie H: coq/C24/Model.v is a hand model of Client/ClientTls/Incomer/IncomerTls send, serviceTxes,
receive, serviceReceives(/Once), of serial Driver (+DeviceNb) and of WireLog.writeTx/writeRx.
  theorems       : coq/C24/Props.v (all histories, all send/recv oracles, all five classes)
  correspondence : the same op histories are run on the real classes with socket / fd doubles that
                   replay the oracle, and on the model inside Coq (vm_compute).
"""
import errno
import itertools
import socket
import ssl

from vlib import cz, clist, cbool, cnat


def cbytes(bs):
    """bytes -> list Z literal; plain numerals (the case files open Z_scope), much faster to parse
    than one scope annotation per byte"""
    bs = list(bs)
    return "[" + "; ".join(str(int(b)) for b in bs) + "]" if bs else "(@nil Z)"

LEVEL = "proof"

KINDS = ["KClient", "KClientTls", "KIncomer", "KIncomerTls", "KDriver"]
LOSS = [errno.ECONNRESET, errno.ENETRESET, errno.ENETUNREACH, errno.EHOSTUNREACH,
        errno.ENETDOWN, errno.EHOSTDOWN, errno.ETIMEDOUT, errno.ECONNREFUSED]
OTHER = [errno.EPIPE, errno.EBADF, errno.ENOTCONN, errno.EINVAL]
HA = ('127.0.0.1', 5001)
CA = ('127.0.0.1', 40001)


class Sock(object):
    """socket double: replays the send / recv oracle of the current service call"""
    def __init__(self, tls):
        self.tls = tls
        self.sres = []
        self.rres = []
        self.accepted = bytearray()
        self.delivered = []
        self.events = []      # (dir, chunk) of every non-empty accept / delivery, in call order
        self.k = 0

    def _block(self):
        self.k += 1
        if self.tls:
            if self.k % 2:
                return ssl.SSLWantReadError(ssl.SSL_ERROR_WANT_READ, "want read")
            return ssl.SSLWantWriteError(ssl.SSL_ERROR_WANT_WRITE, "want write")
        return socket.error(errno.EAGAIN if self.k % 2 else errno.EWOULDBLOCK, "would block")

    def _cut(self):
        self.k += 1
        return socket.error(LOSS[self.k % len(LOSS)], "lost")

    def _fail(self):
        self.k += 1
        return socket.error(OTHER[self.k % len(OTHER)], "other")

    def send(self, data):
        r = self.sres.pop(0) if self.sres else ("B",)
        if r[0] == "S":
            took = bytes(data[:r[1]])
            self.accepted += took
            if r[1]:   # the transport logs data[:count] whenever count is non-zero
                self.events.append(("tx", took))
            return r[1]
        raise {"B": self._block, "C": self._cut, "F": self._fail}[r[0]]()

    def recv(self, bs):
        r = self.rres.pop(0) if self.rres else ("B",)
        if r[0] == "D":
            d = bytes(r[1])
            if d:
                self.delivered.append(d)
                self.events.append(("rx", d))
            return d
        raise {"B": self._block, "C": self._cut, "F": self._fail}[r[0]]()

    # os-level calls of DeviceNb go through the same oracle
    def write(self, fd, data):
        try:
            return self.send(data)
        except socket.error as ex:
            raise OSError(ex.args[0], "fd double")

    def read(self, fd, bs):
        try:
            return self.recv(bs)
        except socket.error as ex:
            raise OSError(ex.args[0], "fd double")

    def setblocking(self, b):
        pass

    def shutdown(self, how):
        pass

    def close(self):
        pass


class Ctx(object):
    """ssl context double: wrapping returns the socket double itself"""
    verify_mode = ssl.CERT_NONE
    check_hostname = False

    def wrap_socket(self, sock, **kwa):
        return sock


class FakeOs(object):
    """stands in for the `os` global of serialing.py in the harness process only"""
    def __init__(self, real, sock):
        self._real = real
        self._sock = sock

    def write(self, fd, data):
        return self._sock.write(fd, data)

    def read(self, fd, bs):
        return self._sock.read(fd, bs)

    def __getattr__(self, name):
        return getattr(self._real, name)


def make(kind, wcfg, conn, owner=None):
    """returns (transport object, socket double, wirelog or None, cleanup).
    owner = (deque, bytearray) handed in EMPTY at construction by the transport's owner (as Patron /
    TcpClientStack do with a Client): the owner keeps queueing and reading through its own references"""
    from ioflo.aio import wiring
    from ioflo.aio.tcp import clienting, serving
    from ioflo.aio.serial import serialing
    present, rx, tx, same = wcfg
    wl = None
    if present and kind != "KDriver":
        wl = wiring.WireLog(rx=rx, tx=tx, same=same, buffify=True)
        wl.reopen()
    sock = Sock(tls=kind in ("KClientTls", "KIncomerTls"))
    cleanup = lambda: None
    if kind == "KClient":
        o = (clienting.Client(ha=HA, wlog=wl) if owner is None else
             clienting.Client(ha=HA, wlog=wl, txes=owner[0], rxbs=owner[1]))
        o.cs = sock
        o.connected = conn
    elif kind == "KClientTls":
        o = (clienting.ClientTls(ha=HA, wlog=wl, context=Ctx()) if owner is None else
             clienting.ClientTls(ha=HA, wlog=wl, context=Ctx(), txes=owner[0], rxbs=owner[1]))
        o.cs = sock
        o.accepted = conn
        o.connected = conn
    elif kind == "KIncomer":
        o = serving.Incomer(ha=HA, ca=CA, cs=sock, bs=1024, wlog=wl)
    elif kind == "KIncomerTls":
        o = serving.IncomerTls(ha=HA, ca=CA, cs=sock, bs=1024, wlog=wl, context=Ctx())
    else:
        real = serialing.os
        fake = FakeOs(real if not isinstance(real, FakeOs) else real._real, sock)
        serialing.os = fake
        dev = serialing.DeviceNb(port="/dev/verif-double", bs=1024)
        dev.fd = 7
        dev.opened = conn
        o = serialing.Driver(server=dev)

        def cleanup():
            serialing.os = fake._real
    return o, sock, wl, cleanup


def run_impl(kind, wcfg, conn, ops, shared=False):
    import collections
    owner = (collections.deque(), bytearray()) if shared else None
    o, sock, wl, cleanup = make(kind, wcfg, conn, owner)
    raises = 0
    connected = conn
    queued = bytearray()
    try:
        for op in ops:
            t = op[0]
            try:
                if t == "tx":
                    if shared:
                        owner[0].append(bytes(op[1]))   # the owner queues on ITS deque
                    else:
                        o.tx(bytes(op[1]))
                    queued += bytes(op[1])
                elif t == "svctx":
                    sock.sres = [tuple(r) for r in op[1]]
                    o.serviceTxes()
                elif t == "svctx1":
                    sock.sres = [tuple(op[1])]
                    o.serviceTxOnce()
                elif t == "svcrx":
                    sock.rres = [tuple(r) for r in op[1]]
                    o.serviceReceives()
                elif t == "svcrx1":
                    sock.rres = [tuple(op[1])]
                    o.serviceReceiveOnce()
                elif t == "conn":
                    connected = op[1]
                    if kind == "KDriver":
                        o.server.opened = op[1]
                    elif kind in ("KClient", "KClientTls"):
                        o.connected = op[1]
                elif t == "uncut":
                    if kind != "KDriver":
                        o.cutoff = False
            except (socket.error, OSError):
                raises += 1
            sock.sres, sock.rres = [], []
    finally:
        cleanup()
    res = {
        "accepted": bytes(sock.accepted),
        "txes": [bytes(d) for d in (owner[0] if shared else o.txes)],   # what the OWNER sees
        "rxbs": bytes(owner[1] if shared else o.rxbs),
        "shared": shared,
        "cutoff": bool(getattr(o, "cutoff", False)),
        "raises": raises,
        "connected": connected,
        "delivered": list(sock.delivered),
        "wtx": (wl.getTx() or b"") if wl else b"",
        "wrx": (wl.getRx() or b"") if wl else b"",
        "events": list(sock.events),
        "queued": bytes(queued),
    }
    return res


def headers(kind):
    a = HA if kind in ("KClient", "KClientTls") else CA
    return ("RX %s\n" % (a,)).encode(), ("TX %s\n" % (a,)).encode()


def benign(kind, ops):
    for op in ops:
        rs = op[1] if op[0] == "svctx" else [op[1]] if op[0] == "svctx1" else []
        for r in rs:
            if r[0] == "F" or (r[0] == "C" and kind == "KDriver"):
                return False
    return True


def prop_holds(kind, wcfg, ops, res):
    """the property's executable statement on the implementation's observable result"""
    present, rx, tx, same = wcfg
    if benign(kind, ops):
        if res["accepted"] + b"".join(res["txes"]) != res["queued"]:
            return "accepted ++ still-queued is not the queued byte stream"
        ntx = sum(1 for op in ops if op[0] == "tx")
        last = ops[-1] if ops else None
        if (last is not None and last[0] == "svctx" and len(last[1]) >= ntx and all(tuple(x) == ("S", 9) for x in last[1])
                and res["connected"] and not res["cutoff"]
                and (res["txes"] or res["accepted"] != res["queued"])):
            return ("after a final pass in which the socket accepts everything, queued data is still unsent: "
                    "accepted %r, still queued %r%s" % (res["accepted"], res["txes"],
                                                       " (queued through the owner's deque handed in at construction)"
                                                       if res.get("shared") else ""))
    if res["rxbs"] != b"".join(res["delivered"]):
        return "receive buffer is not the concatenation of the delivered chunks"
    if present and kind != "KDriver":
        hrx, htx = headers(kind)

        def render(want):
            out = b""
            for d, chunk in res["events"]:
                on = tx if d == "tx" else rx
                if on and (d == want or same):
                    out += (htx if d == "tx" else hrx) + chunk + b"\n"
            return out
        if tx and res["wtx"] != render("tx"):
            return "tx wire log does not record exactly the accepted slices"
        if rx and res["wrx"] != render("rx"):
            return "rx wire log does not record exactly the delivered chunks"
    return None


# ------------------------------------------------------------------ Coq rendering
def c_sres(r):
    return {"S": lambda: "Sent %s" % cnat(r[1]), "B": lambda: "SBlock",
            "C": lambda: "SCut", "F": lambda: "SFail"}[r[0]]()


def c_rres(r):
    return {"D": lambda: "Chunk %s" % cbytes(r[1]), "B": lambda: "RBlock",
            "C": lambda: "RCut", "F": lambda: "RFail"}[r[0]]()


def c_ops(ops):
    out = []
    for op in ops:
        t = op[0]
        if t == "tx":
            out.append("Tx %s" % cbytes(op[1]))
        elif t == "svctx":
            out.append("SvcTx %s" % clist([c_sres(r) for r in op[1]], "sres"))
        elif t == "svctx1":
            out.append("SvcTxOnce (%s)" % c_sres(op[1]))
        elif t == "svcrx":
            out.append("SvcRx %s" % clist([c_rres(r) for r in op[1]], "rres"))
        elif t == "svcrx1":
            out.append("SvcRxOnce (%s)" % c_rres(op[1]))
        elif t == "conn":
            out.append("SetConn %s" % cbool(op[1]))
        else:
            out.append("Uncut")
    return clist(out, "op")


def c_w(wcfg):
    return "(mkw %s %s %s %s)" % tuple(cbool(b) for b in wcfg)


HEADER = """From Coq Require Import List ZArith Bool.
Import ListNotations.
Require Import V.C24.Model.
Open Scope Z_scope.
Definition mkw (p r t s : bool) : wcfg := {| w_present := p; w_rx := r; w_tx := t; w_same := s |}.
Fixpoint lz_eqb (a b : list Z) := match a, b with [], [] => true | x :: a', y :: b' => Z.eqb x y && lz_eqb a' b' | _, _ => false end.
Fixpoint llz_eqb (a b : list (list Z)) := match a, b with [], [] => true | x :: a', y :: b' => lz_eqb x y && llz_eqb a' b' | _, _ => false end.
Definition b2z (b : bool) : Z := if b then 1 else 0.
Definition obs (k : kind) (w : wcfg) (hrx htx : list Z) (s : st) : list (list Z) :=
  [accepted s; rxbs s; [b2z (cutoff s); Z.of_nat (raises s); b2z (connected s)];
   (if negb (is_driver k) && w_present w && w_tx w then render w DTx hrx htx (wire s) else []);
   (if negb (is_driver k) && w_present w && w_rx w then render w DRx hrx htx (wire s) else [])]
  ++ txes s ++ [[-1]] ++ delivered s.
"""


def c_obs(res):
    rows = [cbytes(res["accepted"]), cbytes(res["rxbs"]),
            cbytes([int(res["cutoff"]), res["raises"], int(res["connected"])]),
            cbytes(res["wtx"]), cbytes(res["wrx"])]
    rows += [cbytes(d) for d in res["txes"]] + ["[(-1)%Z]"] + [cbytes(d) for d in res["delivered"]]
    return clist(rows, "(list Z)")


# ------------------------------------------------------------------ generators
def msg(i, n):
    return list(range(16 * (i + 1), 16 * (i + 1) + n))


def small_scope(kind, maxm, maxlen):
    """every queue of <= maxm messages with lengths <= maxlen x every first-pass oracle over
    {Sent 0..len+1, Block, Cut, Fail}, followed by a draining pass"""
    for m in range(1, maxm + 1):
        for lens in itertools.product(range(maxlen + 1), repeat=m):
            enq = [("tx", msg(i, n)) for i, n in enumerate(lens)]
            alph = []
            for i in range(m):
                a = [("S", c) for c in range(lens[i] + 2)] + [("B",), ("C",), ("F",)]
                alph.append(a)
            for orc in itertools.product(*alph):
                ops = list(enq) + [("svctx", list(orc))]
                if any(r[0] == "C" for r in orc) and kind != "KDriver":
                    ops.append(("uncut",))
                ops.append(("svctx", [("S", 9)] * m))
                yield ops


def small_scope_rx(kind, depth):
    """every recv-result sequence of length <= depth over {1-byte chunk, 2-byte chunk, EOF, block,
    cutoff, fail} in one serviceReceives pass, followed by a second pass and a serviceReceiveOnce"""
    alph = [("D", None), ("D", None, None), ("D", []), ("B",), ("C",), ("F",)]
    for n in range(1, depth + 1):
        for seq in itertools.product(alph, repeat=n):
            orc, k = [], 0
            for r in seq:
                if r[0] == "D" and len(r) > 1 and r[1] is None:
                    d = list(range(100 + 10 * k, 100 + 10 * k + len(r) - 1))
                    k += 1
                    orc.append(("D", d))
                else:
                    orc.append(r)
            ops = [("svcrx", orc)]
            if any(r[0] == "C" or r == ("D", []) for r in orc) and kind != "KDriver":
                ops.append(("uncut",))
            ops += [("svcrx", [("D", [200, 201]), ("B",)]), ("svcrx1", ("D", [210]))]
            yield ops


def random_ops(rng, kind):
    ops, i = [], 0
    for _ in range(rng.randint(4, 22)):
        x = rng.random()
        if x < 0.33:
            ops.append(("tx", msg(i % 14, rng.choice([0, 1, 1, 2, 3, 4, 5]))))
            i += 1
        elif x < 0.62:
            orc = []
            for _ in range(rng.randint(0, 5)):
                y = rng.random()
                if y < 0.62:
                    orc.append(("S", rng.randint(0, 6)))
                elif y < 0.8:
                    orc.append(("B",))
                elif y < 0.93:
                    orc.append(("C",))
                else:
                    orc.append(("F",))
            ops.append(("svctx", orc))
        elif x < 0.67 and kind == "KDriver":
            ops.append(("svctx1", rng.choice([("S", rng.randint(0, 5)), ("B",), ("F",), ("C",)])))
        elif x < 0.85:
            orc = []
            for _ in range(rng.randint(0, 4)):
                y = rng.random()
                if y < 0.6:
                    orc.append(("D", [rng.randint(0, 255) for _ in range(rng.randint(1, 4))]))
                elif y < 0.7:
                    orc.append(("D", []))
                elif y < 0.85:
                    orc.append(("B",))
                elif y < 0.95:
                    orc.append(("C",))
                else:
                    orc.append(("F",))
            ops.append(("svcrx", orc))
        elif x < 0.9:
            ops.append(("svcrx1", rng.choice([("D", [rng.randint(0, 255), 10]), ("D", []), ("B",), ("C",), ("F",)])))
        elif x < 0.96:
            ops.append(("conn", rng.random() < 0.7))
        else:
            ops.append(("uncut",))
    ops.append(("uncut",))
    ops.append(("conn", True))
    ops.append(("svctx", [("S", 9)] * 30))
    return ops


WCFGS = [(False, False, False, False), (True, True, True, False), (True, True, True, True),
         (True, False, True, False), (True, True, False, False), (True, False, True, True),
         (True, True, False, True), (True, False, False, False)]


def run(ctx):
    from ioflo.aid.consoling import getConsole
    getConsole().reinit(verbosity=0)   # keep ioflo's console output out of the check's stdout
    ctx.rule = ("op histories (tx / serviceTxes / serviceTxOnce / serviceReceives / serviceReceiveOnce / "
                "connect flag / cutoff reset) with per-call send and recv oracles, run on the real Client, "
                "ClientTls, Incomer, IncomerTls and Driver(DeviceNb) with socket / fd doubles and a buffified "
                "WireLog, and on the Coq model; small scope = every queue of <=2 messages of length <=3 (thorough: also <=3 "
                "messages of length <=2) x every first-pass result pattern over {Sent 0..len+1, block, "
                "cutoff, fail}; every recv-result sequence of length <=2 / <=3 over {chunk, chunk, EOF, block, cutoff, "
                "fail}; plus seeded random long histories; non-trivial = at least one partial / zero / "
                "block / cutoff result while data is queued; distinct by (class, wirelog config, history)")
    ctx.assumptions = [
        "socket double: send(data) returns the oracle's count n >= 0 after taking data[:n], or raises "
        "EAGAIN/EWOULDBLOCK (TLS: SSLWantRead/WriteError), a connection-loss errno, or another errno",
        "serial: DeviceNb with the `os` global of serialing.py replaced in the harness process by a double "
        "(os.write / os.read replay the oracle); pyserial's SerialNb is not exercised",
        "console output, TLS context set-up and address normalisation are not modelled",
        "propagating errors (outside the property's oracle alphabet) drop the popped message; modelled, "
        "covered by the correspondence, excluded from the exactly-once theorem by its premise",
    ]
    res = ctx.coq_build("C24/Props.v")

    cases, metas = [], []

    def add(kind, wcfg, conn, ops, label):
        # every other client case is constructed the way its owners do: empty deque / bytearray handed in
        shared = kind in ("KClient", "KClientTls") and len(cases) % 2 == 1
        if shared:
            label += "+owner-buffers"
        r = run_impl(kind, wcfg, conn, ops, shared)
        hard = any((op[0] == "svctx" and any(x[0] != "S" or x[1] < 3 for x in op[1])) or
                   (op[0] == "svcrx" and len(op[1]) > 1) for op in ops)
        ctx.case({"kind": kind, "w": wcfg, "conn": conn, "ops": ops}, nontrivial=hard,
                 kind="%s/%s" % (kind, label))
        hrx, htx = headers(kind)
        hn = "c" if kind in ("KClient", "KClientTls") else "i"
        cases.append(("obs %s %s hrx_%s htx_%s (run %s %s %s %s)" % (
            kind, c_w(wcfg), hn, hn, kind, c_w(wcfg), cbool(conn), c_ops(ops)),
            c_obs(r)))
        metas.append((kind, wcfg, conn, ops, r))

    scopes = ctx.n([(2, 3)], [(2, 3), (3, 2)])
    for ki, kind in enumerate(KINDS):
        seen = set()
        for maxm, maxlen in scopes:
            for j, ops in enumerate(small_scope(kind, maxm, maxlen)):
                key = repr(ops)
                if key in seen:
                    continue
                seen.add(key)
                wcfg = WCFGS[(j + ki) % 3] if kind != "KDriver" else WCFGS[0]
                add(kind, wcfg, True, ops, "small")
        for j, ops in enumerate(small_scope_rx(kind, ctx.n(2, 3))):
            wcfg = WCFGS[(j + ki) % len(WCFGS)] if kind != "KDriver" else WCFGS[0]
            add(kind, wcfg, True, ops, "small-rx")
        for j in range(ctx.n(600, 3000)):
            wcfg = WCFGS[j % len(WCFGS)] if kind != "KDriver" else WCFGS[0]
            add(kind, wcfg, ctx.rng.random() < 0.85, random_ops(ctx.rng, kind), "random")

    hdr = HEADER
    for hn, kind in (("c", "KClient"), ("i", "KIncomer")):
        hrx, htx = headers(kind)
        hdr += "Definition hrx_%s : list Z := %s.\nDefinition htx_%s : list Z := %s.\n" % (
            hn, cbytes(hrx), hn, cbytes(htx))
    bad = ctx.coq_cases(hdr, "llz_eqb", cases)
    for i in bad[:5]:
        kind, wcfg, conn, ops, r = metas[i]
        ctx.tie_broken("correspondence", "C24 model vs %s" % kind,
                       "w=%r conn=%r ops=%r impl=%r" % (wcfg, conn, ops, {k: v for k, v in r.items() if k != "events"}))
    ctx.extra["mismatches"] = len(bad)
    ctx.exhaustive = False

    def search():
        best = None
        for kind, wcfg, conn, ops, r in metas:
            why = prop_holds(kind, wcfg, ops, r)
            rank = (0 if r["queued"] or r["delivered"] else 1, len(repr(ops)))
            if why and (best is None or rank < best["_rank"]):
                best = {"class": kind, "wirelog(present,rx,tx,same)": wcfg, "connected": conn, "ops": ops,
                        "constructed_with_owner_txes_rxbs": bool(r.get("shared")),
                        "observed": {k: repr(v) for k, v in r.items()}, "why": why,
                        "expected": "accepted ++ concat(txes) == queued; rxbs == concat(delivered); wire log == accepted slices",
                        "contradicts": "C24.Props.tx_exactly_once_in_order / wirelog_and_rxbuffer",
                        "key": "stream-bytes-once-in-order", "_rank": rank}
        if best is not None:
            best.pop("_rank", None)
        return best

    ctx.settle(search)
