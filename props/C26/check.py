"""
C26 -- a TCP server keeps one live connection entry per peer address.

Tie H: coq/C26/Model.v is a hand model of Server / ServerTls serviceAxes, serviceCxes, shutdownIx,
closeIx, closeAllIx, removeIx and of the socket state of each Incomer.
  theorems       : coq/C26/Props.v (all histories, plain and TLS server)
  correspondence : the same histories are run on the real Server / ServerTls whose listening and
                   connection sockets are doubles (peer addresses chosen by the harness, repeated
                   addresses included, handshake outcomes from an oracle) and on the model in Coq.
"""
import errno
import itertools
import socket
import ssl

from vlib import cz, clist, cbool

LEVEL = "proof"
HA = ('127.0.0.1', 6000)


def addr(ca):
    return ('10.0.0.%d' % ca, 5000 + ca)


class World(object):
    def __init__(self):
        self.socks = []
        self.hs = []


class Sock(object):
    def __init__(self, world, ca):
        self.world = world
        self.ca = ca
        self.vid = len(world.socks)
        world.socks.append(self)
        self.shut = 0
        self.closed = False
        self.order = []

    def getpeername(self):
        return addr(self.ca)

    def getsockname(self):
        return HA

    def setblocking(self, b):
        pass

    def shutdown(self, how):
        self.shut += 1
        self.order.append("shutdown")

    def close(self):
        self.closed = True
        self.order.append("close")

    def do_handshake(self):
        ok = self.world.hs.pop(0) if self.world.hs else False
        if not ok:
            raise ssl.SSLWantReadError(ssl.SSL_ERROR_WANT_READ, "want read")

    def state(self):
        if self.closed:
            return "Closed" if self.shut else "ClosedNoShutdown"
        return "Shut" if self.shut else "Open"


class Listen(object):
    def __init__(self):
        self.pending = []

    def accept(self):
        if not self.pending:
            raise socket.error(errno.EAGAIN, "nothing")
        cs = self.pending.pop(0)
        return cs, addr(cs.ca)


class Ctx(object):
    verify_mode = ssl.CERT_NONE

    def wrap_socket(self, sock, **kwa):
        return sock


def run_impl(tls, ops):
    from ioflo.aio.tcp import serving
    world = World()
    if tls:
        srv = serving.ServerTls(ha=HA, context=Ctx())
    else:
        srv = serving.Server(ha=HA)
    srv.ss = Listen()
    errors, other = 0, []
    detached = []
    removed_closed_ok = True
    for k, op in enumerate(ops):
        try:
            if op[0] == "svc":
                srv.ss.pending = [Sock(world, ca) for ca in op[1]]
                world.hs = list(op[2])
                srv.serviceConnects()
            elif op[0] == "shut":
                srv.shutdownIx(addr(op[1]))
            elif op[0] == "close":
                srv.closeIx(addr(op[1]))
            elif op[0] == "closeall":
                srv.closeAllIx()
            elif op[0] == "remove":
                ix = srv.ixes.get(addr(op[1]))
                srv.removeIx(addr(op[1]), shutclose=op[2])
                if ix is not None:
                    if not op[2]:
                        detached.append(ix._vid)
                    elif world.socks[ix._vid].state() != "Closed":
                        removed_closed_ok = False
        except ValueError:
            errors += 1
        except Exception as ex:  # e.g. TypeError on the unfixed tree
            other.append((k, repr(ex)))
            srv.axes.clear()
        srv.ss.pending = []
        for tab in (srv.ixes, getattr(srv, "cxes", {})):
            for ix in tab.values():
                if not hasattr(ix, "_vid"):
                    ix._vid = ix.cs.vid

    def table(t):
        inv = dict((addr(i), i) for i in range(0, 10))
        return [(inv[ca], ix._vid) for ca, ix in t.items()]
    return {
        "ixes": table(srv.ixes),
        "cxes": table(srv.cxes) if tls else [],
        "socks": [s.state() for s in world.socks],
        "errors": errors,
        "other": other,
        "detached": detached,
        "removed_closed_ok": removed_closed_ok,
    }


def prop_holds(tls, ops, r):
    """the property's executable statement on the implementation's observable result"""
    if r["other"]:
        return "operation %d raised %s" % r["other"][0]
    keys = [k for k, _ in r["ixes"]]
    if len(set(keys)) != len(keys):
        return "two entries for one peer address"
    ref = set(i for _, i in r["ixes"]) | set(i for _, i in r["cxes"]) | set(r["detached"])
    for i, st in enumerate(r["socks"]):
        if st == "Open" and i not in ref:
            return "socket %d is still open but its connection is no longer in the table (stale entry replaced without shutdown)" % i
        if st == "ClosedNoShutdown":
            return "socket %d closed without shutdown" % i
    if not r["removed_closed_ok"]:
        return "removeIx did not close the socket"
    return None


# ------------------------------------------------------------------ Coq rendering
def c_ops(ops):
    out = []
    for op in ops:
        if op[0] == "svc":
            out.append("ServiceConnects %s %s" % (clist([cz(a) for a in op[1]], "Z"),
                                                  clist([cbool(b) for b in op[2]], "bool")))
        elif op[0] == "shut":
            out.append("ShutdownIx %s" % cz(op[1]))
        elif op[0] == "close":
            out.append("CloseIx %s" % cz(op[1]))
        elif op[0] == "closeall":
            out.append("CloseAllIx")
        else:
            out.append("RemoveIx %s %s" % (cz(op[1]), cbool(op[2])))
    return clist(out, "op")


HEADER = """From Coq Require Import List ZArith Bool.
Import ListNotations.
Require Import V.C26.Model.
Open Scope Z_scope.
Fixpoint lz_eqb (a b : list Z) := match a, b with [], [] => true | x :: a', y :: b' => Z.eqb x y && lz_eqb a' b' | _, _ => false end.
Fixpoint llz_eqb (a b : list (list Z)) := match a, b with [], [] => true | x :: a', y :: b' => lz_eqb x y && llz_eqb a' b' | _, _ => false end.
Definition flat (l : alist) : list Z := flat_map (fun p => [fst p; Z.of_nat (snd p)]) l.
Definition sz (s : sock) : Z := match s with Open => 0 | Shut => 1 | Closed => 2 end.
Definition obs (s : srv) : list (list Z) :=
  [flat (ixes s); flat (cxes s); map sz (sock_states s); [Z.of_nat (errors s)]].
"""
SZ = {"Open": 0, "Shut": 1, "Closed": 2, "ClosedNoShutdown": 3}


def c_obs(r):
    def flat(t):
        return clist([cz(x) for p in t for x in p], "Z")
    err = r["errors"] + 1000 * len(r["other"])
    return clist([flat(r["ixes"]), flat(r["cxes"]), clist([cz(SZ[s]) for s in r["socks"]], "Z"),
                  clist([cz(err)], "Z")], "(list Z)")


# ------------------------------------------------------------------ generators
def small_scope(tls, depth):
    alph = [("svc", [1], [True]), ("svc", [2], [True]), ("svc", [1, 1], [True, True]), ("svc", [1, 2], [True]),
            ("svc", [], [True, True]), ("shut", 1), ("close", 1), ("closeall",),
            ("remove", 1, True), ("remove", 1, False), ("remove", 2, True)]
    if tls:
        alph += [("svc", [1], [False]), ("svc", [2, 1], [False, True])]
    for n in range(1, depth + 1):
        for seq in itertools.product(alph, repeat=n):
            if seq[0][0] != "svc":
                continue
            yield list(seq)


def random_ops(rng, tls):
    ops = []
    for _ in range(rng.randint(3, 18)):
        x = rng.random()
        if x < 0.5:
            cas = [rng.randint(1, 4) for _ in range(rng.choice([0, 1, 1, 1, 2, 3]))]
            hs = [rng.random() < 0.65 for _ in range(rng.randint(0, 5))] if tls else []
            ops.append(("svc", cas, hs))
        elif x < 0.6:
            ops.append(("shut", rng.randint(1, 5)))
        elif x < 0.7:
            ops.append(("close", rng.randint(1, 5)))
        elif x < 0.75:
            ops.append(("closeall",))
        else:
            ops.append(("remove", rng.randint(1, 5), rng.random() < 0.75))
    return ops


def run(ctx):
    from ioflo.aid.consoling import getConsole
    getConsole().reinit(verbosity=0)   # keep ioflo's console output out of the check's stdout
    ctx.rule = ("histories of serviceConnects (batch of accepted peer addresses, repeated addresses included; TLS "
                "handshake outcomes per pending connection), shutdownIx, closeIx, closeAllIx, removeIx(shutclose) "
                "incl. unknown addresses, run on the real Server and ServerTls with listening/connection socket "
                "doubles and on the Coq model; small scope = every sequence of <=3 (quick) / <=4 (thorough) ops over "
                "an 11/13-letter alphabet with 2 addresses, plus seeded random histories over 5 addresses; "
                "non-trivial = some peer address accepted at least twice; distinct by (tls, history)")
    ctx.assumptions = [
        "socket doubles: accept() hands out the harness' (socket, peer address) pairs then raises EAGAIN; "
        "do_handshake() completes or raises SSLWantReadError per oracle; shutdown/close only record",
        "handshake failures other than want-read (they close and propagate) are C25's subject, not generated here",
        "TLS context set-up is replaced by a context double whose wrap_socket returns the socket double",
    ]
    res = ctx.coq_build("C26/Props.v")

    cases, metas = [], []

    def add(tls, ops, label):
        r = run_impl(tls, ops)
        seen, rep = set(), False
        for op in ops:
            if op[0] == "svc":
                for ca in op[1]:
                    rep = rep or ca in seen
                    seen.add(ca)
        ctx.case({"tls": tls, "ops": ops}, nontrivial=rep, kind="%s/%s" % ("tls" if tls else "plain", label))
        cases.append(("obs (run %s %s)" % (cbool(tls), c_ops(ops)), c_obs(r)))
        metas.append((tls, ops, r))

    depth = ctx.n(3, 4)
    for tls in (False, True):
        for ops in small_scope(tls, depth):
            add(tls, ops, "small")
        for _ in range(ctx.n(1500, 8000)):
            add(tls, random_ops(ctx.rng, tls), "random")

    try:
        bad = ctx.coq_cases(HEADER, "llz_eqb", cases)
    except RuntimeError as ex:
        ctx.tie_broken("harness", "coq_cases", str(ex)[-1500:])
        bad = []
    for i in bad[:5]:
        tls, ops, r = metas[i]
        ctx.tie_broken("correspondence", "C26 model vs %s" % ("ServerTls" if tls else "Server"),
                       "ops=%r impl=%r" % (ops, r))
    ctx.extra["mismatches"] = len(bad)
    ctx.exhaustive = False

    def search():
        best = None
        for tls, ops, r in metas:
            why = prop_holds(tls, ops, r)
            if why and (best is None or len(repr(ops)) < len(repr(best["ops"]))):
                best = {"server": "ServerTls" if tls else "Server", "ops": ops, "observed": r, "why": why,
                        "expected": "no exception; stale socket shut down; one entry per address; removed sockets closed",
                        "contradicts": "C26.Props.reaccept_replaces_and_shuts_stale(_tls) / table_functional_no_orphans",
                        "key": "stale-entry-not-shut-down"}
        return best

    ctx.settle(search)
