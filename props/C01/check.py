"""
C01 -- every ioflo module imports in a fresh interpreter, in any order.

Tie T : props/C01/translate.py regenerates coq/gen/ImportGraph.v (import-time events of every
        ioflo/**/*.py + measured start-up/external facts) on every run.
Theorems (coq/C01/Props.v, about the generated graph in the import model coq/C01/Model.v):
        all_import_alone, order_independent (ALL sequences), each_ok_after_any_prefix,
        import_success_monotone (generic simulation lemma).
Correspondence: each module imported alone in a clean subprocess (host imports nothing first;
        NO collections.abc pre-import), verdict AND the set of ioflo modules left in sys.modules
        compared with the model; plus seeded random import orders.
"""
import json
import os
import re
from concurrent.futures import ThreadPoolExecutor

import translate
import vlib

LEVEL = "proof"

COLD = r"""
import sys
names = sys.argv[1:]
res = []
for i, m in enumerate(names):
    try:
        __import__(m)
        res.append([m, True, None, None, None])
    except BaseException as ex:
        tb = ex.__traceback__
        fn, ln = None, None
        while tb is not None:
            fn, ln = tb.tb_frame.f_code.co_filename, tb.tb_lineno
            tb = tb.tb_next
        res.append([m, False, type(ex).__name__, str(ex)[:200], [fn, ln]])
        break                       # the host program dies at the first exception
loaded = sorted(k for k in sys.modules if k == "ioflo" or k.startswith("ioflo."))
import json
print("@@" + json.dumps({"res": res, "loaded": loaded}))
"""

# `from pkg import sub` in a fresh interpreter: attribute seen on the package right after importing the
# package alone vs the submodule object obtained by an explicit import afterwards
ATTR = r"""
import sys
pkg = sys.argv[1]
subs = sys.argv[2:]
res = {}
try:
    __import__(pkg)
    P = sys.modules[pkg]
    before = {}
    for s in subs:
        before[s] = getattr(P, s, None) if hasattr(P, s) else "<absent>"
    for s in subs:
        b = before[s]
        try:
            __import__(pkg + "." + s)
            m = sys.modules[pkg + "." + s]
            if isinstance(b, str) and b == "<absent>":
                res[s] = ["absent", None]
            elif b is m:
                res[s] = ["same", None]
            else:
                res[s] = ["shadow", getattr(b, "__name__", type(b).__name__)]
        except BaseException as ex:
            res[s] = ["importfails", type(ex).__name__]
except BaseException as ex:
    res = {"<package>": ["importfails", type(ex).__name__]}
import json
print("@@" + json.dumps(res))
"""

# cold import with NO process stdio: sys.stdin/stdout/stderr are None before the import (bootstrap), or the
# three descriptors are closed by the shell (then CPython itself leaves them None); result goes to a file
NOSTDIO = r"""
import sys
out, m, mode = sys.argv[1], sys.argv[2], sys.argv[3]
if mode == "none":
    sys.stdin = sys.stdout = sys.stderr = None
state = [sys.stdin is None, sys.stdout is None, sys.stderr is None]
try:
    __import__(m)
    res = [m, mode, True, None, None, None, state]
except BaseException as ex:
    tb = ex.__traceback__
    fn, ln = None, None
    while tb is not None:
        fn, ln = tb.tb_frame.f_code.co_filename, tb.tb_lineno
        tb = tb.tb_next
    res = [m, mode, False, type(ex).__name__, str(ex)[:200], [fn, ln], state]
import json
with open(out, "w") as f:
    json.dump(res, f)
"""

STATE = {}


def waived_modules(ctx):
    out = []
    for f in ctx.known():
        if f.get("status") == "open" and str(f.get("key", "")).startswith("cold-import:"):
            out.append(f["key"].split(":", 1)[1])
    return sorted(out)


def gen(ctx):
    """regenerate coq/gen/ImportGraph.v from the tree under test; fail-closed"""
    try:
        g = translate.extract(ctx.repo, vlib.impl_env(ctx.repo))
        text, ids = translate.render(g, waived_modules(ctx))
    except translate.Untranslatable as ex:
        ctx.tie_broken("translator", "props/C01/translate.py", str(ex))
        return None
    ctx.write_gen("ImportGraph.v", text)
    STATE["graph"], STATE["ids"] = g, ids
    return g


def child(ctx, script, args, timeout=120):
    """fresh interpreter started with -S (no site, no .pth pre-imports), PYTHONPATH = tree under test +
    site-packages (explicit), cwd = scratch dir"""
    cmd = [vlib.PY] + translate.START_FLAGS + ["-c", script] + list(args)
    return vlib.sh(cmd, timeout=timeout, env=translate.child_env(vlib.impl_env(ctx.repo), ctx.repo), cwd=ctx.work)


def cold(ctx, names):
    rc, out = child(ctx, COLD, list(names), 120)
    m = re.search(r"^@@(.*)$", out, re.M)
    if not m:
        return {"res": [[names[0], False, "NoOutput", out[-300:], None]], "loaded": [], "crash": True}
    return json.loads(m.group(1))


def root_module(ctx, entry):
    """dotted ioflo module whose body raised (last traceback frame), else the module asked for"""
    m, ok, cls, msg, where = entry
    if where and where[0]:
        fn = os.path.realpath(where[0])
        top = os.path.realpath(ctx.repo) + os.sep
        if fn.startswith(top) and fn.endswith(".py"):
            rel = fn[len(top):-3].replace(os.sep, ".")
            if rel.endswith(".__init__"):
                rel = rel[:-9]
            return rel
    return m


def parse_nested(s):
    s = s.replace("%N", "").replace(";", ",")
    return json.loads(s)


def run(ctx):
    ctx.rule = ("each of the ioflo module files imported ALONE by `import <name>` in a fresh subprocess whose host "
                "program has imported nothing (exhaustive over the module universe), and seeded random import "
                "orders of 2-6 modules; compared with the Coq model evaluated on the generated graph: verdict, "
                "index of the first failing import, and the exact set of ioflo.* modules left in sys.modules; "
                "non-trivial = the import loads at least 3 ioflo modules; plus, for every package and every submodule "
                "file on disk, a fresh interpreter imports the package alone, reads the attribute pkg.<sub>, then imports "
                "pkg.<sub> explicitly: the attribute must be absent or BE that submodule (compared with the generated "
                "package-binding table)")
    ctx.assumptions = [
        "start-up sys.modules and the side-effect imports of external (stdlib / site-packages) modules are MEASURED "
        "in clean subprocesses of the interpreter under test and emitted into gen/ImportGraph.v",
        "import-time events are those of module bodies, class bodies, decorators, defaults, base classes; code "
        "reached only through a CALL made at import time is not followed",
        "`from m import name` is checked against the names statically bound at the top level of m; the order in "
        "which a partially initialised module binds them (import cycles) is not modelled -- the cold runs cover it",
    ]
    g = gen(ctx)
    ctx.coq_build("C01/Props.v")
    if g is None:
        STATE["cold"] = {}
        return ctx.settle(lambda: search(ctx))
    ids = STATE["ids"]
    mods = g["modules"]
    waived = set(waived_modules(ctx))
    ctx.extra["modules"] = len(mods)
    ctx.extra["external_modules_tracked"] = len(g["ext"])
    ctx.extra["waived"] = sorted(waived)
    ctx.extra["startup_tracked"] = g["startup"]
    ctx.extra["interpreter_start"] = "%s %s -c ...  PYTHONPATH=<tree>:%s" % (
        vlib.PY, " ".join(translate.START_FLAGS), translate.site_packages())
    ctx.extra["host_had_imported_first"] = g["startup_all"]   # measured sys.modules before any ioflo import

    # -- implementation: every module alone, cold ----------------------------------------
    with ThreadPoolExecutor(16) as ex:
        alone = dict(zip(mods, ex.map(lambda m: cold(ctx, [m]), mods)))
    STATE["cold"] = alone

    # -- random orders ---------------------------------------------------------------------
    seqs = []
    for _ in range(ctx.n(40, 600)):
        k = ctx.rng.randint(2, 6)
        seqs.append([ctx.rng.choice(mods) for _ in range(k)])
    with ThreadPoolExecutor(16) as ex:
        seqres = list(ex.map(lambda l: cold(ctx, l), seqs))
    STATE["seqs"] = list(zip(seqs, seqres))

    # -- model side (evaluated by Coq on the generated graph) -------------------------------
    header = ("From Coq Require Import List NArith Bool.\nImport ListNotations.\n"
              "Require Import V.C01.Model V.gen.ImportGraph.\nOpen Scope N_scope.\n"
              "Definition fresh := mkst startup startup.\n"
              "Definition internal (t : st) := filter (fun x => memN x all_modules) (loaded t).\n"
              "Definition alone (m : N) : list N := match import_top events chain fuel m fresh with "
              "Ok t => 1 :: internal t | Err => [0] | OutOfFuel => [2] end.\n"
              "Fixpoint seqr (i : N) (l : list N) (s : st) : list N := match l with [] => 1 :: internal s "
              "| m :: r => match import_top events chain fuel m s with Ok s' => seqr (i + 1) r s' "
              "| Err => [0; i] | OutOfFuel => [2; i] end end.\n")
    exprs = ["map alone all_modules"]
    exprs.append("[" + "; ".join("seqr 0 [%s] fresh" % "; ".join(str(ids[m]) for m in l) for l in seqs) + "]")
    try:
        outs = ctx.coq_eval(header, exprs, name="c01model")
        m_alone = parse_nested(outs[0])
        m_seq = parse_nested(outs[1])
    except Exception as ex:
        ctx.tie_broken("harness", "model evaluation", repr(ex)[-1500:])
        return ctx.settle(lambda: search(ctx))
    names = {v: k for k, v in ids.items()}

    mism = 0
    for m, mv in zip(mods, m_alone):
        r = alone[m]
        ok = bool(r["res"][-1][1])
        model_ok = mv[0] == 1
        model_loaded = sorted(names[i] for i in mv[1:])
        ctx.case({"import": m, "ok": ok, "n_loaded": len(r["loaded"])}, nontrivial=len(r["loaded"]) >= 3,
                 kind="alone:" + ("ok" if ok else str(r["res"][-1][2])))
        if mv[0] == 2:
            ctx.tie_broken("correspondence", "model ran out of fuel", m)
        if ok != model_ok or (ok and model_loaded != r["loaded"]):
            mism += 1
            if mism <= 5:
                ctx.tie_broken("correspondence", "import model vs cold import of " + m,
                               "impl=%r model_ok=%r model_only=%r impl_only=%r" % (
                                   r["res"][-1], model_ok, sorted(set(model_loaded) - set(r["loaded"])),
                                   sorted(set(r["loaded"]) - set(model_loaded))))
    for (l, r), mv in zip(STATE["seqs"], m_seq):
        first_fail = -1 if r["res"][-1][1] else len(r["res"]) - 1
        model_fail = -1 if mv[0] == 1 else mv[1]
        ctx.case({"order": l, "first_fail": first_fail}, nontrivial=True,
                 kind="order:" + ("ok" if first_fail < 0 else "fail"))
        model_loaded = sorted(names[i] for i in mv[1:]) if mv[0] == 1 else None
        if first_fail != model_fail or (first_fail < 0 and model_loaded != r["loaded"]):
            mism += 1
            if mism <= 5:
                ctx.tie_broken("correspondence", "import model vs cold import order", "order=%r impl=%r model=%r" % (
                    l, r["res"][-1], mv[:2]))
    ctx.extra["mismatches"] = mism
    ctx.exhaustive = False

    # -- no process stdio: sys.std* None (bootstrap) and descriptors 0,1,2 closed by the shell -------------
    import shlex
    sample = sorted(set(["ioflo", "ioflo.aid.consoling", "ioflo.base.consoling", "ioflo.aid.aiding", "ioflo.base",
                         "ioflo.base.building", "ioflo.aio.tcp.serving", "ioflo.aio.http.httping", "ioflo.app.run",
                         "ioflo.trim.interior.plain.controlling"]) & set(mods))
    if ctx.thorough:
        sample = [m for m in mods if m not in waived]
    else:
        sample += ctx.rng.sample([m for m in mods if m not in waived and m not in sample], 6)

    def nostdio(job):
        m, mode = job
        outp = os.path.join(ctx.work, "ns_%s_%s.json" % (m.replace(".", "_"), mode))
        cmd = " ".join(shlex.quote(x) for x in [vlib.PY] + translate.START_FLAGS + ["-c", NOSTDIO, outp, m, mode])
        if mode == "closed":
            cmd += " <&- >&- 2>&-"
        vlib.sh(cmd, timeout=120, env=translate.child_env(vlib.impl_env(ctx.repo), ctx.repo), cwd=ctx.work)
        try:
            return json.load(open(outp))
        except Exception:
            return [m, mode, False, "NoResult", "", None, None]
    jobs = [(m, mode) for m in sample for mode in ("none", "closed")]
    with ThreadPoolExecutor(16) as ex:
        STATE["nostdio"] = list(ex.map(nostdio, jobs))
    for r in STATE["nostdio"]:
        ctx.case({"import": r[0], "stdio": r[1], "ok": r[2]}, nontrivial=True, kind="nostdio-%s:%s" % (r[1], "ok" if r[2] else r[3]))
        # the model has no notion of stdio: it predicts what the ordinary cold run showed
        if r[2] != bool(alone[r[0]]["res"][-1][1]):
            mism += 1
            ctx.tie_broken("correspondence", "cold import without process stdio differs from the ordinary cold import",
                           "%r" % (r,))

    # -- `from pkg import sub` must be the submodule whatever the import history ---------------------
    subs_of = {}
    for pk, nme, full in g["sub_files"]:
        subs_of.setdefault(pk, []).append(nme)
    bind = {(pk, nme): t for pk, nme, t in g["pkg_bindings"]}

    def attr_run(pk):
        rc, out = child(ctx, ATTR, [pk] + subs_of[pk], 180)
        mm = re.search(r"^@@(.*)$", out, re.M)
        return json.loads(mm.group(1)) if mm else {"<package>": ["nooutput", out[-200:]]}
    with ThreadPoolExecutor(16) as ex:
        attr = dict(zip(sorted(subs_of), ex.map(attr_run, sorted(subs_of))))
    STATE["shadow"] = []
    for pk in sorted(attr):
        for nme, (verdict, what) in sorted(attr[pk].items()):
            if nme == "<package>" or verdict == "importfails":
                continue
            full = pk + "." + nme
            t = bind.get((pk, nme), "<unbound>")
            model_shadow = (pk, nme) in bind and t != full
            ctx.case({"from": pk, "import": nme, "verdict": verdict}, nontrivial=verdict != "absent",
                     kind="from-import:" + verdict)
            if verdict == "shadow":
                STATE["shadow"].append({"package": pk, "submodule": nme, "attribute_is": what})
            if (verdict == "shadow") != model_shadow:
                mism += 1
                ctx.tie_broken("correspondence", "package-namespace binding table vs fresh interpreter",
                               "from %s import %s: interpreter=%s(%s) table binds it to %r" % (pk, nme, verdict, what, t))
    ctx.extra["from_import_pairs"] = sum(len(v) for v in subs_of.values())

    # -- known findings (print the line; they are excluded from [checked] via gen waived) ----
    for m in mods:
        r = alone[m]["res"][-1]
        if not r[1]:
            root = root_module(ctx, r)
            if root in waived:
                ctx.known_finding("cold-import:" + root)
            elif m in waived:
                ctx.known_finding("cold-import:" + m)
    # a module of an ORDER that fails although it imports alone: the property's second sentence
    ctx.settle(lambda: search(ctx))


def search(ctx):
    """the implementation alone against the property statement: a module that does not import cold,
    or an order in which a module fails although it imports alone"""
    if not STATE.get("cold"):
        # machinery broke before the cold runs: do them now
        mods = sorted(translate.discover(ctx.repo))
        with ThreadPoolExecutor(16) as ex:
            STATE["cold"] = dict(zip(mods, ex.map(lambda m: cold(ctx, [m]), mods)))
    waived = set(waived_modules(ctx))
    roots = {}
    for m, r in sorted(STATE["cold"].items()):
        e = r["res"][-1]
        if not e[1]:
            root = root_module(ctx, e)
            if root in waived or m in waived:
                continue
            roots.setdefault(root, []).append((m, e))
    if roots:
        # report the root cause that breaks the most modules, replay on the smallest module name
        root = sorted(roots, key=lambda k: (-len(roots[k]), k))[0]
        victims = roots[root]
        m, e = sorted(victims, key=lambda v: (v[0] != root, len(v[0]), v[0]))[0]
        return {"key": "cold-import:" + root,
                "command": "cd / && PYTHONPATH=%s:%s /venv/bin/python %s -c 'import %s'" % (
                    ctx.repo, translate.site_packages(), " ".join(translate.START_FLAGS), m),
                "observed": {"exception": e[2], "message": e[3], "raised_at": e[4]},
                "expected": "import succeeds in a fresh interpreter whose host program imported nothing",
                "modules_failing_for_this_cause": len(victims),
                "other_root_causes": {k: [v[0] for v in vs][:5] for k, vs in roots.items() if k != root},
                "contradicts": "C01.Props.all_import_alone"}
    for r in STATE.get("nostdio", []):
        if not r[2] and r[0] not in waived:
            key = "no-stdio-import:%s" % (root_module(ctx, [r[0], False, r[3], r[4], r[5]]))
            if ctx.known_finding(key):
                continue
            how = ("sys.stdin = sys.stdout = sys.stderr = None; import %s" % r[0]) if r[1] == "none" else \
                ("import %s" % r[0])
            return {"key": key,
                    "command": "cd / && PYTHONPATH=%s:%s /venv/bin/python -S -c 'import sys; %s'%s" % (
                        ctx.repo, translate.site_packages(), how, " <&- >&- 2>&-" if r[1] == "closed" else ""),
                    "observed": {"exception": r[3], "message": r[4], "raised_at": r[5], "std_streams_none": r[6]},
                    "expected": "the import succeeds whatever the host process' standard streams are",
                    "contradicts": "C01.Props.import_time_stdio_guarded (static) / cold import runs"}
    for sh in STATE.get("shadow", []):
        key = "shadowed-submodule:%s.%s" % (sh["package"], sh["submodule"])
        if ctx.known_finding(key):
            continue
        full = sh["package"] + "." + sh["submodule"]
        return {"key": key,
                "command": "cd / && PYTHONPATH=%s /venv/bin/python -S -c \"from %s import %s as first; import %s, sys; "
                           "assert first is sys.modules['%s'], first\"" % (ctx.repo, sh["package"], sh["submodule"],
                                                                         full, full),
                "observed": "in a fresh interpreter `from %s import %s` returns %s; after `import %s` it returns the "
                            "submodule" % (sh["package"], sh["submodule"], sh["attribute_is"], full),
                "expected": "the module obtained does not depend on what was imported before",
                "contradicts": "C01.Props.no_shadowed_submodule / from_import_history_independent"}
    for l, r in STATE.get("seqs", []):
        e = r["res"][-1]
        if not e[1] and e[0] not in waived and root_module(ctx, e) not in waived:
            return {"key": "import-order:" + root_module(ctx, e),
                    "command": "PYTHONPATH=%s:%s /venv/bin/python %s -c 'import %s'" % (
                        ctx.repo, translate.site_packages(), " ".join(translate.START_FLAGS), ", ".join(l)),
                    "observed": {"failing": e[0], "exception": e[2], "message": e[3], "raised_at": e[4]},
                    "expected": "every module of the order imports (each imports alone)",
                    "contradicts": "C01.Props.order_independent"}
    return None
