"""
C01 translator: ioflo/**/*.py  ->  coq/gen/ImportGraph.v

For every module file it emits the ordered list of IMPORT-TIME events of the module body
(function bodies and lambda bodies are not executed at import time and are skipped; class
bodies, decorators, default arguments, base classes, module-level statements are scanned):

  EImport k   import of module k (internal: a file under ioflo/; external: any other dotted
              name).  `import a.b.c` / `from a.b import c` emit the chain a, a.b, a.b.c the way
              CPython imports parents first.
  EUse k      evaluation of an attribute chain  X.sub  where X is a name bound to a module by an
              import statement of this module and X.sub names a SUBMODULE (file for ioflo,
              importlib.util.find_spec for external packages, measured).  Such an attribute
              exists only once the submodule has finished importing.
  EFail       a statement that fails in every state: import of an ioflo.* name with no file,
              `from m import n` where n is neither a submodule of m nor a name statically bound at
              the top level of m (ioflo) / not an attribute of m after import (external, measured),
              import of an external module that is not importable in this interpreter (measured)
              outside a try/except ImportError.

External facts are MEASURED in clean subprocesses of the interpreter under test (same start-up
as the cold-import runs): the start-up sys.modules, and for every external module referenced
which tracked modules importing it loads.

Fail-closed: any top-level construct the translator does not know raises Untranslatable.
"""
import ast
import json
import os
import subprocess
import sys
from concurrent.futures import ThreadPoolExecutor

PY = "/venv/bin/python"
# Interpreter start-up of every child process of this property: -S = the site module is not imported, so
# no .pth hook / sitecustomize pre-imports stdlib submodules (importlib.util, collections.abc, ...) "for"
# the host program; third-party packages stay importable through an explicit path entry.
START_FLAGS = ["-S"]


def site_packages():
    import sysconfig
    return sysconfig.get_paths()["purelib"]


def child_env(env, repo=None):
    e = dict(env or {"PATH": os.environ.get("PATH", "")})
    e["PYTHONPATH"] = os.pathsep.join([x for x in (repo, site_packages()) if x])
    e["PYTHONDONTWRITEBYTECODE"] = "1"
    e["PYTHONHASHSEED"] = "0"
    e.pop("PYTHONSTARTUP", None)
    return e


class Untranslatable(Exception):
    pass


# ---------------------------------------------------------------------------------------------
# module universe
# ---------------------------------------------------------------------------------------------

def discover(repo):
    """dotted module name -> (path or None for namespace package, is_package)"""
    mods = {}
    top = os.path.join(repo, "ioflo")
    for root, dirs, files in os.walk(top):
        dirs[:] = sorted(d for d in dirs if d != "__pycache__")
        rel = os.path.relpath(root, repo).replace(os.sep, ".")
        pys = sorted(f for f in files if f.endswith(".py"))
        if "__init__.py" in pys:
            mods[rel] = (os.path.join(root, "__init__.py"), True)
        else:
            # directory without __init__.py: namespace package (PEP 420) iff it leads to .py files
            has_py = any(f.endswith(".py") for _, _, fs in os.walk(root) for f in fs)
            if not has_py:
                continue
            mods[rel] = (None, True)
        for f in pys:
            if f == "__init__.py":
                continue
            mods[rel + "." + f[:-3]] = (os.path.join(root, f), False)
    return mods


# ---------------------------------------------------------------------------------------------
# measurements of the interpreter under test
# ---------------------------------------------------------------------------------------------

_PROBE = r"""
import sys
before = set(sys.modules)            # the start-up module set: nothing but sys imported so far
name = sys.argv[1]
try:
    mod = __import__(name, fromlist=["_"])
    ok = True
    err = None
except BaseException as ex:
    ok = False
    err = type(ex).__name__
loaded = sorted(set(sys.modules) - before)
import json                          # only now (json pulls in re, enum, collections, ...)
req = json.loads(sys.argv[2])
res = {"startup": sorted(before), "ok": ok, "error": err, "loaded": loaded}
if ok:
    res["attrs"] = {a: hasattr(mod, a) for a in req["attrs"]}
    import importlib.util
    subs = {}
    for s in req["subs"]:
        try:
            subs[s] = importlib.util.find_spec(name + "." + s) is not None
        except BaseException:
            subs[s] = False
    res["subs"] = subs
print(json.dumps(res))
"""


def measure(names_attrs, env=None):
    """names_attrs: {external module: {"attrs": set, "subs": set}} -> {module: probe result}
    env: the environment of the cold-import subprocesses (so that the start-up is the same)"""
    if env is None:
        env = {"PYTHONDONTWRITEBYTECODE": "1", "PYTHONHASHSEED": "0", "PATH": os.environ.get("PATH", "")}

    def one(item):
        name, d = item
        req = {"attrs": sorted(d["attrs"]), "subs": sorted(d["subs"])}
        p = subprocess.run([PY] + START_FLAGS + ["-c", _PROBE, name, json.dumps(req)], env=child_env(env), cwd="/",
                           capture_output=True,
                           text=True, timeout=120)
        if p.returncode != 0:
            raise Untranslatable("probe of external module %s failed: %s" % (name, p.stderr[-500:]))
        return name, json.loads(p.stdout.strip().splitlines()[-1])

    with ThreadPoolExecutor(16) as ex:
        return dict(ex.map(one, sorted(names_attrs.items())))


# ---------------------------------------------------------------------------------------------
# static top-level names of an ioflo module (for `from m import n`)
# ---------------------------------------------------------------------------------------------

def _target_names(t, out):
    if isinstance(t, ast.Name):
        out.add(t.id)
    elif isinstance(t, (ast.Tuple, ast.List)):
        for e in t.elts:
            _target_names(e, out)
    elif isinstance(t, ast.Starred):
        _target_names(t.value, out)


class Scanner(object):
    def __init__(self, repo):
        self.repo = repo
        self.mods = discover(repo)
        self.trees = {}
        for m, (path, _) in self.mods.items():
            if path is None:
                self.trees[m] = ast.Module(body=[], type_ignores=[])
            else:
                with open(path, "rb") as f:
                    src = f.read()
                import warnings
                with warnings.catch_warnings():
                    warnings.simplefilter("ignore")
                    self.trees[m] = ast.parse(src, path)
        self._names = {}

    # -- resolve --------------------------------------------------------------
    def resolve_from(self, cur, level, module):
        """absolute dotted name of the base of `from <level dots><module> import ...` in cur"""
        if level == 0:
            return module
        pkg = cur if self.mods[cur][1] else cur.rsplit(".", 1)[0]
        parts = pkg.split(".")
        if level - 1 > len(parts) - 1 + 0 and level - 1 >= len(parts):
            raise Untranslatable("relative import beyond top-level package in %s" % cur)
        base = parts[:len(parts) - (level - 1)]
        if not base:
            raise Untranslatable("relative import beyond top-level package in %s" % cur)
        return ".".join(base + ([module] if module else []))

    def is_internal(self, dotted):
        return dotted == "ioflo" or dotted.startswith("ioflo.")

    # -- static names -----------------------------------------------------------
    def static_names(self, m, _stack=()):
        """names (over-approximated: both branches of every conditional) bound at top level of
        the ioflo module m; None in the set means 'open' (star import from an external module)"""
        if m in self._names:
            return self._names[m]
        if m in _stack:
            return set()
        out = set(["__name__", "__doc__", "__file__", "__package__", "__path__", "__spec__", "__loader__"])

        def stmts(body):
            for st in body:
                if isinstance(st, ast.Import):
                    for a in st.names:
                        out.add(a.asname or a.name.split(".")[0])
                elif isinstance(st, ast.ImportFrom):
                    base = self.resolve_from(m, st.level, st.module)
                    for a in st.names:
                        if a.name == "*":
                            if self.is_internal(base):
                                if base in self.mods:
                                    src = self.static_names(base, _stack + (m,))
                                    allv = self.static_all(base)
                                    for n in src:
                                        if n is None:
                                            out.add(None)
                                        elif allv is not None:
                                            if n in allv:
                                                out.add(n)
                                        elif not n.startswith("_"):
                                            out.add(n)
                            else:
                                out.add(None)
                        else:
                            out.add(a.asname or a.name)
                elif isinstance(st, (ast.FunctionDef, ast.AsyncFunctionDef, ast.ClassDef)):
                    out.add(st.name)
                elif isinstance(st, ast.Assign):
                    for t in st.targets:
                        _target_names(t, out)
                elif isinstance(st, (ast.AugAssign, ast.AnnAssign)):
                    _target_names(st.target, out)
                elif isinstance(st, ast.If):
                    stmts(st.body), stmts(st.orelse)
                elif isinstance(st, (ast.For, ast.AsyncFor)):
                    _target_names(st.target, out)
                    stmts(st.body), stmts(st.orelse)
                elif isinstance(st, ast.While):
                    stmts(st.body), stmts(st.orelse)
                elif isinstance(st, (ast.With, ast.AsyncWith)):
                    for it in st.items:
                        if it.optional_vars is not None:
                            _target_names(it.optional_vars, out)
                    stmts(st.body)
                elif isinstance(st, ast.Try):
                    stmts(st.body), stmts(st.orelse), stmts(st.finalbody)
                    for h in st.handlers:
                        if h.name:
                            out.add(h.name)
                        stmts(h.body)
        stmts(self.trees[m].body)
        # submodules imported by anybody become attributes too, but `from pkg import sub` is
        # handled separately (sub is a module file)
        self._names[m] = out
        return out

    def bindings(self, m, _stack=()):
        """name -> what the top-level body of ioflo module m binds it to, in statement order (last
        binding wins, both branches of conditionals are taken):  a dotted module name when the name
        is bound to a MODULE by an import statement (import x [as n], from p import submodule,
        star import of such a name), else None (class, function, assigned value, imported
        non-module attribute).  Star imports of ioflo modules are expanded (respecting __all__ /
        leading underscore); a star import of an external module raises Untranslatable."""
        if not hasattr(self, "_bind"):
            self._bind = {}
        if m in self._bind:
            return self._bind[m]
        if m in _stack:
            return {}
        out = {}

        def is_mod(d):
            if self.is_internal(d):
                return d in self.mods
            return True     # `import x.y` / `from x import y` of an external: y may be a module; treated below

        def stmts(body):
            for st in body:
                if isinstance(st, ast.Import):
                    for a in st.names:
                        if a.asname:
                            out[a.asname] = a.name
                        else:
                            out[a.name.split(".")[0]] = a.name.split(".")[0]
                elif isinstance(st, ast.ImportFrom):
                    if st.module == "__future__" and st.level == 0:
                        continue
                    base = self.resolve_from(m, st.level, st.module)
                    for a in st.names:
                        if a.name == "*":
                            if not self.is_internal(base):
                                raise Untranslatable("%s: star import of external module %s" % (m, base))
                            if base not in self.mods:
                                continue
                            src = self.bindings(base, _stack + (m,))
                            allv = self.static_all(base)
                            for n, t in src.items():
                                if (allv is not None and n in allv) or (allv is None and not n.startswith("_")):
                                    out[n] = t
                        else:
                            sub = base + "." + a.name
                            bound = a.asname or a.name
                            if self.is_internal(base):
                                srcb = self.bindings(base, _stack + (m,)) if base in self.mods else {}
                                if a.name in srcb:
                                    out[bound] = srcb[a.name]     # the attribute the source body bound
                                elif sub in self.mods:
                                    out[bound] = sub
                                else:
                                    out[bound] = None
                            else:
                                out[bound] = ("?ext", sub)           # external attribute: module or value
                elif isinstance(st, (ast.FunctionDef, ast.AsyncFunctionDef, ast.ClassDef)):
                    out[st.name] = None
                elif isinstance(st, ast.Assign):
                    ns = set()
                    for t in st.targets:
                        _target_names(t, ns)
                    for n in ns:
                        out[n] = None
                elif isinstance(st, (ast.AugAssign, ast.AnnAssign)):
                    ns = set()
                    _target_names(st.target, ns)
                    for n in ns:
                        out[n] = None
                elif isinstance(st, ast.If):
                    stmts(st.body), stmts(st.orelse)
                elif isinstance(st, (ast.For, ast.AsyncFor)):
                    ns = set()
                    _target_names(st.target, ns)
                    for n in ns:
                        out[n] = None
                    stmts(st.body), stmts(st.orelse)
                elif isinstance(st, ast.While):
                    stmts(st.body), stmts(st.orelse)
                elif isinstance(st, (ast.With, ast.AsyncWith)):
                    for it in st.items:
                        if it.optional_vars is not None:
                            ns = set()
                            _target_names(it.optional_vars, ns)
                            for n in ns:
                                out[n] = None
                    stmts(st.body)
                elif isinstance(st, ast.Try):
                    stmts(st.body), stmts(st.orelse), stmts(st.finalbody)
                    for h in st.handlers:
                        if h.name:
                            out[h.name] = None
                        stmts(h.body)
                elif isinstance(st, ast.Delete):
                    for t in st.targets:
                        if isinstance(t, ast.Name):
                            out.pop(t.id, None)
        stmts(self.trees[m].body)
        self._bind[m] = out
        return out

    def static_all(self, m):
        for st in self.trees[m].body:
            if isinstance(st, ast.Assign) and any(isinstance(t, ast.Name) and t.id == "__all__" for t in st.targets):
                try:
                    v = ast.literal_eval(st.value)
                    return set(v)
                except Exception:
                    raise Untranslatable("%s: __all__ is not a literal" % m)
        return None


# ---------------------------------------------------------------------------------------------
# event extraction
# ---------------------------------------------------------------------------------------------

class Extract(object):
    """two passes: pass 1 (measure=None) collects the external modules/attributes to measure,
    pass 2 emits events using the measurements"""

    def __init__(self, scanner, meas=None):
        self.sc = scanner
        self.meas = meas
        self.want = {}      # external module -> {"attrs": set, "subs": set}
        self.notes = []

    # -- helpers -------------------------------------------------------------
    def _want(self, ext):
        return self.want.setdefault(ext, {"attrs": set(), "subs": set()})

    def ext_ok(self, ext):
        self._want(ext)
        if self.meas is None or ext not in self.meas:
            return True
        return self.meas[ext]["ok"]

    def ext_attr(self, ext, a):
        self._want(ext)["attrs"].add(a)
        if self.meas is None or ext not in self.meas:
            return True
        return self.meas[ext]["ok"] and self.meas[ext]["attrs"].get(a, False)

    def ext_sub(self, ext, s):
        self._want(ext)["subs"].add(s)
        if self.meas is None or ext not in self.meas:
            return False
        return self.meas[ext]["ok"] and self.meas[ext]["subs"].get(s, False)

    def is_module(self, dotted):
        if self.sc.is_internal(dotted):
            return dotted in self.sc.mods
        if "." not in dotted:
            return self.ext_ok(dotted)
        parent, s = dotted.rsplit(".", 1)
        return self.ext_sub(parent, s)

    def chain(self, dotted):
        """events for importing dotted (parents first); (events, ok)"""
        parts = dotted.split(".")
        evs = []
        for i in range(1, len(parts) + 1):
            name = ".".join(parts[:i])
            if self.sc.is_internal(name):
                if name not in self.sc.mods:
                    return evs + [("fail", "no module named " + name)], False
            else:
                if i == 1:
                    if not self.ext_ok(name):
                        return evs + [("fail", "no module named " + name)], False
                else:
                    # importing a.b requires b to be a submodule of a OR already an entry in
                    # sys.modules (os.path); measured by really importing it
                    if not self.ext_ok(name):
                        return evs + [("fail", "no module named " + name)], False
            evs.append(("import", name))
        return evs, True

    # -- per module -----------------------------------------------------------
    def module_events(self, m):
        self.cur = m
        self.env = {}          # local name -> dotted module it is bound to by an import
        self.consts = {}       # simple literal constants for evaluating `if` tests / loops
        evs = []
        self.block(self.sc.trees[m].body, evs)
        self.fn_scan(m)
        return evs

    def fn_scan(self, m):
        """RUN-TIME uses: attribute chains X.Y (Y a submodule of the package X) inside function and
        method bodies, with the module-level import bindings in force at the end of the module body plus
        the imports made inside the same function; and the modules those in-function imports reach"""
        if not hasattr(self, "fn_uses"):
            self.fn_uses, self.fn_imports = {}, {}
        uses, imps = [], []
        module_env = dict(self.env)
        for fn in ast.walk(self.sc.trees[m]):
            if not isinstance(fn, (ast.FunctionDef, ast.AsyncFunctionDef)):
                continue
            env = dict(module_env)
            local = set(a.arg for a in fn.args.posonlyargs + fn.args.args + fn.args.kwonlyargs)
            for x in (fn.args.vararg, fn.args.kwarg):
                if x:
                    local.add(x.arg)
            body_nodes = [n for st in fn.body for n in ast.walk(st)]
            for n in body_nodes:
                if isinstance(n, ast.Name) and isinstance(n.ctx, ast.Store):
                    local.add(n.id)
            for n in body_nodes:
                if isinstance(n, ast.Import):
                    for a in n.names:
                        c, ok = self.chain(a.name)
                        imps.extend(x[1] for x in c if x[0] == "import")
                        env[a.asname or a.name.split(".")[0]] = a.name if a.asname else a.name.split(".")[0]
                        local.discard(a.asname or a.name.split(".")[0])
                elif isinstance(n, ast.ImportFrom) and not (n.module == "__future__" and n.level == 0):
                    try:
                        base = self.sc.resolve_from(m, n.level, n.module)
                    except Untranslatable:
                        continue
                    c, ok = self.chain(base)
                    imps.extend(x[1] for x in c if x[0] == "import")
                    for a in n.names:
                        if a.name != "*" and ok and self.is_module(base + "." + a.name):
                            imps.append(base + "." + a.name)
                            env[a.asname or a.name] = base + "." + a.name
            for n in body_nodes:
                if isinstance(n, ast.Attribute):
                    chain, x = [], n
                    while isinstance(x, ast.Attribute):
                        chain.append(x.attr)
                        x = x.value
                    if isinstance(x, ast.Name) and x.id in env and x.id not in local:
                        dotted = env[x.id]
                        for a in reversed(chain):
                            cand = dotted + "." + a
                            if self.attr_is_plain(dotted, a):
                                break
                            if self.is_module(cand):
                                if cand not in uses:
                                    uses.append(cand)
                                dotted = cand
                            else:
                                break
        self.fn_uses[m] = uses
        self.fn_imports[m] = sorted(set(imps))

    def block(self, body, evs):
        for st in body:
            self.stmt(st, evs)

    def stmt(self, st, evs):
        m = self.cur
        if isinstance(st, ast.Import):
            for a in st.names:
                c, ok = self.chain(a.name)
                evs.extend(c)
                if a.asname:
                    self.env[a.asname] = a.name
                else:
                    self.env[a.name.split(".")[0]] = a.name.split(".")[0]
        elif isinstance(st, ast.ImportFrom):
            if st.module == "__future__" and st.level == 0:
                return
            base = self.sc.resolve_from(m, st.level, st.module)
            c, ok = self.chain(base)
            evs.extend(c)
            if not ok:
                return
            for a in st.names:
                if a.name == "*":
                    continue
                sub = base + "." + a.name
                bound = a.asname or a.name
                if self.sc.is_internal(base):
                    names = self.sc.static_names(base)
                    if sub in self.sc.mods and a.name not in names:
                        evs.append(("import", sub))
                        self.env[bound] = sub
                    elif a.name in names or None in names:
                        if sub in self.sc.mods:
                            # name is both statically bound and a submodule: _handle_fromlist
                            # only imports the submodule when the attribute is missing
                            self.notes.append("%s: from %s import %s is attribute AND submodule" % (m, base, a.name))
                        self.env.pop(bound, None)
                    else:
                        evs.append(("fail", "cannot import name %s from %s" % (a.name, base)))
                else:
                    if self.ext_attr(base, a.name):
                        self.env.pop(bound, None)
                        if self.ext_sub(base, a.name):
                            self.env[bound] = sub
                    elif self.ext_sub(base, a.name):
                        evs.append(("import", sub))
                        self.env[bound] = sub
                    else:
                        evs.append(("fail", "cannot import name %s from %s" % (a.name, base)))
        elif isinstance(st, (ast.FunctionDef, ast.AsyncFunctionDef)):
            for d in st.decorator_list:
                self.expr(d, evs)
            for d in st.args.defaults + [k for k in st.args.kw_defaults if k is not None]:
                self.expr(d, evs)
            for a in st.args.posonlyargs + st.args.args + st.args.kwonlyargs + \
                    [x for x in (st.args.vararg, st.args.kwarg) if x]:
                if a.annotation is not None:
                    self.expr(a.annotation, evs)
            if st.returns is not None:
                self.expr(st.returns, evs)
            self.env.pop(st.name, None)
        elif isinstance(st, ast.ClassDef):
            for d in st.decorator_list + st.bases + [k.value for k in st.keywords]:
                self.expr(d, evs)
            saved = dict(self.env)
            self.block(st.body, evs)      # class body executes at import time
            self.env = saved
            self.env.pop(st.name, None)
        elif isinstance(st, ast.Assign):
            self.expr(st.value, evs)
            for t in st.targets:
                self.expr_targets(t, evs)
                if isinstance(t, ast.Name):
                    try:
                        self.consts[t.id] = ast.literal_eval(st.value)
                    except Exception:
                        self.consts.pop(t.id, None)
        elif isinstance(st, ast.AugAssign):
            self.expr(st.value, evs)
            self.expr_targets(st.target, evs)
        elif isinstance(st, ast.AnnAssign):
            self.expr(st.annotation, evs)
            if st.value is not None:
                self.expr(st.value, evs)
            self.expr_targets(st.target, evs)
        elif isinstance(st, ast.Expr):
            if self.import_module_call(st.value, evs):
                return
            self.expr(st.value, evs)
        elif isinstance(st, ast.If):
            self.expr(st.test, evs)
            v = self.eval_test(st.test)
            if v is True:
                self.block(st.body, evs)
            elif v is False:
                self.block(st.orelse, evs)
            else:
                a, b = [], []
                saved = dict(self.env)
                self.block(st.body, a)
                self.env = dict(saved)
                self.block(st.orelse, b)
                self.env = saved
                if a or b:
                    raise Untranslatable("%s:%d: cannot decide `if` whose branches have import-time events"
                                         % (m, st.lineno))
        elif isinstance(st, ast.Try):
            self.try_(st, evs)
        elif isinstance(st, (ast.For, ast.AsyncFor)):
            self.expr(st.iter, evs)
            self.for_(st, evs)
        elif isinstance(st, ast.While):
            self.expr(st.test, evs)
            sub = []
            self.block(st.body + st.orelse, sub)
            if sub:
                raise Untranslatable("%s:%d: while loop with import-time events" % (m, st.lineno))
        elif isinstance(st, (ast.With, ast.AsyncWith)):
            for it in st.items:
                self.expr(it.context_expr, evs)
            self.block(st.body, evs)
        elif isinstance(st, (ast.Pass, ast.Global, ast.Nonlocal, ast.Break, ast.Continue)):
            pass
        elif isinstance(st, (ast.Delete,)):
            for t in st.targets:
                if isinstance(t, ast.Name):
                    self.env.pop(t.id, None)
        elif isinstance(st, ast.Assert):
            self.expr(st.test, evs)
        elif isinstance(st, ast.Raise):
            raise Untranslatable("%s:%d: top-level raise" % (m, st.lineno))
        elif isinstance(st, ast.Return):
            raise Untranslatable("%s:%d: return outside function" % (m, st.lineno))
        else:
            raise Untranslatable("%s:%d: unknown statement %s" % (m, st.lineno, type(st).__name__))

    def expr_targets(self, t, evs):
        if isinstance(t, ast.Name):
            self.env.pop(t.id, None)
        elif isinstance(t, (ast.Tuple, ast.List)):
            for e in t.elts:
                self.expr_targets(e, evs)
        elif isinstance(t, ast.Starred):
            self.expr_targets(t.value, evs)
        elif isinstance(t, (ast.Attribute, ast.Subscript)):
            self.expr(t.value, evs)
            if isinstance(t, ast.Subscript):
                self.expr(t.slice, evs)
        else:
            raise Untranslatable("%s: unknown assignment target %s" % (self.cur, type(t).__name__))

    # -- expressions: attribute chains rooted at a module-bound name ---------------
    def expr(self, e, evs):
        if e is None:
            return
        if isinstance(e, ast.Lambda):
            for d in e.args.defaults + [k for k in e.args.kw_defaults if k is not None]:
                self.expr(d, evs)
            return                     # body not executed at import time
        if isinstance(e, ast.Attribute):
            chain = []
            x = e
            while isinstance(x, ast.Attribute):
                chain.append(x.attr)
                x = x.value
            if isinstance(x, ast.Name) and x.id in self.env:
                dotted = self.env[x.id]
                for a in reversed(chain):
                    cand = dotted + "." + a
                    if self.attr_is_plain(dotted, a):
                        break
                    if self.is_module(cand):
                        evs.append(("use", cand))
                        dotted = cand
                    else:
                        break
                return
            self.expr(x, evs)
            return
        for child in ast.iter_child_nodes(e):
            if isinstance(child, ast.expr):
                self.expr(child, evs)
            elif isinstance(child, ast.comprehension):
                self.expr(child.iter, evs)
                for c in child.ifs:
                    self.expr(c, evs)
            elif isinstance(child, (ast.keyword,)):
                self.expr(child.value, evs)
            elif isinstance(child, (ast.expr_context, ast.operator, ast.unaryop, ast.boolop, ast.cmpop)):
                pass
            elif isinstance(child, ast.arguments):
                pass
            else:
                raise Untranslatable("%s: unknown expression child %s" % (self.cur, type(child).__name__))

    def attr_is_plain(self, dotted, a):
        """X.a is an ordinary attribute bound by the module's own body (then it exists as soon as
        the module is initialised, whatever was imported before)"""
        if self.sc.is_internal(dotted):
            return dotted in self.sc.mods and a in self.sc.static_names(dotted) \
                and (dotted + "." + a) not in self.sc.mods
        return False

    # -- control ------------------------------------------------------------------
    def eval_test(self, t):
        """True / False / None(unknown).  Only interpreter-identity tests are evaluated."""
        src = ast.unparse(t)
        if "__name__" in src and "__main__" in src:
            if isinstance(t, ast.Compare) or (isinstance(t, ast.BoolOp) and isinstance(t.op, ast.And)):
                return False
        allowed = {"sys": _SysView()}
        allowed.update({k: v for k, v in self.consts.items() if isinstance(v, (bool, int, str))})
        names = {n.id for n in ast.walk(t) if isinstance(n, ast.Name)}
        if not names <= set(allowed):
            return None
        for n in ast.walk(t):
            if isinstance(n, (ast.Call, ast.Lambda, ast.Await, ast.Yield, ast.NamedExpr)):
                return None
            if isinstance(n, ast.Attribute) and not (isinstance(n.value, ast.Name) and n.value.id == "sys"
                                                     and n.attr in _SysView.FIELDS):
                return None
        try:
            return bool(eval(compile(ast.Expression(t), "<test>", "eval"), {"__builtins__": {}}, allowed))
        except Exception:
            return None

    def try_(self, st, evs):
        body = []
        saved = dict(self.env)
        self.block(st.body, body)
        catches = False
        for h in st.handlers:
            if h.type is None:
                catches = True
            else:
                for n in ast.walk(h.type):
                    if isinstance(n, ast.Name) and n.id in ("ImportError", "ModuleNotFoundError", "Exception",
                                                            "BaseException"):
                        catches = True
        fails = [e for e in body if e[0] == "fail"]
        if not fails:
            # outcome of the body does not depend on the import state as far as the model sees,
            # PROVIDED it has no events whose success is state dependent
            if any(e[0] == "use" for e in body) and st.handlers:
                raise Untranslatable("%s:%d: try body with a state-dependent attribute use" % (self.cur, st.lineno))
            if any(e[0] == "import" and self.sc.is_internal(e[1]) for e in body) and st.handlers:
                raise Untranslatable("%s:%d: try/except around an ioflo import" % (self.cur, st.lineno))
            evs.extend(body)
            self.block(st.orelse, evs)
            self.block(st.finalbody, evs)
            return
        # the body fails (statically, measured): events before the failing one happen, then the handler
        if any(e[0] == "import" and self.sc.is_internal(e[1]) for e in body) or any(e[0] == "use" for e in body):
            raise Untranslatable("%s:%d: try/except around an ioflo import" % (self.cur, st.lineno))
        k = body.index(fails[0])
        evs.extend(body[:k])
        self.env = saved
        if not catches:
            evs.append(fails[0])
            return
        if len(st.handlers) != 1:
            raise Untranslatable("%s:%d: several handlers" % (self.cur, st.lineno))
        self.block(st.handlers[0].body, evs)
        self.block(st.finalbody, evs)

    def for_(self, st, evs):
        """for m in <literal list name>: importlib.import_module(".{0}".format(m), package='p')"""
        sub = []
        saved = dict(self.env)
        probe = Extract(self.sc, self.meas)
        probe.cur, probe.env, probe.consts = self.cur, dict(self.env), dict(self.consts)
        has_dyn = any(isinstance(n, ast.Call) and self._is_import_module(n) for b in st.body for n in ast.walk(b))
        if not has_dyn:
            self.block(st.body + st.orelse, sub)
            self.env = saved
            if sub:
                raise Untranslatable("%s:%d: for loop with import-time events" % (self.cur, st.lineno))
            return
        if not (isinstance(st.target, ast.Name) and isinstance(st.iter, ast.Name) and st.iter.id in self.consts
                and isinstance(self.consts[st.iter.id], (list, tuple))):
            raise Untranslatable("%s:%d: dynamic import loop over a non-literal" % (self.cur, st.lineno))
        for v in self.consts[st.iter.id]:
            self.consts[st.target.id] = v
            self.block(st.body, evs)
        self.consts.pop(st.target.id, None)
        if st.orelse:
            self.block(st.orelse, evs)

    def _is_import_module(self, call):
        f = call.func
        return (isinstance(f, ast.Attribute) and f.attr == "import_module" and isinstance(f.value, ast.Name)
                and f.value.id == "importlib") or (isinstance(f, ast.Name) and f.id in ("import_module", "__import__"))

    def import_module_call(self, e, evs):
        if not (isinstance(e, ast.Call) and self._is_import_module(e)):
            for n in ast.walk(e):
                if isinstance(n, ast.Call) and self._is_import_module(n):
                    raise Untranslatable("%s:%d: import_module inside an expression" % (self.cur, e.lineno))
            return False
        if isinstance(e.func, ast.Name):
            raise Untranslatable("%s:%d: bare import_module/__import__" % (self.cur, e.lineno))
        self.expr(e.func, evs)
        args = [self.const_expr(a) for a in e.args]
        kw = {k.arg: self.const_expr(k.value) for k in e.keywords}
        if len(args) == 2:
            kw["package"] = args[1]
        name = args[0]
        pkg = kw.get("package")
        if not isinstance(name, str):
            raise Untranslatable("%s:%d: import_module with non-constant name" % (self.cur, e.lineno))
        if name.startswith("."):
            if not isinstance(pkg, str):
                raise Untranslatable("%s:%d: relative import_module without package" % (self.cur, e.lineno))
            level = len(name) - len(name.lstrip("."))
            parts = pkg.split(".")
            base = parts[:len(parts) - (level - 1)]
            dotted = ".".join(base + [name.lstrip(".")])
            # importlib.import_module imports the package first
            c0, ok0 = self.chain(pkg)
            evs.extend(c0)
            if not ok0:
                return True
        else:
            dotted = name
        c, ok = self.chain(dotted)
        evs.extend(c)
        return True

    def const_expr(self, e):
        """tiny evaluator: string constants, names of known constants, "...".format(consts)"""
        if isinstance(e, ast.Constant):
            return e.value
        if isinstance(e, ast.Name) and e.id in self.consts:
            return self.consts[e.id]
        if isinstance(e, ast.Call) and isinstance(e.func, ast.Attribute) and e.func.attr == "format" \
                and isinstance(e.func.value, ast.Constant) and isinstance(e.func.value.value, str) and not e.keywords:
            args = [self.const_expr(a) for a in e.args]
            if all(isinstance(a, (str, int)) for a in args):
                return e.func.value.value.format(*args)
        if isinstance(e, ast.BinOp) and isinstance(e.op, ast.Add):
            a, b = self.const_expr(e.left), self.const_expr(e.right)
            if isinstance(a, str) and isinstance(b, str):
                return a + b
        raise Untranslatable("%s:%d: cannot evaluate %s" % (self.cur, e.lineno, ast.unparse(e)))


class _SysView(object):
    """what `if` tests may look at: identity of the interpreter under test (same binary)"""
    FIELDS = ("version", "version_info", "platform", "maxsize", "byteorder")
    version = sys.version
    version_info = sys.version_info
    platform = sys.platform
    maxsize = sys.maxsize
    byteorder = sys.byteorder


# ---------------------------------------------------------------------------------------------
# driver
# ---------------------------------------------------------------------------------------------

def stdio_table(sc):
    """dereferences  sys.stdout.X / sys.stderr.X / sys.stdin.X  in code that can run while an ioflo module is
    imported: module and class bodies, plus (name based, transitive over-approximation) the bodies of every
    function / class constructor whose NAME is called from such code.  Each entry: (module, line, guarded)
    guarded = inside a try body that has handlers, inside an except handler (error path), or under an `if`
    whose test mentions the same sys.std* object."""
    funcs = {}       # name -> list of (module, FunctionDef)
    for m, tree in sc.trees.items():
        for n in ast.walk(tree):
            if isinstance(n, (ast.FunctionDef, ast.AsyncFunctionDef)):
                funcs.setdefault(n.name, []).append((m, n))
            elif isinstance(n, ast.ClassDef):
                for f in n.body:
                    if isinstance(f, ast.FunctionDef) and f.name == "__init__":
                        funcs.setdefault(n.name, []).append((m, f))

    def called_names(nodes):
        out = set()
        for n in nodes:
            if isinstance(n, ast.Call):
                f = n.func
                if isinstance(f, ast.Name):
                    out.add(f.id)
                elif isinstance(f, ast.Attribute):
                    out.add(f.attr)
        return out

    def top_nodes(tree):
        """nodes executed at import: everything except function bodies (defaults/decorators ignored here)"""
        out, stack = [], list(tree.body)
        while stack:
            n = stack.pop()
            if isinstance(n, (ast.FunctionDef, ast.AsyncFunctionDef, ast.Lambda)):
                continue
            out.append(n)
            stack.extend(ast.iter_child_nodes(n))
        return out

    reach, todo = set(), set()
    roots = []
    for m, tree in sc.trees.items():
        nodes = top_nodes(tree)
        roots.append((m, tree))
        todo |= called_names(nodes)
    while todo:
        nme = todo.pop()
        if nme in reach or nme not in funcs:
            continue
        reach.add(nme)
        for m, f in funcs[nme]:
            todo |= called_names(ast.walk(f)) - reach

    def derefs(m, root, skip_functions):
        out = []

        def visit(n, guarded):
            if skip_functions and isinstance(n, (ast.FunctionDef, ast.AsyncFunctionDef, ast.Lambda)):
                return
            if isinstance(n, ast.Try):
                for b in n.body:
                    visit(b, guarded or bool(n.handlers))
                for h in n.handlers:
                    for b in h.body:
                        visit(b, True)
                for b in n.orelse + n.finalbody:
                    visit(b, guarded)
                return
            if isinstance(n, ast.If):
                src = ast.unparse(n.test)
                if "__name__" in src and "__main__" in src:
                    for b in n.orelse:
                        visit(b, guarded)
                    return                      # not executed on import
                g = guarded or any(("sys.std" + k) in src for k in ("out", "err", "in"))
                visit(n.test, guarded)
                for b in n.body:
                    visit(b, g)
                for b in n.orelse:
                    visit(b, guarded)
                return
            if isinstance(n, ast.Attribute) and isinstance(n.value, ast.Attribute) and isinstance(n.value.value, ast.Name) \
                    and n.value.value.id == "sys" and n.value.attr in ("stdout", "stderr", "stdin"):
                out.append((m, n.lineno, guarded))
            for c in ast.iter_child_nodes(n):
                visit(c, guarded)
        for st in (root.body if hasattr(root, "body") else [root]):
            visit(st, False)
        return out

    table = []
    for m, tree in roots:
        table += derefs(m, tree, True)
    for nme in sorted(reach):
        for m, f in funcs[nme]:
            table += derefs(m, f, False)
    return sorted(set(table))


def extract(repo, env=None):
    """-> dict(modules=[internal names], events={name: [(kind, arg)]}, startup=[names], ext={...})"""
    if os.path.realpath(sys.executable) != os.path.realpath(PY):
        raise Untranslatable("translator must run under the interpreter under test")
    sc = Scanner(repo)
    p1 = Extract(sc, None)
    for m in sorted(sc.mods):
        p1.module_events(m)
    # iterate measurement until the set of wanted facts is stable (pass 2 may ask for more)
    meas, want, events, p2 = {}, p1.want, None, p1
    for _ in range(6):
        todo = {}
        for k, v in want.items():
            if k not in meas:
                todo[k] = v
            elif meas[k]["ok"] and not (v["attrs"] <= set(meas[k]["attrs"]) and v["subs"] <= set(meas[k]["subs"])):
                todo[k] = v
        if not todo and events is not None:
            break
        meas.update(measure(todo, env))
        p2 = Extract(sc, meas)
        for k, v in want.items():
            p2._want(k)["attrs"] |= v["attrs"]
            p2._want(k)["subs"] |= v["subs"]
        events = {m: p2.module_events(m) for m in sorted(sc.mods)}
        want = p2.want
    else:
        raise Untranslatable("measurement did not stabilise")
    startup = None
    for k, v in meas.items():
        s = set(v["startup"])
        startup = s if startup is None else (startup & s)
    startup = sorted(startup or [])
    # external modules: events = imports of the tracked modules they load
    tracked = set(meas)
    for evs in events.values():
        for k, a in evs:
            if k in ("import", "use"):
                tracked.add(a)
    ext_events = {}
    for e in sorted(tracked):
        if sc.is_internal(e):
            continue
        if e in meas and meas[e]["ok"]:
            loaded = [x for x in meas[e]["loaded"] if x in tracked and x != e]
        else:
            loaded = []
        ext_events[e] = [("import", x) for x in loaded]
    pkg_bindings, sub_files = [], []
    for m in sorted(sc.mods):
        if not sc.mods[m][1]:
            continue
        for n, t in sorted(sc.bindings(m).items()):
            if isinstance(t, tuple):
                t = t[1]                      # external attribute: a dotted name that is not an ioflo module
            pkg_bindings.append((m, n, t))
        for k in sorted(sc.mods):
            if k.startswith(m + ".") and "." not in k[len(m) + 1:]:
                sub_files.append((m, k[len(m) + 1:], k))
    for m in sorted(sc.mods):
        for y in p2.fn_uses.get(m, []) + p2.fn_imports.get(m, []):
            tracked.add(y)
            if not sc.is_internal(y) and y not in ext_events:
                ext_events[y] = [("import", x) for x in meas[y]["loaded"] if x in tracked and x != y] \
                    if y in meas and meas[y]["ok"] else []
    return {"stdio": stdio_table(sc), "fn_uses": dict(p2.fn_uses), "fn_imports": dict(p2.fn_imports),
            "pkg_bindings": pkg_bindings, "sub_files": sub_files,
            "modules": sorted(sc.mods), "events": events, "startup": [s for s in startup if s in tracked],
            "startup_all": startup, "ext": ext_events, "notes": p2.notes,
            "unimportable_ext": sorted(k for k, v in meas.items() if not v["ok"])}


def render(g, waived):
    """Coq text of gen/ImportGraph.v"""
    ids = {}
    order = list(g["modules"]) + sorted(g["ext"])
    for i, n in enumerate(order):
        ids[n] = i + 1

    def ev(e):
        k, a = e
        if k == "import":
            return "EImport %d" % ids[a]
        if k == "use":
            return "EUse %d" % ids[a]
        return "EFail"

    L = ["(* GENERATED by props/C01/translate.py from ioflo/**/*.py -- do not edit *)",
         "From Coq Require Import List NArith.", "Import ListNotations.",
         "Require Import V.C01.Model.", "Open Scope N_scope.", ""]
    L.append("(* id table:")
    for n in order:
        L.append("   %4d  %s%s" % (ids[n], n, "" if n in g["events"] else "   (external, measured)"))
    L.append("*)")
    L.append("")
    L.append("Definition events (m : N) : list event :=")
    L.append("  match m with")
    for n in order:
        evs = g["events"].get(n, g["ext"].get(n))
        if evs:
            L.append("  | %d => [%s]  (* %s *)" % (ids[n], "; ".join(ev(e) for e in evs), n))
    L.append("  | _ => []")
    L.append("  end.")
    L.append("")
    L.append("(* `import a.b.c` from the host program: a, a.b, a.b.c in this order *)")
    L.append("Definition chain (m : N) : list N :=")
    L.append("  match m with")
    for n in order:
        parts = n.split(".")
        if len(parts) > 1:
            anc = [".".join(parts[:i]) for i in range(1, len(parts) + 1)]
            if all(a in ids for a in anc):
                L.append("  | %d => [%s]" % (ids[n], "; ".join(str(ids[a]) for a in anc)))
    L.append("  | _ => [m]")
    L.append("  end.")
    L.append("")
    L.append("Definition all_modules : list N := [%s]." % "; ".join(str(ids[n]) for n in g["modules"]))
    L.append("Definition ext_modules : list N := [%s]." % "; ".join(str(ids[n]) for n in sorted(g["ext"])))
    L.append("Definition startup : list N := [%s]." % "; ".join(str(ids[n]) for n in g["startup"]))
    L.append("Definition waived : list N := [%s]." % "; ".join(str(ids[n]) for n in sorted(waived) if n in ids))
    names = {}

    def nid(n):
        return names.setdefault(n, len(names) + 1)
    L.append("(* names bound in a PACKAGE namespace by the body of its __init__ (package id, name id, id of the")
    L.append("   module the name is bound to, 0 = not an ioflo/tracked module: class, function, value, other module) *)")
    L.append("Definition pkg_bindings : list (N * N * N) := [%s]." % "; ".join(
        "(%d, %d, %d)" % (ids[p], nid(n), ids.get(t, 0) if isinstance(t, str) else 0) for p, n, t in g["pkg_bindings"]))
    L.append("(* submodule files on disk: (package id, name id of the file stem, id of the submodule) *)")
    L.append("Definition submodule_files : list (N * N * N) := [%s]." % "; ".join(
        "(%d, %d, %d)" % (ids[p], nid(n), ids[k]) for p, n, k in g["sub_files"]))
    L.append("(* name ids: %s *)" % " ".join("%d=%s" % (i, n) for n, i in sorted(names.items(), key=lambda x: x[1])))
    L.append("")
    L.append("(* RUN-TIME uses inside function bodies: (module, submodule Y used as X.Y) and the modules imported")
    L.append("   inside function bodies of the module (module, imported module) *)")
    L.append("Definition fn_uses : list (N * N) := [%s]." % "; ".join(
        "(%d, %d)" % (ids[m], ids[y]) for m in g["modules"] for y in g["fn_uses"].get(m, []) if y in ids))
    L.append("Definition fn_imports : list (N * N) := [%s]." % "; ".join(
        "(%d, %d)" % (ids[m], ids[y]) for m in g["modules"] for y in g["fn_imports"].get(m, []) if y in ids))
    L.append("(* import-time reachable dereferences of sys.stdout / sys.stderr / sys.stdin: (module, line, guarded) *)")
    L.append("Definition stdio_derefs : list (N * N * bool) := [%s]." % "; ".join(
        "(%d, %d, %s)" % (ids[m], ln, "true" if gd else "false") for m, ln, gd in g["stdio"]))
    L.append("Definition fuel : nat := S (S (length all_modules + length ext_modules)).")
    L.append("")
    return "\n".join(L), ids
