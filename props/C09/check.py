"""C09 -- kernel property (see coq/C09/Props.v, coq/Kernel/*.v, lib/kernel.py, lib/kprops.py)."""
import kprops
import crossframer

LEVEL = "proof"
RUNS = [{'label': 'aux', 'quick': 50, 'thorough': 500, 'features': {'slave': False, 'bid': False}, 'ticks': (0.125,), 'crash': 'none'}, {'label': 'auxcrash', 'quick': 15, 'thorough': 150, 'features': {}, 'ticks': (0.125,), 'crash': 'some'}]


def run(ctx):
    import json, os
    corpus = [(c["prog"], c["crash_at"]) for c in json.load(open(os.path.join(os.path.dirname(__file__), "..", "C06", "corpus.json")))]
    for r in RUNS:
        r["ticks"] = tuple(r["ticks"])
    kprops.kernel_check(ctx, "C09", runs=RUNS, preds=['C09', 'C09d', 'C09o', 'C09r', 'C08', 'C06'], corpus=corpus, extra_checks=[crossframer.check_cross_framer_done],
                        rule="random kernel programs whose frames at several levels carry plain auxiliaries (shared originals across framers, nested auxiliaries of auxiliaries), 'done' verbs and done-conditions; traces compared with the Coq model; implementation-only statement: an auxiliary's frames are entered only while one of its main frames is entered, enter/exit alternate. Corpus replays the open finding. Directed family (props/C09/crossframer.py, implementation-only): all / any / named done-conditions over a frame of ANOTHER framer while the holder has a same-named frame in the opposite completion state. Non-trivial = outline change and > 6 events")
