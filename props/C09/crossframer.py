"""C09 extra check: done-conditions that name a frame of ANOTHER framer (`if all|any|aux X in frame F in framer G
is done`).  The kernel language of lib/kernel.py only has done-conditions over the holder's own framer, so this
is an implementation-only executable statement on directed scripts built by the real Builder and run by the
real Skedder: the condition is true exactly when the auxiliaries of frame F OF FRAMER G satisfy it (all done /
one done / the named one done) -- also when the framer holding the condition has a frame of the same name F
whose auxiliaries are in the opposite completion state."""
import itertools
import os


def script(kind, target, holder_done, k):
    """target: list of booleans (auxiliary i of G.F finishes at once / never); the holder's own frame of the same
    name carries one auxiliary in completion state holder_done"""
    L = ["house h", "",
         "  framer clock be active first run",
         "    frame run",
         "      go end if elapsed >= 2.0",
         "    frame end",
         "      bid stop all", "",
         "  framer work be active first stage",
         "    frame stage"]
    for i in range(len(target)):
        L.append("      aux t%d" % i)
    L += ["    frame spare", "",
          "  framer watch be active first stage",
          "    frame stage",
          "      aux own"]
    cond = {"all": "all", "any": "any"}.get(kind, "aux t%d" % 0 if kind == "first" else "aux t%d" % (len(target) - 1))
    L += ["      go seen if %s in frame stage in framer work is done" % cond,
          "    frame seen",
          "      put 1 into .demo.seen", ""]
    for name, fin in [("t%d" % i, d) for i, d in enumerate(target)] + [("own", holder_done)]:
        L += ["  framer %s be aux first f1" % name, "    frame f1"]
        L += ["      done me"] if fin else ["      put 0 into .demo.idle"]
        L += [""]
    return "\n".join(L) + "\n"


def expected(kind, target):
    if kind == "all":
        return all(target)
    if kind == "any":
        return any(target)
    return target[0] if kind == "first" else target[-1]


def run_one(ctx, flo, name):
    from ioflo.aid.consoling import getConsole
    getConsole().reinit(verbosity=0)
    from ioflo.base import skedding, housing
    path = os.path.join(ctx.work, name + ".flo")
    with open(path, "w") as f:
        f.write(flo)
    housing.ClearRegistries()
    sk = skedding.Skedder(name="k", period=0.125, real=False, filepath=path)
    try:
        if not sk.build():
            return None, "build failed"
    except Exception as ex:  # noqa
        return None, "build raised %s: %s" % (type(ex).__name__, ex)
    house = sk.houses[0]
    store = house.store
    calls = [0]
    och = store.changeStamp

    def changeStamp(stamp):
        calls[0] += 1
        if calls[0] > 200:
            raise KeyboardInterrupt()
        return och(stamp)
    store.changeStamp = changeStamp
    try:
        sk.run()
    except KeyboardInterrupt:
        pass
    share = store.fetchShare(".demo.seen")
    return bool(share is not None and share.value), None


def check_cross_framer_done(ctx):
    found = None
    k = 0
    for kind in ("all", "any", "first", "last"):
        for n in (1, 2, 3):
            for target in itertools.product((True, False), repeat=n):
                for holder_done in (True, False):
                    if n == 3 and holder_done == expected(kind, target):
                        continue   # keep the family small: with 3 auxiliaries only the opposite holder state
                    k += 1
                    flo = script(kind, list(target), holder_done, k)
                    seen, err = run_one(ctx, flo, "xfr%d" % k)
                    want = expected(kind, target)
                    ctx.case({"cross_framer_done": k, "kind": kind, "target": list(target), "holder": holder_done},
                             nontrivial=(holder_done != want), kind="cross-framer-done")
                    why = err
                    if why is None and seen != want:
                        why = ("`%s in frame stage in framer work is done` held in framer watch was %s although the "
                               "auxiliaries of work.stage have completion states %r (watch.stage's own auxiliary: %r)"
                               % ({"first": "aux t0", "last": "aux t%d" % (n - 1)}.get(kind, kind),
                                  "true" if seen else "never true", list(target), holder_done))
                    if why and found is None:
                        found = {"key": "C09:cross-framer-done", "flo": flo, "why": why,
                                 "contradicts": "C09 statement (done-condition over a frame of another framer)"}
    if found:
        ctx.tie_broken("statement", "C09 done-conditions naming a frame of another framer",
                       "the implementation fails the executable statement: %s" % found["why"])
    return found
