"""
Fail-closed AST obligation for REUSED message parsers (C29).

The model says a re-made parser (makeParser() on the same Requestant / Respondent) starts from the
initial state.  That is only true of the code if, within one parseMessage run,
  O1  every attribute `self.X` that parseHead / checkPersisted / parseBody READ has been definitely
      assigned earlier in the same message parse, or is reset at the top of parseMessage (for the
      Respondent also by reinit(), which Patron.transmit calls per request), or is per-connection
      configuration (CONFIG below, each with its reason);
  O2  every OUTPUT field the model exposes is definitely assigned on every normally completing
      path through parseHead + parseBody, or reset at the top of parseMessage.
A small definite-assignment analysis over the source AST, run on every check.
"""
import ast
import os

UNIVERSE = None   # marks "this path does not continue" (return / raise / break / continue)

CONFIG = {
    "msg": "the connection's receive buffer, shared with the incomer",
    "body": "the body buffer object (cleared by `del self.body[:]` at the top of parseBody)",
    "method": "Respondent: method of the request this response answers (set by reinit / constructor)",
    "dictable": "constructor option",
    "incomer": "the connection object",
    "events": "server-sent events deque shared with the Patron",
    "eventSource": "read only under `if self.evented`, assigned together with evented = True",
    "retry": "server-sent events session state, deliberately kept across responses",
    "leid": "server-sent events session state, deliberately kept across responses",
}

OUTPUTS = {
    "Requestant": ["method", "url", "version", "headers", "chunked", "length", "persisted", "body", "parms", "trails"],
    "Respondent": ["status", "reason", "version", "headers", "chunked", "length", "persisted", "body", "parms", "trails"],
}


def self_attr(node):
    return (node.attr if isinstance(node, ast.Attribute) and isinstance(node.value, ast.Name)
            and node.value.id == "self" else None)


def reads_of(node):
    out = []
    for n in ast.walk(node):
        a = self_attr(n)
        if a is not None and isinstance(n.ctx, ast.Load):
            out.append((a, n.lineno))
    return out


def meet(a, b):
    if a is UNIVERSE:
        return b
    if b is UNIVERSE:
        return a
    return a & b


class Scanner(object):
    def __init__(self, methods, callees):
        self.methods = methods      # names that are methods (calls, not state)
        self.callees = callees      # name -> FunctionDef analysed inline when called as self.name()
        self.problems = []
        self.version_values = set()   # every constant tuple parseHead assigns to self.version
        self.chain_seen = {}

    def check_reads(self, node, defined):
        for a, line in reads_of(node):
            if a in self.methods or a in defined or a in CONFIG:
                continue
            self.problems.append((a, line))

    def version_test(self, test):
        """(a, b) when test is `self.version == (a, b)` with integer constants"""
        if (isinstance(test, ast.Compare) and self_attr(test.left) == "version" and len(test.ops) == 1
                and isinstance(test.ops[0], ast.Eq) and isinstance(test.comparators[0], ast.Tuple)):
            elts = test.comparators[0].elts
            if all(isinstance(e, ast.Constant) and isinstance(e.value, int) for e in elts):
                return tuple(e.value for e in elts)
        return None

    def closes_version_chain(self, st):
        """st is the LAST `elif self.version == V:` of an if/elif chain over self.version that covers
        every value parseHead assigns to self.version (self.version_values, extracted from the AST)"""
        if not self.version_values:
            return False
        seen = self.chain_seen.get(id(st))
        return seen is not None and self.version_values <= seen

    def note_chains(self, fn):
        """record, for the last If of every if/elif chain over self.version, the set of values tested"""
        for node in ast.walk(fn):
            if isinstance(node, ast.If) and self.version_test(node.test) is not None:
                seen, cur = set(), node
                while True:
                    v = self.version_test(cur.test)
                    if v is None:
                        break
                    seen.add(v)
                    if len(cur.orelse) == 1 and isinstance(cur.orelse[0], ast.If):
                        cur = cur.orelse[0]
                    else:
                        if not cur.orelse:
                            self.chain_seen[id(cur)] = self.chain_seen.get(id(cur), set()) | seen
                        break

    def targets(self, t, acc):
        a = self_attr(t)
        if a is not None:
            acc.add(a)
        elif isinstance(t, (ast.Tuple, ast.List)):
            for e in t.elts:
                self.targets(e, acc)

    def scan(self, stmts, defined):
        """returns the set definitely assigned after stmts (UNIVERSE if the path ends)"""
        defined = set(defined)
        for st in stmts:
            if isinstance(st, ast.If):
                self.check_reads(st.test, defined)
                d1 = self.scan(st.body, defined)
                if not st.orelse and self.closes_version_chain(st):
                    d2 = UNIVERSE     # the versions tested so far are all that parseHead ever stores
                else:
                    d2 = self.scan(st.orelse, defined)
                d = meet(d1, d2)
                if d is UNIVERSE:
                    return UNIVERSE
                defined = d
            elif isinstance(st, ast.While):
                self.check_reads(st.test, defined)
                self.scan(st.body, defined)
                self.scan(st.orelse, defined)
            elif isinstance(st, ast.For):
                self.check_reads(st.iter, defined)
                self.scan(st.body, defined)
            elif isinstance(st, ast.Try):
                db = self.scan(st.body, defined)
                if db is not UNIVERSE:
                    db = self.scan(st.orelse, db)
                d = db
                for h in st.handlers:
                    d = meet(d, self.scan(h.body, defined))
                if d is UNIVERSE:
                    return UNIVERSE
                defined = d
                if st.finalbody:
                    defined = self.scan(st.finalbody, defined)
                    if defined is UNIVERSE:
                        return UNIVERSE
            elif isinstance(st, (ast.Return, ast.Raise)):
                self.check_reads(st, defined)
                return UNIVERSE
            elif isinstance(st, (ast.Break, ast.Continue)):
                return UNIVERSE
            elif isinstance(st, ast.Assign):
                self.check_reads(st.value, defined)
                for t in st.targets:
                    if self_attr(t) is None:
                        self.check_reads(t, defined)   # e.g. self.headers[k] = v reads self.headers
                    self.targets(t, defined)
            elif isinstance(st, ast.AugAssign):
                self.check_reads(st, defined)
            elif isinstance(st, ast.Delete):
                for t in st.targets:
                    full = (isinstance(t, ast.Subscript) and isinstance(t.slice, ast.Slice)
                            and t.slice.lower is None and t.slice.upper is None)
                    a = self_attr(t.value) if isinstance(t, ast.Subscript) else None
                    self.check_reads(t, defined)
                    if full and a is not None:
                        defined.add(a)            # `del self.X[:]` empties X
            else:
                # inline self.checkPersisted() and the like
                call = st.value if isinstance(st, ast.Expr) else None
                if isinstance(call, ast.Call) and self_attr(call.func) in self.callees and not call.args:
                    d = self.scan(body_of(self.callees[self_attr(call.func)]), defined)
                    if d is not UNIVERSE:
                        defined = d
                else:
                    self.check_reads(st, defined)
        return defined


def class_funcs(tree, name):
    for node in tree.body:
        if isinstance(node, ast.ClassDef) and node.name == name:
            return dict((f.name, f) for f in node.body if isinstance(f, ast.FunctionDef))
    return {}


def body_of(fn):
    """statements of a generator method up to its final `return` (the normal completion)"""
    body = list(fn.body)
    while body and isinstance(body[-1], ast.Return) and body[-1].value is None:
        body.pop()
    return body


def top_assigns(fn):
    """attributes assigned by plain top-level statements of fn (before anything conditional matters)"""
    out = set()
    sc = Scanner(set(), {})
    for st in fn.body:
        if isinstance(st, ast.Assign):
            for t in st.targets:
                sc.targets(t, out)
    return out


def scan_repo(repo):
    """returns a list of problem strings (empty = obligation holds)"""
    base = os.path.join(repo, "ioflo", "aio", "http")
    trees = dict((f, ast.parse(open(os.path.join(base, f)).read())) for f in ("httping.py", "serving.py", "clienting.py"))
    parsent = class_funcs(trees["httping.py"], "Parsent")
    problems = []
    if "parseMessage" not in parsent:
        return ["httping.py: Parsent.parseMessage not found"]
    reset_common = top_assigns(parsent["parseMessage"])
    for fname, cls in (("serving.py", "Requestant"), ("clienting.py", "Respondent")):
        funcs = dict(parsent)
        funcs.update(class_funcs(trees[fname], cls))
        missing = [need for need in ("parseHead", "parseBody", "checkPersisted", "reinit") if need not in funcs]
        for need in missing:
            problems.append("%s: %s.%s not found" % (fname, cls, need))
        if missing:
            continue
        reset = set(reset_common)
        if cls == "Respondent":     # Patron.transmit calls respondent.reinit() for every request
            reset |= top_assigns(funcs["reinit"]) | top_assigns(parsent["reinit"])
        sc = Scanner(set(funcs), {"checkPersisted": funcs["checkPersisted"]})
        vals, ok = set(), True
        for node in ast.walk(funcs["parseHead"]):
            if isinstance(node, ast.Assign) and any(self_attr(t) == "version" for t in node.targets):
                v = node.value
                if isinstance(v, ast.Tuple) and all(isinstance(e, ast.Constant) and isinstance(e.value, int) for e in v.elts):
                    vals.add(tuple(e.value for e in v.elts))
                else:
                    ok = False
        sc.version_values = vals if ok else set()
        sc.note_chains(funcs["checkPersisted"])
        d = sc.scan(body_of(funcs["parseHead"]), reset)
        if d is UNIVERSE:
            problems.append("%s: %s.parseHead has no normally completing path" % (fname, cls))
            continue
        d2 = sc.scan(body_of(funcs["parseBody"]), d)
        if d2 is UNIVERSE:
            problems.append("%s: %s.parseBody has no normally completing path" % (fname, cls))
            continue
        for a, line in sorted(set(sc.problems)):
            problems.append("%s:%d %s reads self.%s, which is neither assigned earlier in the same message parse "
                            "nor reset by parseMessage%s: a reused parser inherits it from the previous message"
                            % (fname, line, cls, a, "/reinit" if cls == "Respondent" else ""))
        for o in OUTPUTS[cls]:
            if o not in d2:
                problems.append("%s: %s.%s is not assigned on every path through parseHead+parseBody and not reset "
                                "by parseMessage: a reused parser reports the previous message's value"
                                % (fname, cls, o))
    return problems


if __name__ == "__main__":
    import sys
    for p in scan_repo(sys.argv[1] if len(sys.argv) > 1 else "/repo"):
        print(p)
