"""
Shared harness for C29 / C32 / C33: drives the REAL generator parsers of ioflo.aio.http
(EventSource, Requestant, Respondent) piece by piece and flattens what they expose into the
same length-prefixed integer list as coq/Lib/C29_HttpObs.v does for the model.
"""
import itertools

from ioflo.aio.http import httping, serving, clienting

try:
    from urllib.parse import urlsplit
except ImportError:  # pragma: no cover
    from urlparse import urlsplit

HEADER = ("From Coq Require Import List ZArith Bool.\nImport ListNotations.\n"
          "Require Import V.Lib.C29_Http V.Lib.C29_HttpObs.\nOpen Scope Z_scope.\n")

ERR = {"LineTooLong": 1, "BadStartLine": 2, "UnknownProtocol": 3, "BadMethod": 4, "InvalidURL": 5,
       "BadHeader": 6, "TooManyHeaders": 7, "BadChunkSize": 8, "BadChunkEnd": 9, "NoLength": 10,
       "Premature": 11}


# ---------------------------------------------------------------- Coq literals
def zl(bs):
    """bytes -> Coq list Z literal (Z_scope open)"""
    return "[" + ";".join(str(b) for b in bs) + "]" if len(bs) else "(@nil Z)"


def zll(pieces):
    return "[" + ";".join(zl(p) for p in pieces) + "]" if pieces else "(@nil (list Z))"


class LitPool(object):
    """shares equal list literals between cases: each distinct list becomes one Coq Definition in
    the header (elaborating the same 100-number literal for every split of a message is the
    dominant cost of a case file)"""
    def __init__(self, prefix="lit"):
        self.prefix, self.names, self.order = prefix, {}, []

    def ref(self, ints):
        key = tuple(ints)
        if key not in self.names:
            self.names[key] = "%s_%d" % (self.prefix, len(self.names))
            self.order.append(key)
        return self.names[key]

    def defs(self):
        return "\n".join("Definition %s : list Z := %s." % (self.names[k], zl(k)) for k in self.order) + "\n"


# ---------------------------------------------------------------- flattening
def enc_b(b):
    return [len(b)] + list(b)


def enc_ob(o):
    return [0] if o is None else [1] + enc_b(o)


def enc_oz(o):
    return [0] if o is None else [1, int(o)]


def enc_list(f, l):
    out = [len(l)]
    for x in l:
        out += f(x)
    return out


def u8(s):
    return None if s is None else s.encode("utf-8")


def l1(s):
    return None if s is None else s.encode("latin-1")


# ---------------------------------------------------------------- SSE
class Limits(object):
    """temporarily lower httping.MAX_LINE_SIZE / MAX_HEADERS (harness process only)"""
    def __init__(self, maxline=None, maxhdrs=None):
        self.new = (maxline, maxhdrs)

    def __enter__(self):
        self.old = (httping.MAX_LINE_SIZE, httping.MAX_HEADERS)
        if self.new[0] is not None:
            httping.MAX_LINE_SIZE = self.new[0]
        if self.new[1] is not None:
            httping.MAX_HEADERS = self.new[1]

    def __exit__(self, *a):
        httping.MAX_LINE_SIZE, httping.MAX_HEADERS = self.old


def sse_impl(pieces, maxline=None):
    """returns (flat observation, readable dict)"""
    with Limits(maxline):
        es = httping.EventSource()
        failed = False
        esc = None
        name, parts = "", []
        for p in pieces:
            es.raw.extend(p)
            if failed:
                continue
            try:
                es.parse()
            except httping.LineTooLong:
                failed = True
            except Exception as ex:  # anything else is outside the model
                esc = type(ex).__name__
                break
        if es.parser is not None and not failed and esc is None:
            fl = es.parser.gi_frame.f_locals if es.parser.gi_frame is not None else {}
            name, parts = fl.get("ename", ""), list(fl.get("parts", []))
    evs = [(u8(e["id"]), u8(e["name"]), u8(e["data"])) for e in es.events]
    view = {"events": [(None if i is None else i.decode("latin-1"), n.decode("latin-1"), d.decode("latin-1"))
                       for i, n, d in evs],
            "leid": es.leid, "retry": es.retry, "name": name, "parts": parts,
            "left": bytes(es.raw).decode("latin-1"), "failed": failed}
    if esc is not None:
        view["escaped"] = esc
        return [999], view
    flat = (enc_list(lambda e: enc_ob(e[0]) + enc_b(e[1]) + enc_b(e[2]), evs) + enc_ob(u8(es.leid)) +
            enc_oz(es.retry) + enc_b(u8(name)) + enc_list(lambda x: enc_b(u8(x)), parts) +
            enc_b(bytes(es.raw)) + [1 if failed else 0])
    return flat, view


def sse_events_only(pieces):
    """what the property talks about: events + leid + retry (implementation alone)"""
    _, v = sse_impl(pieces)
    return (v["events"], v["leid"], v["retry"], v.get("escaped"))


def sse_model_expr(pieces, maxline=65536):
    return "sse_case %d %s" % (maxline, zll(pieces))


# ---------------------------------------------------------------- HTTP
class Ix(object):
    timeout = 1.0


def classify_error(text):
    """Parsent.parseMessage records only str(exception); map it back to the failure site"""
    t = text or ""
    if t.startswith("got more than"):
        return "LineTooLong"
    if t.startswith("Too many headers"):
        return "TooManyHeaders"
    if t.startswith("Malformed "):
        return "BadHeader"
    if t.startswith("Invalid chunk size") or t.startswith("Invalid negative chunk size"):
        return "BadChunkSize"
    if t.startswith("Chunk end error"):
        return "BadChunkEnd"
    if t.startswith("Invalid body, content-length not provided"):
        return "NoLength"
    if t.startswith("Invalid url "):
        return "InvalidURL"
    if t.startswith("Connection closed unexpectedly"):
        return "Premature"
    return None


class Spy(object):
    """records the class of the HTTPException that Parsent.parseMessage swallows: the
    generator frame is gone afterwards, so the classes are captured by wrapping the
    exception constructors in the harness process"""
    last = None


def _install_spies():
    if getattr(httping, "_c29_spied", False):
        return
    httping._c29_spied = True
    for nm in ("HTTPException", "InvalidURL", "UnknownProtocol", "BadStatusLine", "BadRequestLine",
               "BadMethod", "LineTooLong", "PrematureClosure"):
        cls = getattr(httping, nm)
        orig = cls.__init__

        def make(orig, nm):
            def init(self, *a, **k):
                Spy.last = type(self).__name__
                orig(self, *a, **k)
            return init
        cls.__init__ = make(orig, nm)


CLS2ERR = {"LineTooLong": "LineTooLong", "BadRequestLine": "BadStartLine", "BadStatusLine": "BadStartLine",
           "UnknownProtocol": "UnknownProtocol", "BadMethod": "BadMethod", "InvalidURL": "InvalidURL",
           "PrematureClosure": "Premature"}


def http_impl(kind, pieces, headreq=False, close=False, maxline=None, maxhdrs=None):
    """kind 'req' -> serving.Requestant, 'resp' -> clienting.Respondent.
    returns (flat observation, readable dict)"""
    _install_spies()
    with Limits(maxline, maxhdrs):
        msg = bytearray()
        if kind == "req":
            p = serving.Requestant(msg=msg, incomer=Ix())
        else:
            p = clienting.Respondent(msg=msg, method="HEAD" if headreq else "GET")
        Spy.last = None
        try:
            for piece in pieces:
                msg.extend(piece)
                p.parse()
            if close:
                p.close()
                p.parse()
        except Exception as ex:
            return [200], {"escaped": type(ex).__name__, "text": str(ex)[:200],
                           "http_family": isinstance(ex, httping.HTTPException)}
    left = bytes(msg)
    if p.ended and p.errored:
        site = CLS2ERR.get(Spy.last) or classify_error(p.error) or ("?" + str(Spy.last))
        return [100 + ERR.get(site, 0)] + enc_b(left), {"failed": site, "class": Spy.last, "error": p.error,
                                                       "left": left.decode("latin-1")}
    done = bool(p.ended)
    hd = bool(p.headed)
    flat = [2 if done else 1 if hd else 0]
    view = {"done": done, "headed": hd}
    if hd:
        if kind == "req":
            start = [l1(p.method), l1(p.url)]
            status = -1
        else:
            start = [l1(p.reason)]
            status = p.status
        version = {(1, 0): 0, (1, 1): 1}.get(p.version, -1)
        hdrs = [(l1(k), l1(v)) for k, v in p.headers.items()]
        flat += (enc_list(enc_b, start) + [version, status] +
                 enc_list(lambda kv: enc_b(kv[0]) + enc_b(kv[1]), hdrs) + [1 if p.chunked else 0] +
                 enc_oz(p.length) + [1 if p.persisted else 0])
        view.update(start=[s.decode("latin-1") for s in start], version=version, status=status,
                    headers=[(k.decode("latin-1"), v.decode("latin-1")) for k, v in hdrs],
                    chunked=bool(p.chunked), length=p.length, persisted=bool(p.persisted))
    parms = [(bytes(k), None if v is None else bytes(v)) for k, v in (p.parms or {}).items()]
    trails = [(l1(k), l1(v)) for k, v in (p.trails or {}).items()]
    flat += (enc_b(bytes(p.body)) + enc_list(lambda kv: enc_b(kv[0]) + enc_ob(kv[1]), parms) +
             enc_list(lambda kv: enc_b(kv[0]) + enc_b(kv[1]), trails) + enc_b(left))
    view.update(body=bytes(p.body).decode("latin-1"),
                parms=[(k.decode("latin-1"), None if v is None else v.decode("latin-1")) for k, v in parms],
                trails=[(k.decode("latin-1"), v.decode("latin-1")) for k, v in trails],
                left=left.decode("latin-1"))
    return flat, view


def _flat_of(kind, p, left, current=False):
    """flatten the fields of parser p (same layout as http_obs / cur_obs)"""
    if p.ended and p.errored:
        site = CLS2ERR.get(Spy.last) or classify_error(p.error) or ("?" + str(Spy.last))
        return [100 + ERR.get(site, 0)] + enc_b(left)
    done, hd = bool(p.ended), bool(p.headed)
    if current and not hd:
        return [0] + enc_b(left)
    flat = [2 if done else 1 if hd else 0]
    if hd:
        if kind == "req":
            start, status = [l1(p.method), l1(p.url)], -1
        else:
            start, status = [l1(p.reason)], p.status
        version = {(1, 0): 0, (1, 1): 1}.get(p.version, -1)
        hdrs = [(l1(k), l1(v)) for k, v in p.headers.items()]
        flat += (enc_list(enc_b, start) + [version, status] +
                 enc_list(lambda kv: enc_b(kv[0]) + enc_b(kv[1]), hdrs) + [1 if p.chunked else 0] +
                 enc_oz(p.length) + [1 if p.persisted else 0])
    parms = [(bytes(k), None if v is None else bytes(v)) for k, v in (p.parms or {}).items()]
    trails = [(l1(k), l1(v)) for k, v in (p.trails or {}).items()]
    flat += (enc_b(bytes(p.body)) + enc_list(lambda kv: enc_b(kv[0]) + enc_ob(kv[1]), parms) +
             enc_list(lambda kv: enc_b(kv[0]) + enc_b(kv[1]), trails) + enc_b(left))
    return flat


def sess_impl(kind, pieces, headreq=False):
    """ONE Requestant / Respondent over a stream of messages: after every complete message
    makeParser() is called on the same object (what Valet.serviceReps / Patron.serviceResponse do)
    and parsing goes on with the bytes left in the buffer.
    returns (flat observation as sess_obs2, [per message readable dict], leftover)"""
    _install_spies()
    msg = bytearray()
    if kind == "req":
        p = serving.Requestant(msg=msg, incomer=Ix())
    else:
        p = clienting.Respondent(msg=msg, method="HEAD" if headreq else "GET")
    done_flats, views = [], []
    failed = False
    Spy.last = None
    try:
        for piece in pieces:
            msg.extend(piece)
            while not failed:
                p.parse()
                if not p.ended:
                    break
                if p.errored:
                    failed = True
                    break
                done_flats.append(_flat_of(kind, p, b""))
                views.append({"start": [p.method, p.url] if kind == "req" else [p.status, p.reason],
                              "headers": [(k, v) for k, v in p.headers.items()],
                              "body": bytes(p.body).decode("latin-1"), "length": p.length,
                              "parms": [(bytes(k).decode("latin-1"), None if v is None else bytes(v).decode("latin-1"))
                                        for k, v in (p.parms or {}).items()],
                              "trails": [(k, v) for k, v in (p.trails or {}).items()]})
                p.makeParser()
                Spy.last = None
    except Exception as ex:
        return [200], [{"escaped": type(ex).__name__, "text": str(ex)[:200]}], bytes(msg)
    flat = [len(done_flats)]
    for f in done_flats:
        flat += f
    flat += _flat_of(kind, p, bytes(msg), current=True)
    return flat, views, bytes(msg)


def bad_urls(data):
    """tokens of the message on which urlsplit()/.port raise ValueError (python's urllib, not ioflo)"""
    bad = []
    for tok in set(bytes(data).decode("latin-1").split()):
        try:
            urlsplit(tok.strip()).port
        except ValueError:
            bad.append(tok.encode("latin-1"))
    return sorted(bad)


def http_model_expr(kind, pieces, headreq=False, close=False, maxline=65536, maxhdrs=100):
    data = b"".join(pieces)
    bad = bad_urls(data) if kind == "req" else []
    return "http_case (mkcfg %d %d %s) %s %s %s %s" % (
        maxline, maxhdrs, zll(bad), "true" if kind == "resp" else "false",
        "true" if headreq else "false", "true" if close else "false", zll(pieces))


# ---------------------------------------------------------------- splits
def splits_upto3(data, maxpieces=3):
    """every way of cutting data into 1..maxpieces non-empty consecutive pieces"""
    n = len(data)
    out = [[data]] if n else [[]]
    if maxpieces >= 2:
        for i in range(1, n):
            out.append([data[:i], data[i:]])
    if maxpieces >= 3:
        for i, j in itertools.combinations(range(1, n), 2):
            out.append([data[:i], data[i:j], data[j:]])
    return out


def random_split(rng, data, maxpieces=6):
    n = len(data)
    if n < 2:
        return [data]
    k = rng.randint(1, min(maxpieces, n))
    cuts = sorted(rng.sample(range(1, n), k - 1))
    pieces, a = [], 0
    for c in cuts + [n]:
        pieces.append(data[a:c])
        a = c
    return pieces
