"""
Generators shared by C29 / C32: well-formed HTTP/1.x messages with their content, and
byte-level mutations of them.
"""
METHODS = ["GET", "HEAD", "PUT", "PATCH", "POST", "DELETE", "OPTIONS", "TRACE", "CONNECT"]
URLS = ["/", "/a/b?x=1&y=2", "*", "http://h.example:8080/p?q", "/%7Euser/x#frag", "/\xe9t\xe9"]
HNAMES = ["Host", "X-Foo", "accept", "CONTENT-TYPE", "X-Bar-Baz", "Cookie", "x-\xc9", "Connection", "connection",
          "Keep-Alive", "Proxy-Connection"]
HVALS = ["h.example", "a, b;q=0.5", "text/plain; charset=utf-8", "1", "x:y: z", "\xe9\xff", "", "close", "Keep-Alive",
         "keep-alive, Upgrade", "CLOSE"]
COLONS = [": ", ":", ":  ", " : ", ":\t"]
REASONS = ["OK", "Not Found", "No Content", "Moved  Permanently", ""]


class Msg(object):
    """one generated well-formed message and its content"""
    def __init__(self, kind):
        self.kind = kind
        self.headreq = False
        self.close = False
        self.start = []          # request [method, url] | response [reason]
        self.version = 1
        self.status = -1
        self.headers = []        # (name, value) as sent
        self.body = b""
        self.chunks = None       # [(data, [(name, value|None)])] + last chunk exts, else None
        self.lastexts = []
        self.trailers = []
        self.prefix = b""        # 100-continue block
        self.left = b""          # bytes of the next message
        self.framing = "length"  # length | chunked | close | none


def lodict_items(pairs):
    out = []
    for k, v in pairs:
        k = k.strip().lower()
        for i, (k2, _) in enumerate(out):
            if k2 == k:
                out[i] = (k, v.strip())
                break
        else:
            out.append((k, v.strip()))
    return out


def gen_headers(rng, n, eol):
    hs, raw = [], b""
    for _ in range(n):
        k, v = rng.choice(HNAMES), rng.choice(HVALS)
        hs.append((k, v))
        raw += (k + rng.choice(COLONS) + v).encode("latin-1") + eol(rng)
    return hs, raw


def gen_exts(rng):
    exts = []
    for _ in range(rng.choice([0, 0, 1, 2])):
        exts.append((rng.choice(["a", "b", "name", "q"]), rng.choice([None, "1", "tok", '"q s"'])))
    return exts


def render_exts(rng, exts):
    out = b""
    for n, v in exts:
        out += rng.choice([b";", b" ; ", b"; "]) + n.encode()
        if v is not None:
            out += rng.choice([b"=", b" = "]) + v.encode()
    return out


def gen_msg(rng, kind, small=False, mixed_eol=True):
    m = Msg(kind)

    def eol(r):
        return b"\n" if (mixed_eol and r.random() < 0.25) else b"\r\n"

    nh = rng.randint(0, 1 if small else 4)
    if kind == "req":
        method, url = rng.choice(METHODS), rng.choice(URLS[:2] if small else URLS)
        m.version = rng.choice([0, 1])
        m.start = [method, url]
        head = ("%s %s HTTP/1.%d" % (method, url, m.version)).encode("latin-1") + eol(rng)
        m.framing = rng.choice(["none", "length", "chunked"])
    else:
        m.status = rng.choice([200, 404, 204, 304, 301, 500, 101])
        reason = rng.choice(REASONS)
        m.start = [" ".join(reason.split())]
        m.version = rng.choice([0, 1])
        vs = rng.choice(["HTTP/1.0", "HTTP/0.9"]) if m.version == 0 else rng.choice(["HTTP/1.1", "HTTP/1.2"])
        head = ("%s %d %s" % (vs, m.status, reason)).encode("latin-1").rstrip(b" ") + eol(rng)
        if rng.random() < 0.15:
            m.prefix = b"HTTP/1.1 100 Continue" + eol(rng) + (b"X-Early: 1" + eol(rng) if rng.random() < 0.5 else b"") + eol(rng)
        m.headreq = rng.random() < 0.1
        m.framing = rng.choice(["length", "chunked", "close"])
    hs, hraw = gen_headers(rng, nh, eol)
    body = bytes(rng.choice(b"abc \r\n:0\xff") for _ in range(rng.randint(0, 6 if small else 40)))
    nobody = kind == "resp" and (m.status in (204, 304) or 100 <= m.status < 200 or m.headreq)
    if m.framing == "length":
        hs.append(("Content-Length", str(len(body))))
        hraw += b"Content-Length" + rng.choice(COLONS).encode() + str(len(body)).encode() + eol(rng)
        if nobody:
            body = b""    # a HEAD / 204 / 304 / 1xx response carries no body whatever it announces
        m.body, payload = body, body
    elif m.framing == "chunked":
        te = rng.choice(["chunked", "Chunked"])
        hs.append(("Transfer-Encoding", te))
        hraw += b"Transfer-Encoding" + rng.choice(COLONS).encode() + te.encode() + eol(rng)
        payload, m.chunks, pos = b"", [], 0
        while pos < len(body):
            n = rng.randint(1, max(1, len(body) - pos))
            exts = gen_exts(rng)
            size = rng.choice(["%x", "%X", "0%x", " %x "]) % n
            payload += size.encode() + render_exts(rng, exts) + b"\r\n" + body[pos:pos + n] + b"\r\n"
            m.chunks.append((body[pos:pos + n], exts))
            pos += n
        m.lastexts = gen_exts(rng)
        m.trailers, traw = gen_headers(rng, rng.choice([0, 0, 1, 2]), eol)
        payload += rng.choice([b"0", b"00"]) + render_exts(rng, m.lastexts) + b"\r\n" + traw + eol(rng)
        m.body = body
        if nobody:   # framing precedence in the parser: a chunked 204/304/HEAD is still read as chunked
            pass
    elif m.framing == "close":
        m.close = True
        m.body, payload = (b"" if nobody else body), (b"" if nobody else body)
    else:
        m.body, payload = b"", b""
    m.headers = hs
    if not m.close and rng.random() < 0.5:
        m.left = rng.choice([b"GET /next HTTP/1.1\r\n", b"HTTP/1.1 200 OK\r\n", b"\r\n", b"x"])
    m.data = m.prefix + head + hraw + eol(rng) + payload + m.left
    return m


def expected(m):
    """the content of the message, in the shape of the harness view"""
    parms = []
    if m.framing == "chunked":
        allx = [x for _, exts in m.chunks for x in exts] + list(m.lastexts)
        for n, v in allx:
            for i, (n2, _) in enumerate(parms):
                if n2 == n:
                    parms[i] = (n, v)
                    break
            else:
                parms.append((n, v))
    return {"done": True, "start": m.start, "version": m.version, "status": m.status,
            "headers": lodict_items(m.headers), "chunked": m.framing == "chunked",
            "body": m.body.decode("latin-1"), "parms": parms,
            "trails": lodict_items(m.trailers) if m.framing == "chunked" else [],
            "left": m.left.decode("latin-1")}




INTERESTING = [13, 10, 58, 32, 59, 61, 48, 57, 103, 45, 43, 95, 120, 0, 255, 9, 47, 72]


def mutate(rng, data):
    """one to three byte-level mutations"""
    b = bytearray(data)
    for _ in range(rng.choice([1, 1, 2, 3])):
        op = rng.choice(["replace", "replace", "delete", "insert", "truncate", "dup", "swap"])
        if not b:
            b.append(rng.choice(INTERESTING))
            continue
        i = rng.randrange(len(b))
        if op == "replace":
            b[i] = rng.choice(INTERESTING)
        elif op == "delete":
            del b[i]
        elif op == "insert":
            b.insert(i, rng.choice(INTERESTING))
        elif op == "truncate":
            del b[i:]
        elif op == "dup":
            j = min(len(b), i + rng.randint(1, 6))
            b[i:i] = b[i:j]
        else:
            j = rng.randrange(len(b))
            b[i], b[j] = b[j], b[i]
    return bytes(b)


def targeted(rng, kind):
    """malformed messages aimed at one parsing site each"""
    start = {"req": rng.choice([b"GET / HTTP/1.1", b"POST /x HTTP/1.0"]),
             "resp": rng.choice([b"HTTP/1.1 200 OK", b"HTTP/1.0 404 Not Found"])}[kind]
    nl = b"\r\n"
    chunked = start + nl + b"Transfer-Encoding: chunked" + nl + nl
    pick = rng.randrange(16)
    if pick == 0:
        return chunked + rng.choice([b"zz", b"-3", b"0x", b"1_", b"\xff1", b"", b" ", b"g", b"+", b"1 2"]) + nl + b"abc" + nl
    if pick == 1:
        return chunked + b"3" + nl + b"abc" + rng.choice([b"X", b"\n", b"\r\r\n", b"abc"]) + nl + b"0" + nl + nl
    if pick == 2:
        return start + nl + rng.choice([b"Host", b"NoColonHere", b" folded", b"\xff\xfe"]) + nl + nl
    if pick == 3:
        return start + nl + b"Content-Length: " + rng.choice([b"x", b"-1", b"1e3", b"", b"1_0", b" 2 "]) + nl + nl + b"0123456789ab"
    if pick == 4:
        return rng.choice([b"", b" ", b"GET", b"GET /", b"BREW / HTTP/1.1", b"GET / HTTP/2.0", b"GET / FTP/1.1",
                           b"HTTP/1.1", b"HTTP/1.1 abc OK", b"HTTP/1.1 99 Low", b"HTTP/1.1 1000 High", b"HTTP/3 200 OK",
                           b"ICY 200 OK", b"get / http/1.1", b"HTTP/1.1 2_00 OK"]) + nl + nl
    if pick == 5:
        return b"GET " + rng.choice([b"http://a:b/", b"http://[::1/", b"//[x", b"http://h:99999/", b"http://h:-1/", b"/ok"]) + b" HTTP/1.1" + nl + nl
    if pick == 6:
        return start + nl + b"".join(b"H%d: v" % i + nl for i in range(rng.choice([3, 4, 5, 6]))) + nl
    if pick == 7:
        return start + nl + b"X: " + b"a" * rng.randint(0, 40) + nl + nl
    if pick == 8:
        return chunked + b"0" + nl + rng.choice([b"T", b"T:1" + nl + b"bad", b"T: v"]) + nl + nl
    if pick == 9:
        return chunked + b"2;" + rng.choice([b"", b";", b"=", b"a=", b"=b", b"a==b", b"\xff=\xfe"]) + nl + b"ab" + nl + b"0" + nl + nl
    if pick == 10:
        return bytes(rng.randrange(256) for _ in range(rng.randint(0, 40)))
    if pick == 11:
        return bytes(rng.choice(b"\r\n: GETHP/1.0;=") for _ in range(rng.randint(0, 50)))
    if pick == 12:
        return b"HTTP/1.1 100 Continue" + nl + rng.choice([b"", b"bad" + nl]) + nl + rng.choice([b"", b"HTTP/1.1 100 Continue" + nl + nl]) + b"HTTP/1.1 204 None" + nl + nl
    if pick == 13:
        return start + b"\n" + b"A:b\r\n" + b"c :d\n" + b"\n"
    if pick == 14:
        return chunked + b"1" + nl + b"a" + nl + b"1" + nl + b"b"
    return start + nl + b"Content-Length: 5" + nl + nl + b"ab"
