"""
C29 -- HTTP messages parse the same however their bytes arrive.

Tie H: coq/Lib/C29_Http.v (http_step ...) is a hand model of httping.parseLine / parseLeader /
parseChunk and of the framing part of serving.Requestant / clienting.Respondent
parseHead + parseBody (FIXED behaviour: fixes/C33-parseline-earliest-eol, C29-leader-colon,
C32-parse-errors-are-httpexceptions, C29-chunk-extension-keys, C29-continue-status-line).
  theorems       : coq/C29/Props.v
  correspondence : generated well-formed messages (fixed length, chunked + extensions + trailers,
                   close delimited, 100-continue, HEAD, pipelined leftovers; header lines with and
                   without white space after the colon; CRLF and bare LF line ends) are fed to the
                   REAL Requestant / Respondent generators piece by piece -- every split into <= 3
                   pieces of short messages, random splits of longer ones -- and every exposed field
                   plus the unconsumed bytes is compared with the model inside Coq (vm_compute).
"""
import os
import sys

sys.path.insert(0, os.path.dirname(os.path.abspath(__file__)))
import httpharn as H  # noqa: E402

LEVEL = "proof"

from httpgen import gen_msg, expected  # noqa: E402


def prop_holds(m, pieces):
    """the property's executable statement on the implementation alone"""
    flat, view = H.http_impl(m.kind, pieces, m.headreq, m.close)
    exp = expected(m)
    if "escaped" in view:
        return "parser raised %s: %s" % (view["escaped"], view.get("text")), view
    if "failed" in view:
        return "well-formed message rejected: %s" % view.get("error"), view
    for k, v in exp.items():
        if view.get(k) != v:
            return "%s is %r, message content is %r" % (k, view.get(k), v), view
    return None, view


def run(ctx):
    ctx.rule = ("generated well-formed requests / responses (9 methods, 6 url shapes, 0-4 header lines with 5 "
                "colon styles, latin-1 values, CRLF or bare LF per line; no body | Content-Length | chunked "
                "with extensions + trailers | until close; 100-continue prefix, HEAD, 204/304; pipelined "
                "leftover) x splits: every split into <= 3 pieces of short messages + every proper prefix of "
                "them in one receive (intermediate parser configuration), random splits (<= 6 "
                "pieces) of longer ones; REUSED parsers (makeParser() after each message on the same object) over "
                "streams of 2-3 messages of mixed framing under every 2-piece split, 3-piece splits around the "
                "message boundaries and random splits; plus python-primitive cases (int(), strip, split, lower) exhaustive "
                "on short strings.  non-trivial = >= 2 pieces; distinct by (kind, pieces)")
    ctx.assumptions = [
        "content-type is never text/event-stream (evented bodies are handed to EventSource: C33)",
        "Requestant.closed is never set while Valet parses it (closeConnection deletes it), not modelled",
        "url splitting (urlsplit/unquote) is python's own: the model takes its accept/ValueError verdict "
        "as an oracle (mkcfg bad_urls) and compares the raw url only",
        "Content-Length values have fewer than 4300 digits as python requires; model enforces the same",
    ]
    import time
    t0 = time.time()
    res = ctx.coq_build("C29/Props.v")
    ctx.extra["t_build_s"] = round(time.time() - t0, 1)
    t0 = time.time()
    # fail-closed AST obligation: what a reused parser reads / reports is reset per message
    import resetscan
    reset_problems = resetscan.scan_repo(ctx.repo)
    for pr in reset_problems[:4]:
        ctx.tie_broken("translator", "reused parser starts from the initial state (resetscan O1/O2)", pr)
    ctx.extra["reset_obligation_problems"] = reset_problems
    rng = ctx.rng
    cases, metas = [], []
    defs = []
    msgs = []
    pool = H.LitPool("obs")

    def add(m, pieces, kind, dref=None, full=True):
        flat, view = H.http_impl(m.kind, pieces, m.headreq, m.close and full)
        ctx.case({"kind": m.kind, "pieces": [p.decode("latin-1") for p in pieces], "close": m.close,
                  "head": m.headreq, "obs": view}, nontrivial=len(pieces) >= 2,
                 kind="%s/%s/%s" % (kind, m.kind, m.framing))
        if dref is None:
            expr = H.http_model_expr(m.kind, pieces, m.headreq, m.close and full)
        else:
            expr = "http_case_cuts (mkcfg 65536 100 %s) %s %s %s %s %s" % (
                H.zll(H.bad_urls(m.data)), "true" if m.kind == "resp" else "false",
                "true" if m.headreq else "false", "true" if (m.close and full) else "false", dref,
                H.zl([len(p) for p in pieces[:-1]]))
        cases.append((expr, pool.ref(flat) if dref is not None else H.zl(flat)))
        metas.append((m, pieces, view, full))

    # (a) exhaustive <= 3-piece splits of short messages (only body-less ones fit in 40 bytes) and of
    #     framed ones (Content-Length / chunked / close, <= 90 bytes): there every 2-piece split and
    #     every 3-piece split whose cuts lie in the last 30 bytes (the body region)
    want, tries = ctx.n(3, 20), 0
    seen_fr = {}
    while len(msgs) < want and tries < 5000:
        tries += 1
        kind = "req" if len(msgs) % 2 == 0 else "resp"
        m = gen_msg(rng, kind, small=True)
        if len(m.data) > ctx.n(30, 40) or len(m.data) < 18:
            continue
        key = (kind, m.framing)
        if seen_fr.get(key, 0) >= max(1, want // 6 + 1):
            continue
        seen_fr[key] = seen_fr.get(key, 0) + 1
        msgs.append(m)
    nshort = len(msgs)
    needs = [("req", "chunked"), ("resp", "chunked"), ("req", "length"), ("resp", "close")] * ctx.n(1, 5)
    tries = 0
    while needs and tries < 20000:
        tries += 1
        kind, fr = needs[0]
        m = gen_msg(rng, kind, small=True)
        if m.framing != fr or len(m.data) > 90 or len(m.body) < 3 or m.headreq or m.prefix:
            continue
        if kind == "resp" and m.status in (204, 304, 101):
            continue
        needs.pop(0)
        msgs.append(m)
    for i, m in enumerate(msgs):
        defs.append("Definition d_%d : list Z := %s." % (i, H.zl(m.data)))
        if i < nshort:
            sps = H.splits_upto3(m.data)
        else:
            n = len(m.data)
            sps = H.splits_upto3(m.data, 2) + [[m.data[:a], m.data[a:b], m.data[b:]]
                                               for a in range(max(1, n - 30), n) for b in range(a + 1, n)]
        for pieces in sps:
            add(m, pieces, "exhaustive", "d_%d" % i)
        # every proper prefix in one receive: the parser's INTERMEDIATE configuration (stage, fields so
        # far, unconsumed bytes) -- by split independence these are the states between the pieces above
        for j in range(len(m.data)):
            add(m, [m.data[:j]], "prefix-state", full=False)
    # (b) random splits of longer messages
    for _ in range(ctx.n(800, 8000)):
        m = gen_msg(rng, rng.choice(["req", "resp"]))
        msgs.append(m)
        add(m, H.random_split(rng, m.data, 6), "random")
        if rng.random() < 0.2:
            add(m, [m.data], "whole")
    # (b2) REUSED parsers: one Requestant / Respondent, makeParser() after each complete message,
    #      streams of 2-3 messages of mixed framing: every 2-piece split, every 3-piece split whose
    #      cuts lie within 6 bytes of a message boundary, plus random splits
    scases, smetas = [], []
    spool, sdpool = H.LitPool("sobs"), H.LitPool("sdat")
    nseq = 0
    while nseq < ctx.n(10, 80):
        kind = rng.choice(["req", "resp"])
        ms = []
        for _k in range(rng.choice([2, 2, 3])):
            m = gen_msg(rng, kind, small=True)
            if m.close or m.headreq or m.left:
                m = None
            if m is None:
                break
            ms.append(m)
        if len(ms) < 2 or sum(len(m.data) for m in ms) > 260:
            continue
        for m in ms:
            m.data = m.data[:len(m.data) - len(m.left)] if m.left else m.data
        nseq += 1
        data = b"".join(m.data for m in ms)
        n = len(data)
        bounds, acc = [], 0
        for m in ms[:-1]:
            acc += len(m.data)
            bounds.append(acc)
        near = sorted(set(c for b0 in bounds for c in range(max(1, b0 - 6), min(n, b0 + 7))))
        sps = [[data]] + [[data[:i], data[i:]] for i in range(1, n)]
        sps += [[data[:a0], data[a0:b1], data[b1:]] for a0 in near for b1 in near if a0 < b1]
        sps += [H.random_split(rng, data, 6) for _ in range(5)]
        exp = [expected(m) for m in ms]
        for pieces in sps:
            flat, views, left = H.sess_impl(kind, pieces)
            ctx.case({"kind": kind, "reused_parser": True, "pieces": [p.decode("latin-1") for p in pieces],
                      "n_messages": len(views)}, nontrivial=True,
                     kind="reused/%s/%s" % (kind, "+".join(m.framing for m in ms)))
            expr = "sess_case2 (mkcfg 65536 100 %s) %s false %s %s" % (
                H.zll(H.bad_urls(data)), "true" if kind == "resp" else "false", sdpool.ref(data),
                H.zl([len(p) for p in pieces[:-1]]))
            scases.append((expr, spool.ref(flat)))
            smetas.append((kind, ms, pieces, views, left, exp))
    sbad = ctx.coq_cases(H.HEADER + sdpool.defs() + spool.defs(), "beq", scases, name="c29sess", shard=1500)
    for i in sbad[:4]:
        kind, ms, pieces, views, left, exp = smetas[i]
        ctx.tie_broken("correspondence", "C29 reused-parser model vs %s + makeParser()" % (
            "Requestant" if kind == "req" else "Respondent"),
                       "pieces=%r impl_messages=%r left=%r" % (pieces, views, left))
    ctx.extra["mismatches_reused"] = len(sbad)

    # (c) python primitives used by the model
    prim = []
    alpha = "01af FxX_+-g\x1c\xa0"
    strs = [""] + [a for a in alpha] + [a + b for a in alpha for b in alpha]
    strs += ["".join(rng.choice(alpha) for _ in range(rng.randint(3, 6))) for _ in range(ctx.n(200, 4000))]
    for s in strs:
        for base in (10, 16):
            try:
                v = int(s, base)
                lit = "Some (%d)" % v
            except ValueError:
                lit = "(@None Z)"
            prim.append(("py_int %d %s" % (base, H.zl(s.encode("latin-1"))), lit))
    header2 = H.HEADER + ("Definition oz_eqb (a b : option Z) := match a, b with Some x, Some y => x =? y "
                          "| None, None => true | _, _ => false end.\n")
    sprim = []
    walpha = " \t\r\n\x0b\x0c\x1c\x1f\x85\xa0aZ\xc9\xd7\xdf:"
    for _ in range(ctx.n(150, 3000)):
        s = "".join(rng.choice(walpha) for _ in range(rng.randint(0, 7)))
        b = s.encode("latin-1")
        sprim.append(("strip is_ws_u %s" % H.zl(b), H.zl(s.strip().encode("latin-1"))))
        sprim.append(("strip is_ws_b %s" % H.zl(b), H.zl(b.strip())))
        sprim.append(("lower %s" % H.zl(b), H.zl(s.lower().encode("latin-1"))))
        sprim.append(("flat_map enc_b (split_ws %s)" % H.zl(b),
                      H.zl(sum((H.enc_b(t.encode("latin-1")) for t in s.split()), []))))
        sprim.append(("flat_map enc_b (split_on 58 %s)" % H.zl(b),
                      H.zl(sum((H.enc_b(t) for t in b.split(b":")), []))))
    for _ in prim + sprim:
        ctx.case(None, nontrivial=False, kind="python-primitive")

    ctx.extra["t_impl_s"] = round(time.time() - t0, 1)
    t0 = time.time()
    bad = ctx.coq_cases(H.HEADER + "\n".join(defs) + "\n" + pool.defs(), "beq", cases, name="c29", shard=800)
    badp = ctx.coq_cases(header2, "oz_eqb", prim, name="c29int", shard=1000)
    bads = ctx.coq_cases(H.HEADER, "beq", sprim, name="c29str", shard=1000)
    for i in bad[:5]:
        m, pieces, view, _ = metas[i]
        ctx.tie_broken("correspondence", "C29 model vs %s" % ("Requestant" if m.kind == "req" else "Respondent"),
                       "pieces=%r close=%r head=%r impl=%r" % (pieces, m.close, m.headreq, view))
    for i in badp[:3]:
        ctx.tie_broken("correspondence", "py_int model vs python int()", "%s expected %s" % prim[i])
    for i in bads[:3]:
        ctx.tie_broken("correspondence", "string primitive model vs python", "%s expected %s" % sprim[i])
    ctx.extra["t_coq_cases_s"] = round(time.time() - t0, 1)
    ctx.extra["mismatches"] = len(bad) + len(badp) + len(bads) + len(sbad)
    ctx.exhaustive = False

    def search():
        best = None
        for m, pieces, _, full in metas:
            if not full:
                continue
            why, view = prop_holds(m, pieces)
            if why is None:
                continue
            size = len(m.data) * 10 + len(pieces)
            if best is None or size < best[0]:
                best = (size, {"key": "http-parse-" + ("escape" if "escaped" in view else "differs"),
                               "parser": "serving.Requestant" if m.kind == "req" else "clienting.Respondent",
                               "pieces": [p.decode("latin-1") for p in pieces],
                               "close_after": m.close, "head_request": m.headreq,
                               "observed": view, "expected": expected(m), "why": why,
                               "contradicts": "C29.Props.http_split_independent / http_parse_serialize"})
        for kind, ms, pieces, views, left, exp in smetas:
            why = None
            if views and "escaped" in views[0]:
                why = "parser raised %s" % views[0]["escaped"]
            elif len(views) != len(exp):
                why = "%d messages parsed from a stream of %d" % (len(views), len(exp))
            elif left:
                why = "bytes %r left over after the last message" % left
            else:
                for j, (v, e) in enumerate(zip(views, exp)):
                    if v["body"] != e["body"]:
                        why = "message %d has body %r, its content is %r" % (j, v["body"], e["body"])
                    elif [(k, x) for k, x in v["headers"]] != [tuple(h) for h in e["headers"]]:
                        why = "message %d has headers %r, its content is %r" % (j, v["headers"], e["headers"])
                    elif v["trails"] != [tuple(t) for t in e["trails"]]:
                        why = "message %d has trailers %r, its content is %r" % (j, v["trails"], e["trails"])
                    elif v["parms"] != [tuple(t) for t in e["parms"]]:
                        why = "message %d has chunk extensions %r, its content is %r" % (j, v["parms"], e["parms"])
                    if why:
                        break
            if why:
                stale = "chunk extensions" in why or "trailers" in why
                key = "http-reused-parser-stale-parms-trails" if stale else "http-reused-parser-state-leak"
                # a finding already listed as open must never hide a different one: rank it last
                known_open = any(f.get("status") == "open" and f.get("key") == key for f in ctx.known())
                size = sum(len(m.data) for m in ms) * 10 + len(pieces) + (10 ** 7 if known_open else 0)
                if best is None or size < best[0]:
                    best = (size, {"key": key,
                                   "parser": ("serving.Requestant" if kind == "req" else "clienting.Respondent")
                                             + " reused with makeParser() after each message",
                                   "pieces": [p.decode("latin-1") for p in pieces], "why": why,
                                   "observed_messages": views, "expected_messages": exp,
                                   "contradicts": "C29.Props.session_message_by_message / session_split_independent"})
        return best[1] if best else None

    ctx.settle(search)
