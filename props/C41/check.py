"""
C41 -- CRC helpers compute CRC-16/GENIBUS and CRC-64/WE  (ioflo/aid/checking.py).

Tie T: the translator of C40 (props/C40/translate.py) regenerates coq/gen/Checking.v from the
CURRENT checking.py on every run; coq/C41/Props.v proves, for ALL byte lists, that the generated
crc16 / crc64 equal the MSB-first polynomial-division specification (crc64: the split 32+32
register equals one 64-bit register).  The correspondence validates the translation (same inputs on
the implementation and on the generated model, inside Coq); the statement check runs the
implementation alone against independent table-driven references.
"""
import os
import struct
import sys

sys.path.insert(0, os.path.join(os.path.dirname(os.path.abspath(__file__)), "..", "C40"))
import sigs  # noqa: E402
import translate  # noqa: E402
from vlib import cz, czlist  # noqa: E402

LEVEL = "proof"

HEADER = """From Coq Require Import ZArith List Bool.
Import ListNotations.
Require Import V.Lib.C40_PyRt V.gen.Checking.
Open Scope Z_scope.
Fixpoint lz_eqb (a b : list Z) := match a, b with [], [] => true | x :: a', y :: b' => (x =? y) && lz_eqb a' b' | _, _ => false end.
Definition exc_eqb (a b : exc) := match a, b with
  | ValueError, ValueError | IndexError, IndexError | TypeError, TypeError | StructError, StructError => true | _, _ => false end.
(* a result is flattened to a list: crc16 -> its 2 bytes, crc64 -> [top; bottom]; errors -> class *)
Definition flat16 (r : res (list Z)) : res (list Z) := r.
Definition flat64 (r : res (Z * Z)) : res (list Z) := match r with Ok (a, b) => Ok [a; b] | Err e => Err e end.
Definition cmp1 (model impl : res (list Z)) : bool := match model, impl with
  | Err Unmodelled, _ => true | Ok a, Ok b => lz_eqb a b | Err a, Err b => exc_eqb a b | _, _ => false end.
Fixpoint cmp (model impl : list (res (list Z))) : bool := match model, impl with
  | [], [] => true | x :: a, y :: b => cmp1 x y && cmp a b | _, _ => false end.
Definition F := 9%nat.
Definition bytes256 := map Z.of_nat (seq 0 256).
"""


def gen(ctx):
    src = os.path.join(ctx.repo, "ioflo", "aid", "checking.py")
    try:
        text, _ = translate.translate_module(open(src).read(), sigs.CHECKING, "Checking", "ioflo/aid/checking.py")
    except (translate.Unsupported, SyntaxError, KeyError) as ex:
        ctx.tie_broken("translator", "checking.py is outside the translated fragment", repr(ex))
        return False
    bad = translate.selftest()      # fail-closed behaviour of the translator itself
    if bad:
        ctx.tie_broken("translator", "translator self-test", "; ".join(bad))
        return False
    ctx.extra["translator_selftest"] = "%d rejected + %d accepted snippets behave as expected" % (
        len(translate.REJECTED), len(translate.ACCEPTED))
    ctx.write_gen("Checking.v", text)
    return True


# ---- independent references (table driven, written from the catalogue parameters) ---------------
def make_table(poly, width):
    top = 1 << (width - 1)
    mask = (1 << width) - 1
    tab = []
    for b in range(256):
        r = b << (width - 8)
        for _ in range(8):
            r = ((r << 1) ^ poly) & mask if r & top else (r << 1) & mask
        tab.append(r)
    return tab


T16 = make_table(0x1021, 16)
T64 = make_table(0x42F0E1EBA9EA3693, 64)


def ref16(data):
    """CRC-16/GENIBUS: poly 0x1021 init 0xFFFF refin/refout false xorout 0xFFFF"""
    r = 0xFFFF
    for b in data:
        r = ((r << 8) & 0xFFFF) ^ T16[((r >> 8) ^ b) & 0xFF]
    return r ^ 0xFFFF


def ref64(data):
    """CRC-64/WE: poly 0x42F0E1EBA9EA3693 init all ones refin/refout false xorout all ones"""
    m = (1 << 64) - 1
    r = m
    for b in data:
        r = ((r << 8) & m) ^ T64[((r >> 56) ^ b) & 0xFF]
    return r ^ m


def impl16(checking, data):
    try:
        return ("ok", list(checking.crc16(bytes(data))))
    except Exception as ex:  # noqa
        return ("err", type(ex).__name__)


def impl64(checking, data):
    try:
        return ("ok", list(checking.crc64(bytes(data))))
    except Exception as ex:  # noqa
        return ("err", type(ex).__name__)


def lit(r):
    if r[0] == "ok":
        return "Ok %s" % czlist(r[1])
    return "Err %s" % (r[1] if r[1] in ("ValueError", "TypeError", "IndexError") else
                       "StructError" if r[1] == "error" else "OutOfFuel")


def statement(checking, data):
    """the property's statement on the implementation alone; returns a finding dict or None"""
    data = bytes(data)
    try:
        c16 = checking.crc16(data)
        want16 = struct.pack("!H", ref16(data))
        if bytes(c16) != want16:
            return {"key": "crc16-genibus", "input_hex": data.hex(), "observed": bytes(c16).hex(),
                    "expected": want16.hex(), "contradicts": "C41.Props.crc16_is_genibus"}
        c64 = checking.crc64(data)
        w = ref64(data)
        want64 = (w >> 32, w & 0xFFFFFFFF)
        if tuple(c64) != want64:
            return {"key": "crc64-we", "input_hex": data.hex(), "observed": ["%08x" % x for x in c64],
                    "expected": ["%08x" % x for x in want64], "contradicts": "C41.Props.crc64_is_we"}
    except Exception as ex:  # noqa
        return {"key": "crc-raises", "input_hex": data.hex(), "observed": "raises %r" % ex,
                "expected": "a checksum", "contradicts": "C41.Props.crc16_is_genibus"}
    return None


def want16(data):
    return struct.pack("!H", ref16(bytes(data)))


def want64(data):
    w = ref64(bytes(data))
    return (w >> 32, w & 0xFFFFFFFF)


def reuse_statement(checking, first, second, kind):
    """the checksum is a function of the CONTENT of its argument, not of the object or of earlier calls:
    one mutable buffer is checked, modified in place to `second`, and checked again with no other call in
    between (kind: bytearray | memoryview); or two equal-but-distinct / identical objects are checked in a row.
    Returns a finding dict or None."""
    first, second = bytes(first), bytes(second)
    for fn, want, key, thm in ((checking.crc64, want64, "crc64-reused-buffer", "C41.Props.crc64_is_we"),
                               (checking.crc16, want16, "crc16-reused-buffer", "C41.Props.crc16_is_genibus")):
        try:
            if kind == "distinct-equal":
                a, b = bytearray(first), bytearray(first)
                r1, r2, second_ = fn(a), fn(b), first
            elif kind == "same-bytes-twice":
                a = bytes(first)
                r1, r2, second_ = fn(a), fn(a), first
            else:
                buf = bytearray(first)
                arg = memoryview(buf) if kind == "memoryview" and len(second) == len(first) else buf
                r1 = fn(arg)
                if len(second) == len(first):
                    buf[:] = second                # in place, same object
                else:
                    del buf[:]
                    buf.extend(second)             # in place, grows / shrinks
                r2, second_ = fn(arg), second
            r1 = bytes(r1) if fn is checking.crc16 else tuple(r1)
            r2 = bytes(r2) if fn is checking.crc16 else tuple(r2)
        except Exception as ex:  # noqa
            return {"key": key, "buffer": kind, "first_content_hex": first.hex(), "second_content_hex": second.hex(),
                    "observed": "raises %r" % ex, "expected": "two checksums", "contradicts": thm}
        for r, content, which in ((r1, first, "first call"), (r2, second_, "second call")):
            if r != want(content):
                fmt = (lambda x: x.hex()) if fn is checking.crc16 else (lambda x: ["%08x" % v for v in x])
                return {"key": key, "buffer": kind, "first_content_hex": first.hex(),
                        "second_content_hex": bytes(second_).hex(), "failing_call": which,
                        "observed": fmt(r), "expected": fmt(want(content)),
                        "what": "%s called twice in a row on the same %s object, content changed in place between the calls"
                                % (fn.__name__, kind) if kind in ("bytearray", "memoryview") else
                                "%s called twice in a row (%s)" % (fn.__name__, kind),
                        "contradicts": thm}
    return None


def search(ctx, checking):
    n = [0]

    def one(d):
        n[0] += 1
        return statement(checking, d)
    f = one(b"")
    if f:
        return f, n[0]
    for a in range(256):          # smallest inputs first, so the reported input is small
        f = one([a])
        if f:
            return f, n[0]
    # mutable buffers reused across consecutive calls (content changed in place between the calls),
    # equal-but-distinct objects, the same object twice -- smallest contents first
    pairs = [(b"", b"\x00"), (b"\x00", b"\x01"), (b"\x01", b"\x00"), (b"\x00", b""), (b"a", b"ab"), (b"ab", b"a"),
             (b"123456789", b"123456780"), (b"123456789", b"1234567890"), (b"\xff" * 4, b"\xff" * 3 + b"\xfe")]
    for a in range(0, 256, 17):
        pairs.append((bytes([a]), bytes([a ^ 0x80])))
        pairs.append((bytes([a, 255 - a]), bytes([255 - a, a])))
    for first, second in pairs:
        for kind in ("bytearray", "memoryview", "distinct-equal", "same-bytes-twice"):
            n[0] += 1
            f = reuse_statement(checking, first, second, kind)
            if f:
                return f, n[0]
    f = one(b"123456789")
    if f:
        return f, n[0]
    for a in range(256):
        for b in range(256):
            f = one([a, b])
            if f:
                return f, n[0]
    rng = ctx.rng
    for k in range(ctx.n(300, 3000)):
        ln = rng.randint(3, 1024 if k % 10 == 0 else 40)
        d = bytes(rng.randrange(256) for _ in range(ln))
        f = one(d)
        if not f and k % 3 == 0:          # random reused buffers: flip a byte / append / truncate in place
            m = bytearray(d)
            r = rng.random()
            if r < 0.5:
                m[rng.randrange(len(m))] ^= 1 << rng.randrange(8)
            elif r < 0.75:
                m.append(rng.randrange(256))
            else:
                del m[-1]
            n[0] += 1
            f = reuse_statement(checking, d, bytes(m), rng.choice(["bytearray", "memoryview"]))
        if f:
            return f, n[0]
    return None, n[0]


def run(ctx):
    from ioflo.aid import checking
    ctx.rule = ("crc16/crc64 of the implementation vs the model regenerated from the same source (vm_compute): "
                "the empty string, every 1-byte string, 2-byte strings [a;b] for every b and a in a subset "
                "(all 256 a in the thorough tier) -- one case per first byte --, random strings up to 1 KiB; "
                "non-trivial = non-empty input; then the implementation alone vs table-driven CRC-16/GENIBUS and "
                "CRC-64/WE references on ALL strings of <= 2 bytes + random <= 1 KiB")
    ctx.assumptions = ["inputs are byte strings (bytearray(inpkt) of ints in [0,256))",
                       "struct.pack('!H', x) = the two big-endian bytes of x for 0 <= x < 65536"]
    ok = gen(ctx)
    if ok:
        ctx.coq_build("C41/Props.v")
    rng = ctx.rng
    cases, metas = [], []

    def add_group(prefix, seconds, kind):
        """strings prefix+[b] for b in seconds (or just [prefix] if seconds is None)"""
        strs = [list(prefix)] if seconds is None else [list(prefix) + [b] for b in seconds]
        r16 = [impl16(checking, s) for s in strs]
        r64 = [impl64(checking, s) for s in strs]
        if seconds is None:
            m = "[flat16 (crc16 F %s); flat64 (crc64 F %s)]" % (czlist(prefix), czlist(prefix))
            lt = "[%s; %s]" % (lit(r16[0]), lit(r64[0]))
        elif list(seconds) == list(range(256)):
            m = ("(map (fun b => flat16 (crc16 F (%s ++ [b]))) bytes256 ++ map (fun b => flat64 (crc64 F (%s ++ [b]))) bytes256)"
                 % (czlist(prefix), czlist(prefix)))
            lt = "[" + "; ".join(lit(r) for r in r16 + r64) + "]"
        else:
            raise RuntimeError("seconds")
        cases.append((m, lt))
        metas.append((list(prefix), None if seconds is None else "all second bytes"))
        for s, a, b in zip(strs, r16, r64):
            ctx.case({"in": bytes(s).hex(), "crc16": a[1], "crc64": b[1]}, nontrivial=len(s) > 0, kind=kind)

    add_group([], None, "empty")
    add_group([], range(256), "1 byte")
    firsts = range(256) if ctx.thorough else sorted(set([0, 1, 2, 127, 128, 254, 255] + [rng.randrange(256) for _ in range(17)]))
    for a in firsts:
        add_group([a], range(256), "2 bytes")
    for k in range(ctx.n(120, 1200)):
        ln = rng.randint(3, 1024) if k % 20 == 0 else rng.randint(3, 64)
        add_group([rng.randrange(256) for _ in range(ln)], None, "random<=1KiB" if ln > 64 else "random<=64")
    add_group(list(b"123456789"), None, "check-value")
    if ok:
        bad = ctx.coq_cases(HEADER, "cmp", cases, shard=ctx.n(10, 24))
        for i in bad[:5]:
            ctx.tie_broken("correspondence", "generated model vs checking.crc16/crc64",
                           "input prefix=%r (%s)" % metas[i])
        ctx.extra["mismatches"] = len(bad)
    ctx.exhaustive = False
    found, n = search(ctx, checking)
    ctx.extra["statement_checks"] = n
    if found is not None and not ctx.broken:
        ctx.tie_broken("statement", found["contradicts"], "implementation differs from the reference CRC: %r" % found)
    ctx.settle(lambda: found)
