"""C14: real framing.resolveFramer on the taskers of a house built from gen.ROLE_SKELETON.
stdout: '@@' + JSON {"registry": {name: ["framer", schedule] | ["other"]}, "results": [[name, contexts, outcome]]}
outcome = ["ok", schedule] | ["ok-nonframer", class] | ["ResolveError"] | ["other", class]"""
import collections.abc  # noqa
import json
import os
import sys
import tempfile

sys.path.insert(0, os.path.dirname(os.path.abspath(__file__)))
import gen  # noqa

from ioflo.aid.consoling import getConsole
getConsole().reinit(verbosity=0)
from ioflo.base import building, framing, excepting  # noqa
from ioflo.base.globaling import ACTIVE, INACTIVE, AUX, SLAVE, MOOT  # noqa

d = tempfile.mkdtemp(dir=os.getcwd())
path = os.path.join(d, "rf.flo")
with open(path, "w") as f:
    f.write(gen.ROLE_SKELETON % "print hello")
b = building.Builder()
assert b.build(fileName=path)
house = b.houses[0]
house.assignRegistries()
reg = {}
for name, t in framing.Framer.Names.items():
    reg[name] = ["framer", t.schedule] if isinstance(t, framing.Framer) else ["other"]
results = []
for name in list(reg) + ["nope", "a", ""]:
    for ctxs in (None, [], [AUX], [MOOT], [ACTIVE, INACTIVE], [AUX, SLAVE], [ACTIVE, INACTIVE, AUX, SLAVE, MOOT]):
        try:
            r = framing.resolveFramer(name, who="probe", desc="probe", contexts=ctxs)
            out = ["ok", r.schedule] if isinstance(r, framing.Framer) else ["ok-nonframer", type(r).__name__]
        except excepting.ResolveError:
            out = ["ResolveError"]
        except Exception as ex:
            out = ["other", type(ex).__name__]
        results.append([name, ctxs, out])
print("@@" + json.dumps({"registry": reg, "results": results}))
