"""
C14 translator: raise-site message table  ->  coq/gen/RaiseSites.v

For building.py, framing.py, acting.py, needing.py (ioflo/base) every message construction that
feeds an exception is extracted:
    * the first argument of every `raise <X>(...)`
    * every assignment  msg = <expr>  (the builder's idiom: msg = ...; raise excepting.ParseError(msg, ...))
Message expression forms (anything else -> Untranslatable, fail-closed):
    "literal"                                  -> Plain
    "tpl" % (a, b, ...)   /  "tpl" % a          -> Percent  nargs = tuple length (1 for a non-tuple)
    "tpl".format(a, b, k=v, ...)               -> Format   nargs, keyword names
    a Name (msg) / other non-string expression -> no formatting happens at the site: skipped
Additionally, for every raise statement and every msg assignment, the NAMES read by the whole
statement are listed together with the scope (function parameters and locals, module globals,
builtins), so that an undefined name in an error path (NameError instead of the script error)
is a false entry of the generated table.
"""
import ast
import builtins
import os

FILES = ["ioflo/base/building.py", "ioflo/base/framing.py", "ioflo/base/acting.py", "ioflo/base/needing.py",
         # the other modules whose code runs while a house is built and resolved
         "ioflo/base/poking.py", "ioflo/base/goaling.py", "ioflo/base/fiating.py", "ioflo/base/wanting.py",
         "ioflo/base/completing.py", "ioflo/base/traiting.py", "ioflo/base/doing.py", "ioflo/base/deeding.py",
         "ioflo/base/tasking.py", "ioflo/base/housing.py", "ioflo/base/storing.py", "ioflo/base/registering.py",
         "ioflo/base/logging.py", "ioflo/base/serving.py", "ioflo/base/monitoring.py", "ioflo/base/skedding.py"]


class Untranslatable(Exception):
    pass


def const_str(e):
    """string constant, possibly built by + of constants"""
    if isinstance(e, ast.Constant) and isinstance(e.value, str):
        return e.value
    if isinstance(e, ast.BinOp) and isinstance(e.op, ast.Add):
        a, b = const_str(e.left), const_str(e.right)
        if a is not None and b is not None:
            return a + b
    return None


def classify(e, where):
    """-> None (no formatting here) | (style, template, nargs, kwnames)"""
    s = const_str(e)
    if s is not None:
        return ("plain", s, 0, [])
    if isinstance(e, ast.BinOp) and isinstance(e.op, ast.Mod):
        tpl = const_str(e.left)
        if tpl is None:
            raise Untranslatable("%s: %% with a non-literal template" % where)
        if isinstance(e.right, ast.Tuple):
            if any(isinstance(x, ast.Starred) for x in e.right.elts):
                raise Untranslatable("%s: starred %% argument" % where)
            return ("percent", tpl, len(e.right.elts), [])
        if isinstance(e.right, ast.Dict):
            raise Untranslatable("%s: %% with a dict" % where)
        return ("percent", tpl, 1, [])
    if isinstance(e, ast.Call) and isinstance(e.func, ast.Attribute) and e.func.attr == "format":
        tpl = const_str(e.func.value)
        if tpl is None:
            raise Untranslatable("%s: .format on a non-literal template" % where)
        if any(isinstance(a, ast.Starred) for a in e.args) or any(k.arg is None for k in e.keywords):
            raise Untranslatable("%s: starred .format arguments" % where)
        return ("format", tpl, len(e.args), [k.arg for k in e.keywords])
    if isinstance(e, ast.BinOp) and isinstance(e.op, ast.Add):
        # concatenation of formatted pieces: every piece is a site of its own
        return "concat"
    if isinstance(e, (ast.Name, ast.Attribute, ast.Call, ast.JoinedStr, ast.Subscript)):
        return None
    raise Untranslatable("%s: unknown message expression %s" % (where, type(e).__name__))


def pieces(e, where):
    c = classify(e, where)
    if c == "concat":
        return pieces(e.left, where) + pieces(e.right, where)
    return [c] if c else []


class FuncScope(ast.NodeVisitor):
    """names bound anywhere in a function (python scoping: a name assigned anywhere in the body is
    local; reading it before assignment is not detected here)"""

    def __init__(self):
        self.bound = set()

    def visit_FunctionDef(self, n):
        self.bound.add(n.name)          # nested function name; do not descend (own scope)

    visit_AsyncFunctionDef = visit_FunctionDef

    def visit_ClassDef(self, n):
        self.bound.add(n.name)

    def visit_Lambda(self, n):
        pass

    def visit_Name(self, n):
        if isinstance(n.ctx, (ast.Store, ast.Del)):
            self.bound.add(n.id)

    def visit_Import(self, n):
        for a in n.names:
            self.bound.add(a.asname or a.name.split(".")[0])

    visit_ImportFrom = visit_Import

    def visit_ExceptHandler(self, n):
        if n.name:
            self.bound.add(n.name)
        self.generic_visit(n)

    def visit_comprehension(self, n):
        self.generic_visit(n)


def func_bound(fn):
    sc = FuncScope()
    a = fn.args
    for x in a.posonlyargs + a.args + a.kwonlyargs + [y for y in (a.vararg, a.kwarg) if y]:
        sc.bound.add(x.arg)
    for st in fn.body:
        sc.visit(st)
    return sc.bound


def names_read(node):
    out = []
    comp_bound = set()
    for n in ast.walk(node):
        if isinstance(n, ast.comprehension):
            for t in ast.walk(n.target):
                if isinstance(t, ast.Name):
                    comp_bound.add(t.id)
    for n in ast.walk(node):
        if isinstance(n, ast.Name) and isinstance(n.ctx, ast.Load) and n.id not in comp_bound:
            if n.id not in out:
                out.append(n.id)
    return out


def module_globals(tree, repo, relpath):
    """names bound at module level, star imports of ioflo modules expanded statically"""
    sc = FuncScope()
    out = set()
    for st in tree.body:
        if isinstance(st, ast.ImportFrom) and any(a.name == "*" for a in st.names):
            # resolve relative star import inside ioflo
            pkg = os.path.dirname(relpath).split(os.sep)
            base = pkg[:len(pkg) - (st.level - 1)] if st.level else []
            mod = base + (st.module.split(".") if st.module else [])
            p = os.path.join(repo, *mod) + ".py"
            if not os.path.exists(p):
                raise Untranslatable("%s: star import of %s not resolvable" % (relpath, ".".join(mod)))
            with open(p) as f:
                import warnings
                with warnings.catch_warnings():
                    warnings.simplefilter("ignore")
                    t2 = ast.parse(f.read())
            out |= {n for n in module_globals(t2, repo, os.path.join(*mod) + ".py") if not n.startswith("_")}
        else:
            sc.visit(st)
            if isinstance(st, (ast.FunctionDef, ast.AsyncFunctionDef, ast.ClassDef)):
                out.add(st.name)
            if isinstance(st, (ast.If, ast.Try, ast.For, ast.While, ast.With)):
                for sub in ast.walk(st):
                    if isinstance(sub, (ast.FunctionDef, ast.ClassDef)):
                        out.add(sub.name)
    return out | sc.bound


def exception_ctors(repo):
    """class name -> list of __init__ parameter names (without self) for the classes of ioflo/base/excepting.py"""
    path = os.path.join(repo, "ioflo", "base", "excepting.py")
    import warnings
    with warnings.catch_warnings():
        warnings.simplefilter("ignore")
        tree = ast.parse(open(path).read(), path)
    out = {}
    for st in tree.body:
        if isinstance(st, ast.ClassDef):
            init = [f for f in st.body if isinstance(f, ast.FunctionDef) and f.name == "__init__"]
            if not init:
                continue
            a = init[0].args
            if a.vararg or a.kwarg or a.kwonlyargs or a.posonlyargs:
                raise Untranslatable("excepting.%s.__init__: variadic signature" % st.name)
            out[st.name] = [x.arg for x in a.args[1:]]
    return out


def raise_call(exc, ctors):
    """-> (class name, npos, [kw names]) when exc is a call of an excepting class, else None"""
    if not isinstance(exc, ast.Call):
        return None
    f = exc.func
    if isinstance(f, ast.Attribute) and isinstance(f.value, ast.Name) and f.value.id == "excepting":
        cls = f.attr
    elif isinstance(f, ast.Name) and f.id in ctors:
        cls = f.id
    else:
        return None
    if cls not in ctors:
        raise Untranslatable("raise of unknown class excepting.%s" % cls)
    if any(isinstance(a, ast.Starred) for a in exc.args) or any(k.arg is None for k in exc.keywords):
        raise Untranslatable("starred arguments in raise excepting.%s(...)" % cls)
    return cls, len(exc.args), [k.arg for k in exc.keywords]


def rear_guard_in_force(repo):
    """True iff Builder.buildRear still contains the test  `... schedule not in ['aux']`  whose body raises
    excepting.ParseError -- the guard that keeps every schedule other than aux away from Rearer._resolve"""
    path = os.path.join(repo, "ioflo", "base", "building.py")
    import warnings
    with warnings.catch_warnings():
        warnings.simplefilter("ignore")
        tree = ast.parse(open(path).read(), path)
    for cls in tree.body:
        if isinstance(cls, ast.ClassDef) and cls.name == "Builder":
            for fn in cls.body:
                if isinstance(fn, ast.FunctionDef) and fn.name == "buildRear":
                    for n in ast.walk(fn):
                        if not isinstance(n, ast.If):
                            continue
                        tests = n.test.values if isinstance(n.test, ast.BoolOp) and isinstance(n.test.op, ast.Or) \
                            else [n.test]
                        hit = any(isinstance(t, ast.Compare) and isinstance(t.left, ast.Name) and t.left.id == "schedule"
                                  and len(t.ops) == 1 and isinstance(t.ops[0], ast.NotIn)
                                  and isinstance(t.comparators[0], (ast.List, ast.Tuple))
                                  and [getattr(e, "value", None) for e in t.comparators[0].elts] == ["aux"]
                                  for t in tests)
                        raises = any(isinstance(b, ast.Raise) and isinstance(b.exc, ast.Call)
                                     and isinstance(b.exc.func, ast.Attribute) and b.exc.func.attr == "ParseError"
                                     for b in n.body)
                        if hit and raises:
                            return True
    return False


def rearer_resolve_lines(repo):
    """line numbers of the raise statements inside class Rearer, method _resolve (ioflo/base/acting.py)"""
    path = os.path.join(repo, "ioflo", "base", "acting.py")
    import warnings
    with warnings.catch_warnings():
        warnings.simplefilter("ignore")
        tree = ast.parse(open(path).read(), path)
    out = set()
    for cls in tree.body:
        if isinstance(cls, ast.ClassDef) and cls.name == "Rearer":
            for fn in cls.body:
                if isinstance(fn, ast.FunctionDef) and fn.name == "_resolve":
                    out |= {n.lineno for n in ast.walk(fn) if isinstance(n, ast.Raise)}
    return out


def extract(repo):
    ctors = exception_ctors(repo)
    raises = []     # dict(file, line, cls, npos, kws)
    sites = []      # dict(file, line, style, tpl, nargs, kws)
    uses = []       # dict(file, line, func, names, scope_id)
    scopes = []     # list of sorted name lists (function locals + class-level names are NOT included)
    globs = {}
    for rel in FILES:
        path = os.path.join(repo, rel)
        with open(path) as f:
            src = f.read()
        import warnings
        with warnings.catch_warnings():
            warnings.simplefilter("ignore")
            tree = ast.parse(src, path)
        g = module_globals(tree, repo, rel)
        globs[rel] = sorted(g)

        def walk_fn(fn, outer_bound):
            bound = func_bound(fn) | outer_bound
            sid = len(scopes)
            scopes.append((rel, fn.name, fn.lineno, sorted(bound)))

            def stmts(body):
                for st in body:
                    if isinstance(st, (ast.FunctionDef, ast.AsyncFunctionDef)):
                        walk_fn(st, bound)
                        continue
                    if isinstance(st, ast.ClassDef):
                        for sub in st.body:
                            if isinstance(sub, (ast.FunctionDef, ast.AsyncFunctionDef)):
                                walk_fn(sub, bound)
                        continue
                    here = None
                    if isinstance(st, ast.Raise) and st.exc is not None:
                        here = st
                        rc = raise_call(st.exc, ctors)
                        if rc:
                            raises.append({"file": rel, "line": st.lineno, "func": fn.name, "cls": rc[0], "npos": rc[1],
                                           "kws": rc[2]})
                        if isinstance(st.exc, ast.Call) and st.exc.args:
                            where = "%s:%d" % (rel, st.lineno)
                            for c in pieces(st.exc.args[0], where):
                                sites.append({"file": rel, "line": st.lineno, "style": c[0], "tpl": c[1],
                                              "nargs": c[2], "kws": c[3]})
                    elif isinstance(st, ast.Assign) and len(st.targets) == 1 and isinstance(st.targets[0], ast.Name) \
                            and st.targets[0].id == "msg":
                        here = st
                        where = "%s:%d" % (rel, st.lineno)
                        for c in pieces(st.value, where):
                            sites.append({"file": rel, "line": st.lineno, "style": c[0], "tpl": c[1],
                                          "nargs": c[2], "kws": c[3]})
                    if here is not None:
                        uses.append({"file": rel, "line": here.lineno, "func": fn.name, "names": names_read(here),
                                     "scope": sid})
                    for field in ("body", "orelse", "finalbody"):
                        sub = getattr(st, field, None)
                        if isinstance(sub, list) and sub and isinstance(sub[0], ast.stmt):
                            stmts(sub)
                    for h in getattr(st, "handlers", []):
                        stmts(h.body)
            stmts(fn.body)

        for st in tree.body:
            if isinstance(st, (ast.FunctionDef, ast.AsyncFunctionDef)):
                walk_fn(st, set())
            elif isinstance(st, ast.ClassDef):
                for sub in st.body:
                    if isinstance(sub, (ast.FunctionDef, ast.AsyncFunctionDef)):
                        walk_fn(sub, set())
    # the ONE justified exemption of the signature obligation: Rearer._resolve's "Invalid schedule" raise
    # (keyword msg=).  It is unreachable from a script only while buildRear rejects every schedule but aux.
    guard = rear_guard_in_force(repo)
    rl = rearer_resolve_lines(repo)
    exempt = [{"file": r["file"], "line": r["line"], "guard": guard,
               "why": "Rearer._resolve invalid-schedule branch; guarded by Builder.buildRear `schedule not in ['aux']`"}
              for r in raises if r["file"] == "ioflo/base/acting.py" and r["line"] in rl and "msg" in r["kws"]]
    return {"exempt": exempt, "ctors": ctors, "raises": raises, "sites": sites, "uses": uses, "scopes": scopes, "globals": globs,
            "builtins": sorted(dir(builtins))}


def cstr(s):
    for ch in s:
        if ord(ch) > 0x10FFFF:
            raise Untranslatable("bad char")
    return "[" + "; ".join(str(ord(c)) for c in s) + "]"


def render(t):
    ids = {}

    def nid(n):
        if n not in ids:
            ids[n] = len(ids) + 1
        return ids[n]

    files = {f: i + 1 for i, f in enumerate(FILES)}
    L = ["(* GENERATED by props/C14/translate.py from the ioflo/base modules listed below -- do not edit *)",
         "From Coq Require Import List NArith.", "Import ListNotations.", "Require Import V.C14.Model.",
         "Open Scope N_scope.", "",
         "(* files: %s *)" % ", ".join("%d=%s" % (i, f) for f, i in files.items()), ""]
    L.append("Definition sites : list site := [")
    rows = []
    for s in t["sites"]:
        style = {"plain": "Plain", "percent": "Percent", "format": "Format"}[s["style"]]
        rows.append("  mksite %d %d %s %s %d [%s]" % (files[s["file"]], s["line"], style, cstr(s["tpl"]), s["nargs"],
                                                     "; ".join(cstr(k) for k in s["kws"])))
    L.append(";\n".join(rows))
    L.append("].")
    L.append("")
    L.append("Definition builtin_names : list N := [%s]." % "; ".join(str(nid(n)) for n in t["builtins"]))
    for f, i in files.items():
        L.append("Definition globals_%d : list N := [%s]." % (i, "; ".join(str(nid(n)) for n in t["globals"][f])))
    L.append("Definition globals_of (f : N) : list N := match f with %s | _ => [] end." %
             " ".join("| %d => globals_%d" % (i, i) for i in files.values()))
    L.append("")
    L.append("Definition scope_of (s : N) : list N :=")
    L.append("  match s with")
    used_scopes = sorted(set(u["scope"] for u in t["uses"]))
    for sid in used_scopes:
        rel, fn, ln, names = t["scopes"][sid]
        L.append("  | %d => [%s]  (* %s:%s:%d *)" % (sid + 1, "; ".join(str(nid(n)) for n in names), rel, fn, ln))
    L.append("  | _ => []")
    L.append("  end.")
    L.append("")
    L.append("Definition uses : list use := [")
    rows = []
    for u in t["uses"]:
        rows.append("  mkuse %d %d %d [%s]" % (files[u["file"]], u["line"], u["scope"] + 1,
                                               "; ".join(str(nid(n)) for n in u["names"])))
    L.append(";\n".join(rows))
    L.append("].")
    L.append("")
    cids = {c: i + 1 for i, c in enumerate(sorted(t["ctors"]))}
    L.append("(* exception classes of ioflo/base/excepting.py: %s *)" % ", ".join("%d=%s" % (i, c) for c, i in cids.items()))
    L.append("Definition ctor_params (cls : N) : list N :=")
    L.append("  match cls with")
    for c, i in cids.items():
        L.append("  | %d => [%s]  (* %s(%s) *)" % (i, "; ".join(str(nid(p)) for p in t["ctors"][c]), c, ", ".join(t["ctors"][c])))
    L.append("  | _ => []")
    L.append("  end.")
    L.append("(* exempt raise sites (file, line, guard in force): %s *)" % "; ".join(e["why"] for e in t["exempt"]))
    L.append("Definition exempt_sites : list (N * N * bool) := [%s]." % "; ".join(
        "(%d, %d, %s)" % (files[e["file"]], e["line"], "true" if e["guard"] else "false") for e in t["exempt"]))
    L.append("Definition raises : list rsite := [")
    L.append(";\n".join("  mkrsite %d %d %d %d [%s]" % (files[r["file"]], r["line"], cids[r["cls"]], r["npos"],
                                                        "; ".join(str(nid(k)) for k in r["kws"])) for r in t["raises"]))
    L.append("].")
    L.append("")
    L.append("(* name ids: %s *)" % " ".join("%d=%s" % (i, n) for n, i in sorted(ids.items(), key=lambda x: x[1])))
    return "\n".join(L) + "\n"
