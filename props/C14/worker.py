"""
C14 worker: runs in a FRESH subprocess (ctx.impl_python).  stdin: JSON {"scripts": [text, ...],
"limit": seconds}.  Each script is built by the real Builder under a wall-clock alarm.
stdout: one line '@@' + JSON list of outcomes
  ["built"] | ["notbuilt"] (build returned False: ResolveError / file error reported by the builder)
  | ["ParseError", msg] | ["ValueError", where, msg] | ["hang", [ioflo functions on the stack, innermost first]]
  | ["internal", class, where, msg]
where = "file.py:function:line" of the innermost ioflo frame of the traceback.
"""
import collections.abc  # noqa  (C01 guard)
import json
import os
import signal
import sys
import tempfile
import traceback


class Hang(BaseException):
    pass


STACK = []


def on_alarm(signum, frame):
    del STACK[:]
    f = frame
    while f is not None:
        if os.sep + "ioflo" + os.sep in f.f_code.co_filename:
            STACK.append("%s:%s" % (os.path.basename(f.f_code.co_filename), f.f_code.co_name))
        f = f.f_back
    raise Hang()


def where_of(ex):
    tb = traceback.extract_tb(ex.__traceback__)
    best = None
    for fr in tb:
        if os.sep + "ioflo" + os.sep in fr.filename:
            best = fr
    if best is None:
        best = tb[-1]
    return "%s:%s:%d" % (os.path.basename(best.filename), best.name, best.lineno)


def main():
    req = json.loads(sys.stdin.read())
    from ioflo.aid.consoling import getConsole
    console = getConsole()
    console.reinit(verbosity=0)
    from ioflo.base import building, excepting
    signal.signal(signal.SIGALRM, on_alarm)
    out = []
    d = tempfile.mkdtemp(dir=os.getcwd())
    for i, text in enumerate(req["scripts"]):
        path = os.path.join(d, "s%d.flo" % i)
        with open(path, "w") as f:
            f.write(text)
        signal.setitimer(signal.ITIMER_REAL, req.get("limit", 5.0))
        try:
            try:
                b = building.Builder()
                ok = b.build(fileName=path)
                res = ["built"] if ok else ["notbuilt"]
            finally:
                signal.setitimer(signal.ITIMER_REAL, 0)
        except Hang:
            res = ["hang", list(STACK)]
        except excepting.ParseError as ex:
            res = ["ParseError", str(ex)[:200]]
        except excepting.ResolveError as ex:
            res = ["ResolveError", str(ex)[:200]]
        except ValueError as ex:
            res = ["ValueError", where_of(ex), str(ex)[:200]]
        except RecursionError as ex:
            res = ["internal", "RecursionError", where_of(ex), ""]
        except Exception as ex:
            res = ["internal", type(ex).__name__, where_of(ex), str(ex)[:200]]
        out.append(res)
    print("@@" + json.dumps(out))


main()
