"""C14 script generators: grammar-aware random scripts, token mutations of the example plans,
frame `in` graphs (cyclic / dangling)."""
import glob
import os

VERBS = ['load', 'house', 'init', 'server', 'logger', 'log', 'loggee', 'framer', 'first', 'frame', 'over', 'under',
         'next', 'done', 'timeout', 'repeat', 'native', 'benter', 'enter', 'recur', 'exit', 'precur', 'renter',
         'rexit', 'print', 'put', 'inc', 'copy', 'set', 'aux', 'rear', 'raze', 'go', 'let', 'do', 'bid', 'ready',
         'start', 'stop', 'run', 'abort', 'use', 'flo', 'give', 'take']
CONNECT = ['to', 'by', 'with', 'from', 'per', 'for', 'cum', 'qua', 'via', 'as', 'at', 'in', 'of', 'on', 'if', 'be',
           'into', 'and', 'not', 'is', 'me', 'main', 'all', 'root', 'framer', 'frame', 'actor', 'value', 'fields',
           'update', 'change', 'always', 'once', 'never', 'streak', 'deck', 'active', 'inactive', 'aux', 'slave',
           'moot', 'first', 'done', 'elapsed', 'recurred', 'go', 'next', 'status', 'tasker', 'started', 'readied',
           'stopped', 'aborted', 'front', 'back', 'period', 'rx', 'tx', 'prefix', 'schedule', 'order', 'rear',
           'raze', 'last', 'one', 'two', 'onto', 'flush', 'keep', 'cycle', 'term', 'count', 'matches', 'sift',
           'text', 'binary', 'console', 'json', 'rule', 'life', 'fiat', 'ready', 'start', 'stop', 'run', 'abort']
VALUES = ['1', '0', '-2', '2.5', '1e5', '0x1f', 'true', 'false', 'none', '"str"', "'s'", '"a b"', '1,2', '(1,2)',
          '[1,2]', '{"a":1}', 'a', 'b', 'x.y', '.a.b', '.a.b.', 'me.c', 'framer.me.d', 'frame.main.e', 'a..b', '.',
          'goal.heading', 'state.depth', 'elapsed', 'meta.name', ':5000', '/tmp/x', '==', '!=', '<', '<=', '>=', '>',
          '+', '+-', '2', '3', 'fa', 'fb', 'f1', 'h1', 'doer', 'param', 'controller', 'pid', 'speed', 'simulator',
          'motion', 'uuv', 'since', 'lapse', '$', '#x', '\\', '"', "'", '(', ')', '%s', '{0}', '{', '}']

SKELETON = """house h1
init .box with depth 5
framer fa be active first f1
frame f1
%s
frame fb in f1
%s
framer mo be moot
frame m1
%s
"""


def plans(repo):
    return sorted(glob.glob(os.path.join(repo, "ioflo", "app", "plan", "*.flo")))


def random_line(rng):
    n = rng.choice([0, 1, 1, 2, 2, 3, 3, 4, 5, 6, 8])
    toks = [rng.choice(VERBS)]
    for _ in range(n):
        r = rng.random()
        toks.append(rng.choice(CONNECT) if r < 0.5 else rng.choice(VALUES) if r < 0.95 else rng.choice(VERBS))
    return " " * rng.randint(0, 4) + " ".join(toks)


def grammar_script(rng):
    def block():
        return "\n".join(random_line(rng) for _ in range(rng.randint(1, 3)))
    r = rng.random()
    if r < 0.7:
        return SKELETON % (block(), block(), block())
    if r < 0.85:
        return "\n".join(random_line(rng) for _ in range(rng.randint(1, 5))) + "\n"
    return "house h1\nframer fa be active\nframe f1\n" + "\n".join(random_line(rng) for _ in range(rng.randint(1, 6))) + "\n"


def mutate(rng, text):
    lines = text.split("\n")
    for _ in range(rng.randint(1, 3)):
        if not lines:
            break
        k = rng.randrange(len(lines))
        op = rng.random()
        toks = lines[k].split(" ")
        j = rng.randrange(len(toks))
        if op < 0.2:
            del toks[j]
        elif op < 0.45:
            toks[j] = rng.choice(CONNECT + VALUES + VERBS)
        elif op < 0.6:
            toks.insert(j, rng.choice(CONNECT + VALUES))
        elif op < 0.7:
            toks = toks[:j]
        elif op < 0.8:
            lines.insert(k, lines[rng.randrange(len(lines))])
            continue
        elif op < 0.9:
            a = rng.randrange(len(lines))
            lines[k], lines[a] = lines[a], lines[k]
            continue
        else:
            del lines[k]
            continue
        lines[k] = " ".join(toks)
    return "\n".join(lines)


def in_graph_script(rng, n=None):
    """frames with random `in` links: cycles (with and without the first frame), dangling names"""
    n = n or rng.randint(2, 6)
    names = ["q%d" % i for i in range(n)]
    L = ["house h1", "framer fa be active first q0"]
    edges = []
    for i, nm in enumerate(names):
        r = rng.random()
        if r < 0.75:
            tgt = rng.choice(names + ["zz"]) if rng.random() < 0.9 else nm
            L.append("frame %s in %s" % (nm, tgt))
            edges.append((nm, tgt))
        else:
            L.append("frame %s" % nm)
            edges.append((nm, None))
        if rng.random() < 0.3:
            L.append("  print hello")
    return "\n".join(L) + "\n", edges


# ---------------------------------------------------------------------------------------------
# names in the wrong role: every position that expects a framer / tasker / frame name is filled
# with active, moot, aux and slave framers, NON-framer taskers (logger, server), frames, the
# keywords me/main/all and an undefined name
# ---------------------------------------------------------------------------------------------

ROLE_SKELETON = """house h1
logger lg to c14logs/
server sv to c14logs/
framer fa be active first a
  frame a
    %s
  frame b
framer mo be moot
  frame m1
framer ax be aux
  frame x1
framer sl be slave
  frame s1
"""
ROLE_NAMES = ["fa", "mo", "ax", "sl", "lg", "sv", "nope", "me", "main", "all", "a", "b"]
ROLE_ONE = ["go next if aux {X} is done", "go next if {X} is done", "go next if tasker {X} is started",
            "go next if aux {X} in frame b is done", "go next if any in frame {X} is done",
            "go next if any in framer {X} is done", "go next if aux ax in framer {X} is done",
            "bid start {X}", "bid stop {X}", "bid ready {X}", "bid run {X}", "bid abort {X}",
            "bid start {X} at 2j", "bid start {X} at 0.5",
            "ready {X}", "start {X}", "stop {X}", "run {X}", "abort {X}",
            "aux {X}", "aux {X} as t1", "aux {X} as mine", "aux {X} if elapsed > 1", "aux {X} as t1 via me.q",
            "rear {X} as t1 in frame b", "rear {X} as mine be aux in frame {X}", "raze {X}", "raze {X} in frame b",
            "put 1 into x of framer {X}", "put 1 into x of frame {X}", "put 1 into x of frame a of framer {X}",
            "over {X}", "under {X}", "next {X}", "first {X}", "go {X}", "go {X} if elapsed > 1", "let {X} if elapsed > 1",
            "do doer param per x of framer {X}", "set x of framer {X} with 1", "inc x of frame {X} by 1",
            "timeout 2j", "repeat {X}", "print {X}", "done {X}", "native", "use {X}", "flo {X}",
            # non-finite / huge / fractional numeric literals where a count or a time is expected
            "repeat inf", "repeat -inf", "repeat nan", "repeat 1e400", "repeat 2.5", "repeat 1e3", "repeat -1",
            "timeout inf", "timeout nan", "timeout -inf", "timeout 1e400",
            "bid start fa at inf", "bid start fa at nan", "go next if elapsed >= inf", "go next if recurred >= nan",
            "put inf into x", "put nan into x", "inc x by inf", "set x with nan"]
ROLE_TWO = ["go next if aux {X} in framer {Y} is done", "go next if any in frame {X} in framer {Y} is done",
            "go next if aux {X} in frame {Y} is done", "rear {X} as t1 in frame {Y}", "aux {X} as {Y}",
            "go next if {X} in framer {Y} is done"]


def role_scripts():
    out = []
    for t in ROLE_ONE:
        if "{X}" not in t:
            out.append(ROLE_SKELETON % t)
            continue
        for x in ROLE_NAMES:
            out.append(ROLE_SKELETON % t.format(X=x))
    for t in ROLE_TWO:
        for x in ROLE_NAMES:
            for y in ROLE_NAMES:
                out.append(ROLE_SKELETON % t.format(X=x, Y=y))
    return out


# ---------------------------------------------------------------------------------------------
# every relative reference form, in every data position, in framers of every schedule kind
# (with and without a main frame / main framer)
# ---------------------------------------------------------------------------------------------

REF_SKELETON = """house h1
framer fa be active first a
  frame a
    aux ax
    aux mo as c1
%(fa)s
  frame a2 in a
framer fi be inactive first i
  frame i
%(fi)s
framer ax be aux first x
  frame x
%(ax)s
framer sl be slave first s
  frame s
%(sl)s
framer mo be moot first m
  frame m
%(mo)s
"""
REF_KINDS = ["fa", "fi", "ax", "sl", "mo"]
REF_FORMS = ["d of frame main", "d of frame main of framer me", "d of frame main of framer main",
             "d of frame main of framer fa", "d of frame main of framer", "d of framer main", "d of main",
             "frame.main.d", "framer.main.d", "framer.me.frame.main.d", "framer.main.frame.main.d",
             "framer.fa.frame.main.d", "d of frame me", "d of frame", "d of frame me of framer main",
             "d of frame a of framer main", "d of actor", "d of actor of frame main", "d of actor me of frame main",
             "framer.me.frame.main.actor.me.d", "d of me", "d of framer", "d of root", ".abs.d", "d"]
REF_TEMPLATES = ["put 1 into {R}", "inc {R} with 1", "inc {R} by 1", "set {R} with 1", "set {R} to 1",
                 "copy {R} into zz", "copy zz into {R}", "go next if {R} >= 1", "go next if {R} == zz",
                 "go next if {R} is updated", "let me if {R} > 0", "do doer param for x in {R}",
                 "do doer param per x {R}", "do doer param via {R}", "put 1 into x in {R}",
                 "inc {R} from zz of frame main", "go next if zz +- 1 == {R}"]


def reference_scripts():
    out = []
    for t in REF_TEMPLATES:
        for r in REF_FORMS:
            line = "    " + t.format(R=r)
            for k in REF_KINDS:
                d = {x: "" for x in REF_KINDS}
                d[k] = line
                out.append(REF_SKELETON % d)
    return out


# ---------------------------------------------------------------------------------------------
# address family: every path shape (keyword heads, missing / extra parts) x every relation clause
# x every verb position that takes an address (incl. `via` inodes), in an active framer and a clone
# ---------------------------------------------------------------------------------------------

ADDR_PATHS = ["d", "actor", "frame", "framer", "me", "main", "actor.me", "actor.d", "frame.me", "frame.main",
              "frame.d", "framer.me", "framer.main", "framer.d", "framer.me.frame", "framer.me.actor",
              "framer.me.frame.me", "framer.me.frame.me.actor", "framer.me.frame.main.actor", "framer.me.actor.me",
              "framer.me.frame.me.actor.me", "framer.me.frame.me.actor.me.d", "me.actor", "me.framer", "d.framer",
              ".framer", ".framer.me.frame", "framer.", "d.", "actor.", "framer.me.frame.me.actor.me.actor"]
ADDR_RELS = ["", " of me", " of root", " of framer", " of framer me", " of framer main", " of framer fa",
             " of frame", " of frame me", " of frame main", " of frame a", " of frame me of framer me",
             " of frame main of framer main", " of frame of framer", " of actor", " of actor me",
             " of actor of frame", " of actor me of frame me", " of actor of frame main of framer main"]
ADDR_TEMPLATES = ["put 5 into {A}", "go next if {A} >= 1", "do doer param at enter via {P}", "copy {A} into zz",
                  "inc {A} by 1", "set {A} with 1", "copy zz into {A}", "go next if {A} is updated",
                  "do doer param at enter for x in {A}", "do doer param at enter per x {P}", "put 1 into x in {A}",
                  "aux mo as c2 via {P}"]
ADDR_SKELETON = """house h1
framer fa be active first a%(fvia)s
  frame a%(avia)s
    aux mo as c1
%(fa)s
  frame a2 in a
framer mo be moot first m
  frame m
%(mo)s
"""


def incomplete_scripts(thorough=False):
    out = []
    templates = ADDR_TEMPLATES if thorough else ADDR_TEMPLATES[:3]
    for t in templates:
        for pth in ADDR_PATHS:
            rels = ADDR_RELS if "{A}" in t else [""]
            for r in rels:
                line = "    " + t.format(A=pth + r, P=pth)
                for k in ("fa", "mo"):
                    if k == "mo" and t.startswith("aux mo"):
                        continue          # a moot cloning itself: the known hang:clone-cycle family
                    d = {"fa": "", "mo": "", "fvia": "", "avia": ""}
                    d[k] = line
                    out.append(ADDR_SKELETON % d)
    for pth in ADDR_PATHS:                       # inodes of framers and frames
        for where in ("fvia", "avia"):
            d = {"fa": "    put 1 into d\n    put 1 into d of frame", "mo": "    put 1 into d", "fvia": "", "avia": ""}
            d[where] = " via " + pth
            out.append(ADDR_SKELETON % d)
    return out


# ---------------------------------------------------------------------------------------------
# field clauses: transfers between shares with source / destination field lists that differ in name
# and length, source share existing with / without those fields or missing
# ---------------------------------------------------------------------------------------------

FIELD_SKELETON = """house h1
init a.b with x 1 y 2
init e.f with value 3
%(house)s
framer fa be active first a
  frame a
%(frame)s
  frame a2
"""
FIELD_DST = [[], ["u"], ["u", "v"], ["x"], ["x", "y"], ["value"], ["u", "v", "t"]]
FIELD_SRC = [[], ["w"], ["w", "z"], ["x"], ["x", "y"], ["x", "z", "w"], ["value"], ["y", "x"]]
FIELD_SRC_SHARES = ["a.b", "e.f", "n.m", ".a.b", "a.b of root"]
FIELD_DST_SHARES = ["c.d", "a.b", "e.f"]
FIELD_TEMPLATES = [("house", "init {D} from {S}"), ("frame", "    copy {S} into {D}"), ("frame", "    inc {D} from {S}"),
                   ("frame", "    set {D} from {S}"), ("frame", "    go next if {S} >= {D}"),
                   ("frame", "    put {S} into {D}"), ("house", "init {D} with {S}")]


def _addr(fields, share):
    return (" ".join(fields) + " in " + share) if fields else share


def field_scripts(thorough=False):
    out = []
    templates = FIELD_TEMPLATES if thorough else FIELD_TEMPLATES[:4]
    for where, t in templates:
        for df in FIELD_DST:
            for sf in FIELD_SRC:
                for ss in (FIELD_SRC_SHARES if thorough else FIELD_SRC_SHARES[:3]):
                    for ds in FIELD_DST_SHARES:
                        d = {"house": "", "frame": ""}
                        d[where] = t.format(D=_addr(df, ds), S=_addr(sf, ss))
                        out.append(FIELD_SKELETON % d)
    return out


# ---------------------------------------------------------------------------------------------
# rear / raze: every schedule kind, clone name and frame form
# ---------------------------------------------------------------------------------------------

REAR_SKELETON = """house h1
logger lg to c14logs/
framer fa be active first a
  frame a
    %s
  frame b
  frame c in b
framer mo be moot first m
  frame m
framer ax be aux first x
  frame x
"""


def rear_scripts():
    out = []
    for who in ["mo", "fa", "ax", "lg", "nope", "me"]:
        for asn in ["", " as mine", " as t1", " as me"]:
            for be in ["", " be aux", " be active", " be inactive", " be slave", " be moot", " be bogus", " be"]:
                for fr in ["", " in frame b", " in frame c", " in frame me", " in frame a", " in frame nope",
                           " in frame", " in framer fa", " in frame b in framer fa"]:
                    out.append(REAR_SKELETON % ("rear %s%s%s%s" % (who, asn, be, fr)))
    for who in ["all", "first", "last", "t1", "mine", ""]:
        for fr in ["", " in frame", " in frame me", " in frame b", " in frame nope", " in frame b in framer fa", " in b"]:
            out.append(REAR_SKELETON % ("raze %s%s" % (who, fr)))
            out.append(REAR_SKELETON % ("rear mo as mine be aux in frame b\n    raze %s%s" % (who, fr)))
    return out


# ---- name collisions at resolve time (clone tags, clone full names, aux names) -------------------
COLLISION_SKELETON = """house box
framer helper be aux first h1
  frame h1
framer other be aux first o1
  frame o1
framer moo be moot first m1
  frame m1
    aux noo as kid
framer noo be moot first n1
  frame n1
%s
framer main be active first start
  frame start
%s
    go next
  frame second
%s
  frame third
%s
"""

def collision_scripts():
    """name collisions at resolve time (clone tags / clone full names / aux names)"""
    out = []
    def sk(extra, f1, f2, f3=()):
        ind = lambda ls: "\n".join("    " + l for l in ls)
        return COLLISION_SKELETON % (extra, ind(f1), ind(f2), ind(f3))
    A = ["aux helper", "aux other", "aux moo as helper", "aux noo as helper", "aux moo as other", "aux moo as kid",
         "aux noo as kid", "aux moo as mine", "aux moo as main", "aux moo as moo", "aux helper as helper",
         "aux moo as main_helper", "aux moo as start", "aux moo", "aux helper if elapsed >= 1.0", "aux moo as helper if elapsed >= 1.0"]
    # every ordered pair of aux lines: in one frame, in two frames (both orders arise), and split 1/3
    for a in A:
        for b in A:
            out.append(sk("", [a, b], []))
            out.append(sk("", [a], [b]))
            out.append(sk("", [a], [], [b]))
    # clone full name <framer>_<tag> equal to an existing framer / tasker / frame name, declared before or after
    for tag, nm in [("kid", "main_kid"), ("helper", "main_helper"), ("kid", "moo_kid"), ("kid", "main_kid_kid")]:
        for kind in ["aux", "moot", "active", "inactive"]:
            ex = "framer %s be %s first q1\n  frame q1" % (nm, kind)
            for a in ["aux moo as %s" % tag, "aux noo as %s" % tag]:
                out.append(sk(ex, [a], []))
                out.append(sk(ex, [a], ["aux %s" % nm]))
                out.append(sk(ex, ["aux %s" % nm], [a]))
                out.append(sk("", [a], []) + ex + "\n")
    return out
