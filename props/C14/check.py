"""
C14 -- building any script terminates with success or a script error.   PARTIAL (see meta.json).

Tie T : props/C14/translate.py regenerates coq/gen/RaiseSites.v (every message construction that
        feeds an exception + the names read by every raise statement) on every run.
Tie H : coq/C14/Model.v OverLinks (Frame.resolveOverLinks as fixed, and as it was) + PyFormat.
Theorems (coq/C14/Props.v): all_error_messages_format, all_error_path_names_bound (finite,
        generated tables), over_resolution_terminates, over_resolution_detects_every_cycle,
        over_resolution_orig_refuted, build_loop_consumes_lines.
Correspondence: PyFormat model vs real Python formatting (every site + synthetic templates);
        OverLinks model vs the real Builder on random `frame x in y` graphs.
Dynamic support (NOT a theorem): grammar-aware random scripts, token mutations of the example
        plans, a directed corpus, all through the real Builder in subprocesses under a wall-clock
        alarm; outcome classes.
"""
import json
import os
import re
from concurrent.futures import ThreadPoolExecutor

import gen as G
import translate

LEVEL = "proof"
HERE = os.path.dirname(os.path.abspath(__file__))
WORKER = os.path.join(HERE, "worker.py")
FOUND = []     # candidate findings: dict(key, script, observed)
STATE = {}


def gen(ctx):
    try:
        t = translate.extract(ctx.repo)
        text = translate.render(t)
    except translate.Untranslatable as ex:
        ctx.tie_broken("translator", "props/C14/translate.py", str(ex))
        return None
    ctx.write_gen("RaiseSites.v", text)
    STATE["table"] = t
    ctx.extra["exempt_raise_sites"] = t.get("exempt", [])
    return t


def run_scripts(ctx, scripts, limit=5.0, chunk=40):
    chunks = [scripts[i:i + chunk] for i in range(0, len(scripts), chunk)]

    def one(c):
        rc, out = ctx.impl_python(WORKER, {"scripts": c, "limit": limit}, timeout=limit * len(c) + 120)
        m = re.search(r"^@@(.*)$", out, re.M)
        if not m:
            return [["crash", out[-300:]]] * len(c)
        return json.loads(m.group(1))
    with ThreadPoolExecutor(16) as ex:
        return [r for rs in ex.map(one, chunks) for r in rs]


def classify(r):
    """-> (class label, finding key or None)"""
    k = r[0]
    if k in ("built", "notbuilt", "ParseError", "ResolveError"):
        return k, None
    if k == "ValueError":
        if r[1].startswith("building.py:Convert2"):
            return "ValueError(converter)", None
        return "ValueError(other: %s)" % r[1].rsplit(":", 1)[0], None
    if k == "hang":
        fns = [f.split(":")[1] for f in r[1]]
        if "resolveOverLinks" in fns:
            return "hang", "hang:over-links-cycle"
        if "resolveMoots" in fns or "clone" in fns:
            return "hang", "hang:clone-cycle"
        if "traceOutline" in fns:
            return "hang", "hang:under-links-cycle"
        return "hang", "hang:" + (r[1][0] if r[1] else "unknown")
    if k == "internal":
        if r[1] in ("ParameterError", "CloneError", "RegisterError"):
            return "ioflo:" + r[1], None           # ioflo's own excepting class about the script
        return "internal:" + r[1], "internal:%s@%s" % (r[1], r[2].rsplit(":", 1)[0])
    return k, "crash"


def py_percent(tpl, n):
    try:
        tpl % tuple([65] * n)
        return True
    except (TypeError, ValueError, IndexError, KeyError):
        return False


def py_format(tpl, n, kws):
    try:
        tpl.format(*([65] * n), **{k: 65 for k in kws})
        return True
    except (TypeError, ValueError, IndexError, KeyError, AttributeError):
        return False


def cstr(s):
    return "[" + "; ".join(str(ord(c)) for c in s) + "]" if s else "(@nil N)"


def run(ctx):
    ctx.rule = ("(1) PyFormat model vs real Python: every generated site and synthetic %-/format templates x 0..3 "
                "arguments; (2) OverLinks model vs the real Builder on scripts of random `frame x in y` graphs "
                "(cycles through / not through the first frame, self loops, dangling names): built iff every walk is "
                "Done, never a hang; (0) directed name-collision scripts (clone tag = aux framer name / other clone tag, clone "
                "full name = existing framer, aux named twice; every ordered pair of 16 aux lines in one / two frames); "
                "(3) dynamic: directed corpus, the example plans, grammar-aware random scripts and "
                "token mutations of the plans through the real Builder in fresh subprocesses under a wall-clock alarm, "
                "outcome class must be built / not built (ResolveError) / ParseError / ValueError; "
                "non-trivial = a script that gets past the first line (not rejected at dispatch)")
    ctx.assumptions = [
        "outcome classes accepted as script errors: ParseError, ResolveError (build returns False), ValueError from "
        "the Convert2* literal converters AND from Store.add path validation, and ioflo's own excepting.ParameterError/"
        "CloneError (duplicate or invalid names) -- the last two groups are an interpretation of the property text, "
        "counted separately in the distribution",
        "PyFormat model is conservative: a nested {} inside a format spec and !conv/:spec contents are not analysed "
        "(nested -> rejected; no such site exists, the theorem would fail closed)",
        "name binding is flow-insensitive (a local assigned anywhere in the function counts as bound)",
    ]
    t = gen(ctx)
    ctx.coq_build("C14/Props.v")
    rng = ctx.rng

    # ---- (0) directed family, both tiers, first: NAME COLLISIONS at resolve time -----------------------
    # clone tag = ordinary aux framer's name in the same framer (both declaration orders, same frame / two
    # frames), clone tag = another clone tag, clone full name <framer>_<tag> = an existing framer name,
    # the same aux named twice in one frame / in two frames.  Statement: C14's (outcome classes below).
    colls = G.collision_scripts()
    cres = run_scripts(ctx, colls, limit=3.0, chunk=60)
    for s, r in zip(colls, cres):
        cls, key = classify(r)
        lines = s.split("\n")
        im = lines.index("framer main be active first start")
        show = [ln.strip() for ln in lines[im:] if ln.startswith("    aux ")] + \
               [("before: " if i < im else "after: ") + ln for i, ln in enumerate(lines)
                if i >= 10 and i != im and ln.startswith("framer ")]
        ctx.case({"kind": "collision", "script": show, "outcome": r[:2]},
                 nontrivial=r[0] != "ParseError", kind="collision:" + cls)
        if key:
            note(ctx, key, s, r)
    ctx.extra["collision_scripts"] = len(colls)

    # ---- (1) PyFormat correspondence -------------------------------------------------------
    cases, metas = [], []
    if t is not None:
        for s in t["sites"]:
            if s["style"] == "percent":
                real = py_percent(s["tpl"], s["nargs"])
                cases.append(("percent_ok %s %d" % (cstr(s["tpl"]), s["nargs"]), "true" if real else "false"))
            elif s["style"] == "format":
                real = py_format(s["tpl"], s["nargs"], s["kws"])
                cases.append(("format_ok %s %d [%s]" % (cstr(s["tpl"]), s["nargs"], "; ".join(cstr(k) for k in s["kws"])),
                              "true" if real else "false"))
            else:
                continue
            metas.append(("site %s:%d" % (s["file"], s["line"]), s["tpl"], s["nargs"], real))
            ctx.case({"site": [s["file"], s["line"]], "ok": real}, nontrivial=True, kind="fmt-site:" + s["style"])
    for _ in range(ctx.n(600, 6000)):
        n = rng.randint(0, 3)
        if rng.random() < 0.5:
            tpl = "".join(rng.choice("%%%sdx(ab 5.-l") for _ in range(rng.randint(0, 6)))
            real = py_percent(tpl, n)
            cases.append(("percent_ok %s %d" % (cstr(tpl), n), "true" if real else "false"))
        else:
            tpl = "".join(rng.choice("{{}}012ab ") for _ in range(rng.randint(0, 7)))
            kws = rng.choice([[], ["a"], ["a", "b"]])
            real = py_format(tpl, n, kws)
            cases.append(("format_ok %s %d [%s]" % (cstr(tpl), n, "; ".join(cstr(k) for k in kws)),
                          "true" if real else "false"))
        metas.append(("synthetic", tpl, n, real))
        ctx.case({"tpl": tpl, "n": n, "ok": real}, nontrivial=("%" in tpl or "{" in tpl), kind="fmt-synthetic")
    header = ("From Coq Require Import List NArith Bool.\nImport ListNotations.\nRequire Import V.C14.Model.\n"
              "Open Scope N_scope.\n")
    bad = ctx.coq_cases(header, "Bool.eqb", cases, name="fmt")
    for i in bad[:5]:
        ctx.tie_broken("correspondence", "PyFormat model vs Python formatting", repr(metas[i]))
    ctx.extra["fmt_mismatches"] = len(bad)

    # ---- (2) OverLinks correspondence through the real Builder ----------------------------------
    graphs = [G.in_graph_script(rng) for _ in range(ctx.n(120, 1500))]
    gres = run_scripts(ctx, [g[0] for g in graphs], limit=3.0)
    ocases, ometas = [], []
    for (text, edges), r in zip(graphs, gres):
        ids = {}
        for a, b in edges:
            ids.setdefault(a, len(ids) + 1)
        glit = "[" + "; ".join("(%d, %s)" % (ids[a], "None" if b is None else "Some %d" % ids.setdefault(b, 100 + len(ids)))
                               for a, b in edges) + "]"
        model = ("forallb (fun n => match resolve_over %d %s n with Done => true | _ => false end) [%s]"
                 % (len(edges), glit, "; ".join(str(ids[a]) for a, _ in edges)))
        cls, key = classify(r)
        ctx.case({"edges": edges, "outcome": r[0]}, nontrivial=any(b is not None for _, b in edges), kind="overs:" + cls)
        if cls == "hang" or key:
            note(ctx, key or "hang", text, r)
            continue
        ocases.append((model, "true" if r[0] == "built" else "false"))
        ometas.append((edges, r))
    obad = ctx.coq_cases(header, "Bool.eqb", ocases, name="overs")
    for i in obad[:5]:
        ctx.tie_broken("correspondence", "OverLinks model vs Builder on `in` graph", repr(ometas[i]))
    ctx.extra["overs_mismatches"] = len(obad)

    # ---- (2b) resolveFramer model vs the real function on a house with framers of every schedule,
    #           a logger and a server (they share the tasker name registry) ---------------------------
    rc, out = ctx.impl_python(os.path.join(HERE, "rf_probe.py"), None, 120)
    m = re.search(r"^@@(.*)$", out, re.M)
    if not m:
        ctx.tie_broken("harness", "rf_probe.py", out[-800:])
    else:
        pr = json.loads(m.group(1))
        nid = {}
        for nme in list(pr["registry"]) + [r[0] for r in pr["results"]]:
            nid.setdefault(nme, len(nid) + 1)
        reglit = "[" + "; ".join("(%d, %s)" % (nid[k], "TFramer %d" % v[1] if v[0] == "framer" else "TOther")
                                 for k, v in pr["registry"].items()) + "]"
        fcases, fmetas = [], []
        for nme, ctxs, o in pr["results"]:
            ctx.case({"resolveFramer": nme, "contexts": ctxs, "outcome": o}, nontrivial=True,
                     kind="resolveFramer:" + o[0])
            if o[0] not in ("ok", "ResolveError"):
                ctx.tie_broken("correspondence", "resolveFramer returned/raised something that is not a framer or a "
                               "ResolveError", "name=%r (registry: %r) contexts=%r -> %r" % (
                                   nme, pr["registry"].get(nme), ctxs, o))
                continue
            fcases.append(("resolve_framer %s %d [%s]" % (reglit, nid[nme], "; ".join(str(c) for c in (ctxs or []))),
                           "FOk %d" % o[1] if o[0] == "ok" else "FResolveError"))
            fmetas.append((nme, ctxs, o))
        fhdr = header + ("Definition f_eqb (a b : fres) := match a, b with FOk x, FOk y => N.eqb x y "
                         "| FResolveError, FResolveError => true | _, _ => false end.\n")
        fbad = ctx.coq_cases(fhdr, "f_eqb", fcases, name="rframer")
        for i in fbad[:5]:
            ctx.tie_broken("correspondence", "resolve_framer model vs framing.resolveFramer", repr(fmetas[i]))
        ctx.extra["resolveFramer_mismatches"] = len(fbad)

    # ---- (2c) resolvePath error classes: C13 model vs the real method in framers of every schedule kind
    rc, out = ctx.impl_python(os.path.join(HERE, "rp_probe.py"), None, 180)
    m = re.search(r"^@@(.*)$", out, re.M)
    if not m:
        ctx.tie_broken("harness", "rp_probe.py", out[-800:])
    else:
        ids = {"": 0, "framer": 1, "me": 2, "main": 3, "frame": 4, "actor": 5}

        def I(x):
            return ids.setdefault(x, len(ids) + 10)

        def cp(ps):
            return "[" + "; ".join(str(I(x)) for x in ps) + "]" if ps else "(@nil N)"

        def cl(items, ty):
            items = list(items)
            return "[" + "; ".join(items) + "]" if items else "(@nil %s)" % ty
        pcases, pmetas = [], []
        for c, pth, r in json.loads(m.group(1)):
            if r[0] == "ok":
                if r[2] == "":
                    continue
                exp = "(Ok %s)" % cp(r[2].split("."))
            elif r[0] == "ResolveError":
                exp = "ErrResolve"
            elif r[0] == "IndexError":
                # incomplete path (framer/frame/actor without a name): an internal error for C14
                note(ctx, "internal:IndexError@acting.py:resolvePath",
                     "house h1\nframer fa be active first a\nframe a\n  put 5 into %s\n" % pth, ["IndexError", pth])
                exp = "ErrIndex"
            else:
                ctx.tie_broken("correspondence", "resolvePath raised an unmodelled exception (not ResolveError)",
                               "framer=%r has_main=%r ipath=%r -> %r" % (c["names"]["framer"], c["has_main"], pth, r))
                ctx.case({"ipath": pth, "has_main": c["has_main"], "outcome": r[:2]}, kind="resolvePath:other")
                continue
            ctx.case({"ipath": pth, "framer": c["names"]["framer"], "has_main": c["has_main"], "outcome": r[0]},
                     nontrivial=not pth.startswith("."), kind="resolvePath:" + r[0])
            n = c["names"]
            cexpr = "(mkctx %s %s %s %s %s %s %s)" % (
                "true" if c["has_main"] else "false", "true" if c["actor_ok"] else "false",
                "None" if c["act_inode"] is None else "(Some %s)" % cp(c["act_inode"]), cp(c["frame_inode"]),
                cl([cp(o) for o in c["overs"]], "(list N)"), cp(c["framer_inode"]),
                cl(["(%s, %s)" % (cl([cp(o) for o in ch], "(list N)"), cp(mi)) for ch, mi in c["levels"]],
                   "(list (list N) * list N)"))
            nexpr = "(mknames %d %d %d %d %s)" % (I(n["framer"]), I(n["mainframer"]), I(n["frame"]), I(n["mainframe"]),
                                                  cp(n["actor"]))
            pcases.append(("(resolve_str %s %s %s)" % (nexpr, cexpr, cp(pth.split(".") if pth else [])), exp))
            pmetas.append((c["names"]["framer"], c["has_main"], pth, r))
        phdr = ("From Coq Require Import List NArith Bool.\nImport ListNotations.\nRequire Import V.C13.Model.\n"
                "Open Scope N_scope.\n"
                "Fixpoint l_eqb (a b : list N) := match a, b with [], [] => true | x::a', y::b' => N.eqb x y && l_eqb a' b' "
                "| _, _ => false end.\n"
                "Definition r_eqb (a b : res (list N)) := match a, b with Ok x, Ok y => l_eqb x y | ErrResolve, ErrResolve "
                "=> true | ErrIndex, ErrIndex => true | ErrIndex, ErrResolve => true | _, _ => false end.\n")
        pbad = ctx.coq_cases(phdr, "r_eqb", pcases, name="rpath")
        for i in pbad[:5]:
            ctx.tie_broken("correspondence", "resolvePath model (error class / result) vs Act.resolvePath", repr(pmetas[i]))
        ctx.extra["resolvePath_mismatches"] = len(pbad)

    # ---- (3) dynamic support ---------------------------------------------------------------------
    corpus = json.load(open(os.path.join(HERE, "corpus.json")))
    plans = [open(p).read() for p in G.plans(ctx.repo)]
    scripts = [c["script"] for c in corpus] + list(plans)
    kinds = ["corpus"] * len(corpus) + ["plan"] * len(plans)
    refs = G.reference_scripts()      # deterministic: every reference form x data position x framer kind
    scripts += refs
    kinds += ["reference"] * len(refs)
    rears = G.rear_scripts()                    # deterministic: rear / raze x schedule kinds x frame forms
    scripts += rears
    kinds += ["rear"] * len(rears)
    flds = G.field_scripts(ctx.thorough)        # deterministic: field clauses differing in name / length
    scripts += flds
    kinds += ["fields"] * len(flds)
    incs = G.incomplete_scripts(ctx.thorough)   # deterministic: keyword path heads, missing/extra parts
    scripts += incs
    kinds += ["address"] * len(incs)
    roles = G.role_scripts()          # deterministic: every name kind in every framer/tasker/frame position
    if not ctx.thorough:             # quick tier: all one-slot scripts, every third two-slot script
        n1 = sum(len(G.ROLE_NAMES) if "{X}" in t else 1 for t in G.ROLE_ONE)
        roles = roles[:n1] + roles[n1::3]
    scripts += roles
    kinds += ["role"] * len(roles)
    for _ in range(ctx.n(300, 6000)):
        scripts.append(G.grammar_script(rng))
        kinds.append("grammar")
    for _ in range(ctx.n(300, 6000)):
        scripts.append(G.mutate(rng, rng.choice(plans)))
        kinds.append("mutation")
    nc = len(corpus)
    res = run_scripts(ctx, scripts[:nc], limit=3.0, chunk=2) + run_scripts(ctx, scripts[nc:], limit=5.0, chunk=60)
    for s, kd, r in zip(scripts, kinds, res):
        cls, key = classify(r)
        early = r[0] == "ParseError" and ("index = 1." in r[1] or "No current" in r[1])
        if kd == "rear":
            s_show = [ln.strip() for ln in s.split("\n")[4:6] if ln.startswith("    ")]
        elif kd == "role":
            s_show = [ln.strip() for ln in s.split("\n")][5]
        elif kd == "fields":
            s_show = [ln.strip() for ln in s.split("\n")[3:] if ln.strip() and not ln.startswith("framer")
                      and not ln.strip().startswith("frame ")][:1]
        elif kd == "address":
            s_show = [ln.strip() for ln in s.split("\n") if ln.startswith("    ") or " via " in ln][:2]
        elif kd == "reference":
            s_show = [ln for ln in s.split("\n") if ln.startswith("    ") and " aux " not in ln][:1] + \
                     [ln for ln in s.split("\n")[:40] if ln.startswith("framer")]
        else:
            s_show = s[:400]
        ctx.case({"kind": kd, "script": s_show, "outcome": r[:2]}, nontrivial=not early, kind="%s:%s" % (kd, cls))
        if key:
            note(ctx, key, s, r)
    ctx.extra["dynamic_scripts"] = len(scripts)
    ctx.exhaustive = False

    keys = sorted(set(f["key"] for f in FOUND))
    ctx.extra["finding_keys_seen"] = keys
    for f in FOUND[:3]:
        ctx.tie_broken("correspondence", "dynamic: builder outcome is not a script error", json.dumps(f)[:1200])
    ctx.settle(lambda: search(ctx))


def note(ctx, key, script, r):
    if ctx.known_finding(key):
        return
    FOUND.append({"key": key, "script": script, "observed": r})


def shrink(ctx, f):
    """line-deletion shrink keeping the same finding key"""
    lines = f["script"].split("\n")
    if len(lines) <= 8:
        return f
    budget = 5
    step = max(1, len(lines) // 2)
    while step >= 1 and budget > 0:
        cands = []
        for i in range(0, len(lines), step):
            c = lines[:i] + lines[i + step:]
            if c:
                cands.append(c)
        if not cands:
            break
        res = run_scripts(ctx, ["\n".join(c) for c in cands], limit=2.0, chunk=1)
        budget -= 1
        for c, r in zip(cands, res):
            if classify(r)[1] == f["key"]:
                lines, f = c, dict(f, script="\n".join(c), observed=r)
                break
        else:
            step //= 2
    return f


def bad_raise_sites(ctx):
    """raise sites whose call does not fit the exception constructor, confirmed by really calling it"""
    t = STATE.get("table")
    out = []
    if not t:
        return out
    import importlib
    excepting = importlib.import_module("ioflo.base.excepting")
    for r in t["raises"]:
        params = t["ctors"][r["cls"]]
        ok = r["npos"] <= len(params) and all(k in params and params.index(k) >= r["npos"] for k in r["kws"]) \
            and len(set(r["kws"])) == len(r["kws"])
        if ok or any(e["guard"] and e["file"] == r["file"] and e["line"] == r["line"] for e in t.get("exempt", [])):
            continue
        try:
            getattr(excepting, r["cls"])(*([None] * r["npos"]), **{k: None for k in r["kws"]})
            observed = "constructor accepted the call"
        except TypeError as ex:
            observed = "TypeError: %s" % ex
        out.append({"key": "raise-signature:%s:%s:%s" % (os.path.basename(r["file"]), r["func"], r["cls"]),
                    "site": "%s:%d (%s)" % (r["file"], r["line"], r["func"]),
                    "call": "excepting.%s(<%d positional>, %s)" % (r["cls"], r["npos"], ", ".join(k + "=..." for k in r["kws"])),
                    "constructor": "%s.__init__(self, %s)" % (r["cls"], ", ".join(params)),
                    "observed": observed,
                    "expected": "reaching this raise statement reports the script error it was written for",
                    "contradicts": "C14.Props.all_raise_sites_match_constructor"})
    return out


def search(ctx):
    if not FOUND:
        for b in bad_raise_sites(ctx):
            if not ctx.known_finding(b["key"]):
                return b
        return None
    # prefer the shortest script per key; report the first key, list the others
    best = {}
    for f in FOUND:
        if f["key"] not in best or len(f["script"]) < len(best[f["key"]]["script"]):
            best[f["key"]] = f
    key = sorted(best, key=lambda k: (not k.startswith("internal:"), k))[0]
    f = shrink(ctx, best[key])
    contr = {"hang:over-links-cycle": "C14.Props.over_resolution_terminates"}.get(
        key, "C14.Props.all_error_messages_format / all_error_path_names_bound or the dynamic outcome classes")
    return {"key": key, "script": f["script"], "observed": f["observed"],
            "expected": "build terminates with built / ParseError / ResolveError / converter ValueError",
            "other_keys": {k: best[k]["script"][:300] for k in sorted(best) if k != key},
            "replay": "write the script to a file and run  Builder().build(fileName=file)  under PYTHONPATH=%s" % ctx.repo,
            "contradicts": contr}
