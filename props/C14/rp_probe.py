"""C14: real Act.resolvePath on the live acts of a house with framers of every schedule kind
(with / without main frame) x probe paths; prints contexts (C13 harness) and outcome classes."""
import collections.abc  # noqa
import json
import os
import sys

HERE = os.path.dirname(os.path.abspath(__file__))
sys.path.insert(0, HERE)
sys.path.insert(0, os.path.join(os.path.dirname(HERE), "C13"))
import gen  # noqa
import harness as H  # noqa

H.quiet()
line = "    put 1 into zz\n    do doer param at enter per x zz"
text = gen.REF_SKELETON % {k: line for k in gen.REF_KINDS}
ok, b = H.build(text, os.getcwd(), "rp")
assert ok, b
PROBES = H.PROBES + ["framer.me.frame.main.x", "framer.fa.frame.main.x", "framer.main.frame.me.x",
                     "framer.main.frame.main.x", "framer.me.frame.main.actor.me.x", "framer.main", "framer.me.frame.main"]
out = []
seen = set()
for act in H.all_acts(b):
    c = H.extract_ctx(act)
    if c is None:
        continue
    for p in PROBES:
        key = json.dumps([c, p], sort_keys=True)
        if key in seen:
            continue
        seen.add(key)
        out.append([c, p, list(H.probe(act, p))])
print("@@" + json.dumps(out))
