"""
C21 -- comparison conditions evaluate exactly the written comparison.

Tie T : Need.Check is translated on every run (translate.py -> coq/gen/C21_Needing.v);
        theorems in coq/C21/Props.v are about the generated definition.
Tie H : coq/C21/Model.v hand-models NeedBoolean/NeedDirect/NeedIndirect.action, Nact, the
        needs loop of Transiter.action and the clause syntax of Builder.buildGo/makeNeed.
Correspondence (all evaluated inside Coq):
  1. Need.Check itself on a value grid (translator validation);
  2. generated FloScript programs (`go B if <condition>`) built by the real Builder: the acts it
     builds (Nact?, Need class, parms) against  map build1 (parse tokens) ;
  3. the same programs run by the real Skedder (real=False): tick at which the transition is
     taken against  first_tick (map build1 clauses) envs.
"""
import itertools
import math
import os
import sys
from fractions import Fraction

import importlib.util  # noqa: E402

_HERE = os.path.dirname(os.path.abspath(__file__))


def _load(name, path):
    spec = importlib.util.spec_from_file_location(name, path)
    mod = importlib.util.module_from_spec(spec)
    spec.loader.exec_module(mod)
    return mod


translate = _load("c21_translate", os.path.join(_HERE, "translate.py"))
_enc = _load("c45_enc", os.path.join(os.path.dirname(_HERE), "C45", "enc.py"))
e_q, e_val, e_exc, zlist, DECODE_COQ = _enc.e_q, _enc.e_val, _enc.e_exc, _enc.zlist, _enc.DECODE_COQ

import time  # noqa: E402

LEVEL = "proof"
OPS = ["==", "!=", "<", "<=", ">=", ">"]
K = 3            # ticks observed per program


def canon(v):
    if isinstance(v, float):
        return ["float", v.hex()]
    if isinstance(v, bool) or v is None:
        return v
    if isinstance(v, int):
        return ["int", v]
    return v


def mute():
    from ioflo.aid import consoling
    consoling.getConsole().reinit(verbosity=consoling.Console.Wordage.mute)


def gen(ctx):
    try:
        text = translate.gen_needing(ctx.repo)
    except (translate.Untranslatable, SyntaxError, OSError) as ex:
        ctx.tie_broken("translator", "needing.py Need.Check", repr(ex))
        return False
    ctx.write_gen("C21_Needing.v", text)
    return True


def gen_fields(ctx):
    """regenerate coq/gen/C21_Fields.v (default-field rules); False + broken tie if untranslatable"""
    try:
        text = translate.gen_fields(ctx.repo)
    except (translate.Untranslatable, SyntaxError, OSError) as ex:
        ctx.tie_broken("translator", "needing.py NeedState/NeedIndirect._resolve default-field rule", repr(ex))
        return False
    ctx.write_gen("C21_Fields.v", text)
    return True


# ---------------------------------------------------------------------------------------
# default-field rule: one real build per (state share, written state field, goal share, written goal field)
FSHARES = [("fs.a", ["value"]), ("fs.m", ["x", "y"]), ("fs.e", [])]


def field_rule_ref(fields, written, fallback):
    """the documented rule (reference for search): written field, else 'value' if the share is empty or
    has 'value', else `fallback` (None = ambiguous -> ResolveError)"""
    if written:
        return written
    if not fields or "value" in fields:
        return "value"
    return fallback


def run_field_case(ctx, S, sf, G, gf, tag):
    """returns ('ok', stateField, goalField) | ('err', cls)"""
    from ioflo.base import skedding
    from ioflo.aid.odicting import odict
    text = "house h\n\n  framer t0 be active first A\n    frame A\n      go B if %s.%s == %s.%s\n    frame B\n" % (
        (sf + " in ") if sf else "", S[0], (gf + " in ") if gf else "", G[0])
    path = os.path.join(ctx.work, "f%s.flo" % tag)
    with open(path, "w") as f:
        f.write(text)
    pre = [(n, odict((k, 0) for k in fl)) for n, fl in FSHARES if fl]
    sk = skedding.Skedder(name="v", period=1.0, real=False, filepath=path, preloads=pre)
    try:
        if not sk.build():
            return ("err", "ResolveError")         # Builder reports Parse/Resolve errors as a failed build
        framer = [t for t in sk.houses[0].taskables if t.name == "t0"][0]
        a = observe_acts(framer)[0]
    except Exception as ex:
        return ("err", type(ex).__name__)
    if a["kind"] != 2:
        return ("err", "NotIndirect")
    return ("ok", a["state"][1], a["goal"][1])


def e_strs(names):
    out = [len(names)]
    for n in names:
        out += [len(n)] + [ord(c) for c in n]
    return out


# ---------------------------------------------------------------------------------------
# the property's statement, executable (reference used to schedule runs and by search only)
def is_num(v):
    return isinstance(v, (int, float)) and not isinstance(v, complex)


def ref_check(s, op, g, t):
    """True/False, or 'unspecified' where the property text says nothing (ordering of
    non-numbers / mixed types)"""
    if op in ("==", "!="):
        if is_num(s) and is_num(g) and is_num(t):
            r = Fraction(g) - abs(Fraction(t)) <= Fraction(s) <= Fraction(g) + abs(Fraction(t))
        else:
            r = (g == s)
        return r if op == "==" else not r
    if is_num(s) and is_num(g):
        s, g = Fraction(s), Fraction(g)
    elif isinstance(s, str) and isinstance(g, str):
        pass
    else:
        return "unspecified"
    return {"<": s < g, "<=": s <= g, ">=": s >= g, ">": s > g}[op]


def ref_clause(c, env):
    s = env[c["state"]]
    if c["op"] is None:
        r = bool(s)
    else:
        g = env[c["goal"][1]] if c["goal"][0] == "path" else c["goal"][1]
        r = ref_check(s, c["op"], g, c["tol"] if c["tol"] is not None else 0)
        if r == "unspecified":
            return r
    return (not r) if c["neg"] else r


def ref_cond(cs, env):
    for c in cs:
        r = ref_clause(c, env)
        if r == "unspecified":
            return r
        if not r:
            return False
    return True


def ref_tick(cs, envs):
    for k, env in enumerate(envs, start=1):
        r = ref_cond(cs, env)
        if r == "unspecified":
            return r
        if r:
            return k
    return None


# ---------------------------------------------------------------------------------------
# FloScript generation
SHARES = [("st.a", "value"), ("st.b", "value"), ("st.c", "value"), ("st.m", "x"), ("st.m", "y")]


def lit(v):
    if v is None:
        return "none"
    if v is True:
        return "true"
    if v is False:
        return "false"
    if isinstance(v, str):
        return '"%s"' % v
    return repr(v)


def ref_text(r):
    """r = (sharename, field) | ('elapsed',) | ('recurred',)"""
    if len(r) == 1:
        return r[0]
    if r[1] == "value":
        return "." + r[0]
    return "%s in .%s" % (r[1], r[0])


def cond_text(cs):
    parts = []
    for c in cs:
        s = ("not " if c["neg"] else "") + ref_text(c["state"])
        if c["op"] is not None:
            s += " " + c["op"] + " " + (ref_text(c["goal"][1]) if c["goal"][0] == "path" else lit(c["goal"][1]))
            if c["tol"] is not None:
                s += " +- " + lit(c["tol"])
        parts.append(s)
    return " and ".join(parts)


def program(conds):
    # the stopper comes FIRST: its `bid stop all` at tick K+1 reaches the test framers before they
    # run in that tick, so they attempt their transition exactly at ticks 1..K (all recorded)
    lines = ["house h", "", "  framer stopper be active first s0"]
    for k in range(K + 1):
        lines += ["    frame s%d" % k, "      go next"]
    lines += ["    frame s%d" % (K + 1), "      bid stop all", ""]
    for i, cs in enumerate(conds):
        lines += ["  framer t%d be active first A" % i, "    frame A",
                  "      go B if " + cond_text(cs), "    frame B", ""]
    lines += ["  framer rec be active first r", "    frame r", "      do verif rec21", ""]
    return "\n".join(lines)


STATE = {"log": [], "script": None, "n": 0}


def register():
    from ioflo.base import doing
    if "VerifRec21" in doing.Doer.Registry:
        return

    @doing.doify("VerifRec21")
    def verifrec21(self, **kwa):
        st = self.store
        k = len(STATE["log"])
        STATE["log"].append([st.fetchShare("framer.t%d.state.active" % i).value for i in range(STATE["n"])])
        nxt = STATE["script"].get(k + 1)
        if nxt:
            for (name, field), v in nxt.items():
                st.fetchShare(name).update(**{field: v})


def run_program(ctx, conds, envs, tag):
    """build + run; returns (acts, ticks) or ('err', classname)
       acts[i]  = structure of the needs the builder made for condition i
       ticks[i] = tick (1..K) at which framer i left frame A, or None"""
    from ioflo.base import skedding
    from ioflo.aid.odicting import odict
    register()
    path = os.path.join(ctx.work, "p%s.flo" % tag)
    with open(path, "w") as f:
        f.write(program(conds))
    pre = {}
    for (name, field) in SHARES:
        pre.setdefault(name, odict())[field] = 0
    sk = skedding.Skedder(name="v", period=1.0, real=False, filepath=path,
                          preloads=[(n, d) for n, d in pre.items()])
    STATE["log"], STATE["n"] = [], len(conds)
    STATE["script"] = {k: {r: v for r, v in env.items() if len(r) == 2} for k, env in enumerate(envs, start=1)}
    try:
        if not sk.build():
            return ("err", "BuildFailed")
        house = sk.houses[0]
        acts = []
        for i in range(len(conds)):
            framer = [t for t in house.taskables if t.name == "t%d" % i][0]
            acts.append(observe_acts(framer))
        sk.run()
    except Exception as ex:
        return ("err", type(ex).__name__)
    ticks = []
    for i in range(len(conds)):
        t = None
        for k, row in enumerate(STATE["log"]):
            if row[i] != "A":
                t = k
                break
        ticks.append(t)
    return (acts, ticks)


def observe_acts(framer):
    from ioflo.base import acting
    frame = framer.first
    out = []
    tr = [a for a in frame.preacts if type(a.actor).__name__ == "Transiter"][0]
    for act in tr.parms["needs"]:
        p = act.parms
        kind = type(act.actor).__name__
        st = (p["state"].name, p["stateField"])
        if kind == "NeedBoolean":
            out.append({"neg": isinstance(act, acting.Nact), "kind": 0, "state": st})
        elif kind == "NeedDirect":
            out.append({"neg": isinstance(act, acting.Nact), "kind": 1, "state": st, "cmp": p["comparison"],
                        "goal": p["goal"], "tol": p["tolerance"]})
        elif kind == "NeedIndirect":
            out.append({"neg": isinstance(act, acting.Nact), "kind": 2, "state": st, "cmp": p["comparison"],
                        "goal": (p["goal"].name, p["goalField"]), "tol": p["tolerance"]})
        else:
            out.append({"neg": False, "kind": 9, "state": st})
    return out


# ---------------------------------------------------------------------------------------
NUMS = [-2, 0, 1, 3, 2.5, -0.25, 1.0, 3.5, 0.0, True, False]
STRS = ["", "ab", "abc", "b"]


def gen_conditions(ctx, n):
    """returns (conds, envs): envs[k-1][ref] = value of ref during tick k"""
    rng = ctx.rng
    envs = []
    for k in range(1, K + 1):
        env = {("elapsed",): float(k), ("recurred",): k}
        env[("st.a", "value")] = rng.choice(NUMS)
        env[("st.b", "value")] = rng.choice(NUMS)
        env[("st.c", "value")] = rng.choice(STRS + [None, 2])
        env[("st.m", "x")] = rng.choice(NUMS)
        env[("st.m", "y")] = rng.choice([1, 2.5, "ab"])
        envs.append(env)
    refs = list(envs[0].keys())
    conds = []
    for _ in range(n):
        cs = []
        for _ in range(rng.choice([1, 1, 2, 3])):
            st = rng.choice(refs)
            c = {"neg": rng.random() < 0.3, "state": st, "op": None, "goal": None, "tol": None}
            if rng.random() < 0.85 or len(st) == 1:     # a bare framer clock is not valid syntax
                c["op"] = rng.choice(OPS)
                sv = envs[rng.randrange(K)][st]
                if rng.random() < 0.3:
                    c["goal"] = ("path", rng.choice([r for r in refs if len(r) == 2]))
                elif is_num(sv) and rng.random() < 0.9:
                    # goal near the state so that boundary / either side are all hit
                    tol = rng.choice([None, 0, 0.5, -0.5, 1, 0.25])
                    at = abs(tol) if tol is not None else 0
                    off = rng.choice([0, at, -at, at + 0.25, -at - 0.25, at - 0.25, 1, -1])
                    g = sv + off
                    if isinstance(g, float) and g == int(g) and rng.random() < 0.5:
                        g = int(g)
                    c["goal"] = ("lit", g)
                    c["tol"] = tol
                else:
                    c["goal"] = ("lit", rng.choice(STRS + [True, False, None, 2, 0.5]))
                if c["tol"] is None and rng.random() < 0.2:
                    c["tol"] = rng.choice([0, 0.5, -1, 2])
            cs.append(c)
        conds.append(cs)
    return conds, envs


class Interner(object):
    def __init__(self):
        self.ids = {}

    def __call__(self, ref, framer=None):
        if len(ref) == 1:
            ref = ("framer.%s.state.%s" % (framer, ref[0]), "value")
        return self.ids.setdefault(ref, len(self.ids) + 1)


OPCODE = {op: i for i, op in enumerate(["==", "!=", "<", "<=", ">=", ">"])}


def e_csyn(c, intern, framer):
    out = [1 if c["neg"] else 0, intern(c["state"], framer)]
    if c["op"] is None:
        return out + [0]
    out += [1, OPCODE[c["op"]]]
    out += [1, intern(c["goal"][1], framer)] if c["goal"][0] == "path" else [0] + e_val(c["goal"][1])
    out += [0] if c["tol"] is None else [1] + e_val(c["tol"])
    return out


def e_tokens(cs, intern, framer):
    """classified tokens of the written condition (the harness knows what it wrote)"""
    out, n = [], 0
    for j, c in enumerate(cs):
        if j:
            out += [1]
            n += 1
        if c["neg"]:
            out += [0]
            n += 1
        out += [5, intern(c["state"], framer)]
        n += 1
        if c["op"] is not None:
            out += [3, OPCODE[c["op"]]]
            out += [5, intern(c["goal"][1], framer)] if c["goal"][0] == "path" else [4] + e_val(c["goal"][1])
            n += 2
            if c["tol"] is not None:
                out += [2, 4] + e_val(c["tol"])
                n += 2
    return [n] + out


def e_observed(acts, intern):
    out = [len(acts)]
    for a in acts:
        out += [1 if a["neg"] else 0, a["kind"], intern(a["state"])]
        if a["kind"] == 1:
            out += e_val(a["cmp"]) + e_val(a["goal"]) + e_val(a["tol"])
        elif a["kind"] == 2:
            out += e_val(a["cmp"]) + [intern(a["goal"])] + e_val(a["tol"])
    return out


def e_env(env, intern, framer):
    items = [(intern(r, framer), v) for r, v in env.items()]
    out = [len(items)]
    for i, v in items:
        out += [i] + e_val(v)
    return out


HEADER = """From Coq Require Import ZArith QArith List Bool.
Import ListNotations.
Require Import V.Lib.C45_PyVal V.gen.C21_Needing V.gen.C21_Fields V.C21.Model.
""" + DECODE_COQ + """
Definition rv_eqb (m i : res val) : bool :=
  match m, i with Ok a, Ok b => val_eqb a b | Err x, Err y => exc_eqb x y | _, _ => false end.
Definition prv : P (res val) := fun l =>
  match l with
  | 0%Z :: r => pbind pexc (fun e => pret (Err e)) r
  | 1%Z :: r => pbind pval (fun v => pret (Ok v)) r
  | _ => None
  end.
(* 0. default-field rule: state fields, written state field, goal fields, written goal field, result *)
Definition pstr : P (list Z) := fun l =>
  match l with n :: r => Some (firstn (Z.to_nat n) r, skipn (Z.to_nat n) r) | [] => None end.
Definition pfres : P (res (val * val)) := fun l =>
  match l with
  | 0%Z :: r => pbind pexc (fun e => pret (Err e)) r
  | 1%Z :: r => pbind pval (fun a => pbind pval (fun b => pret (Ok (a, b)))) r
  | _ => None
  end.
Definition fres_eqb (m i : res (val * val)) : bool :=
  match m, i with
  | Ok (a, b), Ok (c, d) => val_eqb a c && val_eqb b d
  | Err x, Err y => exc_eqb x y
  | _, _ => false
  end.
Definition chk_fields (l : list Z) : bool :=
  match pbind (plist pstr) (fun sf => pbind pval (fun f => pbind (plist pstr) (fun gf => pbind pval (fun g =>
        pbind pfres (fun o => pret (fres_eqb
          (bind (state_default_field sf f) (fun f' => bind (goal_default_field gf g f') (fun g' => Ok (f', g')))) o)))))) l with
  | Some (b, []) => b
  | _ => false
  end.
(* 1. Need.Check : state cmp goal tol result *)
Definition chk_check (l : list Z) : bool :=
  match pbind pval (fun s => pbind pval (fun c => pbind pval (fun g => pbind pval (fun t =>
        pbind prv (fun o => pret (rv_eqb (Check s c g t) o)))))) l with
  | Some (b, []) => b
  | _ => false
  end.
Definition pop : P cmpop := fun l =>
  match l with
  | 0%Z :: r => Some (OpEq, r) | 1%Z :: r => Some (OpNe, r) | 2%Z :: r => Some (OpLt, r)
  | 3%Z :: r => Some (OpLe, r) | 4%Z :: r => Some (OpGe, r) | 5%Z :: r => Some (OpGt, r)
  | _ => None
  end.
Definition pgoal : P goal_syn := fun l =>
  match l with
  | 0%Z :: r => pbind pval (fun v => pret (GLit v)) r
  | 1%Z :: r => pbind pZ (fun p => pret (GPath p)) r
  | _ => None
  end.
Definition popt {A : Type} (p : P A) : P (option A) := fun l =>
  match l with
  | 0%Z :: r => Some (None, r)
  | 1%Z :: r => pbind p (fun a => pret (Some a)) r
  | _ => None
  end.
Definition pcsyn : P csyn :=
  pbind pB (fun ng => pbind pZ (fun s =>
    pbind (popt (pbind pop (fun o => pbind pgoal (fun g => pbind (popt pval) (fun t => pret (o, g, t))))))
      (fun c => pret {| s_neg := ng; s_state := s; s_cmp := c |}))).
Definition ptok : P tok := fun l =>
  match l with
  | 0%Z :: r => Some (TNot, r) | 1%Z :: r => Some (TAnd, r) | 2%Z :: r => Some (TPm, r)
  | 3%Z :: r => pbind pop (fun o => pret (TCmp o)) r
  | 4%Z :: r => pbind pval (fun v => pret (TLit v)) r
  | 5%Z :: r => pbind pZ (fun p => pret (TPath p)) r
  | _ => None
  end.
Definition pclause : P clause :=
  pbind pB (fun ng => pbind pZ (fun k => pbind pZ (fun s =>
    if Z.eqb k 0 then pret {| negated := ng; nd := NBoolean s |}
    else if Z.eqb k 1 then pbind pval (fun c => pbind pval (fun g => pbind pval (fun t =>
           pret {| negated := ng; nd := NDirect s c g t |})))
    else if Z.eqb k 2 then pbind pval (fun c => pbind pZ (fun g => pbind pval (fun t =>
           pret {| negated := ng; nd := NIndirect s c g t |})))
    else fun _ => None))).
Definition need_eqb (a b : need) : bool :=
  match a, b with
  | NBoolean s, NBoolean s' => Z.eqb s s'
  | NDirect s c g t, NDirect s' c' g' t' => Z.eqb s s' && val_eqb c c' && val_eqb g g' && val_eqb t t'
  | NIndirect s c g t, NIndirect s' c' g' t' => Z.eqb s s' && val_eqb c c' && Z.eqb g g' && val_eqb t t'
  | _, _ => false
  end.
Fixpoint clauses_eqb (a b : list clause) : bool :=
  match a, b with
  | [], [] => true
  | x :: a', y :: b' => Bool.eqb (negated x) (negated y) && need_eqb (nd x) (nd y) && clauses_eqb a' b'
  | _, _ => false
  end.
(* 2. builder: classified tokens of the written condition vs the acts actually built *)
Definition chk_build (l : list Z) : bool :=
  match pbind (plist ptok) (fun ts => pbind (plist pclause) (fun obs => pret (ts, obs))) l with
  | Some ((ts, obs), []) =>
      match parse (length ts) ts with
      | Some cs => clauses_eqb (map build1 cs) obs
      | None => false
      end
  | _ => false
  end.
Definition penv : P env :=
  pbind (plist (pbind pZ (fun i => pbind pval (fun v => pret (i, v))))) (fun l =>
    pret (fun id => match find (fun p => Z.eqb (fst p) id) l with Some p => snd p | None => VNone end)).
Definition ptick : P (res (option nat)) := fun l =>
  match l with
  | 0%Z :: r => Some (Ok None, r)
  | 1%Z :: k :: r => Some (Ok (Some (Z.to_nat k)), r)
  | 2%Z :: r => pbind pexc (fun e => pret (Err e)) r
  | _ => None
  end.
Definition tick_eqb (m i : res (option nat)) : bool :=
  match m, i with
  | Ok None, Ok None => true
  | Ok (Some a), Ok (Some b) => Nat.eqb a b
  | Err x, Err y => exc_eqb x y
  | _, _ => false
  end.
(* 3. run: written clauses, environment per tick (from tick 1), observed tick *)
Definition chk_run (l : list Z) : bool :=
  match pbind (plist pcsyn) (fun cs => pbind (plist penv) (fun envs => pbind ptick (fun o =>
          pret (tick_eqb (first_tick (map build1 cs) envs 1) o)))) l with
  | Some (b, []) => b
  | _ => false
  end.
"""


def run(ctx):
    mute()
    ctx.rule = ("(1) Need.Check on a grid of state x operator x goal x tolerance over ints, dyadic floats, bools, "
                "strings, None; (2)+(3) generated FloScript programs, one framer per condition "
                "`go B if [not] state [op goal [+- tol]] {and ...}` (1-3 clauses; direct and indirect goals, fields, "
                "framer clocks elapsed/recurred; goals placed on the boundary and either side of goal+-|tol|), built by "
                "the real Builder (acts compared with the parse model) and run by the real Skedder for %d ticks with "
                "share values rewritten every tick (tick of the transition compared with the model); non-trivial = "
                "a comparison clause (not a bare boolean need) is present; distinct by full case" % K)
    ctx.assumptions = [
        "floats are modelled as exact rationals; all generated numbers are dyadic with small numerators so that "
        "goal-|tol|, goal+|tol| are computed exactly by binary64 (nan/inf/rounding outside the theorems)",
        "share/field resolution (NeedState._resolve defaults, path resolution) is exercised by the programs but not "
        "modelled: references are interned ids; literal conversion of goal tokens (C17) is taken from the harness",
        "ordering comparisons between a string and a number raise TypeError in python 3 (mirrored by the model); the "
        "property text says nothing about them",
        "complex tolerances/goals (Convert2Num accepts '1j') are not modelled",
    ]
    ok = gen(ctx)
    okf = gen_fields(ctx)
    if ok:
        ctx.coq_build(["C21/Props.v", "C21/FloatSpec.v"] + (["C21/FieldProps.v"] if okf else []))
    if not ok or not okf:
        ctx.obligations += 1

    # 0. default-field rule of NeedState/NeedIndirect._resolve through real builds
    c0, m0 = [], []
    n = 0
    for S in FSHARES:
        for sf in (None, "value", "x", "zz"):
            for G in FSHARES:
                for gf in (None, "value", "y", "zz"):
                    n += 1
                    r = run_field_case(ctx, S, sf, G, gf, str(n % 8))
                    sfields = list(S[1])
                    # the state field is created before the goal is resolved: visible when both are the same share
                    f_res = field_rule_ref(sfields, sf, None)
                    gfields = list(G[1])
                    if G[0] == S[0] and f_res and f_res not in gfields:
                        gfields.append(f_res)
                    enc = e_strs(sfields) + e_val(sf or "") + e_strs(gfields) + e_val(gf or "")
                    enc += [1] + e_val(r[1]) + e_val(r[2]) if r[0] == "ok" else [0, e_exc(r[1])]
                    c0.append(("(chk_fields %s)" % zlist(enc), "true"))
                    m0.append((S, sf, G, gf, r))
                    ctx.case({"fields": [S[0], sf, G[0], gf], "res": list(r)}, nontrivial=(sf is None or gf is None),
                             kind="default-field rule")

    from ioflo.base import needing
    rng = ctx.rng
    # 1. Need.Check grid
    vals = [-2, 0, 1, 3, 2.5, -0.25, 1.0, 3.5, True, False, None, "", "ab", "b"]
    tols = [0, 1, -1, 0.5, -0.5, 0.25, None, "x", True]
    grid = list(itertools.product(vals, OPS + ["=>"], vals, tols))
    rng.shuffle(grid)
    grid = grid[:ctx.n(3000, len(grid))]
    c1, m1 = [], []
    for s, op, g, t in grid:
        try:
            r = ("ok", needing.Need.Check(s, op, g, t))
        except Exception as ex:
            r = ("err", type(ex).__name__)
        enc = e_val(s) + e_val(op) + e_val(g) + e_val(t) + ([1] + e_val(r[1]) if r[0] == "ok" else [0, e_exc(r[1])])
        c1.append(("(chk_check %s)" % zlist(enc), "true"))
        m1.append((s, op, g, t, r))
        ctx.case({"check": [canon(s), op, canon(g), canon(t)], "res": [canon(x) for x in r]},
                 nontrivial=op in OPS, kind="Check " + (op if op in OPS else "other"))

    # 1b. edge-of-band binary64 triples against the written comparison evaluated with Coq primitive floats
    me = run_edge(edge_triples(rng, ctx.n(1500, 100000)))
    ce = []
    for st, g, t, req, rne in me:
        okb = isinstance(req, bool) and isinstance(rne, bool)
        ce.append(("(written_eq_f %s %s %s, written_ne_f %s %s %s)" % (flit(st), flit(g), flit(t), flit(st), flit(g), flit(t)),
                   "(%s, %s)" % (("true" if req else "false"), ("true" if rne else "false")) if okb else "(true, true)"))
        ctx.case({"edge": [st.hex(), g.hex(), t.hex()], "res": [str(req), str(rne)]}, nontrivial=True,
                 kind="Check float band edge")

    # 2 + 3. programs
    c2, m2, c3, m3 = [], [], [], []
    nprog, per = ctx.n(30, 250), 36
    for pi in range(nprog):
        conds, envs = gen_conditions(ctx, per)
        # conditions whose evaluation is expected to raise run alone (a raise kills the whole skedder run)
        batch, alone = [], []
        for cs in conds:
            (alone if ref_tick(cs, envs) == "unspecified" else batch).append(cs)
        runs = [(batch, "b%d" % pi)] + [([cs], "a%d_%d" % (pi, j)) for j, cs in enumerate(alone[:ctx.n(3, 6)])]
        while runs:
            group, tag = runs.pop(0)
            if not group:
                continue
            res = run_program(ctx, group, envs, tag)
            if res[0] == "err" and len(group) > 1:
                runs = [([cs], "%s_%d" % (tag, j)) for j, cs in enumerate(group)] + runs   # isolate
                continue
            for i, cs in enumerate(group):
                intern = Interner()
                framer = "t%d" % i
                if res[0] == "err":
                    obs_tick = [2, e_exc(res[1])]
                    acts = None
                else:
                    acts, ticks = res[0][i], res[1][i]
                    obs_tick = [0] if ticks is None else [1, ticks]
                enc_cs = [len(cs)]
                for c in cs:
                    enc_cs += e_csyn(c, intern, framer)
                enc_envs = [len(envs)]
                for env in envs:
                    enc_envs += e_env(env, intern, framer)
                text = cond_text(cs)
                nontriv = any(c["op"] is not None for c in cs)
                c3.append(("(chk_run %s)" % zlist(enc_cs + enc_envs + obs_tick), "true"))
                m3.append((text, envs, res if res[0] == "err" else res[1][i], cs))
                ctx.case({"cond": text, "envs": [[[list(r), canon(v)] for r, v in e.items()] for e in envs],
                          "tick": obs_tick}, nontrivial=nontriv,
                         kind="run %d clause%s" % (len(cs), "" if len(cs) == 1 else "s"))
                if acts is not None:
                    c2.append(("(chk_build %s)" % zlist(e_tokens(cs, intern, framer) + e_observed(acts, intern)),
                               "true"))
                    m2.append((text, acts))
                    ctx.case({"cond": text, "acts": [[a["neg"], a["kind"], list(a["state"])] for a in acts]},
                             nontrivial=nontriv, kind="build")
    if ok and okf:
        bad = ctx.coq_cases(HEADER, "Bool.eqb", c0, name="fld")
        ctx.extra["mismatches_fld"] = len(bad)
        for i in bad[:4]:
            ctx.tie_broken("correspondence", "generated default-field rule vs Builder resolve", repr(m0[i]))
    if ok and okf:
        for cases, metas, name, label in ((c1, m1, "chk", "generated Need.Check vs implementation"),
                                          (c2, m2, "bld", "parse model vs acts built by Builder.makeNeed"),
                                          (c3, m3, "run", "C21 model vs Builder+Skedder run")):
            bad = ctx.coq_cases(HEADER, "Bool.eqb", cases, name=name)
            ctx.extra["mismatches_" + name] = len(bad)
            for i in bad[:4]:
                ctx.tie_broken("correspondence", label, repr(metas[i])[:1500])
    if ok:
        bad = ctx.coq_cases(HEADER_F, "bb_eqb", ce, name="edg")
        ctx.extra["mismatches_edg"] = len(bad)
        for i in bad[:4]:
            ctx.tie_broken("correspondence", "written comparison in binary64 (FloatSpec) vs Need.Check", repr(me[i]))
    ctx.exhaustive = False

    def search():
        return find_failing_fields(m0) or find_failing_edge(me) or find_failing(m1, m3) or \
            find_failing_edge(run_edge(edge_triples()))

    ctx.settle(search)


# ---------------------------------------------------------------------------------------
# edge-of-band float triples: binary64, band edges NOT representable (0.3 + 0.1, -1.0 - 0.1, inf - inf)
def edge_triples(rng=None, limit=None):
    """(state, goal, tol): goal and tol from a decimal grid (0.1 steps, negatives, infinities); state on the
    band edge both as the written decimal literal and as the float sum/difference, plus ulp neighbours"""
    inf = float("inf")
    goals = [i / 10.0 for i in range(-15, 16)] + [float("%d.%d" % (a, b)) for a in (2, 7) for b in (3, 9)] + [inf, -inf]
    tols = [0.1, 0.2, 0.3, 0.7, -0.1, -0.4, 0.0, 1.1, inf]
    out, seen = [], set()
    for g in goals:
        for t in tols:
            a = abs(t)
            cands = [g + a, g - a, g]
            if math.isfinite(g) and math.isfinite(a):
                cands += [float(repr(round(g + a, 1))), float(repr(round(g - a, 1)))]     # the literal one would write
            ext = []
            for c in cands:
                ext.append(c)
                if math.isfinite(c):
                    ext += [math.nextafter(c, inf), math.nextafter(c, -inf)]
            for st in ext:
                if st != st:
                    continue
                k = (st.hex(), g.hex(), t.hex())
                if k not in seen:
                    seen.add(k)
                    out.append((st, g, t))
    if rng is not None and limit is not None and len(out) > limit:
        must = [(0.4, 0.3, 0.1), (-1.1, -1.0, 0.1), (inf, inf, 0.1)]
        rest = [x for x in out if x not in must]
        rng.shuffle(rest)
        out = must + rest[:limit - len(must)]
    return out


def band_f(s, g, t):
    """the property's statement for '==' in binary64, exactly as written"""
    return (g - abs(t)) <= s <= (g + abs(t))


def run_edge(triples):
    from ioflo.base import needing
    out = []
    for s, g, t in triples:
        r = []
        for op in ("==", "!="):
            try:
                r.append(needing.Need.Check(s, op, g, t))
            except Exception as ex:
                r.append("raised " + type(ex).__name__)
        out.append((s, g, t, r[0], r[1]))
    return out


def find_failing_edge(me):
    """'==' iff the written band holds; '!=' is its complement -- on the implementation alone"""
    best = None
    for s, g, t, req, rne in me:
        exp = band_f(s, g, t)
        why = None
        if req is not exp:
            why = "'==' gives %r although the written comparison %r - |%r| <= %r <= %r + |%r| is %r" % (req, g, t, s, g, t, exp)
        elif rne is not (not exp):
            why = "'!=' gives %r, not the complement of the written band (%r)" % (rne, exp)
        if why:
            size = len(repr(s)) + len(repr(g)) + len(repr(t)) + (0 if math.isfinite(s) and math.isfinite(g) else 40)
            if best is None or size < best[0]:
                best = (size, {"key": "need-check-float-band", "function": "Need.Check", "state": repr(s), "goal": repr(g),
                               "tolerance": repr(t), "state_hex": s.hex(), "goal_hex": g.hex(), "tolerance_hex": t.hex(),
                               "observed": {"==": req, "!=": rne}, "expected": {"==": exp, "!=": not exp}, "why": why,
                               "contradicts": "C21 statement in binary64 (coq/C21/FloatSpec.v written_eq_f / written_ne_f); "
                                              "C21.Props.check_ne_is_negation"})
    return best[1] if best else None


def flit(f):
    """python float -> Coq primitive float literal"""
    if f != f:
        return "nan"
    if f == float("inf"):
        return "infinity"
    if f == float("-inf"):
        return "neg_infinity"
    h = f.hex()
    return "(%s)" % h


HEADER_F = """From Coq Require Import Floats Bool List.
Import ListNotations.
Require Import V.C21.FloatSpec.
Open Scope float_scope.
Definition bb_eqb (a b : bool * bool) : bool := Bool.eqb (fst a) (fst b) && Bool.eqb (snd a) (snd b).
"""


def find_failing_fields(m0):
    """the documented default-field rule against the real builder"""
    for S, sf, G, gf, r in m0:
        f = field_rule_ref(list(S[1]), sf, None)
        if f is None:
            exp = ("err", "ResolveError")
        else:
            gfields = list(G[1]) + ([f] if G[0] == S[0] and f not in G[1] else [])
            exp = ("ok", f, field_rule_ref(gfields, gf, f))
        if tuple(r) != exp:
            return {"key": "indirect-goal-default-field" if r == ("err", "NameError") else "default-field-rule",
                    "condition": "go B if %s.%s == %s.%s" % ((sf + " in ") if sf else "", S[0], (gf + " in ") if gf else "", G[0]),
                    "share_fields": {n: fl for n, fl in FSHARES}, "observed": list(r), "expected": list(exp),
                    "contradicts": "C21.FieldProps.goal_field_default_rule / state_field_default_rule"}
    return None


def find_failing(m1, m3):
    """the implementation alone against the property's executable statement"""
    for s, op, g, t, r in m1:
        if op not in OPS:
            continue
        exp = ref_check(s, op, g, t)
        if exp == "unspecified":
            continue
        if r != ("ok", exp):
            return {"key": "need-check", "function": "Need.Check", "state": canon(s), "comparison": op,
                    "goal": canon(g), "tolerance": canon(t), "observed": [canon(x) for x in r], "expected": exp,
                    "contradicts": "C21.Props.check_is_written_comparison / check_eq_is_equality_otherwise"}
    best = None
    for text, envs, obs, cs in m3:
        exp = ref_tick(cs, envs)
        if exp == "unspecified":
            continue
        if obs != exp and (best is None or len(text) < len(best["condition"])):
            best = {"key": "condition-run", "condition": "go B if " + text,
                    "values_per_tick": [[[list(r), canon(v)] for r, v in e.items()] for e in envs],
                    "observed_tick": obs, "expected_tick": exp,
                    "contradicts": "C21.Props.taken_at_first_true_tick / direct_clause_is_written"}
    return best


def search(ctx):
    """fallback used by lib/main.py when run() itself crashed: implementation-only search"""
    mute()
    from ioflo.base import needing
    vals = [-2, 0, 1, 3, 2.5, -0.25, 1.0, 3.5, True, False, None, "", "ab", "b"]
    m1 = []
    for s, op, g, t in itertools.product(vals, OPS, vals, [0, 1, -1, 0.5, -0.5, 0.25]):
        try:
            r = ("ok", needing.Need.Check(s, op, g, t))
        except Exception as ex:
            r = ("err", type(ex).__name__)
        m1.append((s, op, g, t, r))
    m3 = []
    for pi in range(6):
        conds, envs = gen_conditions(ctx, 20)
        conds = [cs for cs in conds if ref_tick(cs, envs) != "unspecified"]
        res = run_program(ctx, conds, envs, "s%d" % pi)
        for i, cs in enumerate(conds):
            m3.append((cond_text(cs), envs, res if res[0] == "err" else res[1][i], cs))
    return find_failing_edge(run_edge(edge_triples())) or find_failing(m1, m3)
