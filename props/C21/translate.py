"""
C21 translator entry: Need.Check (ioflo/base/needing.py) -> coq/gen/C21_Needing.v.
The fail-closed ast -> Gallina translator itself is shared with C45 (props/C45/translate.py):
whitelist of statements/expressions, anything else raises Untranslatable.
"""
import importlib.util
import os

_p = os.path.join(os.path.dirname(os.path.dirname(os.path.abspath(__file__))), "C45", "translate.py")
_spec = importlib.util.spec_from_file_location("c45_translate", _p)
core = importlib.util.module_from_spec(_spec)
_spec.loader.exec_module(core)
Untranslatable = core.Untranslatable


def gen_needing(repo):
    return core.translate_file(os.path.join(repo, "ioflo", "base", "needing.py"),
                               [("Need", "Check")], "props/C21/translate.py")


if __name__ == "__main__":
    import sys
    print(gen_needing(sys.argv[1] if len(sys.argv) > 1 else "/repo"))


def gen_fields(repo):
    """default-field rules of NeedState._resolve / NeedIndirect._resolve (the `if not <field>:` statements)"""
    import ast
    path = os.path.join(repo, "ioflo", "base", "needing.py")
    tree = ast.parse(open(path).read())
    out = [core.HEADER % ("props/C21/translate.py", path)]
    out.append(core.slice_function(core.find_method(tree, "NeedState", "_resolve"), "stateField",
                                   ["state", "stateField"], ["state"], "state_default_field"))
    out.append("\n")
    out.append(core.slice_function(core.find_method(tree, "NeedIndirect", "_resolve"), "goalField",
                                   ["goal", "goalField", "stateField"], ["goal"], "goal_default_field"))
    return "".join(out)
