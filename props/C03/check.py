"""C03 -- kernel property (see coq/C03/Props.v, coq/Kernel/*.v, lib/kernel.py, lib/kprops.py)."""
import kprops

LEVEL = "proof"
RUNS = [{'label': 'crash', 'quick': 40, 'thorough': 400, 'features': {}, 'ticks': (0.125,), 'crash': 'all'}, {'label': 'stopbids', 'quick': 25, 'thorough': 250, 'features': {'aux': False, 'slave': False, 'condaux': False}, 'ticks': (0.125, 0.1), 'crash': 'some'}]


def run(ctx):
    import json, os
    corpus = [(c["prog"], c["crash_at"]) for c in json.load(open(os.path.join(os.path.dirname(__file__), "..", "C06", "corpus.json")))]
    for r in RUNS:
        r["ticks"] = tuple(r["ticks"])
    kprops.kernel_check(ctx, "C03", runs=RUNS, preds=['C03', 'C03e', 'C06'], corpus=corpus,
                        rule="random multi-framer kernel programs with stop/abort bids; an exception or a KeyboardInterrupt is injected at a random recorder action (every program of the 'crash' batch) or the run is cut between two ticks; full traces (incl. the final abort sweep) compared with the Coq model; implementation-only statement: every scheduled tasker ends aborted, none aborted twice in the sweep, enter/exit alternate and (without a crash) every entered frame of a scheduled framer is exited. Non-trivial = outline change and > 6 events")
